/-
C13 — Token hold time is honoured (station level).
-/
import ProfiVerif.Model.Station
import ProfiVerif.Lemmas.StationMark

namespace PV.C13
open PV

/-- `hold_deadline`: at a token receipt with the previous receipt at `T₀`, the deadline is
`T₀ + TTR`, minus `Tsl + 100 bit` when a GAP poll is pending. -/
theorem hold_deadline (s : Station) (d : UseData) (hne : s.lastTokenTime ≠ d.tokenTime) :
    (holdUpdate s d).lastTokenTime = d.tokenTime ∧
    (holdUpdate s d).endTokenHoldTime =
      match s.gap with
      | .doPoll _ => s.lastTokenTime + (s.p.ttrTime : Nat) - (s.p.bits (s.p.slotBits + 100) : Nat)
      | .waiting _ => s.lastTokenTime + (s.p.ttrTime : Nat) := by
  unfold holdUpdate
  rw [if_pos hne]
  cases s.gap <;> simp

/-- … and within one token visit (same receipt time) the deadline is not moved. -/
theorem hold_stable (s : Station) (d : UseData) (he : s.lastTokenTime = d.tokenTime) : holdUpdate s d = s := by
  unfold holdUpdate; simp [he]

/-- While the synchronisation pause is not over nothing happens (no application is asked). -/
theorem waits_for_pause (c : Ctx) (now : Int) (d : UseData) (fcd : Bool) (hst : c.s.st = .useToken d fcd)
    (hw : (waitSyncPause (holdUpdate c.s d) now).2 = true) :
    doUseToken c now = .ok { c with s := (waitSyncPause (holdUpdate c.s d) now).1 } := by
  unfold doUseToken
  rw [hst]
  simp [hw]

theorem wait_keeps (s : Station) (now : Int) :
    (waitSyncPause s now).1.st = s.st ∧ (waitSyncPause s now).1.endTokenHoldTime = s.endTokenHoldTime := by
  unfold waitSyncPause getOrInsertLast
  cases s.lastBusActivity <;> simp

theorem hold_keeps_st (s : Station) (d : UseData) : (holdUpdate s d).st = s.st := by
  unfold holdUpdate; split <;> simp

/-- `cycles_before_deadline`: the applications are asked for a regular message cycle
(`high_prio_only = No`) only while `now < end_token_hold_time`; after the deadline only the one
guaranteed cycle of this visit is performed, flagged `high_prio_only = Yes`. -/
theorem cycles_before_deadline (c : Ctx) (now : Int) (d : UseData) (fcd : Bool) (hst : c.s.st = .useToken d fcd)
    (hw : (waitSyncPause (holdUpdate c.s d) now).2 = false) :
    doUseToken c now =
      let c1 := { c with s := (waitSyncPause (holdUpdate c.s d) now).1 }
      if now < (holdUpdate c.s d).endTokenHoldTime then useTokenGo c1 now d false
      else if fcd = false then useTokenGo c1 now d true
      else passNow c1 now := by
  have hk := wait_keeps (holdUpdate c.s d) now
  have hs := hold_keeps_st c.s d
  unfold doUseToken
  rw [hst]
  simp only [hw, hk.2]
  by_cases h1 : now < (holdUpdate c.s d).endTokenHoldTime
  · simp [h1]
  · cases fcd with
    | false => simp [h1]
    | true =>
      simp [h1]

/-- The end of a token hold (`passNow`: transition to `PassToken` and `do_pass_token` in the same poll)
asks no application. -/
theorem passNow_no_calls (c : Ctx) (now : Int) (c' : Ctx) (h : passNow c now = .ok c') : c'.calls = c.calls := by
  unfold passNow at h
  cases htr : tr c (fun s => toPassToken s true .first) "transition_pass_token" with
  | panic s => rw [htr] at h; cases h
  | ok c1 =>
    rw [htr] at h
    simp only [Res.bind] at h
    obtain ⟨s', _, rfl⟩ := tr_cases _ _ _ _ htr
    have := doPassToken_calls _ now c' h
    exact this

/-- `pass_after_deadline`: once the deadline has passed and the one guaranteed message cycle of this
visit is done, the station asks no application and passes the token on — since the repair of finding
K3 in the same poll (`passNow`). -/
theorem pass_after_deadline (c : Ctx) (now : Int) (d : UseData) (hst : c.s.st = .useToken d true)
    (hw : (waitSyncPause (holdUpdate c.s d) now).2 = false)
    (hdl : ¬ now < (holdUpdate c.s d).endTokenHoldTime) :
    doUseToken c now = passNow { c with s := (waitSyncPause (holdUpdate c.s d) now).1 } now ∧
    ∀ c', doUseToken c now = .ok c' → c'.calls = c.calls := by
  have h1 : doUseToken c now = passNow { c with s := (waitSyncPause (holdUpdate c.s d) now).1 } now := by
    rw [cycles_before_deadline c now d true hst hw]
    simp [hdl]
  refine ⟨h1, fun c' h => ?_⟩
  rw [h1] at h
  have := passNow_no_calls _ now c' h
  exact this

/-- Asking one application appends exactly one `transmit_telegram` record with the given flag. -/
theorem appTransmit_calls (c : Ctx) (now : Int) (hp : Bool) (c1 : Ctx) (b1 : Bool)
    (h1 : appTransmit c now hp = (.ok c1, b1)) : ∃ i a, c1.calls = c.calls ++ [.transmit i hp a] := by
  unfold appTransmit at h1
  dsimp only at h1
  repeat' split at h1
  all_goals first
    | (cases h1; done)
    | (cases h1; exact ⟨_, _, rfl⟩)
    | (simp only [transmit] at h1; split at h1 <;> first | (cases h1; done) | (cases h1; exact ⟨_, _, rfl⟩))

/-- Every application asked within one `apps_transmit_telegram` call is asked with the same
`high_prio_only` flag (the flag says whether the hold time is already over). -/
theorem apps_flag (now : Int) (hp : Bool) :
    ∀ (k : Nat) (c c' : Ctx) (b : Bool), appsTransmit now hp k c = (.ok c', b) →
      ∃ extra, c'.calls = c.calls ++ extra ∧ ∀ call ∈ extra, ∃ i a, call = .transmit i hp a := by
  intro k
  induction k with
  | zero =>
    intro c c' b h
    simp only [appsTransmit] at h
    cases h
    exact ⟨[], by simp, by simp⟩
  | succ k ih =>
    intro c c' b h
    simp only [appsTransmit] at h
    cases hA : appTransmit c now hp with
    | mk r b1 =>
      rw [hA] at h
      cases r with
      | panic s => simp at h
      | ok c1 =>
        obtain ⟨i, a, hc1⟩ := appTransmit_calls c now hp c1 b1 hA
        cases b1 with
        | true =>
          simp only at h
          cases h
          exact ⟨[.transmit i hp a], hc1, by simp⟩
        | false =>
          simp only at h
          split at h
          · split at h
            · cases h
              exact ⟨[.transmit i hp a], by simpa [upd] using hc1, by simp⟩
            · obtain ⟨extra, he, hall⟩ := ih _ _ _ h
              refine ⟨.transmit i hp a :: extra, ?_, ?_⟩
              · rw [he]; simp [upd, hc1]
              · intro call hc
                simp at hc
                rcases hc with rfl | hc
                · exact ⟨i, a, rfl⟩
                · exact hall call hc
          · cases h

end PV.C13
