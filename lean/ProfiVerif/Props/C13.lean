/-
C13 — Token hold time is honoured (station level; ring level for the timed two-station ring).
-/
import ProfiVerif.Model.Station
import ProfiVerif.Lemmas.StationMark
import ProfiVerif.Lemmas.StationVisit
import ProfiVerif.Lemmas.TimedRing2Step
import ProfiVerif.Lemmas.TimedRingRot
import ProfiVerif.Lemmas.TimedRingRotN
import ProfiVerif.Props.C01

namespace PV.C13
open PV

/-- `hold_deadline`: at a token receipt with the previous receipt at `T₀`, the deadline is
`T₀ + TTR`, minus `Tsl + 100 bit` when a GAP poll is pending. -/
theorem hold_deadline (s : Station) (d : UseData) (hne : s.lastTokenTime ≠ d.tokenTime) :
    (holdUpdate s d).lastTokenTime = d.tokenTime ∧
    (holdUpdate s d).endTokenHoldTime =
      match s.gap with
      | .doPoll _ => s.lastTokenTime + (s.p.ttrTime : Nat) - (s.p.bits (s.p.slotBits + 100) : Nat)
      | .waiting _ => s.lastTokenTime + (s.p.ttrTime : Nat) := by
  unfold holdUpdate
  rw [if_pos hne]
  cases s.gap <;> simp

/-- … and within one token visit (same receipt time) the deadline is not moved. -/
theorem hold_stable (s : Station) (d : UseData) (he : s.lastTokenTime = d.tokenTime) : holdUpdate s d = s := by
  unfold holdUpdate; simp [he]

/-- While the synchronisation pause is not over nothing happens (no application is asked). -/
theorem waits_for_pause (c : Ctx) (now : Int) (d : UseData) (fcd : Bool) (hst : c.s.st = .useToken d fcd)
    (hw : (waitSyncPause (holdUpdate c.s d) now).2 = true) :
    doUseToken c now = .ok { c with s := (waitSyncPause (holdUpdate c.s d) now).1 } := by
  unfold doUseToken
  rw [hst]
  simp [hw]

theorem wait_keeps (s : Station) (now : Int) :
    (waitSyncPause s now).1.st = s.st ∧ (waitSyncPause s now).1.endTokenHoldTime = s.endTokenHoldTime := by
  unfold waitSyncPause getOrInsertLast
  cases s.lastBusActivity <;> simp

theorem hold_keeps_st (s : Station) (d : UseData) : (holdUpdate s d).st = s.st := by
  unfold holdUpdate; split <;> simp

/-- `cycles_before_deadline`: the applications are asked for a regular message cycle
(`high_prio_only = No`) only while `now < end_token_hold_time`; after the deadline only the one
guaranteed cycle of this visit is performed, flagged `high_prio_only = Yes`. -/
theorem cycles_before_deadline (c : Ctx) (now : Int) (d : UseData) (fcd : Bool) (hst : c.s.st = .useToken d fcd)
    (hw : (waitSyncPause (holdUpdate c.s d) now).2 = false) :
    doUseToken c now =
      let c1 := { c with s := (waitSyncPause (holdUpdate c.s d) now).1 }
      if now < (holdUpdate c.s d).endTokenHoldTime then useTokenGo c1 now d false
      else if fcd = false then useTokenGo c1 now d true
      else passNow c1 now := by
  have hk := wait_keeps (holdUpdate c.s d) now
  have hs := hold_keeps_st c.s d
  unfold doUseToken
  rw [hst]
  simp only [hw, hk.2]
  by_cases h1 : now < (holdUpdate c.s d).endTokenHoldTime
  · simp [h1]
  · cases fcd with
    | false => simp [h1]
    | true =>
      simp [h1]

/-- The end of a token hold (`passNow`: transition to `PassToken` and `do_pass_token` in the same poll)
asks no application. -/
theorem passNow_no_calls (c : Ctx) (now : Int) (c' : Ctx) (h : passNow c now = .ok c') : c'.calls = c.calls := by
  unfold passNow at h
  cases htr : tr c (fun s => toPassToken s true .first) "transition_pass_token" with
  | panic s => rw [htr] at h; cases h
  | ok c1 =>
    rw [htr] at h
    simp only [Res.bind] at h
    obtain ⟨s', _, rfl⟩ := tr_cases _ _ _ _ htr
    have := doPassToken_calls _ now c' h
    exact this

/-- `pass_after_deadline`: once the deadline has passed and the one guaranteed message cycle of this
visit is done, the station asks no application and passes the token on — since the repair of finding
K3 in the same poll (`passNow`). -/
theorem pass_after_deadline (c : Ctx) (now : Int) (d : UseData) (hst : c.s.st = .useToken d true)
    (hw : (waitSyncPause (holdUpdate c.s d) now).2 = false)
    (hdl : ¬ now < (holdUpdate c.s d).endTokenHoldTime) :
    doUseToken c now = passNow { c with s := (waitSyncPause (holdUpdate c.s d) now).1 } now ∧
    ∀ c', doUseToken c now = .ok c' → c'.calls = c.calls := by
  have h1 : doUseToken c now = passNow { c with s := (waitSyncPause (holdUpdate c.s d) now).1 } now := by
    rw [cycles_before_deadline c now d true hst hw]
    simp [hdl]
  refine ⟨h1, fun c' h => ?_⟩
  rw [h1] at h
  have := passNow_no_calls _ now c' h
  exact this

/-- Asking one application appends exactly one `transmit_telegram` record with the given flag. -/
theorem appTransmit_calls (c : Ctx) (now : Int) (hp : Bool) (c1 : Ctx) (b1 : Bool)
    (h1 : appTransmit c now hp = (.ok c1, b1)) : ∃ i a, c1.calls = c.calls ++ [.transmit i hp a] := by
  unfold appTransmit at h1
  dsimp only at h1
  repeat' split at h1
  all_goals first
    | (cases h1; done)
    | (cases h1; exact ⟨_, _, rfl⟩)
    | (simp only [transmit] at h1; split at h1 <;> first | (cases h1; done) | (cases h1; exact ⟨_, _, rfl⟩))

/-- Every application asked within one `apps_transmit_telegram` call is asked with the same
`high_prio_only` flag (the flag says whether the hold time is already over). -/
theorem apps_flag (now : Int) (hp : Bool) :
    ∀ (k : Nat) (c c' : Ctx) (b : Bool), appsTransmit now hp k c = (.ok c', b) →
      ∃ extra, c'.calls = c.calls ++ extra ∧ ∀ call ∈ extra, ∃ i a, call = .transmit i hp a := by
  intro k
  induction k with
  | zero =>
    intro c c' b h
    simp only [appsTransmit] at h
    cases h
    exact ⟨[], by simp, by simp⟩
  | succ k ih =>
    intro c c' b h
    simp only [appsTransmit] at h
    cases hA : appTransmit c now hp with
    | mk r b1 =>
      rw [hA] at h
      cases r with
      | panic s => simp at h
      | ok c1 =>
        obtain ⟨i, a, hc1⟩ := appTransmit_calls c now hp c1 b1 hA
        cases b1 with
        | true =>
          simp only at h
          cases h
          exact ⟨[.transmit i hp a], hc1, by simp⟩
        | false =>
          simp only at h
          split at h
          · split at h
            · cases h
              exact ⟨[.transmit i hp a], by simpa [upd] using hc1, by simp⟩
            · obtain ⟨extra, he, hall⟩ := ih _ _ _ h
              refine ⟨.transmit i hp a :: extra, ?_, ?_⟩
              · rw [he]; simp [upd, hc1]
              · intro call hc
                simp at hc
                rcases hc with rfl | hc
                · exact ⟨i, a, rfl⟩
                · exact hall call hc
          · cases h

/-! ## `visit_bounded`: at most one message cycle after the deadline per token visit -/

open StationVisit

/-- **Per poll, with the flag monotone**: in a poll of a visit (`Station.poll` starting in `UseToken`
or `AwaitDataResponse`, any inputs) a message cycle — an application's `transmit_telegram` returned a
telegram, `hasSend` — sets the `first_cycle_done` flag (`flag` = the flag in `UseToken`, `true` in
every other state), keeps the station in the visit, and does not happen at or after the deadline with
the flag already set; and a set flag is fresh again only after a poll that ended the visit by handing
the token on to the station itself (since the repair of K3 the end of the token hold passes the
token in the same poll, `passNow`). -/
theorem cycle_sets_flag (s : Station) (apps : Apps) (now : Int) (phyTx : Bool) (rx : Bytes) (c' : Ctx)
    (hin : inVisit s.st = true) (h : s.poll apps now phyTx rx = .ok c') :
    (hasSend c'.calls = true →
      flag c'.s.st = true ∧ inVisit c'.s.st = true ∧ ¬ (deadline s ≤ now ∧ flag s.st = true)) ∧
    (flag s.st = true → flag c'.s.st = false → c'.tx ≠ none) :=
  poll_visit s apps now phyTx rx c' hin h

/-- **`visit_bounded`**: over ANY sequence of polls of one token visit (arbitrary times — not even
assumed monotone —, PHY states, received bytes, application scripts, station state at the start of
the visit), the number of message cycles started at or after the token-hold deadline is at most one. -/
theorem visit_bounded (s : Station) (apps : Apps) (ins : List (Int × Bool × Bytes)) (n : Nat)
    (h : lateCycles s apps ins = some n) : n ≤ 1 := by
  have := lateCycles_flag ins s apps n h
  omega

/-- … and that one only as the first message cycle of the visit: once the flag is set (any cycle was
attempted in this visit, or the station awaits a reply) no cycle starts after the deadline any more. -/
theorem late_cycle_only_first (s : Station) (apps : Apps) (ins : List (Int × Bool × Bytes)) (n : Nat)
    (hf : flag s.st = true) (h : lateCycles s apps ins = some n) : n = 0 := by
  have := lateCycles_flag ins s apps n h
  rw [hf] at this
  simp at this
  exact this

/-! Non-vacuity: station 7 with one application that always wants to send an SDN telegram to 9.
Token received at t = 1000; with the deadline already passed (500) exactly one cycle is performed
(the guaranteed one; the next poll ends the visit with a GAP poll), with the deadline at 10000 all
three polls start a cycle, none of them late. -/
def demoS (deadl : Int) : Station :=
  { (Station.new { address := 7, rate := 500000, slotBits := 200, ttrBits := 20000, gapWait := 10,
                   hsa := 126, maxRetry := 1, minTsdrBits := 11 }) with
    online := true, st := .useToken ⟨1000, none⟩ false, lastBusActivity := some 0,
    lastTokenTime := 1000, endTokenHoldTime := deadl }

def demoApp : List AppAnswer :=
  List.replicate 3 (.send { da := 9, sa := 7, dsap := none, ssap := none, fc := .request .inactive .sdnLow } [1, 2, 3])

example : lateCycles (demoS 500) [demoApp] [(1000, false, []), (3000, false, []), (5000, false, [])] = some 1 := by
  decide
example : lateCycles (demoS 10000) [demoApp] [(1000, false, []), (3000, false, []), (5000, false, [])] = some 0 := by
  decide
example : ((demoS 10000).poll [demoApp] 1000 false []).casesOn (fun c => hasSend c.calls) (fun _ => false) = true := by
  decide

/-! ## Ring level: the rotation bound of the timed two-station ring with application traffic -/

/-- **Only `do_use_token` writes the hold-time bookkeeping** (`last_token_time`, `end_token_hold_time`).
For every poll of an online station in one of the states of a running ring (`ActiveIdle`, `CheckTokenPass`,
`AwaitStatusResponse`, `UseToken`, `AwaitDataResponse`), any time, PHY state, received bytes and
application scripts (`HoldRel`): outside a token visit both fields are unchanged; in a visit begun at
`tk` they are unchanged or — first `do_use_token` of the visit — `last_token_time := tk` and the new
deadline is at most the previous receipt + TTR; a poll that transmits in a visit has recorded the receipt;
a message cycle is started only before the deadline or as the first cycle of the visit; and the station
stays in the visit, leaves it, or (passing the token to itself) begins a new one right now. -/
theorem hold_bookkeeping_only_use_token (s : Station) (apps : Apps) (now : Int) (phy : Bool) (rx : Bytes) (c : Ctx)
    (hon : s.online = true) (hst : RingState s.st) (h : s.poll apps now phy rx = .ok c) : HoldRel s c now :=
  poll_holdRel s apps now phy rx c hon hst h

/-- The rotation bound in the configuration constants: `TT + 2·over + bits 33 + P` with the per-station
overshoot `over` = one longest message cycle (`bits(11·255) + Tslot + P`) + one unanswered GAP request
(`bits 66 + Tslot + P`) + one token transfer (`⌈33 bit⌉ + P`). -/
theorem rotation_bound_value (cfg : Cfg) (TT : Nat) :
    cfg.rot TT = TT + 2 * ((bitsToTime cfg.rate (11 * 255) + cfg.slot + cfg.P) + (cfg.b66 + cfg.slot + cfg.P) +
      (cfg.ce 2 + cfg.P)) + cfg.b33 + cfg.P := rfl

/-- **One event of the timed two-station ring with application traffic keeps the timing invariant**
(`TInv`, on top of the ring invariant `NInv` of C01 for a net of two stations): `acc` is the time at which
the station whose turn it is accepted the token, `Eb` a bound of its hold deadline with
`Eb ≤ last_token_time(other) + TT`, `acc ≤ last_token_time(other) + TT + over`, and per phase the next
transmission is due before `max(Eb, acc + bits 33 + P) + cycle` (+ GAP time).  If the polled station accepts
the token in this poll, the time since its previous receipt is at most `Cfg.rot cfg TT`. -/
theorem two_station_rotation_step (cfg : Cfg) (hok : cfg.Ok) (hP100 : cfg.P ≤ 100000) (M : List Nat) (adr : Nat → Nat)
    (n : Net) (v : NView) (h : NInv cfg M adr n v) (TT : Nat) (acc Eb : Int) (t : TInv cfg TT n v acc Eb)
    (i : Nat) (now : Int) (e : EvOkN cfg n v.tl i now) :
    ∃ n' v' inc c acc' Eb', n.poll i now = (n', inc, some (.ok c)) ∧ NInv cfg M adr n' v' ∧ v'.tl = now ∧
      TInv cfg TT n' v' acc' Eb' ∧
      (∀ st, n.stations[i]? = some st → visitTime st.s.st = none → visitTime c.s.st = some now →
        now ≤ st.s.lastTokenTime + ((cfg.rot TT : Nat) : Int)) :=
  rot_step h hok hP100 t i now e

/-- **Rotation bound of the timed two-station ring with application traffic** (ring-level clause of C13).
Two station models on the byte-accurate bus of `Model/Net.lean`, arbitrary application scripts (`AnsOk AppP`
as in C01: valid addresses, no FDL status requests), both target rotation times at most `TT`
(`bits 33 + P ≤ TT`), the ring invariant `NInv` and the timing invariant `TInv` initially, any schedule in
which every station is polled at least every `P` µs (`SchedN`): every poll returns regularly, and whenever
a station accepts the token, the time since its previous token receipt — its own `last_token_time`, the
base of its hold deadline — is at most `TT + 2·over + bits 33 + P` (`rotation_bound_value`).  Collision
freedom and the synchronisation pause on the same runs are `PV.C01.n_station_ring_run_apps`. -/
theorem two_station_rotation_bound (cfg : Cfg) (hok : cfg.Ok) (hP100 : cfg.P ≤ 100000) (M : List Nat) (adr : Nat → Nat)
    (TT : Nat) (n : Net) (v : NView) (acc Eb : Int) (h : NInv cfg M adr n v) (t : TInv cfg TT n v acc Eb)
    (evs : List (Nat × Int)) (hs : SchedN cfg.P n v.tl evs) : RotRun (cfg.rot TT) n evs :=
  rot_run hok hP100 M adr TT evs n v acc Eb h t hs

/-! Non-vacuity of the ring-level hypotheses: stations 3 and 5 (indices 0, 1) at 500 kbit/s, TTR = 10000 bit =
20 ms.  Station 3 passed the token at time 0 and supervises its pass; station 5 accepted it at 70 µs and holds
it; its application sends an SDN telegram to address 9, then an SRD request to station 3 (a master: not
answered, times out), then declines.  Both stations received the token for the last time at 0. -/
def cfgR : Cfg := { rate := 500000, slotBits := 200, P := 100 }
theorem cfgR_ok : cfgR.Ok := cfgR.ok_of_quarter_slot (by decide) (by decide) (by decide)

def pR3 : Params :=
  { address := 3, rate := 500000, slotBits := 200, ttrBits := 10000, gapWait := 1, hsa := 10, maxRetry := 1, minTsdrBits := 11 }
def pR5 : Params := { pR3 with address := 5 }
def MR : List Nat := [3, 5]
def adrR (i : Nat) : Nat := MR.getD i 0

open TokenRing in
def ringR (ts : Nat) : TokenRing :=
  updateNextPrev { active := Vector.ofFn fun i => decide (i.val ∈ MR), las := .valid, ts := ts, ns := ts, ps := ts }

open TokenRing in
theorem ringR_view (ts : Nat) (hts : ts ∈ MR) : RingView MR ts (ringR ts) := by
  refine ⟨⟨by simp [MR], ⟨by decide, trivial⟩, by decide⟩, hts, (updateNextPrev_las _).2, (updateNextPrev_las _).1, ?_,
    updateNextPrev_nbr _⟩
  intro a ha
  unfold ringR
  rw [updateNextPrev_active]
  simp [isActive, ha]

theorem ringR_ok (ts : Nat) (hts : ts < 128) : TokenRing.RingOk (ringR ts) := by
  have := TokenRing.upd_ok { active := Vector.ofFn fun i => decide (i.val ∈ MR), las := .valid, ts := ts, ns := ts, ps := ts }
    (Vector.ofFn fun i => decide (i.val ∈ MR)) ⟨hts, hts⟩
  exact this.1

def hRSDN : Header := { da := 9, sa := 5, dsap := none, ssap := none, fc := .request .inactive .sdnLow }
def hRSRD : Header := { da := 3, sa := 5, dsap := none, ssap := none, fc := .request .first .srdLow }
def appsR : Apps := [[.send hRSDN [1, 2], .send hRSRD [], .decline]]

theorem appsR_ok : AnsOk AppP appsR ∧ ScriptsOk appsR := by
  constructor
  · intro script hs ans ha h pdu he
    simp only [appsR, List.mem_singleton] at hs
    subst hs
    simp only [List.mem_cons, List.mem_nil_iff, or_false] at ha
    rcases ha with rfl | rfl | rfl
    · cases he; exact ⟨by decide, by decide, fun fcb hc => by cases hc⟩
    · cases he; exact ⟨by decide, by decide, fun fcb hc => by cases hc⟩
    · cases he
  · intro script hs ans ha h pdu he
    simp only [appsR, List.mem_singleton] at hs
    subst hs
    simp only [List.mem_cons, List.mem_nil_iff, or_false] at ha
    rcases ha with rfl | rfl | rfl
    · cases he; decide
    · cases he; decide
    · cases he

def sR3 : Station :=
  { (Station.new pR3) with online := true, st := .checkTokenPass .first, lastBusActivity := some 66, ring := ringR 3 }
def sR5 : Station :=
  { (Station.new pR5) with online := true, st := .useToken ⟨70, none⟩ false, lastBusActivity := some 70, ring := ringR 5 }

theorem sR3_inv : Inv sR3 [] := by
  have h := inv_new pR3 [] (by decide) (by decide) (by intro s hs; cases hs)
  exact ⟨h.addr, h.hsa, ringR_ok 3 (by decide), fun ho => by simp [sR3] at ho, h.gap, fun a ha => by simp [sR3] at ha,
    fun a ha => by simp [sR3] at ha, h.app, fun a d ha => by simp [sR3] at ha, h.scripts, by simp [sR3]⟩
theorem sR5_inv : Inv sR5 appsR := by
  have h := inv_new pR5 [] (by decide) (by decide) (by intro s hs; cases hs)
  exact ⟨h.addr, h.hsa, ringR_ok 5 (by decide), fun ho => by simp [sR5] at ho, h.gap, fun a ha => by simp [sR5] at ha,
    fun a ha => by simp [sR5] at ha, fun _ => by decide, fun a d ha => by simp [sR5] at ha, appsR_ok.2, by simp [sR5]⟩

def tokR : Transmission := { start := 0, sender := 0, bytes := StationGap.tokenBytes 5 3, dropped := false }
def nsR3 : NetStation := { s := sR3, apps := [], online := true }
def nsR5 : NetStation := { s := sR5, apps := appsR, online := true }
def netR : Net := { bus := { rate := 500000, txs := [tokR], seen := [0, 70] }, stations := [nsR3, nsR5] }
def viewR : NView := { x := 1, sx := nsR5, pre := [], tr := tokR, ph := .hold 70, H := 236, Lo := 136, tl := 70 }

theorem ringCfgR : RingCfg MR adrR 2 :=
  ⟨⟨by simp [MR], ⟨by decide, trivial⟩, by decide⟩, by decide,
    (by
      intro i j hi hj he
      have hi' : i = 0 ∨ i = 1 := by omega
      have hj' : j = 0 ∨ j = 1 := by omega
      rcases hi' with rfl | rfl <;> rcases hj' with rfl | rfl <;> simp [adrR, MR] at he ⊢),
    by decide, by decide⟩

theorem stokR3 : StOkN cfgR MR nsR3 3 :=
  ⟨rfl, rfl, (fun s hs => by cases hs), sR3_inv, rfl, rfl, rfl, rfl, ringR_view 3 (by decide), by decide⟩
theorem stokR5 : StOkN cfgR MR nsR5 5 :=
  ⟨rfl, rfl, appsR_ok.1, sR5_inv, rfl, rfl, rfl, rfl, ringR_view 5 (by decide), by decide⟩

theorem ninvR : NInv cfgR MR adrR netR viewR := by
  refine ⟨ringCfgR, by decide, rfl, stokR5, ⟨rfl, rfl, rfl, rfl, List.pairwise_singleton _ _, ?_, ?_⟩, rfl, ?_, ?_, ?_, ?_, ?_,
    rfl, rfl, ?_⟩
  · intro t ht; simp only [netR, List.mem_singleton] at ht; subst ht; rfl
  · intro t ht; simp only [netR, List.mem_singleton] at ht; subst ht
    exact ⟨0, by decide, rfl, .inl (by decide)⟩
  · intro o ho; simp only [netR, List.mem_singleton] at ho; subst ho; right; decide
  · intro l hl o ho hs; simp only [netR, List.mem_singleton] at ho; subst ho; cases hs
  · intro j hj hjx
    have : j = 0 := by simp only [netR, viewR, List.length_cons, List.length_nil] at hj hjx; omega
    subst this
    refine ⟨nsR3, rfl, stokR3, [tokR], [], false, 66, rfl, ?_, ?_, rfl, Nat.le_refl _, ?_, ?_, rfl, .inr ⟨?_, by decide⟩, ?_, ?_, ?_⟩
    · intro o ho; simp only [List.mem_singleton] at ho; subst ho; exact .inl rfl
    · intro t ht; cases ht
    · intro o ho hs; simp only [netR, List.mem_singleton] at ho; subst ho; decide
    · intro t rest hrs; cases hrs
    · intro t ht; cases ht
    · intro t ht; cases ht
    · rintro ⟨t, a, hl, hb⟩
      simp only [netR, List.getLast?_singleton, Option.some.injEq] at hl
      subst hl
      have := tokenBytes_adr_inj 5 3 (adrR 0) a (by decide) (by decide) hb
      exact absurd this (by decide)
    · simp only [Bool.false_eq_true, if_false]; exact ⟨rfl, by decide⟩
  · intro j hj
    have : j = 0 ∨ j = 1 := by simp only [netR, List.length_cons, List.length_nil] at hj; omega
    rcases this with rfl | rfl <;> decide
  · intro t ht; simp only [netR, List.mem_singleton] at ht; subst ht; decide
  · unfold PhaseOkN
    show _ ∧ _
    exact ⟨⟨_, _, rfl⟩, rfl, ⟨3, rfl⟩, by decide, by decide, by decide, by decide, by decide, by decide⟩

/-- The timing invariant at the start: accepted at 70, previous receipts at 0, deadline bound `0 + TTR`. -/
theorem tinvR : TInv cfgR 20000 netR viewR 70 20000 := by
  refine ⟨rfl, ?_, by decide, ⟨nsR3, rfl, by decide, by decide, by decide⟩, by decide, ?_⟩
  · intro j st hj
    have : j = 0 ∨ j = 1 ∨ 2 ≤ j := by omega
    rcases this with rfl | rfl | h2
    · cases hj; decide
    · cases hj; decide
    · simp [netR, h2] at hj
  · show TPh cfgR (.hold 70) sR5 _ _ 70 20000
    exact ⟨rfl, rfl, .inr ⟨by decide, by decide⟩⟩

def evsR : List (Nat × Int) :=
  [(0, 80), (1, 137), (0, 170), (1, 227), (0, 260), (1, 317), (0, 350), (1, 407), (0, 440), (1, 497), (0, 530),
   (1, 587), (0, 620), (1, 677), (0, 710)]

example : RotRun (cfgR.rot 20000) netR evsR :=
  two_station_rotation_bound cfgR cfgR_ok (by decide) MR adrR 20000 netR viewR 70 20000 ninvR tinvR evsR
    (schedN_of_times _ _ _ _ (by
      show SchedNT 100 2 [0, 70] 70 evsR
      simp [SchedNT, evsR]
      decide))

/-- The bound for this configuration: 20000 + 2·(5610 + 400 + 100 + 132 + 400 + 100 + 66 + 100) + 66 + 100 µs. -/
example : cfgR.rot 20000 = 33982 := by decide

/-! ## Ring level, any number of stations -/

/-- The N-station bound in the configuration constants: `TT + N·share`, `share = over + bits 33 + P`. -/
theorem rotationN_bound_value (cfg : Cfg) (TT N : Nat) :
    cfg.rotN TT N = TT + N * (((bitsToTime cfg.rate (11 * 255) + cfg.slot + cfg.P) + (cfg.b66 + cfg.slot + cfg.P) +
      (cfg.ce 2 + cfg.P)) + cfg.b33 + cfg.P) := rfl

/-- **One event of the timed N-station ring with application traffic keeps the timing invariant** `TInvN`
(stations numbered in ascending address order; the listeners' last token receipts are ordered along the ring,
none later than the holder's acceptance `acc`; the receipt of the listener `d` passes before the holder is at
most `TT + d·share` older than `acc`; the holder's deadline bound `Eb` is at most any listener's receipt + `TT`;
plus the station-local part `TCore` as for two stations), and a station that accepts the token does so at most
`TT + N·share` after its previous receipt. -/
theorem n_station_rotation_step (cfg : Cfg) (hok : cfg.Ok) (hP100 : cfg.P ≤ 100000) (M : List Nat) (adr : Nat → Nat)
    (n : Net) (v : NView) (h : NInv cfg M adr n v) (TT : Nat) (acc Eb : Int) (t : TInvN cfg adr TT n v acc Eb)
    (i : Nat) (now : Int) (e : EvOkN cfg n v.tl i now) :
    ∃ n' v' inc c acc' Eb', n.poll i now = (n', inc, some (.ok c)) ∧ NInv cfg M adr n' v' ∧ v'.tl = now ∧
      TInvN cfg adr TT n' v' acc' Eb' ∧
      (∀ st, n.stations[i]? = some st → visitTime st.s.st = none → visitTime c.s.st = some now →
        now ≤ st.s.lastTokenTime + ((cfg.rotN TT n.stations.length : Nat) : Int)) :=
  rotN_step h hok hP100 t i now e

/-- **Rotation bound of the timed N-station ring with application traffic** (ring-level clause of C13, any
`N ≥ 2`).  `N` station models on the byte-accurate bus of `Model/Net.lean`, numbered in ascending address order,
arbitrary application scripts (valid addresses, no FDL status requests; requests are not answered and time
out), all target rotation times at most `TT` (`bits 33 + P ≤ TT`), the ring invariant `NInv` (C01) and the
timing invariant `TInvN` initially, any schedule in which every station is polled at least every `P` µs: every
poll returns regularly, and whenever a station accepts the token the time since its previous token receipt
(its `last_token_time`) is at most `TT + N·(over + bits 33 + P)` (`rotationN_bound_value`). -/
theorem n_station_rotation_bound (cfg : Cfg) (hok : cfg.Ok) (hP100 : cfg.P ≤ 100000) (M : List Nat) (adr : Nat → Nat)
    (TT : Nat) (n : Net) (v : NView) (acc Eb : Int) (h : NInv cfg M adr n v) (t : TInvN cfg adr TT n v acc Eb)
    (evs : List (Nat × Int)) (hs : SchedN cfg.P n v.tl evs) : RotRun (cfg.rotN TT n.stations.length) n evs :=
  rotN_run hok hP100 M adr TT evs n v acc Eb h t hs

/-! Non-vacuity for N = 3: the three-station example of C01 with application traffic (`net3a`: stations 3, 5, 7;
station 5 accepted the token at 70 µs; all previous receipts at 0; TTR = 20 ms). -/
theorem tinv3a : TInvN PV.C01.cfg2 PV.C01.adr3 20000 PV.C01.net3a PV.C01.view3a 70 20000 := by
  refine ⟨⟨?_, by decide, by decide, ?_⟩, ?_, ?_, ?_, ?_, ?_⟩
  · intro j st hj
    have : j = 0 ∨ j = 1 ∨ j = 2 ∨ 3 ≤ j := by omega
    rcases this with rfl | rfl | rfl | h3
    · cases hj; decide
    · cases hj; decide
    · cases hj; decide
    · simp [PV.C01.net3a, h3] at hj
  · show TPh PV.C01.cfg2 (.hold 70) PV.C01.s3b _ _ 70 20000
    exact ⟨rfl, rfl, .inr ⟨by decide, by decide⟩⟩
  · intro i j hij hj
    have hj' : j < 3 := hj
    have : (i = 0 ∧ j = 1) ∨ (i = 0 ∧ j = 2) ∨ (i = 1 ∧ j = 2) := by omega
    rcases this with ⟨rfl, rfl⟩ | ⟨rfl, rfl⟩ | ⟨rfl, rfl⟩ <;> decide
  · intro j j' hj hj' hjx hjx' _
    have hj3 : j < 3 := hj
    have hj3' : j' < 3 := hj'
    have hx1 : j ≠ 1 := hjx
    have hx1' : j' ≠ 1 := hjx'
    have : (j = 0 ∨ j = 2) ∧ (j' = 0 ∨ j' = 2) := by omega
    rcases this with ⟨rfl | rfl, rfl | rfl⟩ <;> decide
  · intro j hj hjx
    have hj3 : j < 3 := hj
    have hx1 : j ≠ 1 := hjx
    have : j = 0 ∨ j = 2 := by omega
    rcases this with rfl | rfl <;> decide
  · intro j hj hjx
    have hj3 : j < 3 := hj
    have hx1 : j ≠ 1 := hjx
    have : j = 0 ∨ j = 2 := by omega
    rcases this with rfl | rfl <;> decide
  · intro j hj hjx
    have hj3 : j < 3 := hj
    have hx1 : j ≠ 1 := hjx
    have : j = 0 ∨ j = 2 := by omega
    rcases this with rfl | rfl <;> decide

example : RotRun (PV.C01.cfg2.rotN 20000 3) PV.C01.net3a PV.C01.evs3 :=
  n_station_rotation_bound PV.C01.cfg2 PV.C01.cfg2_ok (by decide) PV.C01.M3 PV.C01.adr3 20000 PV.C01.net3a PV.C01.view3a
    70 20000 PV.C01.ninv3a tinv3a PV.C01.evs3
    (schedN_of_times _ _ _ _ (by
      show SchedNT 100 3 [0, 70, 68] 70 PV.C01.evs3
      simp [SchedNT, PV.C01.evs3]
      decide))

/-- The bound for this configuration and three stations: 20000 + 3·(6908 + 66 + 100) µs. -/
example : PV.C01.cfg2.rotN 20000 3 = 41222 := by decide

end PV.C13
