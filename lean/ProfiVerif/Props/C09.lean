/-
C09 — Telegram encoding and decoding are mutually inverse.

Property theorems only; helper lemmas are in `Lemmas/Codec.lean`.
All statements are about `Model/Telegram.lean`, which the `codec` correspondence ties to
`src/fdl/telegram.rs`.
-/
import ProfiVerif.Lemmas.Codec

namespace PV.C09
open PV

/-- Every data telegram the stack can build (addresses 0..127, any SAPs, any function code, length
byte ≤ 249) serialises without panic to exactly the PROFIBUS layout `frameSpec`, reports
`telegram_len` bytes, and decodes back to the identical telegram consuming exactly those bytes —
whatever follows in the buffer. -/
theorem decode_encode_data (h : Header) (pdu rest : Bytes)
    (hda : h.da < 128) (hsa : h.sa < 128) (hl : h.lengthByte pdu.length ≤ 249) :
    h.serialize pdu = .ok (frameSpec h pdu) ∧
    (frameSpec h pdu).length = h.telegramLen pdu.length ∧
    deserialize (frameSpec h pdu ++ rest) = .accept (.data h pdu) (frameSpec h pdu).length :=
  ⟨serialize_ok h pdu hl, frame_length h pdu, decode_frame h pdu rest hda hsa hl⟩

/-- Token telegrams: `SD4 DA SA`, three bytes, decoded back for every pair of bytes. -/
theorem decode_encode_token (da sa : UInt8) (rest : Bytes) :
    sendToken da sa = [SD4, da, sa] ∧
    deserialize (sendToken da sa ++ rest) = .accept (.token da sa) (sendToken da sa).length := by
  simp [sendToken, deserialize, deserializeToken, SD4, SC]

/-- Short confirmation: the single byte `SC`. -/
theorem decode_encode_sc (rest : Bytes) :
    sendSc = [SC] ∧ deserialize (sendSc ++ rest) = .accept .sc sendSc.length := by
  simp [sendSc, deserialize, SC]

/-- Function codes round-trip for every request/response combination (84 values). -/
theorem fc_roundtrip (fc : FunctionCode) : FunctionCode.fromByte fc.toByte = .ok fc :=
  PV.fc_roundtrip fc

/-- What the decoder does with each of the 256 function-code bytes: a request byte (bit 6 set) that
is accepted re-encodes to itself; a response byte re-encodes to itself with bit 7 cleared (the
decoder ignores bit 7 of a response byte). -/
def fcByteOk (b : UInt8) : Bool :=
  match FunctionCode.fromByte b with
  | .ok fc => fc.toByte == (if b &&& 0x40 ≠ 0 then b else b &&& 0x7F)
  | .error _ => true

theorem fc_bytes (b : UInt8) : fcByteOk b = true :=
  forall_u8 fcByteOk (by decide +kernel) b

/-- Exactly which bytes are valid function codes: 48 request + 2·36 response bytes = 120. -/
theorem fc_valid_count :
    ((List.range 256).filter fun n =>
      match FunctionCode.fromByte (UInt8.ofNat n) with | .ok _ => true | .error _ => false).length = 120 := by
  decide +kernel

/-- The only panic of the encoder (on the 256-byte `TelegramTx` buffer) is the
`assert!(length_byte <= 249)`. -/
theorem serialize_panics_iff (h : Header) (pdu : Bytes) :
    h.serialize pdu = .panic ↔ h.lengthByte pdu.length > 249 := by
  constructor
  · intro hp
    by_cases hl : h.lengthByte pdu.length ≤ 249
    · rw [serialize_ok h pdu hl] at hp; cases hp
    · omega
  · intro hl
    unfold Header.serialize
    simp only [Header.lengthByte] at hl ⊢
    have e1 : ¬ (pdu.length + h.saps + 3 = 3) := by omega
    have e2 : ¬ (pdu.length + h.saps + 3 = 11) := by omega
    simp only [e1, e2, if_false]
    simp [hl]

/-- `expects_reply`: a request of an acknowledged/answered service expects a reply from its DA. -/
theorem expects_reply_spec (h : Header) :
    expectsReplyOf h =
      match h.fc with
      | .request _ req =>
        if req = .sdnLow ∨ req = .sdnHigh ∨ req = .clockValue ∨ req = .timeEvent then none else some h.da
      | .response _ _ => none := by
  unfold expectsReplyOf
  cases h.fc with
  | request fcb req => cases req <;> simp [RequestType.expectsReply]
  | response _ _ => rfl

/-! ### Non-vacuity: the hypotheses are met by SD1, SD3 and SD2 frames incl. the largest one. -/

example : (fdlStatusRequestHeader 34 2).serialize [] = .ok [0x10, 0x22, 0x02, 0x49, 0x6D, 0x16] := by decide
example : let h : Header := ⟨3, 4, some 61, some 62, .request .first .srdLow⟩
    h.da < 128 ∧ h.sa < 128 ∧ h.lengthByte (List.replicate 244 (0 : UInt8)).length ≤ 249 := by decide +kernel
example : let h : Header := ⟨13, 14, none, none, .request .inactive .srdLow⟩
    (frameSpec h (List.replicate 8 42)).head? = some SD3 := by decide
example : (⟨0, 0, none, none, .response .slave .ok⟩ : Header).serialize (List.replicate 247 0) = .panic := by
  decide +kernel

end PV.C09
