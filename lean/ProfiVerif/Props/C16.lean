/-
C16 — The receive path reassembles the byte stream independent of chunking.
Model: `Model/PhyRx.lean` (generic `ProfibusPhy` helpers over a byte buffer).
-/
import ProfiVerif.Lemmas.PhyRx
import ProfiVerif.Model.Simulator

namespace PV.C16
open PV

/-- `receive_all_telegrams` terminates (≤ one iteration per buffered byte) and never panics, for
every buffer content. -/
theorem receiveAll_total (fuel : Nat) (b : Bytes) (acc : List (Telegram × Bool)) (hf : b.length < fuel) :
    ∃ b' calls ret, receiveAllFuel fuel b acc = .done b' calls ret := by
  induction fuel generalizing b acc with
  | zero => omega
  | succ f ih =>
    unfold receiveAllFuel
    rcases C10.decode_verdicts b with h | h | ⟨t, n, h⟩
    · rw [h]; exact ⟨_, _, _, rfl⟩
    · rw [h]; exact ⟨_, _, _, rfl⟩
    · rw [h]
      have ⟨h1, h2⟩ := C10.accept_inside b t n h
      simp only
      rw [if_neg (by omega)]
      split
      · exact ⟨_, _, _, rfl⟩
      · exact ih _ _ (by simp; omega)

theorem receiveAll_never_hangs (b : Bytes) : receiveAll b ≠ .hang ∧ receiveAll b ≠ .panic := by
  obtain ⟨b', c, r, h⟩ := receiveAll_total (b.length + 1) b [] (by omega)
  unfold receiveAll; rw [h]; simp

theorem receiveTelegram_total (b : Bytes) : ∃ b' calls ret, receiveTelegram b = .done b' calls ret := by
  unfold receiveTelegram
  rcases C10.decode_verdicts b with h | h | ⟨t, n, h⟩
  · rw [h]; exact ⟨_, _, _, rfl⟩
  · rw [h]; exact ⟨_, _, _, rfl⟩
  · rw [h]
    have ⟨h1, h2⟩ := C10.accept_inside b t n h
    simp only
    rw [if_neg (by omega)]; exact ⟨_, _, _, rfl⟩

/-- One `receive_all_telegrams` call on a buffer holding a prefix of a stream of valid telegrams `ts`
(`pending` = the bytes that have not arrived yet): it delivers exactly the telegrams that are
complete, in order, each once; keeps the incomplete tail untouched; a callback is flagged
`is_last` only if nothing is buffered behind it; and it returns `Some` iff it delivered something
and emptied the buffer. -/
theorem receiveAll_stream (ts : List Telegram) (b pending : Bytes)
    (hs : b ++ pending = streamOf ts) (hv : ∀ t ∈ ts, t.Valid) :
    ∃ d ts' b' ret, receiveAll b = .done b' d ret ∧
      ts = d.map Prod.fst ++ ts' ∧ b' ++ pending = streamOf ts' ∧
      (∀ t, ts'.head? = some t → b'.length < t.wire.length) ∧
      (∀ x ∈ d, x.2 = true → b' = []) ∧ (ret = true ↔ (d ≠ [] ∧ b' = [])) := by
  obtain ⟨d, ts', b', ret, h, a, b1, c, e, f, -⟩ :=
    receiveAll_valid_stream ts (b.length + 1) b pending [] hs hv (by omega)
  exact ⟨d, ts', b', ret, by simpa [receiveAll] using h, a, b1, c, e, f⟩

/-- `receive_telegram` on the same kind of buffer delivers the first telegram iff it is complete. -/
theorem receiveTelegram_stream (t : Telegram) (rest : List Telegram) (b pending : Bytes)
    (hs : b ++ pending = streamOf (t :: rest)) (hv : t.Valid) :
    (b.length < t.wire.length → receiveTelegram b = .done b [] false) ∧
    (t.wire.length ≤ b.length → ∃ b2, receiveTelegram b = .done b2 [(t, b2 == [])] true ∧
        b2 ++ pending = streamOf rest) := by
  have hs' : b ++ pending = t.wire ++ streamOf rest := by simpa [streamOf] using hs
  constructor
  · intro hlt
    have hn := prefix_needMore t hv b pending _ hs' hlt
    simp [receiveTelegram, hn]
  · intro hle
    obtain ⟨b2, hb, hb2⟩ := split_of_append_eq b pending t.wire _ hs' hle
    have hdec : deserialize b = .accept t t.wire.length := by rw [hb]; exact decode_wire t hv b2
    refine ⟨b2, ?_, hb2⟩
    have hdrop : b.drop t.wire.length = b2 := by rw [hb]; simp
    have e1 : ¬ (t.wire.length > b.length) := by omega
    simp only [receiveTelegram, hdec, e1, if_false, hdrop]
    have : (t.wire.length == b.length) = (b2 == []) := by
      rw [hb]; cases b2 <;> simp
    rw [this]

/-- **Reassembly.** Bytes of a sequence of valid telegrams arrive in arbitrary chunks, interleaved
arbitrarily with `receive_all_telegrams` and `receive_telegram` calls: nothing panics, the telegrams delivered so far are a
prefix of the sequence, in order, each once, and the buffer plus the bytes still to come are exactly
the wire bytes of the remaining telegrams (no byte of an incomplete telegram is lost or duplicated). -/
theorem reassembly_invariant (ops : List RxOp) :
    ∀ (ts : List Telegram) (b : Bytes), b ++ arrivals ops = streamOf ts → (∀ t ∈ ts, t.Valid) →
    ∃ b' d ts', runRx b ops = some (b', d) ∧ ts = d.map Prod.fst ++ ts' ∧ b' = streamOf ts' := by
  induction ops with
  | nil =>
    intro ts b hs _
    exact ⟨b, [], ts, rfl, by simp, by simpa [arrivals] using hs⟩
  | cons op ops ih =>
    intro ts b hs hv
    cases op with
    | recvAll =>
      obtain ⟨d, ts1, b1, ret, hr, hts, hb1, -, -, -⟩ :=
        receiveAll_stream ts b (arrivals ops) (by simpa [arrivals] using hs) hv
      have hv1 : ∀ t ∈ ts1, t.Valid := fun t ht => hv t (by rw [hts]; simp [ht])
      obtain ⟨b', d', ts', hrun, hts', hb'⟩ := ih ts1 b1 hb1 hv1
      refine ⟨b', d ++ d', ts', ?_, by rw [hts, hts']; simp, hb'⟩
      simp [runRx, stepRx, hr, hrun]
    | arrive c =>
      obtain ⟨b', d', ts', hrun, hts', hb'⟩ := ih ts (b ++ c) (by simpa [arrivals, List.append_assoc] using hs) hv
      exact ⟨b', d', ts', by simp [runRx, stepRx, hrun], hts', hb'⟩
    | recvOne =>
      have hs1 : b ++ arrivals ops = streamOf ts := by simpa [arrivals] using hs
      cases ts with
      | nil =>
        have hb : b = [] := by simp [streamOf] at hs1; exact hs1.1
        subst hb
        obtain ⟨b', d', ts', hrun, hts', hb'⟩ := ih [] [] hs1 hv
        refine ⟨b', d', ts', ?_, hts', hb'⟩
        simp [runRx, stepRx, receiveTelegram, deserialize, hrun]
      | cons t rest =>
        have hvt : t.Valid := hv t (by simp)
        have ⟨hA, hB⟩ := receiveTelegram_stream t rest b (arrivals ops) hs1 hvt
        by_cases hlt : b.length < t.wire.length
        · obtain ⟨b', d', ts', hrun, hts', hb'⟩ := ih (t :: rest) b hs1 hv
          refine ⟨b', d', ts', ?_, hts', hb'⟩
          simp [runRx, stepRx, hA hlt, hrun]
        · obtain ⟨b2, hr, hb2⟩ := hB (by omega)
          obtain ⟨b', d', ts', hrun, hts', hb'⟩ := ih rest b2 hb2 (fun x hx => hv x (by simp [hx]))
          refine ⟨b', (t, b2 == []) :: d', ts', ?_, by simp [hts'], hb'⟩
          simp [runRx, stepRx, hr, hrun]

theorem runRx_append (l1 l2 : List RxOp) (b : Bytes) :
    runRx b (l1 ++ l2) =
      match runRx b l1 with
      | none => none
      | some (b1, d1) =>
        match runRx b1 l2 with
        | none => none
        | some (b2, d2) => some (b2, d1 ++ d2) := by
  induction l1 generalizing b with
  | nil =>
    simp only [List.nil_append, runRx]
    cases runRx b l2 with
    | none => rfl
    | some p => obtain ⟨b2, d2⟩ := p; simp
  | cons op l1 ih =>
    simp only [List.cons_append, runRx]
    cases stepRx b op with
    | none => rfl
    | some p =>
      obtain ⟨b0, d0⟩ := p
      simp only [ih]
      cases runRx b0 l1 with
      | none => rfl
      | some q =>
        obtain ⟨b1, d1⟩ := q
        simp only
        cases runRx b1 l2 with
        | none => rfl
        | some r => obtain ⟨b2, d2⟩ := r; simp

/-- … and one more `receive_all_telegrams` after the last byte has arrived hands over everything:
the callbacks, over all calls, are exactly `ts`, and the buffer is empty. -/
theorem reassembly (ops : List RxOp)
    (ts : List Telegram) (hs : arrivals ops = streamOf ts) (hv : ∀ t ∈ ts, t.Valid) :
    ∃ d, runRx [] (ops ++ [.recvAll]) = some ([], d) ∧ d.map Prod.fst = ts := by
  obtain ⟨b1, d1, ts1, hrun, hts, hb1⟩ := reassembly_invariant ops ts [] (by simpa using hs) hv
  have hv1 : ∀ t ∈ ts1, t.Valid := fun t ht => hv t (by rw [hts]; simp [ht])
  obtain ⟨d2, ts2, b2, ret, hr, hts2, hb2, hinc, -, -⟩ :=
    receiveAll_stream ts1 b1 [] (by simpa using hb1) hv1
  have hts2nil : ts2 = [] := by
    cases ts2 with
    | nil => rfl
    | cons t r =>
      have := hinc t rfl
      have e : b2 = t.wire ++ streamOf r := by simpa [streamOf] using hb2
      rw [e, List.length_append] at this; omega
  subst hts2nil
  have hb2nil : b2 = [] := by simpa [streamOf] using hb2
  subst hb2nil
  refine ⟨d1 ++ d2, ?_, ?_⟩
  · rw [runRx_append, hrun]
    simp [runRx, stepRx, hr]
  · rw [hts, hts2]; simp

/-- **Resynchronisation.** Undecodable data is discarded completely (nothing is delivered, the buffer
is emptied), and a valid telegram that then arrives on its own is received correctly. -/
theorem resync (garbage : Bytes) (hg : deserialize garbage = .reject) (t : Telegram) (hv : t.Valid) :
    receiveAll garbage = .done [] [] false ∧ receiveTelegram garbage = .done [] [] false ∧
    runRx garbage [.recvAll, .arrive t.wire, .recvAll] = some ([], [(t, true)]) := by
  have h1 : receiveAll garbage = .done [] [] false := by simp [receiveAll, receiveAllFuel, hg]
  refine ⟨h1, by simp [receiveTelegram, hg], ?_⟩
  have hdec : deserialize t.wire = .accept t t.wire.length := by
    have := decode_wire t hv []
    rwa [List.append_nil] at this
  have hpos := wire_pos t
  obtain ⟨k, hk⟩ : ∃ k, t.wire.length = k + 1 := ⟨t.wire.length - 1, by omega⟩
  have h2 : receiveAll t.wire = .done [] [(t, true)] true := by
    simp [receiveAll, hk, receiveAllFuel, hdec]
  simp [runRx, stepRx, h1, h2]

/-! ### Simulator PHY: timed byte availability (`SimulatorBus::current_cursor`)

What the receivers of the simulator bus can see is always a prefix of the transmitted stream, grows
monotonically with bus time, never shows a character before its 11 bit times are over and shows the
whole telegram from the moment its last character is over — at every baud rate.  So the arrivals over
the simulator are a chunking of the stream, the situation `reassembly` is about. -/

open Sim

/-- More time, at least as many visible characters. -/
theorem sim_visible_mono (rate e e' len : Nat) (h : e ≤ e') :
    visibleChars rate e len ≤ visibleChars rate e' len := by
  unfold visibleChars timeToBits
  have h1 : e * rate / 1000000 ≤ e' * rate / 1000000 := Nat.div_le_div_right (Nat.mul_le_mul_right rate h)
  have h2 : e * rate / 1000000 / 11 ≤ e' * rate / 1000000 / 11 := Nat.div_le_div_right h1
  omega

/-- No character is visible before its 11 bit times have passed. -/
theorem sim_not_early (rate e len : Nat) : visibleChars rate e len * 11 ≤ timeToBits rate e := by
  unfold visibleChars
  have := Nat.div_mul_le_self (timeToBits rate e) 11
  have hm : min (timeToBits rate e / 11) len ≤ timeToBits rate e / 11 := Nat.min_le_left _ _
  calc min (timeToBits rate e / 11) len * 11 ≤ timeToBits rate e / 11 * 11 := Nat.mul_le_mul_right 11 hm
    _ ≤ timeToBits rate e := this

/-- The whole telegram is visible exactly from the moment `11 · len` bit times have passed. -/
theorem sim_complete_iff (rate e len : Nat) :
    visibleChars rate e len = len ↔ 11 * len ≤ timeToBits rate e := by
  unfold visibleChars
  constructor
  · intro h
    have h1 : len ≤ timeToBits rate e / 11 := by omega
    have := Nat.div_mul_le_self (timeToBits rate e) 11
    omega
  · intro h
    have : len ≤ timeToBits rate e / 11 := by
      rw [Nat.le_div_iff_mul_le (by decide)]; omega
    omega

/-- The visible bytes are a prefix of the transmitted stream (`done ++ cur`). -/
theorem sim_visible_prefix (b : Bus) : ∃ rest, b.visible ++ rest = b.done ++ b.cur := by
  refine ⟨b.cur.drop (visibleChars b.rate b.elapsed b.cur.length), ?_⟩
  unfold Bus.visible
  rw [List.append_assoc, List.take_append_drop]

/-- The cursor is the length of the visible prefix. -/
theorem sim_cursor_eq (b : Bus) : b.cursor = b.visible.length := by
  unfold Bus.cursor Bus.visible
  rw [List.length_append, List.length_take]
  have : visibleChars b.rate b.elapsed b.cur.length ≤ b.cur.length := Nat.min_le_right _ _
  omega

/-- Advancing bus time only extends what is visible: the earlier visible bytes stay a prefix. -/
theorem sim_advance_extends (b : Bus) (us : Nat) : ∃ more, (b.advance us).visible = b.visible ++ more := by
  have hm := sim_visible_mono b.rate b.elapsed (b.elapsed + us) b.cur.length (Nat.le_add_right _ _)
  refine ⟨(b.cur.take (visibleChars b.rate (b.elapsed + us) b.cur.length)).drop (visibleChars b.rate b.elapsed b.cur.length), ?_⟩
  unfold Bus.visible Bus.advance
  simp only
  rw [List.append_assoc]
  congr 1
  have : b.cur.take (visibleChars b.rate b.elapsed b.cur.length) =
      (b.cur.take (visibleChars b.rate (b.elapsed + us) b.cur.length)).take (visibleChars b.rate b.elapsed b.cur.length) := by
    rw [List.take_take, Nat.min_eq_left hm]
  rw [this, List.take_append_drop]

example : visibleChars 1500000 22 6 = 3 ∧ visibleChars 19200 572 3 = 0 ∧ visibleChars 19200 573 3 = 1 := by decide

end PV.C16
