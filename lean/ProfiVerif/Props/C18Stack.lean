/-
C18 for the composed systems FDL ∘ LiveList and FDL ∘ DpScanner (`Lemmas/StackApps.lean`).

The theorems of `Props/C18.lean` are stated for histories the FDL contract (C15) allows.  For the
station model with the live-list / DP-scanner model as its only application the contract is a theorem
(`StackApps.apps_log_is_contract_history`), and every run is regular (`StackApps.apps_run_total`): so
the clauses of C18 hold of the composed systems with no assumption about the FDL layer.
-/
import ProfiVerif.Props.C18
import ProfiVerif.Lemmas.StackApps
import ProfiVerif.Lemmas.StackEx

namespace PV.C18
open PV PV.Apps

/-- The composition asks the application models themselves: the answer handed to the station is the
telegram `LiveList.transmit` / `Scanner.transmit` builds, and the state moves as they say. -/
theorem stack_answer_is_transmit (own : UInt8) (a : Sweep StationEvent) (b : Sweep DpScanEvent) :
    (StackApps.answer fdlStatusRequestHeader own a =
        (match (LiveList.transmit own a).2 with | some (h, pdu) => .send h pdu | none => .decline) ∧
      (LiveList.transmit own a).1 = a.transmit.1) ∧
    (StackApps.answer Scanner.diagRequestHeader own b =
        (match (Scanner.transmit own b).2 with | some (h, pdu) => .send h pdu | none => .decline) ∧
      (Scanner.transmit own b).1 = b.transmit.1) := by
  constructor
  · unfold StackApps.answer LiveList.transmit
    rcases Sweep.transmit a with ⟨s1, o⟩
    cases o <;> exact ⟨rfl, rfl⟩
  · unfold StackApps.answer Scanner.transmit
    rcases Sweep.transmit b with ⟨s1, o⟩
    cases o <;> exact ⟨rfl, rfl⟩

/-- **No panic, composed**: station ∘ live list and station ∘ scanner run regularly for every parameter
set `ParametersBuilder` produces and every sequence of polls (any bytes, PHY flags, times),
`set_online` / `set_offline` and `take_last_event` calls — neither the station nor the application
reaches a panic site — and the callbacks made form a contract history ending in the application's state. -/
theorem stack_livelist_total (R : Nat → Bool) (p : Params) (h1 : p.address < p.hsa) (h2 : p.hsa ≤ 126)
    (calls : List StackApps.Call) :
    ∃ k' l g, StackApps.run llApp fdlStatusRequestHeader (StackApps.init p) calls = .ok (k', l) ∧
      grun llApp p.address R Ghost.init l = .ok g ∧ g.s = k'.a :=
  let ⟨k', l, g, hr, hg, hs, _⟩ := StackApps.apps_run_total llApp_spec StackApps.llHdr_ok R p h1 h2 calls
  ⟨k', l, g, hr, hg, hs⟩

theorem stack_scanner_total (R : Nat → Bool) (p : Params) (h1 : p.address < p.hsa) (h2 : p.hsa ≤ 126)
    (calls : List StackApps.Call) :
    ∃ k' l g, StackApps.run scApp Scanner.diagRequestHeader (StackApps.init p) calls = .ok (k', l) ∧
      grun scApp p.address R Ghost.init l = .ok g ∧ g.s = k'.a :=
  let ⟨k', l, g, hr, hg, hs, _⟩ := StackApps.apps_run_total scApp_spec StackApps.scHdr_ok R p h1 h2 calls
  ⟨k', l, g, hr, hg, hs⟩

/-- **`list_tracks`, composed (live list)**: in any run of station ∘ live list, once the last 126
callbacks the station made agree with the population `pop` of other stations, `iter_stations()` of the
live list yields exactly `pop \ {own}` within 0..125. -/
theorem stack_livelist_list_tracks (pop : Nat → Bool) (p : Params) (h1 : p.address < p.hsa) (h2 : p.hsa ≤ 126)
    (calls : List StackApps.Call) :
    ∃ k' l g, StackApps.run llApp fdlStatusRequestHeader (StackApps.init p) calls = .ok (k', l) ∧
      grun llApp p.address (fun a => pop a && (a != p.address)) Ghost.init l = .ok g ∧
      (126 ≤ g.stable → LiveList.stations k'.a = (List.range 126).filter (fun a => pop a && (a != p.address))) := by
  obtain ⟨k', l, g, hr, hg, hs⟩ := stack_livelist_total (fun a => pop a && (a != p.address)) p h1 h2 calls
  exact ⟨k', l, g, hr, hg, fun hst => by rw [← hs]; exact livelist_list_tracks p.address pop l g hg hst⟩

/-- **`list_tracks`, composed (scanner)**. -/
theorem stack_scanner_list_tracks (R : Nat → Bool) (p : Params) (h1 : p.address < p.hsa) (h2 : p.hsa ≤ 126)
    (calls : List StackApps.Call) :
    ∃ k' l g, StackApps.run scApp Scanner.diagRequestHeader (StackApps.init p) calls = .ok (k', l) ∧
      grun scApp p.address R Ghost.init l = .ok g ∧
      (126 ≤ g.stable → Scanner.stations k'.a = (List.range 126).filter R) := by
  obtain ⟨k', l, g, hr, hg, hs⟩ := stack_scanner_total R p h1 h2 calls
  exact ⟨k', l, g, hr, hg, fun hst => by rw [← hs]; exact scanner_list_tracks_full p.address R l g hg hst⟩

/-- **`events_alternate`, composed**: with events collected after every callback (and, for the live
list, responders that answer status requests with a response telegram), Discovered/Found and Lost
alternate per address in every run of the composed system. -/
theorem stack_events_alternate {ε : Type} {A : App ε} (hS : A.Spec) {hdr : UInt8 → UInt8 → Header}
    (hh : StackApps.HdrOk hdr) (R : Nat → Bool) (p : Params) (h1 : p.address < p.hsa) (h2 : p.hsa ≤ 126)
    (calls : List StackApps.Call) :
    ∃ k' l g, StackApps.run A hdr (StackApps.init p) calls = .ok (k', l) ∧ grun A p.address R Ghost.init l = .ok g ∧
      (g.collected = true → g.goodReplies = true → ∀ w, alt (g.evs w) = true ∧ alt (pendFor A w k'.a ++ g.evs w) = true) := by
  obtain ⟨k', l, g, hr, hg, hs, _⟩ := StackApps.apps_run_total hS hh R p h1 h2 calls
  exact ⟨k', l, g, hr, hg, fun hc hgd w => by rw [← hs]; exact events_alternate hS p.address R l g hg hc hgd w⟩

/-- **`probe_range`, composed**: the address the station is handed next is the cursor, ≤ 125. -/
theorem stack_probe_le {ε : Type} {A : App ε} (hS : A.Spec) {hdr : UInt8 → UInt8 → Header}
    (hh : StackApps.HdrOk hdr) (p : Params) (h1 : p.address < p.hsa) (h2 : p.hsa ≤ 126)
    (calls : List StackApps.Call) :
    ∃ k' l, StackApps.run A hdr (StackApps.init p) calls = .ok (k', l) ∧ k'.a.cursor ≤ 125 ∧ k'.a.stations.length = 128 := by
  obtain ⟨k', l, g, hr, _, hs, hI⟩ := StackApps.apps_run_total hS hh (fun _ => false) p h1 h2 calls
  exact ⟨k', l, hr, by rw [← hs]; exact hI.st.cur, by rw [← hs]; exact hI.st.len⟩

/-! ### Non-vacuity: station 2 claims the token on a silent bus, the live list probes address 0
(answered), the user takes the event, address 1 is probed and times out — and in the same poll the
live list is asked again, in its state AFTER the time-out (it declines and moves its cursor to 2). -/

def sStatus0 : Bytes := [16, 2, 0, 0, 2, 22]

def sCalls : List StackApps.Call :=
  [.setOnline, .poll 0 false [], .poll 100000 false [], .poll 101000 false [], .poll 102000 false [],
   .poll 103000 false [], .poll 104000 false [], .poll 105000 false [], .poll 106000 false [], .poll 107000 false [],
   .poll 108000 false sStatus0, .take, .poll 109000 false [], .poll 110000 false [], .poll 111000 false [],
   .poll 112000 false [], .poll 113000 false []]

/-- Kind and address of an operation (for comparing logs). -/
def opCode : Apps.Op → List Nat
  | .tx => [0]
  | .reply a _ => [1, a]
  | .timeout a => [2, a]
  | .take => [3]

def sCheck : Bool :=
  match StackApps.run llApp fdlStatusRequestHeader (StackApps.init Stack.Ex.params) sCalls with
  | .ok (k, l) =>
    l.map opCode == [[0], [1, 0], [3], [0], [0], [2, 1], [0], [0]] &&
    LiveList.stations k.a == [0] && k.a.cursor == 2
  | _ => false

example : sCheck = true := by decide +kernel

end PV.C18
