/-
C19 — The GSD parser never panics and reproduces what the file says.

Property theorems only; helper lemmas are in `Lemmas/Gsd.lean`.  All statements are about the
interpretation model `Model/Gsd/Interp.lean` (typed AST → description | error | panic), which the
`gsd` correspondence ties — through the unverified PEG transcription `Model/Gsd/Peg.lean` — to
`gsd_parser::parser::parse_with_warnings`.
-/
import ProfiVerif.Lemmas.GsdFaithful5
import ProfiVerif.Model.Gsd.Peg
import ProfiVerif.Lemmas.PegAst
import ProfiVerif.Lemmas.PegFuel
import ProfiVerif.Lemmas.PegTextDesc
import ProfiVerif.Lemmas.PegTextDescAll

namespace PV.C19
open PV.Gsd

/-- **The interpretation never panics.**  For **every** AST — any statement list, any setting key with
any value kind (string where a number is expected and vice versa, number lists, family identifiers),
with or without `(index)`, any number token text (floats, negative, overflowing, empty), any data type
identifier, dangling `Ext_User_Prm_Data_Ref`, unknown `Prm_Text_Ref`, slots without modules — the
interpretation returns a description or an error value.  (Full strength since the repair of finding
F13-gsd-unindexed, /repo 1c3df29.) -/
theorem interp_no_panic (ast : Ast) : interp ast ≠ .panic := by
  unfold interp
  exact Res.safe_bind' (safe_run _ _) fun st => safe_finish st

/-- The former panic witness `Unit_Diag_Bit=1` (a setting that needs an `(index)` but has none) is
now the error "missing value after the index in parentheses" … -/
theorem interp_unindexed_is_error :
    interp [.setting { key := "Unit_Diag_Bit".toList, index := none, value := .num (.dec "1".toList) }] =
      .err .missing := by rfl

/-- … for each of the keys concerned, at top level and inside a module, whenever the first argument
is a number (otherwise the number error comes first). -/
theorem second_missing (s : Setting) (h : s.index = none) : s.second = .err .missing := by
  simp [Setting.second, h]

/-! ### The description is reproduced -/

/-- **Faithfulness of the interpretation layer.**  For every description `d` in the domain of the
canonical printer (`Desc.WF`: integer fields within their Rust types, strings that survive
string-literal unquoting, distinct map keys, slots that name the first module carrying their
reference number, compact stations with `max_modules = 1`, station-wide parameter block of legacy
*or* extended shape) the AST `astOf d` — all identification data, flags, speeds and response times,
one `PrmText`/`ExtUserPrmData` block per referenced parameter definition, the station-wide
parameter block, the modules with config bytes / reference / info text / parameter block, the
slots, the unit-diagnostic bits and areas — is interpreted to exactly `d` (field by field: the
result *is* `d`), including the post-processing of legacy prm data and of compact stations. -/
theorem interp_faithful (d : Desc) (h : d.WF) : ∃ ws, interp (astOf d) = .ok (d, ws) :=
  interp_astOf d h

/-! ### Lexical layer -/

/-- Decimal number token of any natural number under `parse_number::<T>` (`max` = largest value of
`T`): the value; a range error if it does not fit `T`; the digit error if it does not fit `u32`. -/
theorem lex_decimal (max n : Nat) :
    parseTok max (decTok n) =
      if n < 4294967296 then (if n ≤ max then .ok n else .err .range) else .err .digit :=
  parseTok_decTok max n

/-- The same for a hexadecimal token `0x…`. -/
theorem lex_hex (max n : Nat) :
    parseTok max (.hex (hexText n)) =
      if n < 4294967296 then (if n ≤ max then .ok n else .err .range) else .err .digit :=
  parseTok_hexTok max n

/-- Leading zeros do not change the value of a digit string (either radix). -/
theorem lex_leading_zero (r : Nat) (s : Str) : digitsVal r ('0' :: s) 0 = digitsVal r s 0 :=
  digitsVal_leading_zero r s

/-- A negative decimal token is never an unsigned number (it is an error, not a panic). -/
theorem lex_negative_unsigned (max : Nat) (s : Str) : parseTok max (.dec ('-' :: s)) = .err .digit := by
  simp [parseTok, u32_dec_minus]

/-- Signed decimal tokens (`parse_signed_number`): the value if it fits `i64`, otherwise the error. -/
theorem lex_signed (z : Int) :
    parseSignedTok (intTok z) = if I64 z then .ok z else .err .sdigit := by
  by_cases h : I64 z
  · simp [h, parseSignedTok_intTok h]
  · simp [h, parseSignedTok_overflow h]

/-- String literal: backslash-free text interrupted at arbitrary places by `\` LF or `\` CR LF line
continuations unquotes to the text without the continuations. -/
theorem lex_string_continuations (ps : List Piece) (h : ∀ p ∈ ps, p.ok) :
    parseStr (.str (quote (piecesText ps))) = .ok (piecesContent ps) := by
  simp only [parseStr]; rw [unquote_pieces ps h]

/-- Strings in which no backslash stands directly in front of a line break are reproduced exactly. -/
theorem lex_string_plain (s : Str) (h1 : NoOcc ['\\', '\r', '\n'] s) (h2 : NoOcc ['\\', '\n'] s) :
    parseStr (.str (quote s)) = .ok s :=
  parseStr_quote (clean_of_noOcc s h1 h2)

/-- Keyword case: a setting acts through the ASCII-lower-cased key only (top level, inside a module,
data type names). -/
theorem lex_key_case (st : St) (s : Setting) (key' : Str) (h : lower key' = lower s.key) :
    doSetting st { s with key := key' } = doSetting st s :=
  doSetting_key_case st s key' h

theorem lex_key_case_module (st : St) (acc : ModAcc) (s : Setting) (key' : Str) (h : lower key' = lower s.key) :
    moduleSetting st acc { s with key := key' } = moduleSetting st acc s :=
  moduleSetting_key_case st acc s key' h

theorem lex_type_case (a b : Str) (h : lower a = lower b) : dataTypeOfName a = dataTypeOfName b :=
  dataTypeOfName_case a b h

/-! ### The grammar layer -/

/-- **The parser model never panics, end to end.**  For **every** input text the model
`parse = interp ∘ toAst ∘ PEG(gsd.pest)` of `gsd_parser::parser::parse_with_warnings` answers a
description, an error value or (see `parse_fuel_full`) "out of fuel" — never `panic`:
every pair tree the PEG interpreter builds for the grammar *generated from gsd.pest* has the shape
`toAst` (i.e. the `match pair.as_rule()` / `.next().unwrap()` / `assert!` / `unreachable!()` code of
parser.rs) expects, and the interpretation of the resulting AST never panics (`interp_no_panic`).

Proof: `Peg.eval_prod` (for an arbitrary grammar, whatever `eval` produces for an expression is in the
tree language `Prod` of that expression), `Peg.acc_checked` (a kernel-evaluated decision procedure,
sound by `Peg.postE_sound`: the child words of every rule of the generated grammar lie in the regular
language `Peg.acc r` that `toAst` digests — re-evaluated whenever Grammar.lean is regenerated), and
`Peg.toAst_total` (`toAst` is total on such trees). -/
theorem parse_no_panic_full (text : Str) : parse text ≠ some .panic := by
  unfold parse
  split
  · simp
  · simp
  · next tree htree =>
    obtain ⟨hr, hok⟩ := Peg.parseGsd_ok Peg.acc_checked Peg.gsd_not_silent htree
    obtain ⟨ast, hast⟩ := Peg.toAst_total hok hr
    rw [hast]
    simp only [ne_eq, Option.some.injEq]
    exact interp_no_panic ast

/-- Non-vacuity: a text that goes through the PEG, `toAst` and the interpretation. -/
example : (match parse "#Profibus_DP\nVendor_Name = \"x\" ; c\nModule = \"m\" 0x10, 2\n7\nEndModule\n".toList with
    | some (.ok (d, _)) => d.vendor == ['x'] && d.availableModules.length == 1
    | _ => false) = true := by
  decide +kernel

/-- The static recursion depth of the generated grammar is defined (no recursive rule, no repetition
with a possibly empty body — the conditions pest's own validator imposes) and at most 1000; evaluated
by the kernel, re-evaluated whenever Grammar.lean is regenerated. -/
theorem fuel_checked : Peg.fuelCheck 1000 = true := by decide +kernel

/-- **The PEG interpreter never runs out of fuel**: for **every** text the bound `3·len + 1000` used by
`parse` suffices (`Peg.noFuelAt`, for an arbitrary grammar: `eval` needs at most
`depth e + remaining length` levels of recursion, because every level either descends in the
expression / rule nesting or is an iteration of a repetition whose body consumes input). -/
theorem parse_fuel_full (text : Str) : parse text ≠ none := by
  unfold parse
  split
  · next h => exact (Peg.parseGsd_fuel fuel_checked text h).elim
  · simp
  · split <;> simp

/-- **C19, first half, for the model**: for every text the parser model returns a description (with
warnings) or an error value. -/
theorem parse_total (text : Str) :
    (∃ d ws, parse text = some (.ok (d, ws))) ∨ (∃ e, parse text = some (.err e)) := by
  have h1 := parse_no_panic_full text
  have h2 := parse_fuel_full text
  cases h : parse text with
  | none => exact (h2 h).elim
  | some r =>
    cases r with
    | ok v => exact .inl ⟨v.1, v.2, rfl⟩
    | err e => exact .inr ⟨e, rfl⟩
    | panic => exact (h1 h).elim

/-! ### Text level (partial) -/

/-- **Text-level faithfulness, settings sub-language.**  For every non-empty list of *canonical*
settings — key an identifier (letters, digits, `_`, `.`) that no block keyword (`PrmText`, `Module`,
`SlotDefinition`, …) clashes with, optional `(index)`, value a decimal number, a string literal without
inner quotation mark, or a list of at least two decimal numbers — the model parser, run on the text
`#Profibus_DP` + one line `key[(idx)]=value` per setting, answers exactly the interpretation of those
settings: the whole chain text → PEG (generated grammar: `any_text`, `start`, implicit skipping,
the nine block alternatives of `statement` failing, `setting`, `setting_value` with its look-aheads,
`number_list`, `NEWLINE+`, `EOI`) → pair tree → `toAst` → `interp` is proved, for all such texts. -/
theorem text_faithful_settings_partial (s : Setting) (ss : List Setting) (h : ∀ x ∈ s :: ss, Peg.LineCanon x) :
    parse (Peg.fileText ((s :: ss).map Peg.settingItem)) = some (interp ((s :: ss).map Stmt.setting)) :=
  Peg.parse_file fuel_checked s ss h

/-- **The scalar part of every description is reproduced from its text**: identification data,
sizes, feature flags, supported speeds and response times (the 42 settings of `scalarStmts`), written
one per line after `#Profibus_DP`, are parsed — text to description — to the description holding
exactly these values (all other fields as after `Default::default()`), followed by the
post-processing `finish` (legacy prm data, `Max_Module` default, compact-station rule). -/
theorem text_faithful_scalars_partial (d : Desc) (h : ScalarsOk d) (hq : Peg.ScalarsNoQuote d) :
    parse (Peg.scalarText d) =
      some (finish { gsd := scalarsOf d, maxModulesSeen := true, modularSeen := true }) := by
  rw [Peg.parse_scalarText fuel_checked d hq]
  simp only [interp, run_scalars d h]
  rfl

/-- **Text-level faithfulness, all interpreted statement kinds, canonical rendering.**  For every
non-empty list of canonical statements — settings as above, `PrmText … EndPrmText` blocks,
`ExtUserPrmData … EndExtUserPrmData` blocks (data type `Bit(n)` / `BitArea(a-b)` / identifier, default,
optional range or value set, optional `Prm_Text_Ref` / `Changeable` / `Visible` lines),
`Module … EndModule` blocks (name, configuration bytes, optional reference line, setting lines),
`SlotDefinition … EndSlotDefinition` with `Slot(n)="…" d a-b | v1,v2,…` lines and
`Unit_Diag_Area … Unit_Diag_Area_End` blocks — the model parser, run on the canonical text `renderAst`
(`#Profibus_DP`, one statement per line / block, single blanks between tokens that would merge,
LF line ends), answers exactly the interpretation of that statement list. -/
theorem text_faithful_partial (st : Stmt) (rest : Ast) (h : ∀ x ∈ st :: rest, Peg.StmtCanon x) :
    parse (Peg.renderAst (st :: rest)) = some (interp (st :: rest)) :=
  Peg.parse_renderAst fuel_checked st rest h

/-- **`parse (render d) = d` for the canonical rendering**: for every description `d` of the
printer's domain (`Desc.WF`, as in `interp_faithful`) that the canonical text can express
(`Peg.DescCanon`: no quotation mark inside strings, parameter byte lists of at least two bytes,
non-empty module configurations, slot module sets, text tables, enumerations and area value tables),
parsing the canonical text of `d` — text → PEG → pair tree → `toAst` → `interp` — returns exactly `d`. -/
theorem text_faithful_desc_partial (d : Desc) (h : d.WF) (hc : Peg.DescCanon d) :
    ∃ ws, parse (Peg.renderAst (astOf d)) = some (.ok (d, ws)) := by
  obtain ⟨ws, hws⟩ := interp_faithful d h
  refine ⟨ws, ?_⟩
  have hcan := Peg.astOf_canon d hc
  obtain ⟨st, rest, hast⟩ : ∃ st rest, astOf d = st :: rest := ⟨_, _, rfl⟩
  rw [hast] at hcan hws ⊢
  rw [text_faithful_partial st rest hcan, hws]

/-- Hypotheses are satisfiable, and the text is the expected one. -/
def exampleSetting : Setting :=
  { key := "Ext_User_Prm_Data_Const".toList, index := some (.dec ("0".toList)),
    value := .list [.dec ("1".toList), .dec ("-2".toList), .dec ("30".toList)] }

example : Peg.LineCanon exampleSetting := by
  refine ⟨⟨⟨'E', "xt_User_Prm_Data_Const".toList, rfl, by decide⟩, ?_, ⟨by decide, ?_⟩⟩, by decide⟩
  · intro n hn; cases hn; exact ⟨'0', [], .inl rfl, by decide⟩
  · intro n hn
    simp only [List.mem_cons, List.not_mem_nil, or_false] at hn
    rcases hn with rfl | rfl | rfl
    · exact ⟨'1', [], .inl rfl, by decide⟩
    · exact ⟨'2', [], .inr rfl, by decide⟩
    · exact ⟨'3', ['0'], .inl rfl, by decide⟩

example : Peg.fileText ([exampleSetting, { key := "Vendor_Name".toList, index := none, value := .str ("\"x y\"".toList) }].map Peg.settingItem) =
    "#Profibus_DP\nExt_User_Prm_Data_Const(0)=1,-2,30\nVendor_Name=\"x y\"\n".toList := by decide

/-! ### Non-vacuity -/

/-- A description with every kind of content that satisfies `Desc.WF`. -/
def exampleDesc : Desc :=
  { gsdRevision := 3, vendor := "profirust".toList, identNumber := 0x1337, modularStation := true, maxModules := 4,
    speeds := { b9600 := true, b12000000 := true },
    availableModules := [
      { name := "m 1".toList, infoText := some "info".toList, config := [0x30, 0xFF], reference := some 7,
        prm := { length := 3, dataConst := [(0, [5, 0, 0])],
                 dataRef := [(1, { name := "p".toList, dataType := .bitArea 1 2, defaultValue := -5,
                                   constraint := .enum [1, -2], textRef := some [("on".toList, 1), ("off".toList, 0)],
                                   changeable := true, visible := false })] } }],
    slots := [{ name := "slot".toList, number := 1, default := 0, allowed := [0] }],
    userPrmData := { length := 2, dataConst := [(0, [1, 2])] },
    diagBits := [(0, { text := "bad".toList, help := some "help".toList })],
    diagAreas := [{ first := 0, last := 7, values := [(1, "one".toList)] }] }

example : exampleDesc.WF where
  scalars := by constructor <;> decide
  compact := by decide
  defsCount := by decide
  prm := ⟨by decide, by decide, by intro r hr; cases hr⟩
  prmShape := by decide
  modules := by
    intro m hm
    simp only [exampleDesc, List.mem_singleton] at hm
    subst hm
    refine ⟨by decide, by intro t ht; cases ht; decide, by decide, by decide, ⟨by decide, by decide, ?_⟩⟩
    intro r hr
    simp only [List.mem_singleton] at hr
    subst hr
    refine ⟨by decide, ⟨by decide, by decide, by decide, by decide, ?_⟩⟩
    intro m hm
    cases hm
    exact ⟨by decide, by decide⟩
  slots := by
    intro s hs
    simp only [exampleDesc, List.mem_singleton] at hs
    subst hs
    exact ⟨by decide, by decide, ⟨_, 7, rfl, rfl, by decide, rfl⟩, by
      intro i hi
      simp only [List.mem_singleton] at hi
      subst hi
      exact ⟨_, 7, rfl, rfl, by decide, rfl⟩⟩
  bits := ⟨by decide, by
    intro b hb
    simp only [exampleDesc, List.mem_singleton] at hb
    subst hb
    exact ⟨by decide, by decide, by intro h hh; cases hh; decide⟩⟩
  notBits := ⟨by decide, by intro b hb; cases hb⟩
  areas := by
    intro a ha
    simp only [exampleDesc, List.mem_singleton] at ha
    subst ha
    exact ⟨by decide, by decide, by decide, by decide⟩

/-- `exampleDesc` (every kind of content) satisfies the additional hypothesis. -/
example : Peg.DescCanon exampleDesc where
  scalars := by constructor <;> decide
  defs := by
    intro f hf
    simp only [allDefs, moduleDefs, exampleDesc, List.map_nil, List.nil_append, List.flatMap_cons, List.flatMap_nil,
      List.map_cons, List.append_nil, List.mem_singleton] at hf
    subst hf
    exact ⟨by decide, by intro vs hvs; cases hvs; decide,
      by intro m hm; cases hm; exact ⟨by decide, by decide⟩⟩
  prm := by decide
  modules := by
    intro m hm
    simp only [exampleDesc, List.mem_singleton] at hm
    subst hm
    exact ⟨by decide, by decide, by intro t ht; cases ht; decide, by decide⟩
  slots := by decide
  bits := by
    intro b hb
    simp only [exampleDesc, List.mem_singleton] at hb
    subst hb
    exact ⟨by decide, by intro t ht; cases ht; decide⟩
  notBits := by intro b hb; cases hb
  areas := by
    intro a ha
    simp only [exampleDesc, List.mem_singleton] at ha
    subst ha
    exact ⟨by decide, by decide⟩

end PV.C19
