/-
C19 — The GSD parser never panics and reproduces what the file says.

Property theorems only; helper lemmas are in `Lemmas/Gsd.lean`.  All statements are about the
interpretation model `Model/Gsd/Interp.lean` (typed AST → description | error | panic), which the
`gsd` correspondence ties — through the unverified PEG transcription `Model/Gsd/Peg.lean` — to
`gsd_parser::parser::parse_with_warnings`.
-/
import ProfiVerif.Lemmas.Gsd

namespace PV.C19
open PV.Gsd

/-- Full-strength statement: the interpretation never panics, whatever AST the grammar hands over.
**False for the current code** (open finding `K_C19_unindexed`), see `interp_no_panic_counterexample`. -/
def interp_no_panic_full : Prop := ∀ ast : Ast, interp ast ≠ .panic

/-- For **every** AST — any statement list, any setting key with any value kind (string where a
number is expected and vice versa, number lists, family identifiers), any number token text
(floats, negative, overflowing, empty), any data type identifier, dangling `Ext_User_Prm_Data_Ref`,
unknown `Prm_Text_Ref`, slots without modules — the interpretation returns a description or an
error value, *provided* no setting that needs an `(index)` is written without one. -/
theorem interp_no_panic_partial (ast : Ast) (h : hasUnindexed ast = false) : interp ast ≠ .panic := by
  unfold interp
  exact Res.safe_bind' (safe_run _ _ h) fun st => safe_finish st

/-- Contrapositive: the missing index is the *only* way to make the interpretation panic. -/
theorem interp_panic_only_unindexed (ast : Ast) (h : interp ast = .panic) : hasUnindexed ast = true := by
  cases hu : hasUnindexed ast with
  | true => rfl
  | false => exact absurd h (interp_no_panic_partial ast hu)

/-- Witness of the open finding: `Unit_Diag_Bit=1` (after the marker) makes the interpretation panic. -/
def unindexedWitness : Ast :=
  [.setting { key := "Unit_Diag_Bit".toList, index := none, value := .num (.dec "1".toList) }]

theorem interp_no_panic_counterexample : interp unindexedWitness = .panic := by rfl

theorem interp_no_panic_full_false : ¬ interp_no_panic_full :=
  fun h => h unindexedWitness interp_no_panic_counterexample

/-- Non-vacuity: the hypothesis of `interp_no_panic_partial` holds for an AST with ill-typed values,
a dangling reference and an indexed setting. -/
example : hasUnindexed
    [.setting { key := "Vendor_Name".toList, index := none, value := .num (.dec "12".toList) },
     .setting { key := "Ext_User_Prm_Data_Ref".toList, index := some (.dec "0".toList), value := .num (.dec "99".toList) },
     .extPrm { id := .dec "1".toList, name := "\"x\"".toList, typ := .ident "Foo8".toList, default := .hex "0x".toList,
               constraint := none, textRef := some (.dec "7".toList), changeable := none, visible := none }] = false := by
  decide

end PV.C19
