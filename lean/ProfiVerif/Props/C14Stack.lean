/-
C14 for the composed system FDL ∘ DP (`Model/Stack.lean`).

The theorems of `Props/C14.lean` are stated for steps from states reached by contract histories
(`Lemmas/Dp.lean`).  In the composed system — the station model with the DP master model as its only
application — the contract is a theorem (`Stack.station_log_is_contract_history`,
`Lemmas/Stack.lean`): every callback the station makes and every user call in between is such a step.
`stack_reachable` transfers all step theorems of `Props/C14.lean`; the headline clause is restated.
(A separate file because importing the station lemmas into `Props/C14.lean` would make the name
`Inv` ambiguous there.)
-/
import ProfiVerif.Props.C14
import ProfiVerif.Lemmas.StackEx

namespace PV.C14
open PV PV.Dp

theorem stack_reachable {fp : FdlParams} (hfp : FpOk fp) (p : Params)
    (haddr : fp.address.toNat = p.address) {slots : List (Option Peripheral)} (hinit : InitOk fp slots) (gr : Bool)
    (calls : List Stack.Call) {t0 : Int} (ht0 : -(2:Int)^62 < t0) (ht : Stack.TimesOk t0 calls)
    {k' : Stack.State} {l : List Stack.MCall} (h : Stack.run fp (Stack.init p slots gr) calls = .ok (k', l))
    {pre post : List Stack.MCall} {x : Stack.MCall} (hl : l = pre ++ x :: post) :
    ∃ g g', grun fp (G.init slots gr) (pre.map Stack.toOp) = .ok g ∧ gstep fp g (Stack.toOp x) = .ok g' ∧
      Dp.Inv fp g ∧ Inv14 g := by
  obtain ⟨g, g', e1, e2⟩ := Stack.stack_step hfp p haddr hinit gr calls ht0 ht h hl
  obtain ⟨hI, hr⟩ := reachable hfp hinit gr _ e1
  exact ⟨g, g', e1, e2, hI, hr⟩

/-- **`turn_ends` for the composed stack**: in no run of station ∘ master — any parameters
`ParametersBuilder` produces, any peripherals including none, any bytes on the wire, any user calls
between polls — does a `transmit_telegram` callback of the station fail to return or panic. -/
theorem stack_turn_ends {fp : FdlParams} (hfp : FpOk fp) (p : Params) (h1 : p.address < p.hsa) (h2 : p.hsa ≤ 126)
    (haddr : fp.address.toNat = p.address) {slots : List (Option Peripheral)} (hinit : InitOk fp slots) (gr : Bool)
    (calls : List Stack.Call) {t0 : Int} (ht0 : -(2:Int)^62 < t0) (ht : Stack.TimesOk t0 calls) :
    Stack.run fp (Stack.init p slots gr) calls ≠ .masterHang ∧ Stack.run fp (Stack.init p slots gr) calls ≠ .masterPanic :=
  ⟨(Stack.stack_never_panics hfp p h1 h2 haddr hinit gr calls ht0 ht).2.2.1,
   (Stack.stack_never_panics hfp p h1 h2 haddr hinit gr calls ht0 ht).2.1⟩



/-- **`turn_order` / `cycle_completed_once` for the composed stack**: in every run of station ∘ master,
between two consecutive `cycle_completed` reports every occupied slot gets exactly one turn, in
ascending slot order, and there is exactly one report per pass. -/
theorem stack_turn_order {fp : FdlParams} (hfp : FpOk fp) (p : Params)
    (haddr : fp.address.toNat = p.address) {slots : List (Option Peripheral)} (hinit : InitOk fp slots) (gr : Bool)
    (calls : List Stack.Call) {t0 : Int} (ht0 : -(2:Int)^62 < t0) (ht : Stack.TimesOk t0 calls)
    {k' : Stack.State} {l : List Stack.MCall} (h : Stack.run fp (Stack.init p slots gr) calls = .ok (k', l)) :
    ∃ g t, trun fp (G.init slots gr) {} (l.map Stack.toOp) = .ok (g, t) ∧ g.m = k'.m ∧
      (∀ P ∈ t.done, P.reverse = occAll slots) ∧
      t.done.length = reports fp (G.init slots gr) (l.map Stack.toOp) ∧
      ∀ P ∈ t.done, ∀ j, P.count j = if occupied slots j = true then 1 else 0 := by
  obtain ⟨g, hg, hm, -⟩ := Stack.station_log_is_contract_history hfp p haddr hinit gr calls ht0 ht h
  obtain ⟨t, ht'⟩ := turns_total fp slots gr _ hg
  obtain ⟨h1, h2⟩ := cycle_completed_once hfp hinit gr _ ht'
  exact ⟨g, t, ht', hm, (turn_order hfp hinit gr _ ht').1, h1, h2⟩

/-! ### Non-vacuity -/

/-- The concrete composed run `Stack.Ex.calls` is regular and makes `transmit_telegram` callbacks. -/
example : Stack.Ex.runHas (fun _ op _ => match op with | .tx _ _ => true | _ => false) = true := by decide +kernel

end PV.C14
