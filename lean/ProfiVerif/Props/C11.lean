/-
C11 — Token hand-over follows the acceptance, supervision and retry rules (station level).
Function-level theorems about `Model/Station.lean` for every input; the lift over arbitrary poll
sequences rests on the C05 invariant development.
-/
import ProfiVerif.Model.Station

namespace PV.C11
open PV

/-- `accept_from_ps`: `handle_telegram` moves an idle station into `UseToken` only on a token
addressed to it that is the last telegram of its batch and comes from the registered predecessor, or
from the station whose earlier offer was declined (`new_previous_station`). -/
theorem accept_from_ps (c c' : Ctx) (now : Int) (t : Telegram) (isLast : Bool)
    (sr np : Option Nat) (coll : Nat) (hst : c.s.st = .activeIdle sr np coll)
    (h : handleTelegram c now t isLast = .ok c') (d : UseData) (fcd : Bool) (hu : c'.s.st = .useToken d fcd) :
    ∃ da sa, t = .token da sa ∧ da.toNat = c.s.p.address ∧ isLast = true ∧ sa.toNat ≠ c.s.p.address ∧
      (sa.toNat = c.s.ring.ps ∨ np = some sa.toNat) ∧ d = ⟨now, none⟩ ∧ fcd = false := by
  unfold handleTelegram at h
  rw [hst] at h
  simp only at h
  cases t with
  | sc => simp at h; subst h; rw [hst] at hu; cases hu
  | data hd pdu =>
    simp only at h
    split at h
    · split at h
      · cases h; simp [upd] at hu
      · cases h; rw [hst] at hu; cases hu
    · cases h; rw [hst] at hu; cases hu
  | token da sa =>
    simp only at h
    split at h
    · split at h
      · cases h; simp [upd] at hu
      · simp only [tr, toListenToken, upd] at h
        cases h; simp at hu
    · rename_i hsa
      split at h
      · cases h; simp [upd] at hu
      · rename_i hda
        split at h
        · rename_i hps
          simp only [tr, toUseToken, upd] at h
          cases h
          simp at hu
          refine ⟨da, sa, rfl, ?_, ?_, hsa, Or.inl (by simpa [upd] using hps), hu.1.symm, hu.2⟩
          · simp at hda; exact hda.1
          · simp at hda; exact hda.2
        · split at h
          · rename_i hnp
            simp only [tr, toUseToken, upd] at h
            cases h
            simp at hu
            refine ⟨da, sa, rfl, ?_, ?_, hsa, Or.inr hnp, hu.1.symm, hu.2⟩
            · simp at hda; exact hda.1
            · simp at hda; exact hda.2
          · cases h; simp [upd] at hu

/-- `first_offer_declined`: a token for us from a stranger (neither PS nor the pending new PS) changes
nothing but the pending address (and resets the collision counter). -/
theorem first_offer_declined (c : Ctx) (now : Int) (da sa : UInt8) (sr np : Option Nat) (coll : Nat)
    (hst : c.s.st = .activeIdle sr np coll) (hda : da.toNat = c.s.p.address) (hsa : sa.toNat ≠ c.s.p.address)
    (hps : sa.toNat ≠ c.s.ring.ps) (hnp : np ≠ some sa.toNat) :
    handleTelegram c now (.token da sa) true =
      .ok (upd c fun s => { s with st := .activeIdle sr (some sa.toNat) 0 }) := by
  unfold handleTelegram
  rw [hst]
  simp only
  rw [if_neg hsa]
  simp [upd, hda, hps, hnp]

/-- `listener_never_accepts` (function level): while listening, `handle_telegram` ignores everything. -/
theorem listener_ignores (c : Ctx) (now : Int) (t : Telegram) (isLast : Bool) (sr : Option Nat) (coll : Nat)
    (hst : c.s.st = .listenToken sr coll) : handleTelegram c now t isLast = .ok c := by
  unfold handleTelegram; rw [hst]

/-- Collision rule in the ring: a second token carrying our own source address sends the station back
to `ListenToken`; the first one only counts. -/
theorem collision_rule (c : Ctx) (now : Int) (da sa : UInt8) (isLast : Bool) (sr np : Option Nat) (coll : Nat)
    (hst : c.s.st = .activeIdle sr np coll) (hsa : sa.toNat = c.s.p.address) :
    handleTelegram c now (.token da sa) isLast =
      if coll + 1 = 1 then .ok (upd c fun s => { s with st := .activeIdle sr np (coll + 1) })
      else .ok (upd c fun s => { s with st := .listenToken none 0 }) := by
  unfold handleTelegram
  rw [hst]
  simp only
  rw [if_pos hsa]
  split
  · rfl
  · simp [tr, toListenToken, upd]

/-- `pass_supervision`: in `CheckTokenPass` nothing is retransmitted before the slot time has expired
and nothing was received: the poll changes only the lazily initialised activity time-stamp. -/
theorem supervision_waits (c : Ctx) (now : Int) (att : Attempt) (hst : c.s.st = .checkTokenPass att)
    (hrx : c.rx = []) (hne : (checkSlotExpired c.s now).2 = false) :
    doCheckTokenPass c now = .ok { c with s := (checkSlotExpired c.s now).1 } := by
  unfold doCheckTokenPass
  rw [hst]
  simp only [hne, hrx]
  simp [receiveAll, receiveAllFuel, deserialize]

/-- After the third silent attempt exactly the successor is removed from the LAS before the token is
passed on (to the new successor, or kept if the station is alone). -/
theorem third_expiry_removes_successor (c : Ctx) (now : Int) (hst : c.s.st = .checkTokenPass .third)
    (hex : (checkSlotExpired c.s now).2 = true) (r : TokenRing)
    (hr : (checkSlotExpired c.s now).1.ring.removeStation (checkSlotExpired c.s now).1.ring.ns = some r) :
    doCheckTokenPass c now =
      doPassToken { c with s := { (checkSlotExpired c.s now).1 with ring := r, st := .passToken false .first } } now := by
  have hst' : (checkSlotExpired c.s now).1.st = .checkTokenPass .third := by
    unfold checkSlotExpired getOrInsertLast
    cases c.s.lastBusActivity <;> simp [hst]
  unfold doCheckTokenPass
  rw [hst]
  simp only [hex, if_true]
  rw [hr]
  simp [tr, toPassToken, upd, hst', Res.bind]

/-- A first or second expiry only retransmits: the ring view is untouched. -/
theorem earlier_expiry_keeps_ring (c : Ctx) (now : Int) (att : Attempt) (hatt : att ≠ .third)
    (hst : c.s.st = .checkTokenPass att) (hex : (checkSlotExpired c.s now).2 = true) :
    doCheckTokenPass c now =
      doPassToken { c with s := { (checkSlotExpired c.s now).1 with
        st := .passToken false (if att = .first then .second else .third) } } now := by
  have hst' : (checkSlotExpired c.s now).1.st = .checkTokenPass att := by
    unfold checkSlotExpired getOrInsertLast
    cases c.s.lastBusActivity <;> simp [hst]
  unfold doCheckTokenPass
  rw [hst]
  simp only [hex, if_true]
  cases att with
  | first => simp [tr, toPassToken, upd, hst', Res.bind]
  | second => simp [tr, toPassToken, upd, hst', Res.bind]
  | third => exact absurd rfl hatt

/-- Non-vacuity: a concrete idle station (TS = 7, PS = 3) accepts the token from 3 at once and declines
the first offer from 9. -/
def demo : Ctx :=
  { s := { (Station.new { address := 7, rate := 500000, slotBits := 200, ttrBits := 20000, gapWait := 10,
                           hsa := 126, maxRetry := 1, minTsdrBits := 11 }) with
            online := true, st := .activeIdle none none 0,
            ring := { (TokenRing.new 7) with ps := 3, ns := 9, las := .valid } },
    apps := [], rx := [] }

example : (match handleTelegram demo 1000 (.token 7 3) true with
    | .ok c => c.s.st | .panic _ => .offline) = .useToken ⟨1000, none⟩ false := by decide
example : (match handleTelegram demo 1000 (.token 7 9) true with
    | .ok c => c.s.st | .panic _ => .offline) = .activeIdle none (some 9) 0 := by decide

end PV.C11
