/-
C11 — Token hand-over follows the acceptance, supervision and retry rules (station level).
Function-level theorems about `Model/Station.lean` for every input; the lift over arbitrary poll
sequences rests on the C05 invariant development.
-/
import ProfiVerif.Model.Station
import ProfiVerif.Lemmas.StationTrace
import ProfiVerif.Lemmas.PassCount
import ProfiVerif.Lemmas.PassCountNs

namespace PV.C11
open PV

/-- `accept_from_ps`: `handle_telegram` moves an idle station into `UseToken` only on a token
addressed to it that is the last telegram of its batch and comes from the registered predecessor, or
from the station whose earlier offer was declined (`new_previous_station`). -/
theorem accept_from_ps (c c' : Ctx) (now : Int) (t : Telegram) (isLast : Bool)
    (sr np : Option Nat) (coll : Nat) (hst : c.s.st = .activeIdle sr np coll)
    (h : handleTelegram c now t isLast = .ok c') (d : UseData) (fcd : Bool) (hu : c'.s.st = .useToken d fcd) :
    ∃ da sa, t = .token da sa ∧ da.toNat = c.s.p.address ∧ isLast = true ∧ sa.toNat ≠ c.s.p.address ∧
      (sa.toNat = c.s.ring.ps ∨ np = some sa.toNat) ∧ d = ⟨now, none⟩ ∧ fcd = false := by
  unfold handleTelegram at h
  rw [hst] at h
  simp only at h
  cases t with
  | sc => simp at h; subst h; rw [hst] at hu; cases hu
  | data hd pdu =>
    simp only at h
    split at h
    · split at h
      · cases h; simp [upd] at hu
      · cases h; rw [hst] at hu; cases hu
    · cases h; rw [hst] at hu; cases hu
  | token da sa =>
    simp only at h
    split at h
    · split at h
      · cases h; simp [upd] at hu
      · simp only [tr, toListenToken, upd] at h
        cases h; simp at hu
    · rename_i hsa
      split at h
      · cases h; simp [upd] at hu
      · rename_i hda
        split at h
        · rename_i hps
          simp only [tr, toUseToken, upd] at h
          cases h
          simp at hu
          refine ⟨da, sa, rfl, ?_, ?_, hsa, Or.inl (by simpa [upd] using hps), hu.1.symm, hu.2⟩
          · simp at hda; exact hda.1
          · simp at hda; exact hda.2
        · split at h
          · rename_i hnp
            simp only [tr, toUseToken, upd] at h
            cases h
            simp at hu
            refine ⟨da, sa, rfl, ?_, ?_, hsa, Or.inr hnp, hu.1.symm, hu.2⟩
            · simp at hda; exact hda.1
            · simp at hda; exact hda.2
          · cases h; simp [upd] at hu

/-- `first_offer_declined`: a token for us from a stranger (neither PS nor the pending new PS) changes
nothing but the pending address (and resets the collision counter). -/
theorem first_offer_declined (c : Ctx) (now : Int) (da sa : UInt8) (sr np : Option Nat) (coll : Nat)
    (hst : c.s.st = .activeIdle sr np coll) (hda : da.toNat = c.s.p.address) (hsa : sa.toNat ≠ c.s.p.address)
    (hps : sa.toNat ≠ c.s.ring.ps) (hnp : np ≠ some sa.toNat) :
    handleTelegram c now (.token da sa) true =
      .ok (upd c fun s => { s with st := .activeIdle sr (some sa.toNat) 0 }) := by
  unfold handleTelegram
  rw [hst]
  simp only
  rw [if_neg hsa]
  simp [upd, hda, hps, hnp]

/-- `listener_never_accepts` (function level): while listening, `handle_telegram` ignores everything. -/
theorem listener_ignores (c : Ctx) (now : Int) (t : Telegram) (isLast : Bool) (sr : Option Nat) (coll : Nat)
    (hst : c.s.st = .listenToken sr coll) : handleTelegram c now t isLast = .ok c := by
  unfold handleTelegram; rw [hst]

/-- Collision rule in the ring: a second token carrying our own source address sends the station back
to `ListenToken`; the first one only counts. -/
theorem collision_rule (c : Ctx) (now : Int) (da sa : UInt8) (isLast : Bool) (sr np : Option Nat) (coll : Nat)
    (hst : c.s.st = .activeIdle sr np coll) (hsa : sa.toNat = c.s.p.address) :
    handleTelegram c now (.token da sa) isLast =
      if coll + 1 = 1 then .ok (upd c fun s => { s with st := .activeIdle sr np (coll + 1) })
      else .ok (upd c fun s => { s with st := .listenToken none 0 }) := by
  unfold handleTelegram
  rw [hst]
  simp only
  rw [if_pos hsa]
  split
  · rfl
  · simp [tr, toListenToken, upd]

/-- `pass_supervision`: in `CheckTokenPass` nothing is retransmitted before the slot time has expired
and nothing was received: the poll changes only the lazily initialised activity time-stamp. -/
theorem supervision_waits (c : Ctx) (now : Int) (att : Attempt) (hst : c.s.st = .checkTokenPass att)
    (hrx : c.rx = []) (hne : (checkSlotExpired c.s now).2 = false) :
    doCheckTokenPass c now = .ok { c with s := (checkSlotExpired c.s now).1 } := by
  unfold doCheckTokenPass
  rw [hst]
  simp only [hne, hrx]
  simp [receiveAll, receiveAllFuel, deserialize]

/-- After the third silent attempt exactly the successor is removed from the LAS before the token is
passed on (to the new successor, or kept if the station is alone). -/
theorem third_expiry_removes_successor (c : Ctx) (now : Int) (hst : c.s.st = .checkTokenPass .third)
    (hex : (checkSlotExpired c.s now).2 = true) (r : TokenRing)
    (hr : (checkSlotExpired c.s now).1.ring.removeStation (checkSlotExpired c.s now).1.ring.ns = some r) :
    doCheckTokenPass c now =
      doPassToken { c with s := { (checkSlotExpired c.s now).1 with ring := r, st := .passToken false .first } } now := by
  have hst' : (checkSlotExpired c.s now).1.st = .checkTokenPass .third := by
    unfold checkSlotExpired getOrInsertLast
    cases c.s.lastBusActivity <;> simp [hst]
  unfold doCheckTokenPass
  rw [hst]
  simp only [hex, if_true]
  rw [hr]
  simp [tr, toPassToken, upd, hst', Res.bind]

/-- A first or second expiry only retransmits: the ring view is untouched. -/
theorem earlier_expiry_keeps_ring (c : Ctx) (now : Int) (att : Attempt) (hatt : att ≠ .third)
    (hst : c.s.st = .checkTokenPass att) (hex : (checkSlotExpired c.s now).2 = true) :
    doCheckTokenPass c now =
      doPassToken { c with s := { (checkSlotExpired c.s now).1 with
        st := .passToken false (if att = .first then .second else .third) } } now := by
  have hst' : (checkSlotExpired c.s now).1.st = .checkTokenPass att := by
    unfold checkSlotExpired getOrInsertLast
    cases c.s.lastBusActivity <;> simp [hst]
  unfold doCheckTokenPass
  rw [hst]
  simp only [hex, if_true]
  cases att with
  | first => simp [tr, toPassToken, upd, hst', Res.bind]
  | second => simp [tr, toPassToken, upd, hst', Res.bind]
  | third => exact absurd rfl hatt

/-- Non-vacuity: a concrete idle station (TS = 7, PS = 3) accepts the token from 3 at once and declines
the first offer from 9. -/
def demo : Ctx :=
  { s := { (Station.new { address := 7, rate := 500000, slotBits := 200, ttrBits := 20000, gapWait := 10,
                           hsa := 126, maxRetry := 1, minTsdrBits := 11 }) with
            online := true, st := .activeIdle none none 0,
            ring := { (TokenRing.new 7) with ps := 3, ns := 9, las := .valid } },
    apps := [], rx := [] }

example : (match handleTelegram demo 1000 (.token 7 3) true with
    | .ok c => c.s.st | .panic _ => .offline) = .useToken ⟨1000, none⟩ false := by decide
example : (match handleTelegram demo 1000 (.token 7 9) true with
    | .ok c => c.s.st | .panic _ => .offline) = .activeIdle none (some 9) 0 := by decide


/-! ## Lift to whole polls (`Station.poll`, any start state, any arriving bytes, any time, any
application scripts) and to arbitrary API-call sequences

Helper lemmas: `Lemmas/StationTrace.lean`.  The theorems about one poll are conditional on the poll
returning regularly (`.ok c'`) and need no hypothesis on the start state; that it does return
regularly from every state satisfying the station invariant is C05.  The `_trace` forms speak about
every step of every API-call sequence from a fresh station. -/

open C05 TokenRing

/-- **`listener_never_accepts`** (one whole poll, through the whole `do_listen_token` fold over all
received telegrams).  A poll that starts in `ListenToken` — or in `Offline`, from which the first
online poll enters `ListenToken` — ends, whatever bytes arrive and whatever the time is, in
`ListenToken`, in `Offline` (second collision with the own address: the station takes itself off the
bus), in `ClaimToken` (token-lost time-out; first or second claim token), or in `ActiveIdle` — the
latter only by answering a pending FDL status request (start state `ListenToken` with a recorded
requester, a response is transmitted in this poll), never because of a token.  No application is
called.  In particular it never ends holding or passing a token. -/
theorem listener_never_accepts (s : Station) (apps : Apps) (now : Int) (phy : Bool) (rx : Bytes) (c' : Ctx)
    (h : s.poll apps now phy rx = .ok c') (hst : (∃ sr coll, s.st = .listenToken sr coll) ∨ s.st = .offline) :
    c'.calls = [] ∧
    ((∃ a b, c'.s.st = .listenToken a b) ∨ c'.s.st = .offline ∨
     (c'.s.st = .activeIdle none none 0 ∧ (∃ src coll, s.st = .listenToken (some src) coll) ∧ c'.tx.isSome = true) ∨
     c'.s.st = .claimToken .firstToken ∨ c'.s.st = .claimToken .secondToken) := by
  rcases poll_cases s apps now phy rx c' h with ⟨hoff, hst0, rfl⟩ | ⟨hon, rfl⟩ | ⟨hon, hd⟩
  · exact ⟨rfl, .inr (.inl hst0)⟩
  · refine ⟨rfl, .inl ?_⟩
    rcases wake_cases s with hw | ⟨hw, -⟩
    · rw [hw]
      rcases hst with ⟨sr, coll, hs⟩ | hs
      · exact ⟨sr, coll, by simpa [markBusActivity] using hs⟩
      · exfalso
        unfold Station.wake at hw
        rw [hs] at hw
        have := congrArg Station.st hw
        simp [hs] at this
    · rw [hw]; exact ⟨none, 0, by simp [markBusActivity]⟩
  · have fin : ∀ (sr : Option Nat), (sr = none ∨ ∃ coll, s.st = .listenToken sr coll) →
        ListenPost { s := checkBusActivity s.wake now rx.length, apps := apps, rx := rx } c' sr →
        c'.calls = [] ∧
        ((∃ a b, c'.s.st = .listenToken a b) ∨ c'.s.st = .offline ∨
         (c'.s.st = .activeIdle none none 0 ∧ (∃ src coll, s.st = .listenToken (some src) coll) ∧ c'.tx.isSome = true) ∨
         c'.s.st = .claimToken .firstToken ∨ c'.s.st = .claimToken .secondToken) := by
      intro sr hsr hpost
      obtain ⟨hq, -, hs⟩ := hpost
      refine ⟨hq.calls, ?_⟩
      rcases hs with ⟨-, h'⟩ | ⟨-, h'⟩ | ⟨-, h', ⟨src, hsrc⟩, htx⟩ | ⟨-, h' | h'⟩
      · exact .inl h'
      · exact .inr (.inl h')
      · refine .inr (.inr (.inl ⟨h', ?_, htx⟩))
        rcases hsr with hn | ⟨coll, hc⟩
        · rw [hn] at hsrc; cases hsrc
        · exact ⟨src, coll, by rw [← hsrc]; exact hc⟩
      · exact .inr (.inr (.inr (.inl h')))
      · exact .inr (.inr (.inr (.inr h')))
    rcases wake_cases s with hw | ⟨hw, -⟩
    · rcases hst with ⟨sr, coll, hs⟩ | hs
      · exact fin sr (.inr ⟨coll, hs⟩) (hd.listen sr coll ((checkBA_st _ _ _).trans (by rw [hw]; exact hs)))
      · exfalso
        unfold Station.wake at hw
        rw [hs] at hw
        have := congrArg Station.st hw
        simp [hs] at this
    · exact fin none (.inl rfl) (hd.listen none 0 ((checkBA_st _ _ _).trans (by rw [hw])))


/-- … so a listener never ends a poll holding, using, passing or supervising a token. -/
theorem listener_never_holds_token (s : Station) (apps : Apps) (now : Int) (phy : Bool) (rx : Bytes) (c' : Ctx)
    (h : s.poll apps now phy rx = .ok c') (hst : (∃ sr coll, s.st = .listenToken sr coll) ∨ s.st = .offline) :
    (∀ d f, c'.s.st ≠ .useToken d f) ∧ (∀ a d, c'.s.st ≠ .awaitData a d) ∧ (∀ g att, c'.s.st ≠ .passToken g att) ∧
    (∀ att, c'.s.st ≠ .checkTokenPass att) ∧ (∀ a, c'.s.st ≠ .awaitStatus a) := by
  obtain ⟨-, hs⟩ := listener_never_accepts s apps now phy rx c' h hst
  refine ⟨?_, ?_, ?_, ?_, ?_⟩ <;> intros <;> intro hc <;>
    rcases hs with ⟨_, _, h'⟩ | h' | ⟨h', -⟩ | h' | h' <;> rw [h'] at hc <;> cases hc

/-- **`accept_only_from_ps_or_repeat`** (one whole poll).  A poll that starts in `ActiveIdle` (with
pending stranger `np`, the station whose token offer was declined before) and ends in `UseToken` has
received, as the LAST telegram of the batch it read in this poll, a token addressed to this station
from another station that is the registered predecessor at that moment (the acceptance itself does not
touch the ring view, so this is `PS` of the resulting state) or is exactly the pending stranger `np`.
No status request was pending, and the token visit starts fresh (`token_time = now`). -/
theorem accept_only_from_ps_or_repeat (s : Station) (apps : Apps) (now : Int) (phy : Bool) (rx : Bytes) (c' : Ctx)
    (h : s.poll apps now phy rx = .ok c') (sr np : Option Nat) (coll : Nat) (hst : s.st = .activeIdle sr np coll)
    (d : UseData) (fcd : Bool) (hu : c'.s.st = .useToken d fcd) :
    s.online = true ∧ sr = none ∧ d = ⟨now, none⟩ ∧ fcd = false ∧
    ∃ rx' pre da sa ret, receiveAll rx = .done rx' (pre ++ [(Telegram.token da sa, true)]) ret ∧
      da.toNat = s.p.address ∧ sa.toNat ≠ s.p.address ∧ (sa.toNat = c'.s.ring.ps ∨ np = some sa.toNat) := by
  have hw : s.wake = s := by
    rcases wake_cases s with hw | ⟨-, ho | ho⟩
    · exact hw
    · rw [hst] at ho; cases ho
    · rw [hst] at ho; cases ho
  rcases poll_cases s apps now phy rx c' h with ⟨hoff, hst0, rfl⟩ | ⟨hon, rfl⟩ | ⟨hon, hd⟩
  · rw [hst0] at hst; cases hst
  · rw [hw] at hu
    have : s.st = .useToken d fcd := (markBA_st s now).symm.trans hu
    rw [hst] at this; cases this
  · rw [hw] at hd
    obtain ⟨-, -, -, hs⟩ := hd.idle sr np coll ((checkBA_st _ _ _).trans hst)
    rcases hs with ⟨_, _, _, h'⟩ | ⟨_, _, h'⟩ | (h' | h') | ⟨hsr, rx', pre, da, sa, ret, hrx, hda, hsa, hsrc, h'⟩
    · rw [h'] at hu; cases hu
    · rw [h'] at hu; cases hu
    · rw [h'] at hu; cases hu
    · rw [h'] at hu; cases hu
    · rw [h'] at hu; cases hu
      have hp : (checkBusActivity s now rx.length).p = s.p := checkBA_p _ _ _
      exact ⟨hon, hsr, rfl, rfl, rx', pre, da, sa, ret, hrx, by rw [← hp]; exact hda, by rw [← hp]; exact hsa, hsrc⟩

/-- **`pass_supervision`** (one whole poll starting in `CheckTokenPass`): exactly three things can
happen.  (1) Nothing: the own transmission is still on the wire, or the slot time has not expired and
no complete telegram has arrived — state, ring view unchanged, nothing transmitted.  (2) The slot time
expired in silence (`SlotExpired`, see `slotExpired_silent`): on the first and second expiry the token
is retransmitted with the ring view untouched, on the third expiry exactly NS is removed first
(`RetryStep`); then either the synchronisation pause is still awaited (`PassToken`), or the token goes
out to the (new) NS, the own pass is witnessed, and the station supervises again — or keeps the token if
it is now alone.  (3) A complete telegram was heard before the slot time expired: the station goes to
`ActiveIdle` handling (it may end in `ActiveIdle`, in `ListenToken` after a second collision, or accept
a token from its registered predecessor as last telegram), the ring view changes ONLY by witnessing
token telegrams of the received batch — no station is removed by supervision — and nothing is
retransmitted.  No application is ever called. -/
theorem pass_supervision (s : Station) (apps : Apps) (now : Int) (phy : Bool) (rx : Bytes) (c' : Ctx)
    (h : s.poll apps now phy rx = .ok c') (att : Attempt) (hst : s.st = .checkTokenPass att) :
    c'.calls = [] ∧
    ((c'.s.st = .checkTokenPass att ∧ c'.s.ring = s.ring ∧ c'.tx = none) ∨
     (SlotExpired s now rx ∧ ∃ r0 att', RetryStep s.ring att att' r0 ∧
        ((c'.s.st = .passToken false att' ∧ c'.s.ring = r0 ∧ c'.tx = none) ∨
         (c'.s.ring = r0.witness s.p.address r0.ns ∧
            (c'.s.st = .useToken ⟨now, none⟩ false ∨ c'.s.st = .checkTokenPass att') ∧
            c'.tx = some (sendToken (UInt8.ofNat r0.ns) (UInt8.ofNat s.p.address))))) ∨
     (¬ SlotExpired s now rx ∧ ∃ rx' calls ret, receiveAll rx = .done rx' calls ret ∧ calls ≠ [] ∧
        HeardEvo calls s.ring c'.s.ring ∧ c'.tx = none ∧
        ((∃ sr' np' coll', c'.s.st = .activeIdle sr' np' coll') ∨ (∃ a b, c'.s.st = .listenToken a b) ∨
         (∃ pre da sa, calls = pre ++ [(Telegram.token da sa, true)] ∧ da.toNat = s.p.address ∧
            sa.toNat ≠ s.p.address ∧ sa.toNat = c'.s.ring.ps ∧ c'.s.st = .useToken ⟨now, none⟩ false)))) := by
  have hw : s.wake = s := by
    rcases wake_cases s with hw | ⟨-, ho | ho⟩
    · exact hw
    · rw [hst] at ho; cases ho
    · rw [hst] at ho; cases ho
  rcases poll_cases s apps now phy rx c' h with ⟨hoff, hst0, rfl⟩ | ⟨hon, rfl⟩ | ⟨hon, hd⟩
  · exact ⟨rfl, .inl ⟨hst, rfl, rfl⟩⟩
  · rw [hw]
    exact ⟨rfl, .inl ⟨(markBA_st s now).trans hst, markBA_ring s now, rfl⟩⟩
  · rw [hw] at hd
    obtain ⟨hq, -, hcase⟩ := hd.check att ((checkBA_st _ _ _).trans hst)
    have hp : (checkBusActivity s now rx.length).p = s.p := checkBA_p _ _ _
    have hr : (checkBusActivity s now rx.length).ring = s.ring := checkBA_ring _ _ _
    refine ⟨hq.calls, ?_⟩
    rcases hcase with ⟨hex, r0, att', hrs, hpost⟩ | ⟨hex, rx', calls, ret, hrx, hpost⟩
    · refine .inr (.inl ⟨hex, r0, att', by rw [← hr]; exact hrs, ?_⟩)
      rcases hpost with ⟨h1, h2, h3⟩ | ⟨h1, h2, h3⟩
      · exact .inl ⟨h1, h2, h3⟩
      · exact .inr ⟨by rw [← hp]; exact h1, h2, by rw [← hp]; exact h3⟩
    · rcases hpost with ⟨-, h1, h2, h3⟩ | ⟨hne, hev, htx, hs⟩
      · exact .inl ⟨h1, h2.trans hr, h3⟩
      · refine .inr (.inr ⟨by unfold SlotExpired; rw [hex]; simp, rx', calls, ret, hrx, hne, by rw [← hr]; exact hev, htx, ?_⟩)
        · rcases hs with h' | h' | ⟨pre, da, sa, hc, hda, hsa, hps, hu⟩
          · exact .inl h'
          · exact .inr (.inl h')
          · exact .inr (.inr ⟨pre, da, sa, hc, by rw [← hp]; exact hda, by rw [← hp]; exact hsa, hps, hu⟩)


/-- Registered bus activity blocks the expiry: if a new byte has become pending since the last poll,
the slot time is not expired in this poll — nothing is retransmitted, nobody is removed. -/
theorem activity_blocks_expiry (s : Station) (now : Int) (rx : Bytes) (h : rx.length > s.pendingBytes) :
    ¬ SlotExpired s now rx := by
  intro he
  have := (slotExpired_silent s now rx he).1
  omega

/-- **`never_remove_heard`** (one whole poll, ANY start state).  Across a poll the ring view evolves
without any `remove_station` — only by witnessed token passes (heard or own), a successor entered
after a positive GAP reply, the claim, or the reset when the station takes itself offline (`RingEvo`)
— except in a poll that starts online in `CheckTokenPass` on the THIRD attempt with the slot time
expired in silence: no new byte pending since the last poll and the last registered bus activity more
than a slot time ago.  Then exactly NS is removed (followed, if the synchronisation pause is over, by
the witnessed pass to the new NS).  A successor from which any activity was registered within the slot
time is therefore never removed by supervision. -/
theorem never_remove_heard (s : Station) (apps : Apps) (now : Int) (phy : Bool) (rx : Bytes) (c' : Ctx)
    (h : s.poll apps now phy rx = .ok c') :
    RingEvo s.p.address s.ring c'.s.ring ∨
    (s.online = true ∧ s.st = .checkTokenPass .third ∧
      (rx.length ≤ s.pendingBytes ∧ ∃ l, s.lastBusActivity = some l ∧ l + (s.p.slotTime : Nat) < now) ∧
      ∃ r0, s.ring.removeStation s.ring.ns = some r0 ∧
        (c'.s.ring = r0 ∨ c'.s.ring = r0.witness s.p.address r0.ns)) := by
  rcases poll_ring s apps now phy rx c' h with hr | ⟨hon, hst, hex, hrm⟩
  · exact .inl hr
  · exact .inr ⟨hon, hst, slotExpired_silent s now rx hex, hrm⟩

/-- **Trace form** of the hand-over rules: after ANY sequence `pre` of `poll` / `set_online` /
`set_offline` calls from a fresh station, the next call `a` does not panic, and if it is a poll then,
with respect to the state `w` the station is in at that moment: a listener does not accept
(`listener_never_accepts`), an idle station accepts only from PS or the pending stranger
(`accept_only_from_ps_or_repeat`), and the ring view loses a station by supervision only on a silent
third expiry (`never_remove_heard`); `set_online` leaves the ring view alone and `set_offline` resets
it. -/
theorem handover_trace (p : Params) (apps : Apps) (h1 : p.address < p.hsa) (h2 : p.hsa ≤ 126)
    (hs : ScriptsOk apps) (pre : List ApiCall) (a : ApiCall) :
    ∃ w w' l, World.run { s := Station.new p, apps := apps, rx := [] } pre = some w ∧ w.stepLog a = some (w', l) ∧
      -- ring view
      (RingEvo w.s.p.address w.s.ring w'.s.ring ∨
        (∃ now phy arrived, a = .poll now phy arrived ∧ w.s.online = true ∧ w.s.st = .checkTokenPass .third ∧
          ((w.rx ++ arrived).length ≤ w.s.pendingBytes ∧
            ∃ l0, w.s.lastBusActivity = some l0 ∧ l0 + (w.s.p.slotTime : Nat) < now) ∧
          ∃ r0, w.s.ring.removeStation w.s.ring.ns = some r0 ∧
            (w'.s.ring = r0 ∨ w'.s.ring = r0.witness w.s.p.address r0.ns))) ∧
      -- listeners
      (((∃ sr coll, w.s.st = .listenToken sr coll) ∨ w.s.st = .offline) →
        (∀ d f, w'.s.st ≠ .useToken d f) ∧ (∀ x d, w'.s.st ≠ .awaitData x d) ∧ (∀ g att, w'.s.st ≠ .passToken g att) ∧
        (∀ att, w'.s.st ≠ .checkTokenPass att) ∧ (∀ x, w'.s.st ≠ .awaitStatus x)) ∧
      -- acceptance
      (∀ sr np coll d fcd, w.s.st = .activeIdle sr np coll → w'.s.st = .useToken d fcd →
        ∃ now phy arrived rx' pre' da sa ret, a = .poll now phy arrived ∧
          receiveAll (w.rx ++ arrived) = .done rx' (pre' ++ [(Telegram.token da sa, true)]) ret ∧
          da.toNat = w.s.p.address ∧ sa.toNat ≠ w.s.p.address ∧ (sa.toNat = w'.s.ring.ps ∨ np = some sa.toNat)) := by
  obtain ⟨w, w', l, hw, -, hl⟩ := reach_step p apps h1 h2 hs pre a
  refine ⟨w, w', l, hw, hl, ?_⟩
  cases a with
  | poll now phy arrived =>
    simp only [World.stepLog] at hl
    split at hl
    · rename_i c hc
      cases hl
      refine ⟨?_, ?_, ?_⟩
      · rcases never_remove_heard _ _ _ _ _ _ hc with hr | ⟨e1, e2, e3, e4⟩
        · exact .inl hr
        · exact .inr ⟨now, phy, arrived, rfl, e1, e2, e3, e4⟩
      · intro hst
        exact listener_never_holds_token _ _ _ _ _ _ hc hst
      · intro sr np coll d fcd hst hu
        obtain ⟨-, -, -, -, rx', pre', da, sa, ret, e1, e2, e3, e4⟩ :=
          accept_only_from_ps_or_repeat _ _ _ _ _ _ hc sr np coll hst d fcd hu
        exact ⟨now, phy, arrived, rx', pre', da, sa, ret, rfl, e1, e2, e3, e4⟩
    · cases hl
  | setOnline =>
    cases hl
    refine ⟨.inl (.refl _), ?_, ?_⟩
    · intro hst
      have hsame : (w.s.setOnline).st = w.s.st := rfl
      refine ⟨?_, ?_, ?_, ?_, ?_⟩ <;> intros <;> intro hc <;> rw [hsame] at hc <;>
        rcases hst with ⟨_, _, h'⟩ | h' <;> rw [h'] at hc <;> cases hc
    · intro sr np coll d fcd hst hu
      have hsame : (w.s.setOnline).st = w.s.st := rfl
      rw [hsame, hst] at hu; cases hu
  | setOffline =>
    cases hl
    obtain ⟨f1, f2, f3, f4⟩ := setOffline_fields w.s
    refine ⟨.inl ?_, ?_, ?_⟩
    · show RingEvo w.s.p.address w.s.ring w.s.setOffline.ring
      rw [f4]; exact .reset _
    · intro _
      refine ⟨?_, ?_, ?_, ?_, ?_⟩ <;> intros <;> intro hc <;>
        (have hc' : w.s.setOffline.st = _ := hc) <;> rw [f3] at hc' <;> cases hc'
    · intro sr np coll d fcd _ hu
      have hu' : w.s.setOffline.st = _ := hu
      rw [f3] at hu'; cases hu'

/-! ### Non-vacuity -/

/-- An idle station (TS 7, PS 3) polled with the bytes of a token 3→7: the poll accepts it — the
hypotheses of `accept_only_from_ps_or_repeat` are satisfiable. -/
def idleStation : Station := { demo.s with lastBusActivity := some 0 }

set_option maxRecDepth 100000 in
example : (match idleStation.poll [] 1000 false [0xDC, 7, 3] with
    | .ok c => c.s.st | .panic _ => .offline) = .useToken ⟨1000, none⟩ false := by decide

/-- A supervising station on its third attempt, silent for more than a slot time (400 µs): the poll
removes NS = 9 — the exceptional case of `never_remove_heard` does occur. -/
def supervisingStation : Station := { demo.s with st := .checkTokenPass .third, lastBusActivity := some 0 }

set_option maxRecDepth 100000 in
example : (match supervisingStation.poll [] 1000 false [] with
    | .ok c => (c.s.st, c.s.ring.ns, c.s.ring.isActive 9) | .panic _ => (.offline, 0, true)) =
    (.useToken ⟨1000, none⟩ false, 7, false) := by decide

/-- … and with a byte newly pending it does not (`activity_blocks_expiry`): nothing changes. -/
example : ¬ SlotExpired supervisingStation 1000 [0xDC] := activity_blocks_expiry _ _ _ (by decide)

/-- The trace theorem instantiated on a concrete history. -/
example := handover_trace demoParams [[.decline]] (by decide) (by decide)
    (by intro s hs a ha h pdu he; simp at hs; subst hs; simp at ha; subst ha; cases he)
    [.setOnline, .poll 100 false [0xDC, 7, 3], .poll 100000 false []] (.poll 100500 false [])

/-! ## Counting form of pass supervision ("repeats the token at most twice, then removes NS")

Helper lemmas: `Lemmas/PassCount.lean`.  `sent st` is the STAGE of a pass read off the FDL state: the
number of transmissions of the token to the current successor in the pass under supervision
(`CheckTokenPass(att)` ↦ 1/2/3; `PassToken(false, second/third)` — slot expired, repetition waits for
the synchronisation pause — ↦ 1/2; every other state ↦ 0).  `SameRun w ins txs w'` is a run of
consecutive polls `ins` from `w` to `w'` each of which starts inside a pass (stage ≥ 1) and does not
end it (stage does not drop); `txs` lists everything handed to the PHY in the run, each with the
successor registered at that moment.

Full statement wanted (for reference; proved below in the pieces `pass_count_step`, `pass_count_run`,
`removal_needs_three`, `pass_counting`, with two qualifications stated at `pass_counting`):
in a maximal run of polls supervising one pass, entered by the poll that transmitted the token to NS
and went to `CheckTokenPass(first)`: (1) the token to that NS is transmitted at most three times, each
repetition the identical telegram, attempts advancing first → second → third; (2) NS is removed only by
the poll following the third transmission and a silent slot; (3) registered bus activity in the run
excludes a removal in the run — (3) is FALSE of the model (and of the code) in this form, see
`activity_only_delays_removal`; its true forms are `activity_blocks_expiry` (per poll) and the `heard`
exit of `pass_counting` (a complete telegram heard ends the pass without removal). -/

/-- **`pass_count_step`** (one whole poll from ANY state with a pass under supervision, any bytes, any
time): the counter invariant step.  Either nothing is transmitted and stage and ring view are
unchanged (`wait`); or the stage was < 3 and the token telegram TS → NS is transmitted once more and
the stage grows by exactly one — or the station finds itself alone and keeps the token — the ring view
changing only by the record of the own pass (`retry`); or a complete telegram was heard before the slot
time expired: nothing transmitted, pass over, ring view changed by witnessed tokens only (`heard`); or
the start state is `CheckTokenPass(third)` — stage 3 — with the slot time expired in silence and
exactly NS is removed (`removed`). -/
theorem pass_count_step (s : Station) (apps : Apps) (now : Int) (phy : Bool) (rx : Bytes) (c' : Ctx)
    (h : s.poll apps now phy rx = .ok c') (hin : sent s.st ≠ 0) : PassStep s now rx c' :=
  pass_step s apps now phy rx c' h hin

/-- The stage is the attempt number while the bus is watched: the ghost count of transmissions is tied
to the `Attempt` of the state. -/
theorem stage_is_attempt (att : Attempt) :
    sent (.checkTokenPass att) = att.ord ∧ (att.ord = 1 ↔ att = .first) ∧ (att.ord = 2 ↔ att = .second) ∧
    (att.ord = 3 ↔ att = .third) := by
  cases att <;> simp [sent, Attempt.ord]

/-- **`pass_count_run`** (claim (1), any run of polls inside one pass, any times, any bytes, any
applications).  Start in `CheckTokenPass(first)` — the first transmission is out.  Then the run
contains at most TWO further transmissions; each is exactly the token telegram from TS to the successor
registered at that moment (nothing else is ever handed to the PHY in the run); after `k` of them the
stage is `1 + k` — so the attempts advance strictly first → second → third, one step per
transmission; the parameters are unchanged and the ring view has changed only by recording the own
passes (no removal inside the run). -/
theorem pass_count_run {w w' : World} {ins : List PollIn} {txs : List (Nat × Bytes)}
    (h : SameRun w ins txs w') (hst : w.s.st = .checkTokenPass .first) :
    txs.length ≤ 2 ∧ sent w'.s.st = 1 + txs.length ∧
    (∀ e ∈ txs, e.2 = tokenTo w.s.p.address e.1) ∧
    (∀ ns, (∀ e ∈ txs, e.1 = ns) → ∀ e ∈ txs, e.2 = [SD4, UInt8.ofNat ns, UInt8.ofNat w.s.p.address]) ∧
    w'.s.p = w.s.p ∧ OwnEvo w.s.p.address w.s.ring w'.s.ring := by
  obtain ⟨h1, h2, h3, h4⟩ := passCount_run h
  have hle := passCount_le h
  rw [hst] at h1 hle
  refine ⟨by simp [sent, Attempt.ord] at hle; omega, by simpa [sent, Attempt.ord] using h1, h3, ?_, h2, h4⟩
  intro ns hns e he
  rw [h3 e he, hns e he]; rfl

/-- **`removal_needs_three`** (claim (2)).  After a run inside one pass that started in
`CheckTokenPass(first)`, consider ANY next poll.  Either the ring view evolves without any
`remove_station` (`RingEvo`: witnessed passes only), or — the removal — the run contained exactly two
repetitions, i.e. the token has been transmitted to this successor exactly THREE times (the entering
transmission and the two in `txs`, all token telegrams TS → NS), the state is `CheckTokenPass(third)`,
no new byte has become pending and the last registered bus activity lies more than a slot time back,
and exactly NS is removed.  A successor is never removed after fewer than three transmissions. -/
theorem removal_needs_three {w w1 w2 : World} {ins : List PollIn} {txs : List (Nat × Bytes)} {i : PollIn}
    {tx : Option Bytes} (hrun : SameRun w ins txs w1) (hst : w.s.st = .checkTokenPass .first)
    (hp : w1.pollTx i = some (w2, tx)) :
    RingEvo w1.s.p.address w1.s.ring w2.s.ring ∨
    (txs.length = 2 ∧ (∀ e ∈ txs, e.2 = tokenTo w.s.p.address e.1) ∧ w1.s.st = .checkTokenPass .third ∧
      ((w1.rx ++ i.arrived).length ≤ w1.s.pendingBytes ∧
        ∃ l, w1.s.lastBusActivity = some l ∧ l + (w1.s.p.slotTime : Nat) < i.now) ∧
      ∃ r0, w1.s.ring.removeStation w1.s.ring.ns = some r0 ∧
        (w2.s.ring = r0 ∨ w2.s.ring = r0.witness w1.s.p.address r0.ns)) := by
  obtain ⟨c, hc, hs, rfl⟩ := pollTx_inv hp
  rw [hs]
  rcases never_remove_heard _ _ _ _ _ _ hc with hr | ⟨-, h3, hsil, hrm⟩
  · exact .inl hr
  · obtain ⟨-, h1, h2, -⟩ := pass_count_run hrun hst
    rw [h3] at h1
    exact .inr ⟨by simp [sent, Attempt.ord] at h1; omega, h2, h3, hsil, hrm⟩

/-- **`pass_counting`** (whole histories).  From ANY state satisfying the station invariant that has
just entered `CheckTokenPass(first)`, and for EVERY list of further polls (any times, any arriving
bytes, any scripted applications): no poll panics, and the list splits into the maximal run `pre`
supervising this pass and a rest `post` such that
(1) in `pre` the token is repeated at most twice, nothing but the token telegram TS → NS is
    transmitted, and the stage is `1 +` the number of repetitions;
(2)/(3) `post` is empty (the history ends inside the pass), or its first poll ends the pass in one of
    exactly three ways: a complete telegram was heard before the slot time expired — nothing
    transmitted, ring view changed by witnessed tokens only, NO removal; or the station found itself
    alone after a repetition and keeps the token — no removal; or exactly two repetitions have been
    made (three transmissions in all), the station is in `CheckTokenPass(third)`, the slot time has
    expired in silence, and exactly NS is removed.
Qualifications: the entering transmission itself is represented by the start state (stage 1), not by
a log entry; that recording the own pass leaves NS unchanged (so that all repetitions carry the same
DA) is not derived here — each entry of `txs` carries the NS registered when it was sent. -/
theorem pass_counting (w : World) (hi : Inv w.s w.apps) (hst : w.s.st = .checkTokenPass .first) (ins : List PollIn) :
    ∃ pre post txs w1, ins = pre ++ post ∧ SameRun w pre txs w1 ∧
      txs.length ≤ 2 ∧ sent w1.s.st = 1 + txs.length ∧ (∀ e ∈ txs, e.2 = tokenTo w.s.p.address e.1) ∧
      OwnEvo w.s.p.address w.s.ring w1.s.ring ∧
      (post = [] ∨ ∃ i rest w2 tx, post = i :: rest ∧ w1.pollTx i = some (w2, tx) ∧
        PassEnd w1.s i.now (w1.rx ++ i.arrived) w2.s tx ∧
        (w1.s.st = .checkTokenPass .third → txs.length = 2)) := by
  obtain ⟨pre, post, txs, w1, e, hrun, -, hpost⟩ := sameRun_maximal ins w hi
  obtain ⟨h1, h2, h3, -, -, h6⟩ := pass_count_run hrun hst
  refine ⟨pre, post, txs, w1, e, hrun, h1, h2, h3, h6, ?_⟩
  rcases hpost with hp | hp | ⟨i, rest, w2, tx, e2, hp, -, hdrop⟩
  · exact .inl hp
  · omega
  · refine .inr ⟨i, rest, w2, tx, e2, hp, pass_end hp hdrop, ?_⟩
    intro h3'
    rw [h3'] at h2
    simp [sent, Attempt.ord] at h2; omega

/-- In `pass_counting` the removal exit (`PassEnd.removed`) requires `CheckTokenPass(third)`, hence
exactly two repetitions: spelled out. -/
theorem removed_after_three {w w1 : World} {ins : List PollIn} {txs : List (Nat × Bytes)}
    (hrun : SameRun w ins txs w1) (hst : w.s.st = .checkTokenPass .first)
    {now : Int} {rx : Bytes} {s' : Station} {tx : Option Bytes} (he : PassEnd w1.s now rx s' tx) :
    (∃ r0, w1.s.ring.removeStation w1.s.ring.ns = some r0 ∧ txs.length = 2 ∧ SlotExpired w1.s now rx ∧
        (s'.ring = r0 ∨ s'.ring = r0.witness w1.s.p.address r0.ns)) ∨
    (txs.length ≤ 2 ∧ ((∃ rx' calls ret, receiveAll rx = .done rx' calls ret ∧ calls ≠ [] ∧
        HeardEvo calls w1.s.ring s'.ring) ∨ s'.ring = w1.s.ring.witness w1.s.p.address w1.s.ring.ns)) := by
  obtain ⟨h1, h2, -⟩ := pass_count_run hrun hst
  rcases he with ⟨-, -, -, hr⟩ | ⟨-, -, hr, -⟩ | ⟨h3, hex, r0, hr0, hr⟩
  · exact .inr ⟨h1, .inl hr⟩
  · exact .inr ⟨h1, .inr hr⟩
  · rw [h3] at h2
    refine .inl ⟨r0, hr0, by simp [sent, Attempt.ord] at h2; omega, hex, ?_⟩
    rcases hr with ⟨-, hr, -⟩ | ⟨hr, -⟩
    · exact .inl hr
    · exact .inr hr

/-! ### Concrete executable witnesses -/

/-- Stage, transmitted bytes, registered NS and "is 9 still in the LAS" after each poll of a list. -/
def stageTrace (w : World) : List PollIn → List (Nat × Option Bytes × Nat × Bool)
  | [] => []
  | i :: rest => match w.pollTx i with
    | some (w1, tx) => (sent w1.s.st, tx, w1.s.ring.ns, w1.s.ring.isActive 9) :: stageTrace w1 rest
    | none => []

/-- TS 7 in a ring 3 → 7 → 9 (LAS valid), about to pass the token for the first time. -/
def passRing3 : TokenRing := (({ (TokenRing.new 7) with las := .valid }).witness 9 3).witness 3 7

def passDemo : World :=
  { s := { demo.s with ring := passRing3, st := .passToken false .first, lastBusActivity := some 0 }, apps := [], rx := [] }

set_option maxRecDepth 100000 in
/-- Silent successor: the token `DC 09 07` goes out exactly three times (stages 1, 2, 3), and only the
poll after the third silent slot removes 9 from the LAS and passes to the next station, 3. -/
example : stageTrace passDemo [⟨1000, false, []⟩, ⟨1100, false, []⟩, ⟨1500, false, []⟩, ⟨1600, false, []⟩,
      ⟨2000, false, []⟩, ⟨2500, false, []⟩] =
    [(1, some [0xDC, 9, 7], 9, true), (1, none, 9, true), (2, some [0xDC, 9, 7], 9, true), (2, none, 9, true),
     (3, some [0xDC, 9, 7], 9, true), (1, some [0xDC, 3, 7], 3, false)] := by rfl

set_option maxRecDepth 100000 in
/-- **`activity_only_delays_removal`** — claim (3) in the form "if bus activity is registered during
the run, no removal happens in that run" is FALSE of the model (as of `active.rs`): a stray byte `55`
registered at t = 1600 restarts the slot timer (the poll at 2000 does not expire), but it is not a
telegram; the supervision goes on, the third transmission happens at 2100 and 9 is removed at 3000 —
still after exactly three transmissions.  What does hold: the poll that registers activity does not
expire (`activity_blocks_expiry`), and a complete telegram heard ends the pass without removal. -/
theorem activity_only_delays_removal :
    stageTrace passDemo [⟨1000, false, []⟩, ⟨1100, false, []⟩, ⟨1500, false, []⟩, ⟨1600, false, [0x55]⟩,
      ⟨2000, false, []⟩, ⟨2100, false, []⟩, ⟨2500, false, []⟩, ⟨3000, false, []⟩] =
    [(1, some [0xDC, 9, 7], 9, true), (1, none, 9, true), (2, some [0xDC, 9, 7], 9, true), (2, none, 9, true),
     (2, none, 9, true), (3, some [0xDC, 9, 7], 9, true), (3, none, 9, true), (1, some [0xDC, 3, 7], 3, false)] := by rfl

/-- A complete telegram heard (token 9 → 11) ends the pass after one transmission: no repetition, 9
stays in the LAS. -/
example : stageTrace passDemo [⟨1000, false, []⟩, ⟨1100, false, [0xDC, 11, 9]⟩, ⟨1500, false, []⟩] =
    [(1, some [0xDC, 9, 7], 9, true), (0, none, 9, true), (0, none, 9, true)] := by rfl

/-- Non-vacuity of `pass_counting` / `pass_count_run` / `removal_needs_three`: a state satisfying the
station invariant that has just entered `CheckTokenPass(first)` (the state `passDemo` is in after its
first poll, up to the time-stamps). -/
def checkDemo : World :=
  { s := { demo.s with ring := passRing3, st := .checkTokenPass .first, lastBusActivity := some 1066 }, apps := [], rx := [] }

theorem checkDemo_inv : Inv checkDemo.s checkDemo.apps where
  addr := by decide
  hsa := by decide
  ring := ⟨by decide, by decide⟩
  off := fun h => absurd h (by decide)
  gap := fun cur h => by cases h; decide
  await1 := fun a h => by cases h
  await2 := fun a h => by cases h
  app := fun h => absurd h (by decide)
  appWait := fun a d h => by cases h
  scripts := fun s hs => by cases hs
  noPassive := fun h => by cases h

example := pass_counting checkDemo checkDemo_inv rfl
  [⟨1100, false, []⟩, ⟨1500, false, []⟩, ⟨1600, false, []⟩, ⟨2000, false, []⟩, ⟨2500, false, []⟩]

set_option maxRecDepth 100000 in
/-- … and from it the silent history makes exactly the two repetitions and then removes 9. -/
example : stageTrace checkDemo [⟨1100, false, []⟩, ⟨1500, false, []⟩, ⟨1600, false, []⟩, ⟨2000, false, []⟩,
      ⟨2500, false, []⟩] =
    [(1, none, 9, true), (2, some [0xDC, 9, 7], 9, true), (2, none, 9, true),
     (3, some [0xDC, 9, 7], 9, true), (1, some [0xDC, 3, 7], 3, false)] := by rfl

/-- **`repetitions_identical`** (the "identical telegram" part of claim (1)).  If the ring view at the
start of the run is coherent — NS is the successor its LAS dictates (`NsCoherent`; true of every ring
view that came out of `update_next_previous`) and `ring.ts = TS` — then recording the own pass never
moves NS, so in a run inside one pass that starts in `CheckTokenPass(first)` EVERY transmission is the
same three bytes `SD4, NS, TS` with NS the successor registered at the start, and NS is still the
registered successor at the end of the run. -/
theorem repetitions_identical {w w' : World} {ins : List PollIn} {txs : List (Nat × Bytes)}
    (h : SameRun w ins txs w') (hst : w.s.st = .checkTokenPass .first)
    (hts : w.s.ring.ts = w.s.p.address) (hlt : w.s.p.address < 128) (hc : NsCoherent w.s.ring) :
    txs.length ≤ 2 ∧
    (∀ e ∈ txs, e = (w.s.ring.ns, [SD4, UInt8.ofNat w.s.ring.ns, UInt8.ofNat w.s.p.address])) ∧
    w'.s.ring.ns = w.s.ring.ns ∧ NsCoherent w'.s.ring := by
  obtain ⟨h1, -, h3, -⟩ := pass_count_run h hst
  obtain ⟨k1, k2, k3, -⟩ := sameRun_ns h hts hlt hc
  refine ⟨h1, ?_, k2, k3⟩
  intro e he
  have e1 := k1 e he
  have e2 := h3 e he
  obtain ⟨n, b⟩ := e
  simp only at e1 e2
  subst e1; subst e2; rfl

set_option maxRecDepth 100000 in
/-- Non-vacuity: the ring view of `checkDemo` is coherent. -/
theorem checkDemo_coherent : checkDemo.s.ring.ts = checkDemo.s.p.address ∧ checkDemo.s.p.address < 128 ∧
    NsCoherent checkDemo.s.ring := ⟨by decide, by decide, by unfold NsCoherent; decide⟩

/-- **`first_transmission_enters`** — how a pass is entered from `PassToken` (after a GAP poll, after
the removal of the previous successor, or while the synchronisation pause was awaited): a poll that
starts in `PassToken(g, att)` and ends in a supervising state has transmitted exactly the token
telegram TS → NS in this poll, recorded the own pass, and supervises with the SAME attempt number —
stage 0 → 1 for `att = first`: the start state `CheckTokenPass(first)` of `pass_count_run` stands for
one transmission of that telegram.  (For entries in the same poll as the end of a token hold —
`UseToken` / `AwaitDataResponse` / `AwaitStatusResponse` via `passNow` — the transmitted bytes are not
exposed by `UseTail`; not covered here.) -/
theorem first_transmission_enters (s : Station) (apps : Apps) (now : Int) (phy : Bool) (rx : Bytes) (c' : Ctx)
    (h : s.poll apps now phy rx = .ok c') (g : Bool) (att : Attempt) (hst : s.st = .passToken g att)
    (att' : Attempt) (hc : c'.s.st = .checkTokenPass att') :
    att' = att ∧ c'.tx = some (tokenTo s.p.address s.ring.ns) ∧
    c'.s.ring = s.ring.witness s.p.address s.ring.ns := by
  rcases passTok_poll s apps now phy rx c' h g att hst with ⟨h1, -, -⟩ | ⟨-, ⟨a, h1⟩, -⟩ | ⟨h1, h2, h3⟩
  · rw [h1] at hc; cases hc
  · rw [h1] at hc; cases hc
  · rcases h2 with h2 | h2
    · rw [h2] at hc; cases hc
    · rw [h2] at hc; cases hc
      exact ⟨rfl, h3, h1⟩

end PV.C11
