/-
C04 for the composed system FDL ∘ DP (`Model/Stack.lean`).

The theorems of `Props/C04.lean` are stated for steps from states reached by contract histories
(`Lemmas/Dp.lean`).  In the composed system — the station model with the DP master model as its only
application — the contract is a theorem (`Stack.station_log_is_contract_history`,
`Lemmas/Stack.lean`): every callback the station makes and every user call in between is such a step.
`stack_reachable` transfers all step theorems of `Props/C04.lean`; the headline clause is restated.
(A separate file because importing the station lemmas into `Props/C04.lean` would make the name
`Inv` ambiguous there.)
-/
import ProfiVerif.Props.C04
import ProfiVerif.Lemmas.StackEx

namespace PV.C04
open PV PV.Dp

theorem stack_reachable {fp : FdlParams} (hfp : FpOk fp) (p : Params)
    (haddr : fp.address.toNat = p.address) {slots : List (Option Peripheral)} (hinit : InitOk fp slots) (gr : Bool)
    (calls : List Stack.Call) {t0 : Int} (ht0 : -(2:Int)^62 < t0) (ht : Stack.TimesOk t0 calls)
    {k' : Stack.State} {l : List Stack.MCall} (h : Stack.run fp (Stack.init p slots gr) calls = .ok (k', l))
    {pre post : List Stack.MCall} {x : Stack.MCall} (hl : l = pre ++ x :: post) :
    ∃ g g', grun fp (G.init slots gr) (pre.map Stack.toOp) = .ok g ∧ gstep fp g (Stack.toOp x) = .ok g' ∧ Dp.Inv fp g := by
  obtain ⟨g, g', e1, e2⟩ := Stack.stack_step hfp p haddr hinit gr calls ht0 ht h hl
  exact ⟨g, g', e1, e2, reachable_inv hfp hinit gr _ e1⟩

/-- **`pi_i_changes_only` for the composed stack**: in any run of station ∘ master from the initial
state, the input image of slot `j` differs before and after a master call only if that call is the
`receive_reply` callback for a well-formed Data_Exchange response of exactly the input length from
the peripheral in slot `j`, whose Data_Exchange request is outstanding — and then the image equals the
payload.  No assumption about the FDL layer is left. -/
theorem stack_pi_i_changes_only {fp : FdlParams} (hfp : FpOk fp) (p : Params)
    (haddr : fp.address.toNat = p.address) {slots : List (Option Peripheral)} (hinit : InitOk fp slots) (gr : Bool)
    (calls : List Stack.Call) {t0 : Int} (ht0 : -(2:Int)^62 < t0) (ht : Stack.TimesOk t0 calls)
    {k' : Stack.State} {l : List Stack.MCall} (h : Stack.run fp (Stack.init p slots gr) calls = .ok (k', l))
    {pre post : List Stack.MCall} {x : Stack.MCall} (hl : l = pre ++ x :: post) :
    ∃ g g', grun fp (G.init slots gr) (pre.map Stack.toOp) = .ok g ∧ gstep fp g (Stack.toOp x) = .ok g' ∧
      ∀ j, slotPiI g'.m j ≠ slotPiI g.m j →
        ∃ a hd pdu st ss index q, Stack.toOp x = .reply a (.data hd pdu) ∧ g.out = some a ∧
          g.m.cycle = .dx index ∧ curSlot g.m.slots index = some (j, q) ∧ q.address = a ∧
          hd.sa = a ∧ hd.da = fp.address ∧ hd.fc = .response st ss ∧ dataOkStatus ss = true ∧
          hd.dsap = none ∧ hd.ssap = none ∧ pdu.length = q.piI.length ∧
          (q.state = .preDataExchange ∨ q.state = .dataExchange) ∧ q.diagInFlight = false ∧
          slotPiI g'.m j = some pdu := by
  obtain ⟨g, g', e1, e2, hI⟩ := stack_reachable hfp p haddr hinit gr calls ht0 ht h hl
  exact ⟨g, g', e1, e2, fun j hne => pi_i_changes_only hfp hI _ e2 j hne⟩

/-- **`dx_request_carries_pi_q` for the composed stack**: every Data_Exchange request the master hands
to the station carries exactly the output image of the addressed peripheral as it is at that callback. -/
theorem stack_dx_request_carries_pi_q {fp : FdlParams} (hfp : FpOk fp) (p : Params)
    (haddr : fp.address.toNat = p.address) {slots : List (Option Peripheral)} (hinit : InitOk fp slots) (gr : Bool)
    (calls : List Stack.Call) {t0 : Int} (ht0 : -(2:Int)^62 < t0) (ht : Stack.TimesOk t0 calls)
    {k' : Stack.State} {l : List Stack.MCall} (h : Stack.run fp (Stack.init p slots gr) calls = .ok (k', l))
    {pre post : List Stack.MCall} {now : Int} {hp : Bool} (hl : l = pre ++ .tx now hp :: post) :
    ∃ g g', grun fp (G.init slots gr) (pre.map Stack.toOp) = .ok g ∧ gstep fp g (.tx now hp) = .ok g' ∧
      ∀ i hd pdu, g'.o = .sent i hd pdu → reqKind hd = .dx →
        ∃ q, g.m.slots[i]? = some (some q) ∧ pdu = q.piQ ∧ hd.da = q.address ∧ hd.sa = fp.address := by
  obtain ⟨g, g', e1, e2, hI⟩ := stack_reachable hfp p haddr hinit gr calls ht0 ht h hl
  exact ⟨g, g', e1, e2, fun i hd pdu ho hk => dx_request_carries_pi_q hfp hI e2 ho hk⟩


/-! ### Non-vacuity -/

/-- In the concrete composed run `Stack.Ex.calls` a `receive_reply` callback of the station changes the
input image of slot 1 to the payload of the Data_Exchange response, and a Data_Exchange request
carries the output image the user wrote between two polls. -/
example : Stack.Ex.runHas (fun g op g' =>
    match op with
    | .reply _ (.data _ pdu) => slotPiI g'.m 1 != slotPiI g.m 1 && slotPiI g'.m 1 == some pdu
    | _ => false) = true := by decide +kernel

example : Stack.Ex.runHas (fun g _ g' =>
    match g'.o with
    | .sent i hd pdu => reqKind hd == .dx && slotPiQ g.m i == some pdu && pdu == [5, 6]
    | _ => false) = true := by decide +kernel

end PV.C04
