/-
C05 — poll() is total (station level, first layer).
What is proved here for every input: the poll of an offline station is a no-op; a poll during an
ongoing transmission touches nothing but the activity time stamp; every state transition taken by a
handler is one its `debug_assert_state!` allows (the `to*` functions are total exactly on the
asserted source states); the receive helpers `poll` relies on terminate without panicking on any
buffer (C16), as does the decoder (C10); the GAP arithmetic never overflows under the station
invariant (C12); and — the headline — `poll_never_panics`: from `new`, under ANY sequence of
poll / set_online / set_offline calls with ANY arriving bytes, times and PHY flags, and ANY
applications that build encodable telegrams, no call panics (`Lemmas/StationInv.lean`: invariant `Inv`,
preserved by every handler).
-/
import ProfiVerif.Model.Station
import ProfiVerif.Props.C16
import ProfiVerif.Props.C12
import ProfiVerif.Lemmas.StationInv

namespace PV.C05
open PV

/-- An offline station does nothing when polled: no transmission, no callback, no state change,
nothing consumed. -/
theorem offline_poll_noop (s : Station) (apps : Apps) (now : Int) (phyTx : Bool) (rx : Bytes)
    (hoff : s.online = false) (hst : s.st = .offline) :
    s.poll apps now phyTx rx = .ok { s := s, apps := apps, rx := rx } := by
  simp [Station.poll, pollInner, hoff, hst]

/-- `set_offline` always yields such a station, whatever state it was in. -/
theorem set_offline_resets (s : Station) : s.setOffline.online = false ∧ s.setOffline.st = .offline ∧
    s.setOffline.lastBusActivity = none ∧ s.setOffline.pendingBytes = 0 := by
  simp [Station.setOffline, Station.new]

/-- While the PHY is still transmitting (or the predicted end of the own transmission has not
passed) a poll neither receives nor transmits nor calls anybody. -/
theorem busy_poll_noop (c : Ctx) (now : Int) (hon : c.s.online = true)
    (hst : c.s.st ≠ .offline) (hst2 : c.s.st ≠ .passiveIdle) :
    pollInner c now true = .ok (upd c fun s => markBusActivity s now) := by
  unfold pollInner
  simp only [hon]
  cases h : c.s.st <;> simp_all [Res.bind, pollStart, ongoing]

/-- The decoder and the receive helpers used by every handler are total on every buffer. -/
theorem rx_helpers_total (rx : Bytes) :
    (∃ b calls ret, receiveAll rx = .done b calls ret) ∧ (∃ b calls ret, receiveTelegram rx = .done b calls ret) := by
  constructor
  · obtain ⟨b, c, r, h⟩ := C16.receiveAll_total (rx.length + 1) rx [] (by omega)
    exact ⟨b, c, r, by simpa [receiveAll] using h⟩
  · exact C16.receiveTelegram_total rx

/-- Transitions are defined exactly on the states their `debug_assert_state!` lists. -/
theorem toActiveIdle_defined (s : Station) :
    (toActiveIdle s).isSome ↔ (match s.st with
      | .activeIdle .. | .listenToken .. | .useToken .. | .awaitData .. | .checkTokenPass ..
      | .awaitStatus .. | .claimToken .. => True
      | _ => False) := by
  unfold toActiveIdle; cases s.st <;> simp

theorem toUseToken_defined (s : Station) (d : UseData) :
    (toUseToken s d).isSome ↔ (match s.st with
      | .useToken .. | .claimToken .. | .passToken .. | .awaitData .. | .activeIdle .. => True
      | _ => False) := by
  unfold toUseToken; cases s.st <;> simp

theorem toPassToken_defined (s : Station) (g : Bool) (a : Attempt) :
    (toPassToken s g a).isSome ↔ (match s.st with
      | .passToken .. | .useToken .. | .claimToken .. | .checkTokenPass .. | .awaitStatus .. => True
      | _ => False) := by
  unfold toPassToken; cases s.st <;> simp

/-- The GAP arithmetic inside `poll` cannot overflow for a station whose address lies below its HSA
and whose sweep position lies below HSA. -/
theorem nextGap_defined (s : Station) (cur : Nat) (h1 : 0 < s.p.hsa) (h2 : s.p.hsa ≤ 126) (hc : cur < s.p.hsa) :
    (nextGap s cur).isSome := by
  unfold nextGap
  have := C12.next_gap_no_panic s.p.address s.ring.ns s.p.hsa cur h1 h2 hc
  cases h : nextGapPoll s.p.address s.ring.ns s.p.hsa cur <;> simp_all

/-! ## The lift: no reachable state panics -/

/-- The API calls the documentation allows on a station (`set_passive` is `todo!()` in the source). -/
inductive ApiCall
  | poll (now : Int) (phyTransmitting : Bool) (arrived : Bytes)   -- bytes that reached the PHY since the last poll
  | setOnline
  | setOffline

/-- Station + application scripts + PHY receive buffer. -/
structure World where
  s : Station
  apps : Apps
  rx : Bytes

/-- One API call; `none` = the call panicked. -/
def World.step (w : World) : ApiCall → Option World
  | .poll now phyTx arrived =>
    match w.s.poll w.apps now phyTx (w.rx ++ arrived) with
    | .ok c => some { s := c.s, apps := c.apps, rx := c.rx }
    | .panic _ => none
  | .setOnline => some { w with s := w.s.setOnline }
  | .setOffline => some { w with s := w.s.setOffline }

def World.run (w : World) : List ApiCall → Option World
  | [] => some w
  | a :: rest => match w.step a with
    | some w' => w'.run rest
    | none => none

/-- The invariant holds initially for every parameter set `ParametersBuilder` can produce
(address < HSA ≤ 126) and every set of applications that build valid telegrams. -/
theorem inv_init (p : Params) (apps : Apps) (h1 : p.address < p.hsa) (h2 : p.hsa ≤ 126) (hs : ScriptsOk apps) :
    Inv (Station.new p) apps := inv_new p apps h1 h2 hs

/-- Every API call preserves the invariant and does not panic. -/
theorem inv_step (w : World) (a : ApiCall) (h : Inv w.s w.apps) :
    ∃ w', w.step a = some w' ∧ Inv w'.s w'.apps ∧ w'.apps.length = w.apps.length := by
  cases a with
  | poll now phyTx arrived =>
    obtain ⟨c, hc, hi, hl⟩ := pollInner_good { s := w.s, apps := w.apps, rx := w.rx ++ arrived } now phyTx h rfl
    refine ⟨{ s := c.s, apps := c.apps, rx := c.rx }, ?_, hi, hl⟩
    simp only [World.step, Station.poll]
    rw [hc]
  | setOnline =>
    refine ⟨_, rfl, ?_, rfl⟩
    exact ⟨h.addr, h.hsa, h.ring, fun ho => by simp [Station.setOnline] at ho, h.gap, h.await1, h.await2, h.app, h.appWait,
      h.scripts, h.noPassive⟩
  | setOffline =>
    exact ⟨_, rfl, inv_new _ _ h.addr h.hsa h.scripts, rfl⟩

/-- **`poll_never_panics`**: for every valid parameter set, every set of applications (any number,
including none, with arbitrary send/decline behaviour as long as they build encodable telegrams) and
**every** sequence of `poll` / `set_online` / `set_offline` calls — whatever bytes arrive between
polls (valid telegrams, garbage, collisions), at whatever times, with whatever the PHY reports about
its transmitter — no call reaches any of the panics of `active.rs` (state-transition assertions,
`unreachable!()` accessors, the GAP self-poll assertion, indices, `unwrap`s, arithmetic overflow), and
the receive loop terminates.  Time does not even have to be monotone. -/
theorem poll_never_panics (p : Params) (apps : Apps) (h1 : p.address < p.hsa) (h2 : p.hsa ≤ 126)
    (hs : ScriptsOk apps) (calls : List ApiCall) :
    ∃ w, (World.run { s := Station.new p, apps := apps, rx := [] } calls) = some w ∧ Inv w.s w.apps := by
  suffices H : ∀ (calls : List ApiCall) (w : World), Inv w.s w.apps → ∃ w', w.run calls = some w' ∧ Inv w'.s w'.apps from
    H calls _ (inv_init p apps h1 h2 hs)
  intro calls
  induction calls with
  | nil => intro w hw; exact ⟨w, rfl, hw⟩
  | cons a rest ih =>
    intro w hw
    obtain ⟨w1, h1', hi1, -⟩ := inv_step w a hw
    obtain ⟨w2, h2', hi2⟩ := ih w1 hi1
    exact ⟨w2, by simp only [World.run, h1', h2'], hi2⟩

/-- Non-vacuity: a concrete station (TS 7, HSA 126) with one application. -/
def demoParams : Params :=
  { address := 7, rate := 500000, slotBits := 200, ttrBits := 20000, gapWait := 10, hsa := 126, maxRetry := 1,
    minTsdrBits := 11 }

example : ∃ w, World.run { s := Station.new demoParams, apps := [[.decline]], rx := [] }
    [.setOnline, .poll 100 false [0xDC, 7, 3], .poll 100000 false [], .setOffline] = some w ∧ Inv w.s w.apps :=
  poll_never_panics _ _ (by decide) (by decide)
    (by intro s hs a ha h pdu he; simp at hs; subst hs; simp at ha; subst ha; cases he) _

end PV.C05
