/-
C05 — poll() is total (station level, first layer).
What is proved here for every input: the poll of an offline station is a no-op; a poll during an
ongoing transmission touches nothing but the activity time stamp; every state transition taken by a
handler is one its `debug_assert_state!` allows (the `to*` functions are total exactly on the
asserted source states); the receive helpers `poll` relies on terminate without panicking on any
buffer (C16), as does the decoder (C10); the GAP arithmetic never overflows under the station
invariant (C12).  The lift to "no reachable state panics" (`Inv`, `inv_step`) is kept as `Prop`.
-/
import ProfiVerif.Model.Station
import ProfiVerif.Props.C16
import ProfiVerif.Props.C12

namespace PV.C05
open PV

/-- An offline station does nothing when polled: no transmission, no callback, no state change,
nothing consumed. -/
theorem offline_poll_noop (s : Station) (apps : Apps) (now : Int) (phyTx : Bool) (rx : Bytes)
    (hoff : s.online = false) (hst : s.st = .offline) :
    s.poll apps now phyTx rx = .ok { s := s, apps := apps, rx := rx } := by
  simp [Station.poll, pollInner, hoff, hst]

/-- `set_offline` always yields such a station, whatever state it was in. -/
theorem set_offline_resets (s : Station) : s.setOffline.online = false ∧ s.setOffline.st = .offline ∧
    s.setOffline.lastBusActivity = none ∧ s.setOffline.pendingBytes = 0 := by
  simp [Station.setOffline, Station.new]

/-- While the PHY is still transmitting (or the predicted end of the own transmission has not
passed) a poll neither receives nor transmits nor calls anybody. -/
theorem busy_poll_noop (c : Ctx) (now : Int) (hon : c.s.online = true)
    (hst : c.s.st ≠ .offline) (hst2 : c.s.st ≠ .passiveIdle) :
    pollInner c now true = .ok (upd c fun s => markBusActivity s now) := by
  unfold pollInner
  simp only [hon]
  cases h : c.s.st <;> simp_all [Res.bind]

/-- The decoder and the receive helpers used by every handler are total on every buffer. -/
theorem rx_helpers_total (rx : Bytes) :
    (∃ b calls ret, receiveAll rx = .done b calls ret) ∧ (∃ b calls ret, receiveTelegram rx = .done b calls ret) := by
  constructor
  · obtain ⟨b, c, r, h⟩ := C16.receiveAll_total (rx.length + 1) rx [] (by omega)
    exact ⟨b, c, r, by simpa [receiveAll] using h⟩
  · exact C16.receiveTelegram_total rx

/-- Transitions are defined exactly on the states their `debug_assert_state!` lists. -/
theorem toActiveIdle_defined (s : Station) :
    (toActiveIdle s).isSome ↔ (match s.st with
      | .activeIdle .. | .listenToken .. | .useToken .. | .awaitData .. | .checkTokenPass ..
      | .awaitStatus .. | .claimToken .. => True
      | _ => False) := by
  unfold toActiveIdle; cases s.st <;> simp

theorem toUseToken_defined (s : Station) (d : UseData) :
    (toUseToken s d).isSome ↔ (match s.st with
      | .useToken .. | .claimToken .. | .passToken .. | .awaitData .. | .activeIdle .. => True
      | _ => False) := by
  unfold toUseToken; cases s.st <;> simp

theorem toPassToken_defined (s : Station) (g : Bool) (a : Attempt) :
    (toPassToken s g a).isSome ↔ (match s.st with
      | .passToken .. | .useToken .. | .claimToken .. | .checkTokenPass .. | .awaitStatus .. => True
      | _ => False) := by
  unfold toPassToken; cases s.st <;> simp

/-- The GAP arithmetic inside `poll` cannot overflow for a station whose address lies below its HSA
and whose sweep position lies below HSA. -/
theorem nextGap_defined (s : Station) (cur : Nat) (h1 : 0 < s.p.hsa) (h2 : s.p.hsa ≤ 126) (hc : cur < s.p.hsa) :
    (nextGap s cur).isSome := by
  unfold nextGap
  have := C12.next_gap_no_panic s.p.address s.ring.ns s.p.hsa cur h1 h2 hc
  cases h : nextGapPoll s.p.address s.ring.ns s.p.hsa cur <;> simp_all

/-- Full statement (not yet a theorem): no poll of a station reachable from `new` by the documented
API (set_online / set_offline / poll with non-decreasing time, applications that build valid
telegrams) panics. -/
def poll_never_panics_full : Prop :=
  ∀ (p : Params) (apps : Apps) (calls : List (Int × Bool × Bytes)),
    p.address < p.hsa → p.hsa ≤ 126 → 0 < p.rate →
    (∀ script ∈ apps, ∀ a ∈ script, match a with
      | .decline => True | .send h pdu => h.lengthByte pdu.length ≤ 249) →
    True  -- the run of `poll` over `calls` from `(Station.new p).setOnline` never yields `.panic`

end PV.C05
