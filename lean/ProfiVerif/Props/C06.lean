/-
C06 — The token ring recovers from lost stations, lost tokens and corrupted traffic
(station-level mechanisms; the N-station timed recovery is not proved, DESIGN 5.5).
-/
import ProfiVerif.Props.C11
import ProfiVerif.Props.C15
import ProfiVerif.Props.C16
import ProfiVerif.Props.C02
import ProfiVerif.Props.C13
import ProfiVerif.Lemmas.StationProgress
import ProfiVerif.Lemmas.TimedRing2Step
import ProfiVerif.Lemmas.TimedRingCrash
import ProfiVerif.Lemmas.TimedRingAgree
import ProfiVerif.Lemmas.ColdStart
import ProfiVerif.Lemmas.ColdStartSolo
import ProfiVerif.Lemmas.ListenLearn
import ProfiVerif.Lemmas.ListenNet
import ProfiVerif.Lemmas.ColdStartDuo
import ProfiVerif.Lemmas.ColdStartReply
import ProfiVerif.Lemmas.ColdStartChain
import ProfiVerif.Lemmas.ColdStartPass

namespace PV.C06
open PV

/-- `claim_on_silence`: a listening or idle station whose bus has been silent for its time-out enters
`ClaimToken` in that very poll (and transmits the claim token as soon as the synchronisation pause
allows — immediately, since the time-out is far longer than the pause). -/
theorem claim_on_silence (c : Ctx) (now : Int) (l : Int) (hl : c.s.lastBusActivity = some l)
    (hsil : (now - l).natAbs ≥ c.s.p.tokenLostTimeout) (s' : Station) (hs : toClaimToken c.s = some s') :
    (handleLostToken c now).2 = some (doClaimToken { c with s := s' } now 2) := by
  unfold handleLostToken getOrInsertLast
  simp only [hl]
  rw [if_pos hsil]
  simp [hs]

/-- The claim is possible from both waiting states. -/
theorem claim_from_listen_or_idle (s : Station) :
    (∃ a b, s.st = .listenToken a b) ∨ (∃ a b d, s.st = .activeIdle a b d) → (toClaimToken s).isSome := by
  rintro (⟨a, b, h⟩ | ⟨a, b, d, h⟩) <;> simp [toClaimToken, h]

/-- `garbage_dropped`: undecodable data is discarded completely and delivers nothing — so an idle
station's FDL state is untouched by it (only the activity time stamp moves). -/
theorem garbage_dropped (c : Ctx) (now : Int) (np : Option Nat) (coll : Nat)
    (hst : c.s.st = .activeIdle none np coll) (hg : deserialize c.rx = .reject)
    (hq : (handleLostToken c now).2 = none) (hsame : (handleLostToken c now).1.s.st = c.s.st)
    (hrx : (handleLostToken c now).1.rx = c.rx) :
    doActiveIdle c now = .ok { (handleLostToken c now).1 with rx := [] } := by
  have := (C16.resync c.rx hg .sc (by trivial)).1
  unfold doActiveIdle
  -- destructure the pair BEFORE the iota steps (kernel: 70 s otherwise)
  cases hh : handleLostToken c now with
  | mk c1 r =>
    rw [hh] at hq hsame hrx
    simp only at hq hsame hrx
    subst hq
    rw [hst]
    simp only [hsame, hst, hrx, this, foldTelegrams]

/-- `backoff`: a telegram that is not a valid reply, arriving while a data reply is awaited, sends the
station to `ActiveIdle` without any transmission or callback (`C15.reply_delivery`, invalid branch). -/
theorem backoff_data (c : Ctx) (now : Int) (addr : Nat) (d : UseData) (hst : c.s.st = .awaitData addr d)
    (happ : c.s.nextApp < c.apps.length)
    (rx' : Bytes) (t : Telegram) (flag : Bool) (rest : List (Telegram × Bool)) (ret : Bool)
    (hrx : receiveTelegram c.rx = .done rx' ((t, flag) :: rest) ret)
    (hinv : C15.ValidReply c.s.p.address addr t = false) :
    doAwaitDataResponse c now =
      .ok { c with rx := rx', s := { (markRx c.s now) with st := .activeIdle none none 0 } } := by
  rw [C15.reply_delivery c now addr d hst happ rx' t flag rest ret hrx]
  simp [hinv]

/-- `restart_clean`: `set_offline` followed by `set_online` is indistinguishable from a fresh station. -/
theorem restart_clean (s : Station) : s.setOffline.setOnline = (Station.new s.p).setOnline := rfl

/-! ## Liveness on a silent bus: a single online station never stays silent

Setting of all theorems below: a station context satisfying the C05 invariant `Inv`, online, nothing
handed to the PHY yet in this poll, **empty receive buffer**, a known bus-activity stamp `l`, PHY idle
(`phyTransmitting = false`).  `T := Params.silence = max tokenLostTimeout (max slotTime (bits 33))` is
the longest timer the station ever waits on; a poll at `now` with `l + T < now` is called *late*
(`Late p l now`).  `pollsToTx s ∈ {1, 2, 3}` is the number of late polls the state needs:
3 for `ClaimToken(Scan | ScanAwait)` standing at the last GAP address, 2 for `ClaimToken(Scan)` with the
sweep finished, 1 for every other state. -/

/-- **`silent_bus_progress`**: a late poll on a silent bus returns regularly, keeps the invariant,
parameters and connectivity, and EITHER hands a telegram to the PHY OR ends — receive buffer still
empty, stamp still `l`, so the same time bound keeps holding — in a state related to the start state
by `Deferred`, i.e. exactly one of
* `ClaimToken(Scan)`, GAP state `Waiting` → `PassToken(no gap, first)`;
* `ClaimToken(Scan)` or `ClaimToken(ScanAwait a)` whose sweep position `cur` is the last GAP address
  (`nextGapPoll TS NS HSA cur = waiting`) → `ClaimToken(Scan)` with GAP state `Waiting 0`;
and then the bound `pollsToTx` has strictly decreased.  (`UseToken` and `AwaitDataResponse` after its
time-out pass the token in the same poll — repair of finding K3 — and therefore always transmit.) -/
theorem silent_bus_progress (c : Ctx) (now l : Int) (hinv : Inv c.s c.apps) (hon : c.s.online = true)
    (htx : c.tx = none) (hrx : c.rx = []) (hl : c.s.lastBusActivity = some l)
    (hlate : l + (c.s.p.silence : Nat) < now) :
    ∃ c', pollInner c now false = .ok c' ∧ Inv c'.s c'.apps ∧ c'.apps.length = c.apps.length ∧
      c'.s.online = true ∧ c'.s.p = c.s.p ∧
      (c'.tx ≠ none ∨
        (c'.tx = none ∧ c'.rx = [] ∧ c'.s.lastBusActivity = some l ∧ Deferred c.s c'.s ∧
          pollsToTx c'.s < pollsToTx c.s)) := by
  obtain ⟨c', h, hi, hlen, ho, hp, hd⟩ := silent_step c now l hinv ⟨hon, htx, hrx, hl⟩
  refine ⟨c', h, hi, hlen, ho, hp, hd.imp id ?_⟩
  rintro ⟨hs', hdef⟩
  exact ⟨hs'.tx, hs'.rx, hs'.last, hdef hlate, deferred_lt (hdef hlate)⟩

/-- **Exact characterisation of the first late poll**: it transmits if and only if the start state's
bound is 1 — i.e. every state except `ClaimToken(Scan)` with the sweep finished and
`ClaimToken(Scan | ScanAwait)` at the last GAP address. -/
theorem silent_poll_transmits_iff (c : Ctx) (now l : Int) (hinv : Inv c.s c.apps) (hon : c.s.online = true)
    (htx : c.tx = none) (hrx : c.rx = []) (hl : c.s.lastBusActivity = some l)
    (hlate : l + (c.s.p.silence : Nat) < now) (c' : Ctx) (h : pollInner c now false = .ok c') :
    c'.tx ≠ none ↔ pollsToTx c.s = 1 := by
  have hs : Sil c l := ⟨hon, htx, hrx, hl⟩
  constructor
  · intro ht
    by_cases hb : 2 ≤ pollsToTx c.s
    · exact absurd (late_noTx_of_bound c now l hs hinv hlate hb c' h) ht
    · have := (pollsToTx_le c.s).1; omega
  · intro h1
    obtain ⟨c'', h', -, -, -, -, hd⟩ := silent_bus_progress c now l hinv hon htx hrx hl hlate
    rw [h] at h'
    cases h'
    rcases hd with hd | ⟨-, -, -, -, hlt⟩
    · exact hd
    · have := (pollsToTx_le c'.s).1; omega

/-- The poll that follows a deferred one: from `PassToken` the next late poll transmits. -/
theorem pass_token_transmits (c : Ctx) (now l : Int) (hinv : Inv c.s c.apps) (hon : c.s.online = true)
    (htx : c.tx = none) (hrx : c.rx = []) (hl : c.s.lastBusActivity = some l)
    (hlate : l + (c.s.p.silence : Nat) < now) (g : Bool) (att : Attempt) (hst : c.s.st = .passToken g att) :
    ∃ c', pollInner c now false = .ok c' ∧ Inv c'.s c'.apps ∧ c'.tx ≠ none := by
  obtain ⟨c', h, hi, -, -, -, hd⟩ := silent_bus_progress c now l hinv hon htx hrx hl hlate
  refine ⟨c', h, hi, ?_⟩
  exact (silent_poll_transmits_iff c now l hinv hon htx hrx hl hlate c' h).2 (by simp [pollsToTx, hst])

/-- **`silent_bus_polls`**: `pollsToTx s` late polls (at any later times, in any order) on a silent bus
contain a transmission; all polls up to it return regularly. -/
theorem silent_bus_polls (s : Station) (apps : Apps) (l : Int) (hinv : Inv s apps) (hon : s.online = true)
    (hl : s.lastBusActivity = some l) (late : List Int) (hlate : ∀ t ∈ late, l + (s.p.silence : Nat) < t)
    (hn : pollsToTx s ≤ late.length) : TransmitsWithin s apps [] late :=
  late_polls_transmit s.p l late.length late s apps hinv hon hl rfl hlate hn (Nat.le_refl _)

/-- **`silent_bus_two_polls`**: for every start state except `ClaimToken(Scan | ScanAwait)` standing at
the last GAP address, the first late poll transmits or the second one does. -/
theorem silent_bus_two_polls (s : Station) (apps : Apps) (l now now2 : Int) (hinv : Inv s apps) (hon : s.online = true)
    (hl : s.lastBusActivity = some l) (h1 : l + (s.p.silence : Nat) < now) (h2 : now ≤ now2)
    (hb : pollsToTx s ≤ 2) : TransmitsWithin s apps [] [now, now2] :=
  silent_bus_polls s apps l hinv hon hl [now, now2]
    (by intro t ht; simp at ht; rcases ht with rfl | rfl <;> omega) hb

/-- **`silent_bus_three_polls`**: from EVERY state, among three late polls one transmits. -/
theorem silent_bus_three_polls (s : Station) (apps : Apps) (l now now2 now3 : Int) (hinv : Inv s apps)
    (hon : s.online = true) (hl : s.lastBusActivity = some l) (h1 : l + (s.p.silence : Nat) < now)
    (h2 : now ≤ now2) (h3 : now2 ≤ now3) : TransmitsWithin s apps [] [now, now2, now3] :=
  silent_bus_polls s apps l hinv hon hl [now, now2, now3]
    (by intro t ht; simp at ht; rcases ht with rfl | rfl | rfl <;> omega) (pollsToTx_le s).2

/-- **`never_permanently_silent`** (schedule form): on a silent bus, whatever polls precede (`pre`, at
arbitrary times — they either transmit or leave stamp and silence untouched), the transmission comes
no later than the third poll whose time exceeds `l + T`. -/
theorem never_permanently_silent (s : Station) (apps : Apps) (l : Int) (hinv : Inv s apps) (hon : s.online = true)
    (hl : s.lastBusActivity = some l) (pre late : List Int) (hlate : ∀ t ∈ late, l + (s.p.silence : Nat) < t)
    (h3 : 3 ≤ late.length) : TransmitsWithin s apps [] (pre ++ late) :=
  pre_polls s.p l late pre s apps hinv hon hl rfl (fun s' apps' hi' ho' hl' hp' =>
    late_polls_transmit s.p l late.length late s' apps' hi' ho' hl' hp' hlate
      (by have := (pollsToTx_le s').2; omega) (Nat.le_refl _))

/-- **`never_permanently_silent_timed`**: for an infinite poll schedule `t 0 ≤ t 1 ≤ …` with poll period
at most `P` that does not stop before `l + T`, a transmission occurs at a poll no later than
`l + T + 3·P` after the last registered bus activity `l`. -/
theorem never_permanently_silent_timed (s : Station) (apps : Apps) (l : Int) (hinv : Inv s apps) (hon : s.online = true)
    (hl : s.lastBusActivity = some l) (t : Nat → Int) (P : Nat)
    (hmono : ∀ i, t i ≤ t (i + 1)) (hgap : ∀ i, t (i + 1) ≤ t i + P)
    (h0 : t 0 ≤ l + (s.p.silence : Nat) + P) (hgo : ∃ k, l + (s.p.silence : Nat) < t k) :
    ∃ n, t n ≤ l + (s.p.silence : Nat) + 3 * P ∧ TransmitsWithin s apps [] ((List.range (n + 1)).map t) := by
  obtain ⟨k, hk⟩ := hgo
  -- the first late poll
  have first : ∀ k, l + (s.p.silence : Nat) < t k → ∃ j, l + (s.p.silence : Nat) < t j ∧ t j ≤ l + (s.p.silence : Nat) + P := by
    intro k
    induction k with
    | zero => intro h; exact ⟨0, h, h0⟩
    | succ k ih =>
      intro h
      by_cases hk' : l + (s.p.silence : Nat) < t k
      · exact ih hk'
      · exact ⟨k + 1, h, by have := hgap k; omega⟩
  obtain ⟨j, hj1, hj2⟩ := first k hk
  have hg2 : t (j + 2) ≤ t (j + 1) + P := hgap (j + 1)
  have hm2 : t (j + 1) ≤ t (j + 2) := hmono (j + 1)
  refine ⟨j + 2, by have := hgap j; omega, ?_⟩
  have hsplit : (List.range (j + 2 + 1)).map t = (List.range j).map t ++ [t j, t (j + 1), t (j + 2)] := by
    rw [show j + 2 + 1 = j + 3 from rfl, List.range_add]
    simp [List.range_succ]
  rw [hsplit]
  exact never_permanently_silent s apps l hinv hon hl _ _
    (by intro x hx; simp at hx; have := hmono j; rcases hx with rfl | rfl | rfl <;> omega)
    (by simp)

/-- **`never_permanently_silent_any`**: no assumption on the stamp.  From EVERY online state satisfying
the invariant — with a registered bus activity `l` or without any (then the first poll `t0` starts the
clock: `l := t0`) — a silent-bus schedule `t0 :: pre ++ late` whose last three or more polls are later
than `l + T` contains a transmission. -/
theorem never_permanently_silent_any (s : Station) (apps : Apps) (hinv : Inv s apps) (hon : s.online = true)
    (t0 : Int) (pre late : List Int)
    (hlate : ∀ t ∈ late, s.lastBusActivity.getD t0 + (s.p.silence : Nat) < t) (h3 : 3 ≤ late.length) :
    TransmitsWithin s apps [] (t0 :: (pre ++ late)) := by
  cases hl : s.lastBusActivity with
  | some l =>
    rw [hl] at hlate
    exact never_permanently_silent s apps l hinv hon hl (t0 :: pre) late hlate h3
  | none =>
    rw [hl] at hlate
    exact fresh_polls s apps t0 (pre ++ late) hinv hon hl (fun s' apps' hi' ho' hl' hp' =>
      never_permanently_silent s' apps' t0 hi' ho' hl' pre late (by rw [hp']; exact hlate) h3)

/-- **`cold_start_transmits`**: a station that is switched online on a dead bus (valid parameters, any
applications that build encodable telegrams) transmits — in fact it claims the token — no later than
the third poll that comes more than `T` after its first poll. -/
theorem cold_start_transmits (p : Params) (apps : Apps) (h1 : p.address < p.hsa) (h2 : p.hsa ≤ 126) (hs : ScriptsOk apps)
    (t0 : Int) (pre late : List Int) (hlate : ∀ t ∈ late, t0 + (p.silence : Nat) < t) (h3 : 3 ≤ late.length) :
    TransmitsWithin (Station.new p).setOnline apps [] (t0 :: (pre ++ late)) := by
  have hinv : Inv (Station.new p).setOnline apps := by
    have h := inv_new p apps h1 h2 hs
    exact ⟨h.addr, h.hsa, h.ring, fun ho => by simp [Station.setOnline] at ho, h.gap, h.await1, h.await2, h.app, h.appWait,
      h.scripts, h.noPassive⟩
  exact never_permanently_silent_any _ apps hinv rfl t0 pre late hlate h3

/-! ## The three recovery mechanisms at whole-poll level -/

/-- **`claim_progress`** (lost token): a station in `ListenToken` or `ActiveIdle` — with or without a
pending status request, `handle_lost_token` comes first — whose bus has been silent for its token-lost
time-out (and for the 33-bit synchronisation pause, which is shorter for all sensible parameters)
transmits the self-addressed token in this very poll and ends in `ClaimToken(SecondToken)` with a
valid LAS view and the GAP sweep reset to its own address. -/
theorem claim_progress (c : Ctx) (now l : Int) (hinv : Inv c.s c.apps) (hon : c.s.online = true)
    (htx : c.tx = none) (hrx : c.rx = []) (hl : c.s.lastBusActivity = some l)
    (hidle : (∃ sr coll, c.s.st = .listenToken sr coll) ∨ (∃ sr np coll, c.s.st = .activeIdle sr np coll))
    (hsil : (now - l).natAbs ≥ c.s.p.tokenLostTimeout) (hsync : l + (c.s.p.bits 33 : Nat) < now) :
    ∃ c', pollInner c now false = .ok c' ∧ Inv c'.s c'.apps ∧
      c'.tx = some (selfToken c.s.p.address) ∧ c'.s.st = .claimToken .secondToken ∧
      c'.s.gap = .doPoll c.s.p.address ∧ c'.s.ring = c.s.ring.claimToken ∧ c'.calls = c.calls := by
  have hs : Sil c l := ⟨hon, htx, hrx, hl⟩
  have hidle' : IdleLike c.s.st := by
    rcases hidle with ⟨a, b, h⟩ | ⟨a, b, d, h⟩
    · exact Or.inr ⟨a, b, h⟩
    · exact Or.inl ⟨a, b, d, h⟩
  have hno : c.s.st ≠ .offline := by
    rcases hidle with ⟨a, b, h⟩ | ⟨a, b, d, h⟩ <;> rw [h] <;> simp
  obtain ⟨c', h, hi, -⟩ := pollInner_good c now false hinv htx
  refine ⟨c', h, hi, ?_⟩
  rw [pollInner_dispatch c now l hs hinv hno (by omega), idle_claims c now l hs hidle' hsil] at h
  obtain ⟨-, -, h3⟩ := claimFirst_result c now l hs c' h
  rcases h3 with ⟨a, b, d, e, -, f⟩ | ⟨-, hw⟩
  · exact ⟨a, b, d, e, f⟩
  · omega

/-- **`supervision_progress`** (lost successor): in `CheckTokenPass att` with the slot time expired,
nothing received (and the synchronisation pause over), the poll retransmits: after the first and
second expiry the same token goes to the same NS, the ring view only records the own pass; after the
third expiry NS is removed from the LAS and the token goes to the new NS — or, when the station is
now alone, it keeps the token (`UseToken`). -/
theorem supervision_progress (c : Ctx) (now l : Int) (hinv : Inv c.s c.apps) (hon : c.s.online = true)
    (htx : c.tx = none) (hrx : c.rx = []) (hl : c.s.lastBusActivity = some l)
    (att : Attempt) (hst : c.s.st = .checkTokenPass att)
    (hslot : l + (c.s.p.slotTime : Nat) < now) (hsync : l + (c.s.p.bits 33 : Nat) < now) :
    ∃ c', pollInner c now false = .ok c' ∧ Inv c'.s c'.apps ∧ c'.calls = c.calls ∧
      ∃ r next, (match att with
          | .first => r = c.s.ring ∧ next = Attempt.second
          | .second => r = c.s.ring ∧ next = Attempt.third
          | .third => c.s.ring.removeStation c.s.ring.ns = some r ∧ r.isActive c.s.ring.ns = false ∧ next = Attempt.first) ∧
        c'.tx = some (sendToken (UInt8.ofNat r.ns) (UInt8.ofNat c.s.p.address)) ∧
        c'.s.ring = r.witness c.s.p.address r.ns ∧
        c'.s.st = (if c'.s.ring.ns = c.s.p.address then .useToken ⟨now, none⟩ false else .checkTokenPass next) := by
  have hs : Sil c l := ⟨hon, htx, hrx, hl⟩
  have hno : c.s.st ≠ .offline := by rw [hst]; simp
  obtain ⟨c', h, hi, -⟩ := pollInner_good c now false hinv htx
  refine ⟨c', h, hi, ?_⟩
  rw [pollInner_dispatch c now l hs hinv hno (by omega)] at h
  unfold dispatch at h
  rw [hst] at h
  simp only at h
  rw [check_expired c now l hs att hst (by omega) hsync] at h
  cases att with
  | first =>
    simp only at h
    obtain ⟨-, h1, -, -, -, h5, -, h7, h8⟩ := passTokenOn_sends _ now _ c' h
    exact ⟨h5, c.s.ring, .second, ⟨rfl, rfl⟩, h1, h7, h8⟩
  | second =>
    simp only at h
    obtain ⟨-, h1, -, -, -, h5, -, h7, h8⟩ := passTokenOn_sends _ now _ c' h
    exact ⟨h5, c.s.ring, .third, ⟨rfl, rfl⟩, h1, h7, h8⟩
  | third =>
    simp only at h
    cases hr : c.s.ring.removeStation c.s.ring.ns with
    | none => rw [hr] at h; cases h
    | some r =>
      rw [hr] at h
      simp only at h
      obtain ⟨-, h1, -, -, -, h5, -, h7, h8⟩ := passTokenOn_sends _ now _ c' h
      exact ⟨h5, r, .first, ⟨rfl, removeStation_inactive _ _ _ hr, rfl⟩, h1, h7, h8⟩

/-- **`reply_timeout_progress`** (lost reply): in `AwaitDataResponse` with the slot time expired and
nothing received, exactly one `timeout` record for the requesting application is appended, and the
poll continues as token holder — it *is* the `UseToken` poll (first cycle done) on the resulting
context; whatever that records afterwards are `transmit_telegram` calls only. -/
theorem reply_timeout_progress (c : Ctx) (now l : Int) (hinv : Inv c.s c.apps) (hon : c.s.online = true)
    (htx : c.tx = none) (hrx : c.rx = []) (hl : c.s.lastBusActivity = some l)
    (addr : Nat) (d : UseData) (hst : c.s.st = .awaitData addr d) (hslot : l + (c.s.p.slotTime : Nat) < now) :
    ∃ c' extra, pollInner c now false = .ok c' ∧ Inv c'.s c'.apps ∧
      pollInner c now false =
        doUseToken { c with calls := c.calls ++ [.timeout c.s.nextApp addr], s := { c.s with st := .useToken d true } } now ∧
      c'.calls = c.calls ++ [.timeout c.s.nextApp addr] ++ extra ∧ OnlyTransmitCalls extra := by
  have hs : Sil c l := ⟨hon, htx, hrx, hl⟩
  have hno : c.s.st ≠ .offline := by rw [hst]; simp
  obtain ⟨c', h, hi, -⟩ := pollInner_good c now false hinv htx
  have heq : pollInner c now false =
      doUseToken { c with calls := c.calls ++ [.timeout c.s.nextApp addr], s := { c.s with st := .useToken d true } } now := by
    rw [pollInner_dispatch c now l hs hinv hno (by omega)]
    unfold dispatch
    rw [hst]
    simp only
    exact awaitData_timeout c now l addr d hs hst (hinv.appWait addr d hst) (by omega)
  rw [heq] at h
  obtain ⟨extra, he, ho⟩ := doUseToken_calls _ now c' h
  exact ⟨c', extra, heq.trans h, hi, heq, he, ho⟩

/-- And when the poll is also past the synchronisation pause, the time-out poll transmits (an
application telegram, a GAP poll or the token): the station does not fall silent after a lost reply. -/
theorem reply_timeout_transmits (c : Ctx) (now l : Int) (hinv : Inv c.s c.apps) (hon : c.s.online = true)
    (htx : c.tx = none) (hrx : c.rx = []) (hl : c.s.lastBusActivity = some l)
    (addr : Nat) (d : UseData) (hst : c.s.st = .awaitData addr d) (hlate : l + (c.s.p.silence : Nat) < now) :
    ∃ c', pollInner c now false = .ok c' ∧ c'.tx ≠ none := by
  obtain ⟨c', h, -, -, -, -, -⟩ := silent_bus_progress c now l hinv hon htx hrx hl hlate
  exact ⟨c', h, (silent_poll_transmits_iff c now l hinv hon htx hrx hl hlate c' h).2 (by simp [pollsToTx, hst])⟩

/-! ## Non-vacuity and tightness

A concrete station (TS 1, HSA 2, alone on the bus) that has claimed the token and waits for the reply
of the only GAP address 0.  It satisfies all hypotheses of the theorems above, needs the full three
late polls (`pollsToTx = 3`): the first two late polls transmit nothing (`ClaimToken(Scan)` with the
sweep finished, then `PassToken`), the third passes the token to itself.  The same history on the real
code: `corpus/station/C06_three_polls.ops`. -/

def demoParams : Params :=
  { address := 1, rate := 500000, slotBits := 100, ttrBits := 20000, gapWait := 1, hsa := 2, maxRetry := 1,
    minTsdrBits := 11 }

def demo : Station :=
  { (Station.new demoParams) with
      online := true, st := .claimToken (.scanAwait 0), gap := .doPoll 0, lastBusActivity := some 300066,
      ring := (TokenRing.new 1).claimToken }

theorem demo_inv : Inv demo [] := by
  refine ⟨by decide, by decide, TokenRing.new_ok 1 (by decide), by simp [demo], ?_, ?_, ?_, by simp, ?_, ?_, by simp [demo]⟩
  · intro cur h; simp [demo] at h; subst h; decide
  · intro a h; simp [demo] at h
  · intro a h; simp [demo] at h; subst h; exact ⟨rfl, by decide⟩
  · intro a d h; simp [demo] at h
  · intro sc h; cases h

example : pollsToTx demo = 3 := by decide

example : demoParams.silence = 1600 := by decide

/-- The hypotheses of `silent_bus_three_polls` / `never_permanently_silent` hold for `demo`. -/
example : TransmitsWithin demo [] [] [400000, 500000, 600000] :=
  silent_bus_three_polls demo [] 300066 400000 500000 600000 demo_inv rfl rfl (by decide) (by decide) (by decide)

/-- Two late polls are not enough in general: `demo` stays silent in both, ends in `PassToken`. -/
example : (match demo.poll [] 400000 false [] with
    | .ok c1 => (match c1.s.poll c1.apps 500000 false c1.rx with
      | .ok c2 => (c1.tx, c1.s.st, c1.s.gap, c2.tx, c2.s.st)
      | .panic _ => (none, .offline, .waiting 9, none, .offline))
    | .panic _ => (none, .offline, .waiting 9, none, .offline)) =
    (none, .claimToken .scan, .waiting 0, none, .passToken false .first) := by decide

/-- **Tightness**: from every state with bound 3 (claim scan standing at the last GAP address) the first
TWO late polls transmit nothing — the unrestricted two-poll statement is false, three polls are needed. -/
theorem two_polls_silent_of_bound3 (s : Station) (apps : Apps) (l now now2 : Int) (hinv : Inv s apps)
    (hon : s.online = true) (hl : s.lastBusActivity = some l) (h1 : l + (s.p.silence : Nat) < now) (h2 : now ≤ now2)
    (hb : pollsToTx s = 3) : ¬ TransmitsWithin s apps [] [now, now2] := by
  rintro ⟨c1, hc1, h⟩
  have hc1' : pollInner { s := s, apps := apps, rx := [] } now false = .ok c1 := hc1
  have hs : Sil { s := s, apps := apps, rx := [] } l := ⟨hon, rfl, rfl, hl⟩
  have ht1 := late_noTx_of_bound _ now l hs hinv h1 (by show 2 ≤ pollsToTx s; omega) c1 hc1'
  obtain ⟨c', hc', hi1, -, ho1, hp1, hd⟩ := silent_bus_progress { s := s, apps := apps, rx := [] } now l hinv hon rfl rfl hl h1
  rw [hc1'] at hc'
  cases hc'
  rcases hd with hd | ⟨-, hrx1, hl1, hdef, -⟩
  · exact hd ht1
  · rcases h with h | ⟨c2, hc2, h⟩
    · exact h ht1
    · have hb1 : pollsToTx c1.s = 2 := by
        rcases hdef with ⟨hst, ⟨r, hr⟩, -⟩ | ⟨-, cur, -, -, hst', hg'⟩
        · have hst0 : s.st = .claimToken .scan := hst
          have hr0 : s.gap = .waiting r := hr
          simp [pollsToTx, hst0, hr0] at hb
        · simp [pollsToTx, hst', hg']
      have hs1 : Sil { s := c1.s, apps := c1.apps, rx := c1.rx } l := ⟨ho1, rfl, hrx1, hl1⟩
      have hlate2 : Late c1.s.p l now2 := by
        show l + (c1.s.p.silence : Nat) < now2
        rw [hp1]; show l + (s.p.silence : Nat) < now2; omega
      have ht2 := late_noTx_of_bound _ now2 l hs1 hi1 hlate2 (by show 2 ≤ pollsToTx c1.s; omega) c2 hc2
      rcases h with h | h
      · exact h ht2
      · exact h

/-- The unrestricted two-poll claim fails on the concrete station `demo`. -/
theorem two_polls_not_enough : ∃ (s : Station) (apps : Apps) (l now now2 : Int), Inv s apps ∧ s.online = true ∧
    s.lastBusActivity = some l ∧ l + (s.p.silence : Nat) < now ∧ now ≤ now2 ∧ ¬ TransmitsWithin s apps [] [now, now2] :=
  ⟨demo, [], 300066, 400000, 500000, demo_inv, rfl, rfl, by decide, by decide,
    two_polls_silent_of_bound3 demo [] 300066 400000 500000 demo_inv rfl rfl (by decide) (by decide) (by decide)⟩

def listenDemo : Station :=
  { (Station.new demoParams) with online := true, st := .listenToken none 0, lastBusActivity := some 0 }

/-- Non-vacuity of `claim_progress`: a listening station (TS 1) after 1600 µs (800 bit at 500 kbit/s) of silence. -/
example : ∃ c', pollInner { s := listenDemo, apps := [], rx := [] } 1600 false = .ok c' ∧ c'.tx = some (selfToken 1) := by
  have hinv : Inv listenDemo [] := by
    refine ⟨by decide, by decide, TokenRing.new_ok 1 (by decide), by simp [listenDemo], ?_, by simp [listenDemo],
      by simp [listenDemo], by simp, by simp [listenDemo], ?_, by simp [listenDemo]⟩
    · intro cur h; simp [listenDemo, Station.new] at h; subst h; decide
    · intro sc h; cases h
  obtain ⟨c', h, -, htx, -⟩ := claim_progress { s := listenDemo, apps := [], rx := [] }
    1600 0 hinv rfl rfl rfl rfl (Or.inl ⟨none, 0, rfl⟩) (by decide) (by decide)
  exact ⟨c', h, htx⟩

/-! ## Ring level: the successor stops for good in the timed two-station ring -/

/-- The ring invariant of C01 in phase `pass` (station `x` has just passed the token) gives the crash invariant
`CInv` for `x`, provided `x` was last polled before its slot time ran out. -/
theorem crash_invariant_of_ring (cfg : Cfg) (M : List Nat) (adr : Nat → Nat) (n : Net) (v : NView)
    (h : NInv cfg M adr n v) (hph : v.ph = .pass)
    (hseen : n.bus.seen.getD v.x 0 ≤ v.tr.start + (cfg.b33 : Nat) + (cfg.slot : Nat)) :
    CInv cfg M adr n v.x v.sx .first v.tr.start :=
  CInv.ofNInv h hph hseen

/-- **Recovery from a dead successor in the timed two-station ring** (ring-level clause of C06, clean crash).
Two station models on the byte-accurate bus of `Model/Net.lean`; station `x` has passed the token to the other
station at `s0` (ring invariant `NInv` of C01 in phase `pass`); from then on the other station is never polled
again — it does not accept the token and stays silent — and `x` is polled at increasing times with gaps at most
`P` (`2 + 2P + bits 33 + ⌈11 bit⌉ ≤ Tslot`).  Then (`CrashRun`): every poll of `x` returns regularly and
receives nothing; `x` transmits exactly at the first poll after each slot-time expiry — the same token to the
dead station a second and a third time, the `k`-th transmission no later than `s0 + (k−1)·(bits 33 + Tslot + P)`
— and at the first poll after the third expiry, no later than `s0 + 3·(bits 33 + Tslot + P)`, it removes the
dead station from its LAS, sends the token to itself and is in `UseToken`, alone in its ring view
(`RingView [adr x]`: LAS = {own address}, NS = PS = TS); every later poll returns regularly. -/
theorem successor_crash_recovery (cfg : Cfg) (hok : cfg.Ok) (M : List Nat) (adr : Nat → Nat) (n : Net) (v : NView)
    (h : NInv cfg M adr n v) (hph : v.ph = .pass) (hN : n.stations.length = 2)
    (hseen : n.bus.seen.getD v.x 0 ≤ v.tr.start + (cfg.b33 : Nat) + (cfg.slot : Nat))
    (evs : List Int) (hs : SchedXT cfg.P (n.bus.seen.getD v.x 0) evs) :
    CrashRun cfg M adr v.x v.tr.start 1 n evs :=
  crash_run hok M adr v.x v.tr.start evs n v.sx .first v.tr.start (CInv.ofNInv h hph hseen) hN (by simp [Attempt.num]) hs

/-- The three kinds of poll of the survivor, one at a time (`CInv` is kept until recovery). -/
theorem successor_crash_wait (cfg : Cfg) (hok : cfg.Ok) (M : List Nat) (adr : Nat → Nat) (n : Net) (x : Nat) (sx : NetStation)
    (att : Attempt) (s : Int) (h : CInv cfg M adr n x sx att s) (now : Int) (hown : n.bus.seen.getD x 0 < now)
    (hw : now ≤ s + (cfg.b33 : Nat) + (cfg.slot : Nat)) :
    ∃ n' c, n.poll x now = (n', [], some (.ok c)) ∧ c.tx = none ∧ CInv cfg M adr n' x sx att s :=
  crash_wait h hok now hown hw

theorem successor_crash_resend (cfg : Cfg) (hok : cfg.Ok) (M : List Nat) (adr : Nat → Nat) (n : Net) (x : Nat) (sx : NetStation)
    (att : Attempt) (s : Int) (h : CInv cfg M adr n x sx att s) (hatt : att ≠ .third) (now : Int)
    (hown : n.bus.seen.getD x 0 < now) (hexp : s + (cfg.b33 : Nat) + (cfg.slot : Nat) < now) :
    ∃ n' c next, n.poll x now = (n', [], some (.ok c)) ∧
      c.tx = some (StationGap.tokenBytes (TokenRing.cycSucc (adr x) M) (adr x)) ∧
      ((att = .first ∧ next = .second) ∨ (att = .second ∧ next = .third)) ∧
      CInv cfg M adr n' x (upSt sx c) next now :=
  crash_resend h hok hatt now hown hexp

theorem successor_crash_removed (cfg : Cfg) (hok : cfg.Ok) (M : List Nat) (adr : Nat → Nat) (n : Net) (x : Nat) (sx : NetStation)
    (s : Int) (h : CInv cfg M adr n x sx .third s) (hN : n.stations.length = 2) (now : Int)
    (hown : n.bus.seen.getD x 0 < now) (hexp : s + (cfg.b33 : Nat) + (cfg.slot : Nat) < now) :
    ∃ n' c, n.poll x now = (n', [], some (.ok c)) ∧ c.tx = some (StationGap.tokenBytes (adr x) (adr x)) ∧
      c.s.st = .useToken ⟨now, none⟩ false ∧ RingView [adr x] (adr x) c.s.ring ∧ Inv c.s c.apps ∧
      n'.stations[x]? = some (upSt sx c) :=
  crash_final h hok hN now hown hexp

/-! Non-vacuity: stations 3 and 5 (indices 0, 1) at 500 kbit/s, `Tslot` = 400 µs, `P` = 100 µs (parameters and ring
views of the C13 example).  Station 5 passed the token to station 3 at time 0 (its poll at 0) and supervises;
station 3, last polled at −30 µs, has not seen anything of the token yet — and is never polled again.  Station 5
is polled every 90 µs: it repeats the token at 540 and 1080 µs, removes station 3 at 1620 µs ≤ 3·566 µs. -/
open PV.C13 in
def sC5 : Station :=
  { (Station.new pR5) with online := true, st := .checkTokenPass .first, lastBusActivity := some 66, ring := ringR 5 }
open PV.C13 in
def sC3 : Station :=
  { (Station.new pR3) with online := true, st := .activeIdle none none 0, lastBusActivity := some (-40), ring := ringR 3 }

open PV.C13 in
theorem sC5_inv : Inv sC5 [] := by
  have h := inv_new pR5 [] (by decide) (by decide) (by intro s hs; cases hs)
  exact ⟨h.addr, h.hsa, ringR_ok 5 (by decide), fun ho => by simp [sC5] at ho, h.gap, fun a ha => by simp [sC5] at ha,
    fun a ha => by simp [sC5] at ha, h.app, fun a d ha => by simp [sC5] at ha, h.scripts, by simp [sC5]⟩
open PV.C13 in
theorem sC3_inv : Inv sC3 [] := by
  have h := inv_new pR3 [] (by decide) (by decide) (by intro s hs; cases hs)
  exact ⟨h.addr, h.hsa, ringR_ok 3 (by decide), fun ho => by simp [sC3] at ho, h.gap, fun a ha => by simp [sC3] at ha,
    fun a ha => by simp [sC3] at ha, h.app, fun a d ha => by simp [sC3] at ha, h.scripts, by simp [sC3]⟩

def tokC : Transmission := { start := 0, sender := 1, bytes := StationGap.tokenBytes 3 5, dropped := false }
def nsC3 : NetStation := { s := sC3, apps := [], online := true }
def nsC5 : NetStation := { s := sC5, apps := [], online := true }
def netC : Net := { bus := { rate := 500000, txs := [tokC], seen := [-30, 0] }, stations := [nsC3, nsC5] }
def viewC : NView := { x := 1, sx := nsC5, pre := [], tr := tokC, ph := .pass, H := 332, Lo := 132, tl := 0 }

open PV.C13 in
theorem stokC3 : StOkN cfgR MR nsC3 3 :=
  ⟨rfl, rfl, (fun s hs => by cases hs), sC3_inv, rfl, rfl, rfl, rfl, ringR_view 3 (by decide), by decide⟩
open PV.C13 in
theorem stokC5 : StOkN cfgR MR nsC5 5 :=
  ⟨rfl, rfl, (fun s hs => by cases hs), sC5_inv, rfl, rfl, rfl, rfl, ringR_view 5 (by decide), by decide⟩

open PV.C13 in
theorem ninvC : NInv cfgR MR adrR netC viewC := by
  refine ⟨ringCfgR, by decide, rfl, stokC5, ⟨rfl, rfl, rfl, rfl, List.pairwise_singleton _ _, ?_, ?_⟩, rfl, ?_, ?_, ?_, ?_, ?_,
    rfl, rfl, ?_⟩
  · intro t ht; simp only [netC, List.mem_singleton] at ht; subst ht; rfl
  · intro t ht; simp only [netC, List.mem_singleton] at ht; subst ht
    exact ⟨1, by decide, rfl, .inl (by decide)⟩
  · intro o ho; simp only [netC, List.mem_singleton] at ho; subst ho; exact .inl rfl
  · intro l hl o ho hs; simp only [netC, List.mem_singleton] at ho; subst ho
    have : l = 66 := by
      have : viewC.sx.s.lastBusActivity = some 66 := rfl
      rw [this] at hl; exact (Option.some.inj hl).symm
    subst this; decide
  · intro j hj hjx
    have : j = 0 := by simp only [netC, viewC, List.length_cons, List.length_nil] at hj hjx; omega
    subst this
    refine ⟨nsC3, rfl, stokC3, [], [tokC], true, -40, rfl, ?_, ?_, by decide, by decide, ?_, ?_, rfl, .inl (by decide), ?_, ?_, ?_⟩
    · intro o ho; cases ho
    · intro t ht; simp only [List.mem_singleton] at ht; subst ht; decide
    · intro o ho hs; simp only [netC, List.mem_singleton] at ho; subst ho; cases hs
    · intro t rest hrs; cases hrs; decide
    · intro t ht; cases ht
    · intro _; simp
    · simp only [if_true]; exact ⟨⟨none, 0, rfl⟩, by decide⟩
  · intro j hj
    have : j = 0 ∨ j = 1 := by simp only [netC, List.length_cons, List.length_nil] at hj; omega
    rcases this with rfl | rfl <;> decide
  · intro t ht; simp only [netC, List.mem_singleton] at ht; subst ht; decide
  · unfold PhaseOkN
    show _ ∧ _
    refine ⟨rfl, by decide, rfl, rfl, by decide, by decide, by decide, ?_⟩
    intro s hs hsa
    have : s = 0 ∨ s = 1 := by simp only [netC, List.length_cons, List.length_nil] at hs; omega
    rcases this with rfl | rfl
    · decide
    · exact absurd hsa (by decide)

def evsC : List Int :=
  [90, 180, 270, 360, 450, 540, 630, 720, 810, 900, 990, 1080, 1170, 1260, 1350, 1440, 1530, 1620, 1710, 1800]

open PV.C13 in
example : CrashRun cfgR MR adrR 1 0 1 netC evsC :=
  successor_crash_recovery cfgR cfgR_ok MR adrR netC viewC ninvC rfl rfl (by decide) evsC (by
    show SchedXT 100 0 evsC
    simp [SchedXT, evsC])

/-! ## Ring level (timed): never two token holders, agreement is kept -/

/-- **Token uniqueness and LAS agreement are kept along every run of the stable timed ring** (any `N ≥ 2`
station models on the byte-accurate bus of `Model/Net.lean`, with or without unanswered application traffic;
hypotheses as in `PV.C01.n_station_ring_run_apps`: the ring invariant `NInv` at the start, every station polled
at least every `P` µs).  Before every event and at the end of the run (`AgreeRun`): at most one station is in a
token-holding state (`UseToken`, `AwaitDataResponse`, `AwaitStatusResponse`, `PassToken`, `ClaimToken`), and
every station's ring view is the member list `M` — LAS = `M`, valid, NS and PS the cyclic neighbours of its own
address (the "agreement is never lost again" half of C02 for the timed system; reaching the agreement from a
cold start is not proved). -/
theorem stable_ring_agreement (cfg : Cfg) (hok : cfg.Ok) (hP100 : cfg.P ≤ 100000) (M : List Nat) (adr : Nat → Nat)
    (n : Net) (v : NView) (h : NInv cfg M adr n v) (evs : List (Nat × Int)) (hs : SchedN cfg.P n v.tl evs) :
    AgreeRun M adr n evs :=
  ringN_agree_run hok hP100 M adr evs n v h hs

/-- One state: the ring invariant gives agreement and token uniqueness. -/
theorem ring_invariant_agrees (cfg : Cfg) (M : List Nat) (adr : Nat → Nat) (n : Net) (v : NView)
    (h : NInv cfg M adr n v) : Agree M adr n := h.agree

/-! Non-vacuity: the three-station example of C01 with application traffic. -/
example : AgreeRun PV.C01.M3 PV.C01.adr3 PV.C01.net3a PV.C01.evs3 :=
  stable_ring_agreement PV.C01.cfg2 PV.C01.cfg2_ok (by decide) PV.C01.M3 PV.C01.adr3 PV.C01.net3a PV.C01.view3a
    PV.C01.ninv3a PV.C01.evs3
    (schedN_of_times _ _ _ _ (by
      show SchedNT 100 3 [0, 70, 68] 70 PV.C01.evs3
      simp [SchedNT, PV.C01.evs3]
      decide))

/-! ## Ring level (timed): the token holder stops for good — the survivor generates a new token -/

/-- A listener of the stable ring that is idle, has been polled after the end of every transmission and whose
stamp is not in the future satisfies the quiet-survivor invariant `QInv`. -/
theorem quiet_invariant_of_ring (cfg : Cfg) (hok : cfg.Ok) (M : List Nat) (adr : Nat → Nat) (n : Net) (v : NView)
    (h : NInv cfg M adr n v) (j : Nat) (hj : j < n.stations.length) (hjx : j ≠ v.x) (st : NetStation)
    (hst : n.stations[j]? = some st) (hidle : ∃ np coll, st.s.st = .activeIdle none np coll)
    (hall : ∀ t ∈ n.bus.txs, cEnd cfg t ≤ n.bus.seen.getD j 0)
    (hstamp : ∀ l, st.s.lastBusActivity = some l → l ≤ n.bus.seen.getD j 0) :
    ∃ l, QInv cfg M adr n j st l :=
  QInv.ofNInv h hok j hj hjx st hst hidle hall hstamp

/-- The poll at which the quiet survivor's token-lost time-out has run out: it claims the token. -/
theorem holder_crash_claim_step (cfg : Cfg) (hok : cfg.Ok) (M : List Nat) (adr : Nat → Nat) (n : Net) (j : Nat)
    (st : NetStation) (l : Int) (h : QInv cfg M adr n j st l) (now : Int) (hown : n.bus.seen.getD j 0 < now)
    (hexp : l + (st.s.p.tokenLostTimeout : Nat) ≤ now) :
    ∃ n' c, n.poll j now = (n', [], some (.ok c)) ∧ c.tx = some (selfToken (adr j)) ∧
      c.s.st = .claimToken .secondToken ∧ c.s.ring = st.s.ring.claimToken ∧ Inv c.s c.apps ∧
      n'.stations[j]? = some (upSt st c) := by
  obtain ⟨hd, hphy⟩ := quiet_deliver h hok now hown
  obtain ⟨np, coll, hst⟩ := h.idle
  have htto := h.okj.tto
  have hb33 := h.okj.b33
  have hgm : cfg.b33 ≤ cfg.gmax := by unfold Cfg.gmax; omega
  obtain ⟨c, hc, hinv, htx, hcs, -, hring, -⟩ := claim_progress { s := st.s, apps := st.apps, rx := [] } now l h.okj.inv
    h.okj.son rfl rfl h.stamp (.inr ⟨none, np, coll, hst⟩) (by show (now - l).natAbs ≥ st.s.p.tokenLostTimeout; omega)
    (by show l + (st.s.p.bits 33 : Nat) < now; rw [hb33]; omega)
  have hp' : st.s.poll st.apps now (Bus.transmitting { n.bus with seen := n.bus.seen.set j now } j now)
      (st.rx ++ []) = .ok c := by rw [transmitting_seen, h.rx, hphy]; exact hc
  have hpe := Net.poll_eq n j now st _ [] c h.gj h.okj.alive h.okj.online hd hp'
  refine ⟨_, c, hpe, by rw [htx]; show _ = some (selfToken (adr j)); rw [← h.okj.addr], hcs, hring, hinv, ?_⟩
  exact List.getElem?_set_self h.jlt

/-- Run of the quiet survivor (`T` = stamp + token-lost time-out, `lim` = latest time of the claim): every poll
returns regularly and receives nothing; before `T` nothing is transmitted; the first poll at or after `T` — no
later than `lim` — transmits the token addressed to the station itself (`ClaimToken`); afterwards every poll
returns regularly. -/
def ClaimRun (j aj : Nat) (lim T : Int) : Net → List Int → Prop
  | _, [] => True
  | n, now :: rest =>
    ∃ n' c, n.poll j now = (n', [], some (.ok c)) ∧ now ≤ lim ∧
      ((c.tx = none ∧ now < T ∧ ClaimRun j aj lim T n' rest) ∨
       (T ≤ now ∧ c.tx = some (selfToken aj) ∧ c.s.st = .claimToken .secondToken ∧ SoloRun j n' rest))

/-- **The token holder stops for good: the survivor generates a new token** (ring-level clause of C06, lost
token).  Station models on the byte-accurate bus of `Model/Net.lean`; the survivor `j` is idle, up to date and
has stamp `l` (`QInv`, e.g. a listener of the stable ring after the end of the holder's last transmission:
`quiet_invariant_of_ring`); from now on only `j` is polled, at increasing times with gaps at most `P`.  Then
(`ClaimRun`): every poll returns regularly and receives nothing; nothing is transmitted before
`l + Tto` (its token-lost time-out `Tsl·(6 + 2·TS)`); the first poll at or after `l + Tto` — no later than
`max(last poll, l + Tto) + P` — transmits the self-addressed token, the station is in `ClaimToken`; all later
polls return regularly. -/
theorem holder_crash_claim (cfg : Cfg) (hok : cfg.Ok) (M : List Nat) (adr : Nat → Nat) (j : Nat) (st : NetStation) (l : Int)
    (S : Int) : ∀ (evs : List Int) (n : Net), QInv cfg M adr n j st l → n.bus.seen.getD j 0 ≤ S →
    l + (st.s.p.tokenLostTimeout : Nat) ≤ S → SchedXT cfg.P (n.bus.seen.getD j 0) evs →
    ClaimRun j (adr j) (S + (cfg.P : Nat)) (l + (st.s.p.tokenLostTimeout : Nat)) n evs := by
  intro evs
  induction evs with
  | nil => intro _ _ _ _ _; trivial
  | cons now rest ih =>
    intro n h hS hT hsch
    obtain ⟨hlt, hle, hrest⟩ := hsch
    have hjs : j < n.bus.seen.length := by rw [h.log.seen]; exact h.jlt
    have hseen' : ∀ n' inc r, n.poll j now = (n', inc, r) → n'.bus.seen.getD j 0 = now := by
      intro n' inc r hp
      have := Net.poll_seenN n j now
      rw [hp] at this
      simp only at this
      rw [this, seen_set_self _ _ _ hjs]
    by_cases hw : now < l + (st.s.p.tokenLostTimeout : Nat)
    · obtain ⟨n', c, hp, htx, hinv'⟩ := quiet_wait h hok now hlt hw
      refine ⟨n', c, hp, by omega, .inl ⟨htx, hw, ?_⟩⟩
      exact ih n' hinv' (by rw [hseen' _ _ _ hp]; omega) hT (by rw [hseen' _ _ _ hp]; exact hrest)
    · obtain ⟨n', c, hp, htx, hcs, -, hinvc, hgj'⟩ := holder_crash_claim_step cfg hok M adr n j st l h now hlt (by omega)
      refine ⟨n', c, hp, by omega, .inr ⟨by omega, htx, hcs, ?_⟩⟩
      exact solo_regular j rest n' (upSt st c) hgj' h.okj.alive h.okj.online hinvc

/-! Non-vacuity: in the three-station example of C01 (`net3a`: station 5 holds the token since 70 µs) station 7
(index 2) is idle, was polled at 68 µs after the end (66 µs) of the only transmission and has stamp 68.  If from
now on only station 7 is polled (every 90 µs), it claims the token at the first poll at or after 68 + 8000 µs. -/
example : ∃ l : Int, QInv PV.C01.cfg2 PV.C01.M3 PV.C01.adr3 PV.C01.net3a 2 PV.C01.ns3c l :=
  quiet_invariant_of_ring PV.C01.cfg2 PV.C01.cfg2_ok PV.C01.M3 PV.C01.adr3 PV.C01.net3a PV.C01.view3a PV.C01.ninv3a 2
    (by decide) (by decide) PV.C01.ns3c rfl ⟨none, 0, rfl⟩
    (by intro t ht; simp only [PV.C01.net3a, List.mem_singleton] at ht; subst ht; decide)
    (by intro l hl; have : PV.C01.ns3c.s.lastBusActivity = some 68 := rfl; rw [this] at hl; cases hl; decide)

/-- Equidistant poll times `a + d, a + 2d, …` (`k` of them). -/
def apList (d : Int) : Int → Nat → List Int
  | _, 0 => []
  | a, k + 1 => (a + d) :: apList d (a + d) k

theorem schedXT_ap (P : Nat) (d : Int) (hd : 0 < d) (hdP : d ≤ (P : Int)) : ∀ (k : Nat) (a : Int), SchedXT P a (apList d a k) := by
  intro k
  induction k with
  | zero => intro a; trivial
  | succ k ih => intro a; exact ⟨by omega, by omega, ih (a + d)⟩

def evsQ : List Int := apList 90 68 95

example (l : Int) (hq : QInv PV.C01.cfg2 PV.C01.M3 PV.C01.adr3 PV.C01.net3a 2 PV.C01.ns3c l) :
    ClaimRun 2 7 (max 68 (l + 8000) + 100) (l + 8000) PV.C01.net3a evsQ :=
  holder_crash_claim PV.C01.cfg2 PV.C01.cfg2_ok PV.C01.M3 PV.C01.adr3 2 PV.C01.ns3c l (max 68 (l + 8000)) evsQ PV.C01.net3a hq
    (by show (68 : Int) ≤ max 68 (l + 8000); omega) (by show l + 8000 ≤ max 68 (l + 8000); omega)
    (schedXT_ap 100 90 (by decide) (by decide) 95 68)

/-! ## Ring level (timed): cold start, phase (a1) — the first claim (C02 "the ring forms") -/

/-- The poll at which the first time-out of the silent cold start has run out: that station claims the token. -/
theorem cold_start_claim_step (n : Net) (lst : Nat → Int) (h : CS0 n lst) (j : Nat) (hj : j < n.stations.length) (now : Int)
    (hown : n.bus.seen.getD j 0 < now) (st : NetStation) (hst : n.stations[j]? = some st)
    (hexp : lst j + (st.s.p.tokenLostTimeout : Nat) ≤ now) (hsync : st.s.p.bits 33 < st.s.p.tokenLostTimeout) :
    ∃ n' c, n.poll j now = (n', [], some (.ok c)) ∧ c.tx = some (selfToken st.s.p.address) ∧
      c.s.st = .claimToken .secondToken ∧ Inv c.s c.apps ∧ n'.stations = n.stations.set j (upSt st c) := by
  obtain ⟨st', hst', hL, hls⟩ := h.st j hj
  rw [hst] at hst'
  cases hst'
  obtain ⟨coll, hs⟩ := hL.lis
  obtain ⟨c, hc, hinv, htx, hcs, -, -, -⟩ := claim_progress { s := st.s, apps := st.apps, rx := [] } now (lst j) hL.inv
    hL.son rfl rfl hL.stamp (.inl ⟨none, coll, hs⟩) (by show (now - lst j).natAbs ≥ st.s.p.tokenLostTimeout; omega)
    (by show lst j + (st.s.p.bits 33 : Nat) < now; omega)
  have hp' : st.s.poll st.apps now (Bus.transmitting { n.bus with seen := n.bus.seen.set j now } j now)
      (st.rx ++ []) = .ok c := by
    rw [transmitting_seen, hL.rx, Bus.transmitting_nil _ _ _ h.txs]; exact hc
  have hpe := Net.poll_eq n j now st _ [] c hst hL.alive hL.online (Bus.deliver_nil n.bus j now h.txs) hp'
  exact ⟨_, c, hpe, htx, hcs, hinv, rfl⟩

/-- Run of the silent cold start up to the first claim (`L` = the station whose time-out runs out first,
`T` = that instant, `lim` = latest time of the claim): every poll returns regularly and receives nothing; nobody
transmits before `L`'s first poll at or after `T`, which happens no later than `lim` and transmits the token
addressed to `L` itself (`ClaimToken`); all other station records are still untouched. -/
def FirstClaimRun (L aL : Nat) (T lim : Int) : Net → List (Nat × Int) → Prop
  | _, [] => True
  | n, (i, now) :: rest =>
    ∃ n' c, n.poll i now = (n', [], some (.ok c)) ∧
      ((c.tx = none ∧ (i = L → now < T) ∧ n'.stations = n.stations ∧ FirstClaimRun L aL T lim n' rest) ∨
       (i = L ∧ T ≤ now ∧ now ≤ lim ∧ c.tx = some (selfToken aL) ∧ c.s.st = .claimToken .secondToken ∧
          ∀ j, j ≠ L → n'.stations[j]? = n.stations[j]?))

/-- **Cold start, phase (a1): the first claim** (C02 "the ring forms", first step; any number of stations).
All stations are online and listen on a bus on which nothing has been transmitted (`CS0`: `ListenToken`, empty
buffers, stamps `lst j` not later than their last polls).  Station `L` is the one whose token-lost time-out runs
out first, with a stagger: `T = lst L + Tto_L`, `T + P < lst j + Tto_j` for every other station `j`
(`claim_staggered`: the time-outs of stations that started counting together differ by at least two slot times
per address), and `L` was last polled before `T`.  Every station is polled at least every `P` µs.  Then
(`FirstClaimRun`): every poll returns regularly; nobody transmits before `L`'s first poll at or after `T`, and
that poll — no later than `T + P` — transmits the self-addressed token and leaves `L` in
`ClaimToken(SecondToken)`; all other stations are still listening, untouched. -/
theorem cold_start_first_claim (P : Nat) (lst : Nat → Int) (L : Nat) (stL : NetStation) :
    ∀ (evs : List (Nat × Int)) (n : Net) (tl : Int), CS0 n lst → n.stations[L]? = some stL →
    stL.s.p.bits 33 < stL.s.p.tokenLostTimeout →
    n.bus.seen.getD L 0 < lst L + (stL.s.p.tokenLostTimeout : Nat) →
    (∀ j st, j ≠ L → n.stations[j]? = some st →
      lst L + (stL.s.p.tokenLostTimeout : Nat) + (P : Nat) < lst j + (st.s.p.tokenLostTimeout : Nat)) →
    SchedN P n tl evs →
    FirstClaimRun L stL.s.p.address (lst L + (stL.s.p.tokenLostTimeout : Nat))
      (lst L + (stL.s.p.tokenLostTimeout : Nat) + (P : Nat)) n evs := by
  intro evs
  induction evs with
  | nil => intro _ _ _ _ _ _ _ _; trivial
  | cons ev rest ih =>
    intro n tl h hL hsync hseenL hstag hs
    obtain ⟨i, now⟩ := ev
    obtain ⟨hi, htl, hown, hgap, hrest⟩ := hs
    have hLl : L < n.stations.length := by
      rcases Nat.lt_or_ge L n.stations.length with h' | h'
      · exact h'
      · rw [List.getElem?_eq_none_iff.2 h'] at hL; cases hL
    have hgL := hgap L hLl
    obtain ⟨sti, hsti, hLi, hlsi⟩ := h.st i hi
    by_cases hiL : i = L
    · subst hiL
      rw [hL] at hsti; cases hsti
      by_cases hw : now < lst i + (stL.s.p.tokenLostTimeout : Nat)
      · obtain ⟨n', c, hp, htx, h', hsame⟩ := cs0_wait h i hi now hown stL hL hw
        refine ⟨n', c, hp, .inl ⟨htx, fun _ => hw, hsame, ?_⟩⟩
        have hn' : (n.poll i now).1 = n' := by rw [hp]
        rw [hn'] at hrest
        have hseen' : n'.bus.seen.getD i 0 = now := by
          have := Net.poll_seenN n i now
          rw [hp] at this
          simp only at this
          rw [this, seen_set_self _ _ _ (by rw [h.seenlen]; exact hi)]
        exact ih n' now h' (by rw [hsame]; exact hL) hsync (by rw [hseen']; exact hw)
          (fun j st hj hst => hstag j st hj (by rw [← hsame]; exact hst)) hrest
      · obtain ⟨n', c, hp, htx, hcs, -, hset⟩ := cold_start_claim_step n lst h i hi now hown stL hL (by omega) hsync
        refine ⟨n', c, hp, .inr ⟨rfl, by omega, by omega, htx, hcs, ?_⟩⟩
        intro j hj
        rw [hset, List.getElem?_set_ne (Ne.symm hj)]
    · have hw : now < lst i + (sti.s.p.tokenLostTimeout : Nat) := by
        have := hstag i sti hiL hsti
        omega
      obtain ⟨n', c, hp, htx, h', hsame⟩ := cs0_wait h i hi now hown sti hsti hw
      refine ⟨n', c, hp, .inl ⟨htx, fun e => absurd e hiL, hsame, ?_⟩⟩
      have hn' : (n.poll i now).1 = n' := by rw [hp]
      rw [hn'] at hrest
      have hseen' : n'.bus.seen.getD L 0 = n.bus.seen.getD L 0 := by
        have := Net.poll_seenN n i now
        rw [hp] at this
        simp only at this
        rw [this, seen_set_other _ _ _ _ hiL]
      exact ih n' now h' (by rw [hsame]; exact hL) hsync (by rw [hseen']; exact hseenL)
        (fun j st hj hst => hstag j st hj (by rw [← hsame]; exact hst)) hrest

/-! Non-vacuity of phase (a1): stations 3 and 5 (parameters of the C13 example, `Tslot` = 400 µs) listen since
their first polls at 0 and 50 µs; token-lost time-outs 4800 µs and 6400 µs; both polled every 100 µs.  Station 3
claims at its poll at 4800 µs. -/
open PV.C13 in
def sL3 : Station := { (Station.new pR3) with online := true, st := .listenToken none 0, lastBusActivity := some 0 }
open PV.C13 in
def sL5 : Station := { (Station.new pR5) with online := true, st := .listenToken none 0, lastBusActivity := some 50 }
def netL : Net :=
  { bus := { rate := 500000, txs := [], seen := [0, 50] },
    stations := [{ s := sL3, apps := [], online := true }, { s := sL5, apps := [], online := true }] }
def lstL (j : Nat) : Int := if j = 0 then 0 else 50

open PV.C13 in
theorem cs0L : CS0 netL lstL := by
  refine ⟨rfl, rfl, ?_⟩
  intro j hj
  have : j = 0 ∨ j = 1 := by simp only [netL, List.length_cons, List.length_nil] at hj; omega
  have hinv3 : Inv sL3 [] := by
    have h := inv_new pR3 [] (by decide) (by decide) (by intro s hs; cases hs)
    exact ⟨h.addr, h.hsa, h.ring, fun ho => by simp [sL3] at ho, h.gap, fun a ha => by simp [sL3] at ha,
      fun a ha => by simp [sL3] at ha, h.app, fun a d ha => by simp [sL3] at ha, h.scripts, by simp [sL3]⟩
  have hinv5 : Inv sL5 [] := by
    have h := inv_new pR5 [] (by decide) (by decide) (by intro s hs; cases hs)
    exact ⟨h.addr, h.hsa, h.ring, fun ho => by simp [sL5] at ho, h.gap, fun a ha => by simp [sL5] at ha,
      fun a ha => by simp [sL5] at ha, h.app, fun a d ha => by simp [sL5] at ha, h.scripts, by simp [sL5]⟩
  rcases this with rfl | rfl
  · exact ⟨_, rfl, ⟨rfl, rfl, hinv3, rfl, rfl, ⟨0, rfl⟩, rfl⟩, by decide⟩
  · exact ⟨_, rfl, ⟨rfl, rfl, hinv5, rfl, rfl, ⟨0, rfl⟩, rfl⟩, by decide⟩

def evsL : List (Nat × Int) := [(0, 100), (1, 150), (0, 200), (1, 250), (0, 300), (1, 350), (0, 400), (1, 450), (0, 500), (1, 550), (0, 600), (1, 650), (0, 700), (1, 750), (0, 800), (1, 850), (0, 900), (1, 950), (0, 1000), (1, 1050), (0, 1100), (1, 1150), (0, 1200), (1, 1250), (0, 1300), (1, 1350), (0, 1400), (1, 1450), (0, 1500), (1, 1550), (0, 1600), (1, 1650), (0, 1700), (1, 1750), (0, 1800), (1, 1850), (0, 1900), (1, 1950), (0, 2000), (1, 2050), (0, 2100), (1, 2150), (0, 2200), (1, 2250), (0, 2300), (1, 2350), (0, 2400), (1, 2450), (0, 2500), (1, 2550), (0, 2600), (1, 2650), (0, 2700), (1, 2750), (0, 2800), (1, 2850), (0, 2900), (1, 2950), (0, 3000), (1, 3050), (0, 3100), (1, 3150), (0, 3200), (1, 3250), (0, 3300), (1, 3350), (0, 3400), (1, 3450), (0, 3500), (1, 3550), (0, 3600), (1, 3650), (0, 3700), (1, 3750), (0, 3800), (1, 3850), (0, 3900), (1, 3950), (0, 4000), (1, 4050), (0, 4100), (1, 4150), (0, 4200), (1, 4250), (0, 4300), (1, 4350), (0, 4400), (1, 4450), (0, 4500), (1, 4550), (0, 4600), (1, 4650), (0, 4700), (1, 4750), (0, 4800), (1, 4850), (0, 4900), (1, 4950)]

example : FirstClaimRun 0 3 4800 4900 netL evsL :=
  cold_start_first_claim 100 lstL 0 { s := sL3, apps := [], online := true } evsL netL 50 cs0L rfl (by decide) (by decide)
    (by
      intro j st hj hst
      have : j = 1 ∨ 2 ≤ j := by omega
      rcases this with rfl | h2
      · cases hst; decide
      · simp [netL, h2] at hst)
    (schedN_of_times _ _ _ _ (schedNT_of_b 100 2 evsL [0, 50] 50 (by decide)))

/-! ## Ring level (timed): cold start of a station that is alone — the one-station ring forms -/

/-- The formation budget in the configuration constants: two synchronisation pauses after the first claim token,
the second token, one sweep step (`P + bits 66 + Tslot`) per address of the GAP (`HSA − 1` addresses), and three
more polls (end of the sweep, `PassToken`, the token to itself). -/
theorem formTime_value (cfg : Cfg) (hsa : Nat) :
    cfg.formTime hsa = 2 * cfg.b33 + (cfg.P + 2 * cfg.b33 + (hsa - 1) * (cfg.P + cfg.b66 + cfg.slot) + 3 * cfg.P) := rfl

/-- One poll of the lone claimant in any stage of the formation (`form_step`). -/
theorem one_station_ring_step (cfg : Cfg) (hok : cfg.Ok) (n : Net) (x : Nat) (st : NetStation) (l : Int)
    (h : Solo cfg n x st l) (stage : SStage) (hs : stage.ok st.s)
    (hv : RingView [st.s.p.address] st.s.p.address st.s.ring) (B : Int) (now : Int)
    (hown : n.bus.seen.getD x 0 < now) (hP : now ≤ n.bus.seen.getD x 0 + (cfg.P : Nat))
    (hB : max (n.bus.seen.getD x 0) (l + ((stage.wait cfg : Nat) : Int)) +
      ((stage.rest cfg st.s.p.address st.s.p.hsa : Nat) : Int) ≤ B) :
    ∃ n' c, n.poll x now = (n', [], some (.ok c)) ∧ n'.bus.seen.getD x 0 = now ∧
      now ≤ max (n.bus.seen.getD x 0) (l + ((stage.wait cfg : Nat) : Int)) + (cfg.P : Nat) ∧
      FormOut cfg x st.s.p.address B st n' c now l
        (max (n.bus.seen.getD x 0) (l + ((stage.wait cfg : Nat) : Int)) + ((stage.slack cfg : Nat) : Int)) :=
  form_step h hok stage hs hv B now hown hP hB

/-- **Cold start of a station that is alone on the bus: the one-station ring forms** (C02 "the ring forms" for
one station; phases (a1)–(a4) of the cold start without a second station).  A station model on the byte-accurate
bus of `Model/Net.lean`, online in `ListenToken` with stamp `l`, empty buffer, every logged transmission its own
or completely delivered to it (`Solo`; e.g. nothing transmitted yet), knowing only itself (`RingView [TS]` once its LAS is declared
valid), polled at increasing times with gaps at most `P` (`2 + 2P + bits 33 + ⌈11 bit⌉ ≤ Tslot`,
`bits 33 < Tto`), nothing else on the bus.  Then (`LoneRun`, `FormRun`): every poll returns regularly and
receives nothing; nothing is transmitted before `T = l + Tto`; the first poll at or after `T`, no later than
`max(last poll, T) + P`, transmits the first claim token; then the second claim token, one status request to
every other address below HSA — in the order of the GAP sweep, each after the slot time of the previous one has
run out —, and finally the token to the station itself: at that poll, no later than `formTime` after the first
claim (`formTime_value`), the station is in `UseToken` and its ring view is that of the one-member ring (LAS =
{TS}, NS = PS = TS).  Until then it is in `ClaimToken` / `PassToken` and transmits nothing else; all later polls
return regularly. -/
theorem one_station_ring_forms (cfg : Cfg) (hok : cfg.Ok) (x : Nat) (st : NetStation) (l : Int) (coll : Nat) (S : Int)
    (evs : List Int) (n : Net) (h : Solo cfg n x st l) (hst : st.s.st = .listenToken none coll)
    (hsync : cfg.b33 < st.s.p.tokenLostTimeout)
    (hv : RingView [st.s.p.address] st.s.p.address st.s.ring.claimToken)
    (hS : n.bus.seen.getD x 0 ≤ S) (hT : l + (st.s.p.tokenLostTimeout : Nat) ≤ S)
    (hs : SchedXT cfg.P (n.bus.seen.getD x 0) evs) :
    LoneRun x st.s.p.address (l + (st.s.p.tokenLostTimeout : Nat)) (S + (cfg.P : Nat)) (cfg.formTime st.s.p.hsa) n evs :=
  lone_cold_start hok x st l coll S evs n h hst hsync hv hS hT hs

/-! Non-vacuity: station 3 alone (parameters of the C13 example: HSA 10, `Tslot` = 400 µs, `Tto` = 4800 µs), listening
since 0, polled every 90 µs: first claim at 4860 µs, the ring of one stands no later than 4860 + 6352 µs. -/
open PV.C13 in
def netOne : Net := { bus := { rate := 500000, txs := [], seen := [0] }, stations := [{ s := sL3, apps := [], online := true }] }

open PV.C13 in
theorem soloOne : Solo cfgR netOne 0 { s := sL3, apps := [], online := true } 0 := by
  have hinv3 : Inv sL3 [] := by
    have h := inv_new pR3 [] (by decide) (by decide) (by intro s hs; cases hs)
    exact ⟨h.addr, h.hsa, h.ring, fun ho => by simp [sL3] at ho, h.gap, fun a ha => by simp [sL3] at ha,
      fun a ha => by simp [sL3] at ha, h.app, fun a d ha => by simp [sL3] at ha, h.scripts, by simp [sL3]⟩
  exact ⟨rfl, rfl, rfl, List.Pairwise.nil, (fun o ho => by cases ho), (fun o ho => by cases ho), (fun o ho => by cases ho),
    (fun o ho => by cases ho), by decide, by decide, rfl, rfl, rfl, hinv3, rfl, rfl, rfl, rfl, rfl⟩

theorem viewOne : RingView [3] 3 (TokenRing.new 3).claimToken := by
  refine ⟨⟨by simp, trivial, by decide⟩, by simp, rfl, rfl, ?_, TokenRing.new_nbr 3⟩
  intro a ha
  unfold TokenRing.claimToken TokenRing.new TokenRing.isActive
  simp [ha]

open PV.C13 in
example : LoneRun 0 3 4800 4900 (cfgR.formTime 10) netOne (apList 90 0 140) :=
  one_station_ring_forms cfgR cfgR_ok 0 { s := sL3, apps := [], online := true } 0 0 4800 (apList 90 0 140) netOne soloOne rfl
    (by decide) viewOne (by decide) (by decide) (schedXT_ap 100 90 (by decide) (by decide) 140 0)

open PV.C13 in
example : cfgR.formTime 10 = 6352 := by decide

/-! ## Cold start / late joiner, phase (b) at station level: the listener learns the ring of the lone holder -/

/-- Three or more witnessed passes `aL → aL` give a fresh station a valid LAS that is exactly `{aL}`. -/
theorem witnessK_ready (aL me : Nat) (haL : aL ≤ 125) : ∀ k, 3 ≤ k →
    (witnessK aL k (TokenRing.new me)).las = .valid ∧ TokenRing.LasIs (witnessK aL k (TokenRing.new me)) [aL] := by
  have hring : C02.Ring [aL] := ⟨by simp, trivial, by intro z hz; simp only [List.mem_singleton] at hz; omega⟩
  have h3 := C02.las_learns me [aL] hring aL aL haL haL (Nat.le_refl _)
  have key : ∀ j, (witnessK aL j (witnessK aL 3 (TokenRing.new me))).las = .valid ∧
      TokenRing.LasIs (witnessK aL j (witnessK aL 3 (TokenRing.new me))) [aL] := by
    intro j
    have gen : ∀ (j : Nat) (r : TokenRing), r.las = .valid → TokenRing.LasIs r [aL] →
        (witnessK aL j r).las = .valid ∧ TokenRing.LasIs (witnessK aL j r) [aL] := by
      intro j
      induction j with
      | zero => intro r h1 h2; exact ⟨h1, h2⟩
      | succ j ih =>
        intro r h1 h2
        unfold witnessK
        apply ih
        · rw [TokenRing.witness_valid r aL aL h1 haL haL]; exact (TokenRing.updateLas_las r _ _).1.trans h1
        · rw [TokenRing.witness_valid r aL aL h1 haL haL]
          have := TokenRing.updateLas_succ_stable r [aL] aL h2 (by simp)
          rw [cycSucc_single] at this
          exact this
    exact gen j _ h3.1 h3.2
  have hadd : ∀ (a b : Nat) (r : TokenRing), witnessK aL (a + b) r = witnessK aL b (witnessK aL a r) := by
    intro a
    induction a with
    | zero => intro b r; simp [witnessK]
    | succ a ih =>
      intro b r
      rw [Nat.succ_add]
      show witnessK aL (a + b) (r.witness aL aL) = witnessK aL b (witnessK aL a (r.witness aL aL))
      exact ih b _
  intro k hk
  have : k = 3 + (k - 3) := by omega
  rw [this, hadd]
  exact key (k - 3)

/-- **Phase (b): LAS learning of a listener under arbitrary chunking** (station level).  A freshly started station
(`TokenRing.new`, `ListenToken`, empty buffer) overhears the traffic of a lone token holder `aL` — self-addressed
tokens and GAP requests to addresses other than its own — delivered in arbitrary chunks at arbitrary poll times,
never `Tto` after the last poll that brought new bytes (`FeedOk`).  Every poll returns regularly and transmits
nothing; at the end the station is still in `ListenToken` with an empty buffer, and if the stream contained at
least three tokens its LAS is valid and equals `{aL}`: it is ready for the ring, so that it answers the next GAP
request addressed to it with "ready" (`PV.C12.listen_reply`). -/
theorem listener_learns_lone_ring (apps : Apps) (aL coll : Nat) (haL : aL ≤ 125) (ins : List (Int × Bytes)) (s : Station)
    (rem : List Telegram) (l tp : Int) (hon : s.online = true) (hst : s.st = .listenToken none coll)
    (hl : s.lastBusActivity = some l) (hltp : l ≤ tp) (hpb : s.pendingBytes = 0) (hne : aL ≠ s.p.address)
    (hto : 0 < s.p.tokenLostTimeout) (hring : s.ring = TokenRing.new s.p.address)
    (hstream : (ins.map Prod.snd).flatten = streamOf rem) (hlone : ∀ t ∈ rem, LoneTel aL s.p.address t)
    (h3 : 3 ≤ countTok rem) (hfeed : FeedOk s.p.tokenLostTimeout l tp ins) :
    ∃ s', listenRun apps s [] ins = some (s', []) ∧ s'.st = .listenToken none coll ∧ s'.online = true ∧ s'.p = s.p ∧
      s'.ring = hearAll aL rem s.ring ∧ s'.ring.readyForRing = true ∧ TokenRing.LasIs s'.ring [aL] := by
  obtain ⟨s', hrun, a1, a2, a3, a4⟩ := listen_learns apps aL coll (by omega) ins s [] rem l l tp hon hst hl (Int.le_refl _) hltp
    (by rw [hpb]; exact Nat.zero_le _) hne hto (by simpa using hstream) hlone
    (fun t ht => by
      have : t ∈ rem := by cases rem with
        | nil => cases ht
        | cons a r => simp only [List.head?_cons, Option.some.injEq] at ht; subst ht; exact List.mem_cons_self ..
      simpa using (hlone t this).wire_pos) hfeed
  have hr := witnessK_ready aL s.p.address haL (countTok rem) h3
  rw [← hearAll_count, ← hring, ← a4] at hr
  refine ⟨s', hrun, a1, a2, a3, a4, ?_, hr.2⟩
  unfold TokenRing.readyForRing
  rw [hr.1]; rfl

/-! Non-vacuity of phase (b): station 5 (fresh, listening since 50 µs) overhears three tokens of station 3 and a GAP
request to address 4, cut into three chunks in the middle of telegrams. -/
def remB : List Telegram :=
  [.token 3 3, .token 3 3, reqTel 4 3, .token 3 3]
def insB : List (Int × Bytes) :=
  [(100, [0xDC, 3]), (200, [3, 0xDC, 3, 3, 0x10, 4]), (300, [3, 0x49, 0x50, 0x16, 0xDC, 3, 3])]

example : ∃ s', listenRun [] sL5 [] insB = some (s', []) ∧ s'.st = .listenToken none 0 ∧ s'.online = true ∧ s'.p = sL5.p ∧
    s'.ring = hearAll 3 remB sL5.ring ∧ s'.ring.readyForRing = true ∧ TokenRing.LasIs s'.ring [3] :=
  listener_learns_lone_ring [] 3 0 (by decide) insB sL5 remB 50 50 rfl rfl rfl (Int.le_refl _) rfl (by decide) (by decide) rfl
    (by decide)
    (by
      intro t ht
      simp only [remB, List.mem_cons, List.mem_nil_iff, or_false] at ht
      rcases ht with rfl | rfl | rfl | rfl
      · exact .inl rfl
      · exact .inl rfl
      · exact .inr ⟨4, by decide, by decide, rfl⟩
      · exact .inl rfl)
    (by decide)
    ⟨by decide, by decide, by decide, by decide, by decide, by decide, trivial⟩

/-! ## Phase (b) on the bus: one poll of a listener that overhears a lone transmitter with arbitrary lag -/

/-- **One poll of a `ListenToken` station on the byte-accurate bus while a lone transmitter is active** (the
Net-level building block of phases (b)/(c)).  The log (`LoneLog`) is fault-free and non-overlapping and holds only
transmissions of station `x` (address `aL`): self-addressed tokens and GAP requests to addresses other than the
listener's.  The listener `j` satisfies the listener condition `LLOk` — arbitrary lag: its buffer holds exactly what
has arrived of the not yet consumed transmissions, the head of which is incomplete; its ring view is what the
telegrams `hd` consumed so far made of `r0`; the next character arrives before its token-lost time-out, given that
the transmitter is never silent for more than `G` (`G + ⌈11 bit⌉ + 2 ≤ Tto`).  Then a poll at any time `now` up to the
horizon `H ≤ end of the last transmission + G` returns regularly, transmits nothing, and `LLOk` holds again with the
telegrams consumed in this poll appended to `hd` (so the ring view follows the overheard tokens:
`listener_learns_lone_ring`, ready after three). -/
theorem listener_poll_on_bus (cfg : Cfg) (G aL x : Nat) (b : Bus) (H : Int) (j : Nat) (st : NetStation) (r0 : TokenRing)
    (hd : List Telegram) (hL : LLOk cfg G aL b H j st r0 hd) (hlog : LoneLog cfg aL st.s.p.address x b) (hr : 0 < cfg.rate)
    (haL : aL < 126) (hjx : j ≠ x) (hjl : j < b.seen.length) (now : Int) (hsn : b.seen.getD j 0 < now) (hnowH : now ≤ H)
    (hstart : ∀ t ∈ b.txs, t.start ≤ now)
    (hH : ∀ t, b.txs.getLast? = some t → H ≤ cEnd cfg t + (G : Nat)) :
    ∃ inc c hd', b.deliver j now = ({ b with seen := b.seen.set j now }, inc) ∧
      st.s.poll st.apps now (b.transmitting j now) (st.rx ++ inc) = .ok c ∧ c.tx = none ∧ c.s.p = st.s.p ∧
      LLOk cfg G aL { b with seen := b.seen.set j now } H j (upSt st c) r0 hd' :=
  llisten_step hL hlog hr haL hjx hjl now hsn hnowH hstart hH

/-! Non-vacuity: station 3 (index 0) sent a self-addressed token at time 0; station 5 (index 1), listening, last polled
at 20 µs (nothing of the token has arrived yet), is polled at 100 µs. -/
def tokS : Transmission := { start := 0, sender := 0, bytes := StationGap.tokenBytes 3 3, dropped := false }
def busS : Bus := { rate := 500000, txs := [tokS], seen := [0, 20] }
open PV.C13 in
def sL5' : Station := { (Station.new pR5) with online := true, st := .listenToken none 0, lastBusActivity := some 10 }
def nsL5' : NetStation := { s := sL5', apps := [], online := true }

open PV.C13 in
theorem loneLogS : LoneLog cfgR 3 5 0 busS :=
  ⟨rfl, rfl, List.pairwise_singleton _ _, (fun t ht => by simp only [busS, List.mem_singleton] at ht; subst ht; rfl),
    (fun t ht => by simp only [busS, List.mem_singleton] at ht; subst ht; rfl),
    (fun t ht => by simp only [busS, List.mem_singleton] at ht; subst ht; exact .inl rfl)⟩

open PV.C13 in
theorem llokS : LLOk cfgR 1000 3 busS 1066 1 nsL5' (TokenRing.new 5) [] := by
  have hinv5 : Inv sL5' [] := by
    have h := inv_new pR5 [] (by decide) (by decide) (by intro s hs; cases hs)
    exact ⟨h.addr, h.hsa, h.ring, fun ho => by simp [sL5'] at ho, h.gap, fun a ha => by simp [sL5'] at ha,
      fun a ha => by simp [sL5'] at ha, h.app, fun a d ha => by simp [sL5'] at ha, h.scripts, by simp [sL5']⟩
  refine ⟨rfl, rfl, hinv5, rfl, by decide, by decide, rfl, [], [tokS], 10, 0, rfl, (fun o ho => by cases ho), by decide,
    by decide, ?_, rfl, by decide, rfl, by decide⟩
  intro t rest hrs
  cases hrs
  decide

open PV.C13 in
example := listener_poll_on_bus cfgR 1000 3 0 busS 1066 1 nsL5' (TokenRing.new 5) [] llokS loneLogS (by decide) (by decide)
  (by decide) (by decide) 100 (by decide) (by decide)
  (fun t ht => by simp only [busS, List.mem_singleton] at ht; subst ht; decide)
  (fun t ht => by simp only [busS, List.getLast?_singleton, Option.some.injEq] at ht; subst ht; decide)

/-! ## Cold start of TWO stations on the bus, up to the poll of the listener's address -/

/-- One poll of the listener / of the claimant while the claimant forms its ring and the listener overhears it with
arbitrary lag (`Duo`). -/
theorem cold_start_listener_poll (cfg : Cfg) (hok : cfg.Ok) (G : Nat) (n : Net) (x y : Nat) (stx sty : NetStation) (l : Int)
    (stage : SStage) (r0 : TokenRing) (hd : List Telegram) (tl : Int) (d : Duo cfg G n x y stx sty l stage r0 hd tl)
    (now : Int) (htl : tl ≤ now) (hown : n.bus.seen.getD y 0 < now) (hgx : now ≤ n.bus.seen.getD x 0 + (cfg.P : Nat)) :
    ∃ n' inc c sty' hd', n.poll y now = (n', inc, some (.ok c)) ∧ c.tx = none ∧
      Duo cfg G n' x y stx sty' l stage r0 hd' now :=
  duo_listen d hok now htl hown hgx

theorem cold_start_claimant_poll (cfg : Cfg) (hok : cfg.Ok) (hP100 : cfg.P ≤ 100000) (G : Nat) (hG : cfg.slot + 3 * cfg.P ≤ G)
    (n : Net) (x y : Nat) (stx sty : NetStation) (l : Int) (stage : SStage) (r0 : TokenRing) (hd : List Telegram) (tl : Int)
    (d : Duo cfg G n x y stx sty l stage r0 hd tl) (B : Int)
    (hB : max (n.bus.seen.getD x 0) (l + ((stage.wait cfg : Nat) : Int)) +
      ((stage.rest cfg stx.s.p.address stx.s.p.hsa : Nat) : Int) ≤ B)
    (now : Int) (htl : tl ≤ now) (hown : n.bus.seen.getD x 0 < now) (hgx : now ≤ n.bus.seen.getD x 0 + (cfg.P : Nat))
    (hgy : now ≤ n.bus.seen.getD y 0 + (cfg.P : Nat)) :
    ∃ n' c, n.poll x now = (n', [], some (.ok c)) ∧ now ≤ B ∧ DuoOut cfg G x y stx sty r0 hd B n' c now :=
  duo_claimant d hok hP100 hG B hB now htl hown hgx hgy

/-- **Cold start of two stations on the bus, phases (a1)–(a3) up to the poll of the listener's address** (C02 "the
ring forms", two stations).  Two station models on the byte-accurate bus of `Model/Net.lean`, both online in
`ListenToken` on a bus on which nothing has been transmitted (`CS2`), stamps `lx`, `ly`; station `x`'s token-lost
time-out runs out first, with the stagger `lx + Tto_x + P + ⌈11 bit⌉ < ly + Tto_y` (two slot times per address by
`claim_staggered`); both polled at least every `P` µs (`2 + 2P + bits 33 + ⌈11 bit⌉ ≤ Tslot`, `P ≤ 100 ms`); the
listener's time-out exceeds the longest silence of the claimant, `Tslot + 3P ≤ G`, `G + ⌈11 bit⌉ + 2 ≤ Tto_y`.
Then (`TwoRun`, `DuoRun`): every poll returns regularly; nobody transmits before `T = lx + Tto_x`; `x` claims at its
first poll at or after `T` (≤ `T + P`); from then on the listener `y` NEVER transmits — it neither claims nor
answers — whatever its lag behind the bus, while `x` transmits only its second claim token and GAP requests to
third addresses, each of its polls no later than `formTime` after the claim, until it sends the GAP request to the
listener's address (or, if that address is not below HSA, completes its one-station ring).  The listener's ring
view follows the overheard tokens (`Duo` / `LLOk`: `hearAll`).  What follows the poll of the listener's address —
its reply, the rest of the sweep, the admission — is not proved. -/
theorem two_station_cold_start_until_polled (cfg : Cfg) (hok : cfg.Ok) (hP100 : cfg.P ≤ 100000) (G : Nat)
    (hG : cfg.slot + 3 * cfg.P ≤ G) (x y : Nat) (stx sty : NetStation) (lx ly : Int)
    (hGy : G + cfg.ce 0 + 2 ≤ sty.s.p.tokenLostTimeout) (hne : stx.s.p.address ≠ sty.s.p.address)
    (hsync : cfg.b33 < stx.s.p.tokenLostTimeout)
    (hv : RingView [stx.s.p.address] stx.s.p.address stx.s.ring.claimToken)
    (hstag : lx + (stx.s.p.tokenLostTimeout : Nat) + (cfg.P : Nat) + ((cfg.ce 0 : Nat) : Int) < ly + (sty.s.p.tokenLostTimeout : Nat))
    (evs : List (Nat × Int)) (n : Net) (tl : Int) (h : CS2 cfg n x y stx sty lx ly) (hN : n.stations.length = 2)
    (hsx : n.bus.seen.getD x 0 < lx + (stx.s.p.tokenLostTimeout : Nat)) (hsy : n.bus.seen.getD y 0 ≤ tl)
    (hs : SchedN cfg.P n tl evs) :
    TwoRun x y stx.s.p.address sty.s.p.address (lx + (stx.s.p.tokenLostTimeout : Nat))
      (lx + (stx.s.p.tokenLostTimeout : Nat) + (cfg.P : Nat)) (cfg.formTime stx.s.p.hsa) n evs :=
  two_cold_start hok hP100 G hG x y stx sty lx ly hGy hne hsync hv hstag evs n tl h hN hsx hsy hs

/-! Non-vacuity: the two listening stations of `netL` (3 and 5, stamps 0 and 50 µs), both polled every 100 µs until
5950 µs: station 3 claims at 4800 µs, sends its second token and the request to address 4, then polls address 5. -/
open PV.C13 in
theorem cs2L : CS2 cfgR netL 0 1 { s := sL3, apps := [], online := true } { s := sL5, apps := [], online := true } 0 50 := by
  have hinv3 : Inv sL3 [] := by
    have h := inv_new pR3 [] (by decide) (by decide) (by intro s hs; cases hs)
    exact ⟨h.addr, h.hsa, h.ring, fun ho => by simp [sL3] at ho, h.gap, fun a ha => by simp [sL3] at ha,
      fun a ha => by simp [sL3] at ha, h.app, fun a d ha => by simp [sL3] at ha, h.scripts, by simp [sL3]⟩
  have hinv5 : Inv sL5 [] := by
    have h := inv_new pR5 [] (by decide) (by decide) (by intro s hs; cases hs)
    exact ⟨h.addr, h.hsa, h.ring, fun ho => by simp [sL5] at ho, h.gap, fun a ha => by simp [sL5] at ha,
      fun a ha => by simp [sL5] at ha, h.app, fun a d ha => by simp [sL5] at ha, h.scripts, by simp [sL5]⟩
  exact ⟨⟨rfl, rfl, rfl, List.Pairwise.nil, (fun o ho => by cases ho), (fun o ho => by cases ho), (fun o ho => by cases ho),
      (fun o ho => by cases ho), by decide, by decide, rfl, rfl, rfl, hinv3, rfl, rfl, rfl, rfl, rfl⟩, ⟨0, rfl⟩, rfl, rfl, rfl, by decide, by decide, by decide, ⟨rfl, rfl, hinv5, rfl, rfl, ⟨0, rfl⟩, rfl⟩,
    by decide, rfl, ⟨rfl, rfl⟩, rfl⟩

def evsT : List (Nat × Int) := [(0, 100), (1, 150), (0, 200), (1, 250), (0, 300), (1, 350), (0, 400), (1, 450), (0, 500), (1, 550), (0, 600), (1, 650), (0, 700), (1, 750), (0, 800), (1, 850), (0, 900), (1, 950), (0, 1000), (1, 1050), (0, 1100), (1, 1150), (0, 1200), (1, 1250), (0, 1300), (1, 1350), (0, 1400), (1, 1450), (0, 1500), (1, 1550), (0, 1600), (1, 1650), (0, 1700), (1, 1750), (0, 1800), (1, 1850), (0, 1900), (1, 1950), (0, 2000), (1, 2050), (0, 2100), (1, 2150), (0, 2200), (1, 2250), (0, 2300), (1, 2350), (0, 2400), (1, 2450), (0, 2500), (1, 2550), (0, 2600), (1, 2650), (0, 2700), (1, 2750), (0, 2800), (1, 2850), (0, 2900), (1, 2950), (0, 3000), (1, 3050), (0, 3100), (1, 3150), (0, 3200), (1, 3250), (0, 3300), (1, 3350), (0, 3400), (1, 3450), (0, 3500), (1, 3550), (0, 3600), (1, 3650), (0, 3700), (1, 3750), (0, 3800), (1, 3850), (0, 3900), (1, 3950), (0, 4000), (1, 4050), (0, 4100), (1, 4150), (0, 4200), (1, 4250), (0, 4300), (1, 4350), (0, 4400), (1, 4450), (0, 4500), (1, 4550), (0, 4600), (1, 4650), (0, 4700), (1, 4750), (0, 4800), (1, 4850), (0, 4900), (1, 4950), (0, 5000), (1, 5050), (0, 5100), (1, 5150), (0, 5200), (1, 5250), (0, 5300), (1, 5350), (0, 5400), (1, 5450), (0, 5500), (1, 5550), (0, 5600), (1, 5650), (0, 5700), (1, 5750), (0, 5800), (1, 5850), (0, 5900), (1, 5950)]

open PV.C13 in
example : TwoRun 0 1 3 5 4800 4900 (cfgR.formTime 10) netL evsT :=
  two_station_cold_start_until_polled cfgR cfgR_ok (by decide) 1000 (by decide) 0 1 { s := sL3, apps := [], online := true }
    { s := sL5, apps := [], online := true } 0 50 (by decide) (by decide) (by decide) viewOne (by decide) evsT netL 50 cs2L rfl
    (by decide) (by decide) (schedN_of_times _ _ _ _ (schedNT_of_b 100 2 evsT [0, 50] 50 (by decide)))

/-! ## The first answered GAP request (cold start of two stations, phase (b'): request – pause – reply – reception) -/

/-- **A GAP request to a listening station is answered "not ready" and the reply is received** (C02 / C12 on the
bus, any lag).  Two station models on the byte-accurate bus.  Start (`HQ`, first alternative `HQ0`): the requester `x`
(address `aL`; in `ClaimToken`, scanning, or the token holder in `AwaitStatusResponse`; its view the one-station ring) has just put the GAP request to the address `aH` of the listener `y` on the
bus at `r` and awaits the reply; the log is the lone transmitter's; `y` is in `ListenToken`, satisfies the listener
condition `LLOkX` with the request among the transmissions it has not consumed yet (arbitrary lag), and will not be
ready when it has heard everything up to the request (`hnr`; ready needs two complete rotations).  Every station is
polled at least every `P` (`SchedN`; `2 + 2P + bits 33 + ⌈11 bit⌉ ≤ Tslot`), `Tslot + 3P ≤ G`,
`G + ⌈11 bit⌉ + 2 ≤ Tto_y` (part of `LLOkX`).  Then (`RplRun`) every poll returns regularly; `x` transmits nothing
and its slot time NEVER runs out (no retry, no false "nobody there"): the listener registers the request at its first
poll after the last character, waits for the synchronisation pause (33 bit), sends the reply "not ready" exactly in
that poll and goes back to listening; the claimant receives the reply in whatever pieces it arrives (its slot timer
restarts with every character), consumes it exactly when it is complete, does not admit the station and goes on with
its GAP scan (`HQ3`: both stations up to date with the log, whose last entry is the reply) — no later than
`2 · ⌈66 bit⌉ + bits 33 + 3 P` after the start of the request.  The phases are `hq0_…`, `hq1_…`, `hq2_…` in
`Lemmas/ColdStartReply.lean`. -/
theorem gap_request_answered_not_ready (cfg : Cfg) (hok : cfg.Ok) (G : Nat) (hG : cfg.slot + 3 * cfg.P ≤ G) (x y : Nat)
    (r : Int) (r0 : TokenRing) (T : List Telegram) (aL aH : Nat) (hnr : (hearAll aL T r0).readyForRing = false)
    (evs : List (Nat × Int)) (n : Net) (stx sty : NetStation) (coll : Nat) (tl : Int)
    (hq : HQ cfg G n x y stx sty r r0 T .masterNotReady coll tl) (hN : n.stations.length = 2) (haL : stx.s.p.address = aL)
    (haH : sty.s.p.address = aH) (hs : SchedN cfg.P n tl evs) :
    RplRun cfg x y aL aH .masterNotReady (r + 2 * ((cfg.ce 5 : Nat) : Int) + (cfg.b33 : Nat) + 3 * (cfg.P : Nat)) n evs :=
  reply_run hok G hG x y r r0 T aL aH .masterNotReady (fun s hs' => listenReport_notReady s _ (by rw [hs']; exact hnr))
    evs n stx sty coll tl hq hN haL haH hs

/-- **A GAP request to a listening station that is READY is answered "master without token" and the station is
adopted as next station** (C02 / C12 on the bus, any lag; the admission of a late joiner or of the second station of
a cold start).  As `gap_request_answered_not_ready`, with the requester `x` either in `ClaimToken` (claim sweep) or —
the regular case — the token holder in `AwaitStatusResponse` (`AwaitSt`), and the listener ready with the requester
as its previous station when it has heard everything up to the request (`hrdy`).  Then (`RplRun` with report
`masterWithoutToken`): the listener registers the request, waits 33 bit, sends the reply "master without token" in
exactly one poll and goes to `ActiveIdle`, where it stays quiet; the requester's slot time never runs out; it
consumes the reply exactly when it is complete, in whatever pieces it arrives, no later than
`r + 2·⌈66 bit⌉ + bits 33 + 3P`, and ADOPTS the station: in its ring view the polled address is active and is the
next station, and — the requester's view having been the one-station ring (`HQ0.view`) — its view is now the ring view
of the TWO-station ring (`RingView M' aL` for the ascending list `M'` of the two addresses; `HQ3.last`, via
`AbstractRing.viewOk_setNext`); its state is `PassToken` (token holder: it will pass the token to the new station after the
synchronisation pause) resp. `ClaimToken(Scan)`.  The listener ends idle (`ActiveIdle`, nothing pending), ready, with the requester as
its previous station (`HQ3.ymw`) — the precondition of `adopted_station_gets_token`, which proves the token pass; its
first visit is not proved. -/
theorem gap_request_answered_ready (cfg : Cfg) (hok : cfg.Ok) (G : Nat) (hG : cfg.slot + 3 * cfg.P ≤ G) (x y : Nat)
    (r : Int) (r0 : TokenRing) (T : List Telegram) (aL aH : Nat)
    (hrdy : (hearAll aL T r0).readyForRing = true ∧ (hearAll aL T r0).ps = aL)
    (evs : List (Nat × Int)) (n : Net) (stx sty : NetStation) (coll : Nat) (tl : Int)
    (hq : HQ cfg G n x y stx sty r r0 T .masterWithoutToken coll tl) (hN : n.stations.length = 2)
    (haL : stx.s.p.address = aL) (haH : sty.s.p.address = aH) (hs : SchedN cfg.P n tl evs) :
    RplRun cfg x y aL aH .masterWithoutToken (r + 2 * ((cfg.ce 5 : Nat) : Int) + (cfg.b33 : Nat) + 3 * (cfg.P : Nat)) n evs :=
  reply_run hok G hG x y r r0 T aL aH .masterWithoutToken
    (fun s hs' => by unfold StationGap.listenReport; rw [hs', hrdy.1, hrdy.2]; simp)
    evs n stx sty coll tl hq hN haL haH hs

/-! Non-vacuity: the request of station 3 to address 5 started at 1000 µs and has been registered by the listener at
1150 µs (phase `HQ1`); both polled every 100 µs; the reply is sent at 1250 µs and consumed at 1400 µs. -/
open PV.C13 in
def sQ3 : Station := { (Station.new pR3) with online := true, st := .claimToken (.scanAwait 5), gap := .doPoll 5, lastBusActivity := some 1132, ring := (TokenRing.new 3).claimToken }
open PV.C13 in
def sQ5 : Station := { (Station.new pR5) with online := true, st := .listenToken (some 3) 0, lastBusActivity := some 1150 }
def nsQ3 : NetStation := { s := sQ3, apps := [], online := true }
def nsQ5 : NetStation := { s := sQ5, apps := [], online := true }
def netQ : Net := { bus := { rate := 500000, txs := [rqTx 0 3 5 1000], seen := [1140, 1150] }, stations := [nsQ3, nsQ5] }

open PV.C13 in
theorem hq1Q : HQ1 cfgR netQ 0 1 nsQ3 nsQ5 1000 1150 0 1150 := by
  have hinv3 : Inv sQ3 [] := by
    have h := inv_new pR3 [] (by decide) (by decide) (by intro s hs; cases hs)
    exact ⟨h.addr, h.hsa, TokenRing.new_ok 3 (by decide), fun ho => by simp [sQ3] at ho, fun cur hc => by simp [sQ3] at hc; subst hc; decide,
      fun a ha => by simp [sQ3] at ha, fun a ha => by simp [sQ3] at ha; subst ha; exact ⟨rfl, by decide⟩, h.app,
      fun a d ha => by simp [sQ3] at ha, h.scripts, by simp [sQ3]⟩
  have hinv5 : Inv sQ5 [] := by
    have h := inv_new pR5 [] (by decide) (by decide) (by intro s hs; cases hs)
    exact ⟨h.addr, h.hsa, h.ring, fun ho => by simp [sQ5] at ho, h.gap, fun a ha => by simp [sQ5] at ha,
      fun a ha => by simp [sQ5] at ha, h.app, fun a d ha => by simp [sQ5] at ha, h.scripts, by simp [sQ5]⟩
  have hce : cEnd cfgR (rqTx 0 3 5 1000) = 1132 := by rw [cEnd_rq]; decide
  have hpos : 0 < (rqTx 0 3 5 1000).bytes.length := by
    show 0 < (StationGap.statusRequestBytes 5 3).length; rw [StationGap.statusRequestBytes_length]; decide
  refine ⟨?_, .inl rfl, rfl, ?_, rfl, by decide, by decide, by decide, by decide, ?_, rfl, ?_, by decide, viewOne⟩
  · exact ⟨rfl, rfl, rfl, List.pairwise_singleton _ _,
      (fun o ho => by simp only [netQ, List.mem_singleton] at ho; subst ho; rfl),
      (fun o ho => by simp only [netQ, List.mem_singleton] at ho; subst ho; exact hpos),
      (fun o ho => by simp only [netQ, List.mem_singleton] at ho; subst ho; exact .inl rfl),
      (fun o ho _ => by simp only [netQ, List.mem_singleton] at ho; subst ho; rw [hce]; decide),
      by decide, by decide, rfl, rfl, rfl, hinv3, rfl, rfl, rfl, rfl, rfl⟩
  · exact ⟨rfl, rfl, rfl, List.pairwise_singleton _ _,
      (fun o ho => by simp only [netQ, List.mem_singleton] at ho; subst ho; rfl),
      (fun o ho => by simp only [netQ, List.mem_singleton] at ho; subst ho; exact hpos),
      (fun o ho => by simp only [netQ, List.mem_singleton] at ho; subst ho; right; rw [hce]; decide),
      (fun o ho hs => by simp only [netQ, List.mem_singleton] at ho; subst ho; cases hs),
      by decide, by decide, rfl, rfl, rfl, hinv5, rfl, rfl, rfl, rfl, rfl⟩
  · intro t ht; simp only [netQ, List.mem_singleton] at ht; subst ht; rfl
  · intro t ht; simp only [netQ, List.mem_singleton] at ht; subst ht; decide

def evsRp : List (Nat × Int) := [(0, 1200), (1, 1250), (0, 1300), (1, 1350), (0, 1400), (1, 1450), (0, 1500), (1, 1550)]

open PV.C13 in
example : RplRun cfgR 0 1 3 5 .masterNotReady 1630 netQ evsRp :=
  gap_request_answered_not_ready cfgR cfgR_ok 1000 (by decide) 0 1 1000 (TokenRing.new 5) [] 3 5 (by decide) evsRp netQ nsQ3 nsQ5
    0 1150 (.inr (.inl ⟨1150, hq1Q, by decide⟩)) rfl rfl rfl
    (schedN_of_times _ _ _ _ (schedNT_of_b 100 2 evsRp [1140, 1150] 1150 (by decide)))

/-! Non-vacuity of the ready variant: station 3 holds the token alone and awaits the status reply of address 5
(`AwaitStatusResponse`, request started at 1000 µs); station 5 has witnessed three tokens of station 3 (ready, previous
station 3) and registered the request at 1150 µs. -/
def rdy5 : TokenRing := witnessK 3 3 (TokenRing.new 5)
open PV.C13 in
def sA3 : Station := { (Station.new pR3) with online := true, st := .awaitStatus 5, gap := .doPoll 5, lastBusActivity := some 1132, ring := (TokenRing.new 3).claimToken }
open PV.C13 in
def sR5 : Station := { (Station.new pR5) with online := true, st := .listenToken (some 3) 0, lastBusActivity := some 1150, ring := rdy5 }
def nsA3 : NetStation := { s := sA3, apps := [], online := true }
def nsR5 : NetStation := { s := sR5, apps := [], online := true }
def netA : Net := { bus := { rate := 500000, txs := [rqTx 0 3 5 1000], seen := [1140, 1150] }, stations := [nsA3, nsR5] }

open PV.C13 in
theorem hq1A : HQ1 cfgR netA 0 1 nsA3 nsR5 1000 1150 0 1150 := by
  have hinv3 : Inv sA3 [] := by
    have h := inv_new pR3 [] (by decide) (by decide) (by intro s hs; cases hs)
    exact ⟨h.addr, h.hsa, TokenRing.new_ok 3 (by decide), fun ho => by simp [sA3] at ho, fun cur hc => by simp [sA3] at hc; subst hc; decide,
      fun a ha => by simp [sA3] at ha; subst ha; exact ⟨rfl, by decide⟩, fun a ha => by simp [sA3] at ha, h.app,
      fun a d ha => by simp [sA3] at ha, h.scripts, by simp [sA3]⟩
  have hinv5 : Inv sR5 [] := by
    have h := inv_new pR5 [] (by decide) (by decide) (by intro s hs; cases hs)
    exact ⟨h.addr, h.hsa,
      (TokenRing.witness_ok _ 3 3 (TokenRing.witness_ok _ 3 3 (TokenRing.witness_ok _ 3 3 (TokenRing.new_ok 5 (by decide))).1).1).1,
      fun ho => by simp [sR5] at ho, h.gap, fun a ha => by simp [sR5] at ha,
      fun a ha => by simp [sR5] at ha, h.app, fun a d ha => by simp [sR5] at ha, h.scripts, by simp [sR5]⟩
  have hce : cEnd cfgR (rqTx 0 3 5 1000) = 1132 := by rw [cEnd_rq]; decide
  have hpos : 0 < (rqTx 0 3 5 1000).bytes.length := by
    show 0 < (StationGap.statusRequestBytes 5 3).length; rw [StationGap.statusRequestBytes_length]; decide
  refine ⟨?_, .inr rfl, rfl, ?_, rfl, by decide, by decide, by decide, by decide, ?_, rfl, ?_, by decide, viewOne⟩
  · exact ⟨rfl, rfl, rfl, List.pairwise_singleton _ _,
      (fun o ho => by simp only [netA, List.mem_singleton] at ho; subst ho; rfl),
      (fun o ho => by simp only [netA, List.mem_singleton] at ho; subst ho; exact hpos),
      (fun o ho => by simp only [netA, List.mem_singleton] at ho; subst ho; exact .inl rfl),
      (fun o ho _ => by simp only [netA, List.mem_singleton] at ho; subst ho; rw [hce]; decide),
      by decide, by decide, rfl, rfl, rfl, hinv3, rfl, rfl, rfl, rfl, rfl⟩
  · exact ⟨rfl, rfl, rfl, List.pairwise_singleton _ _,
      (fun o ho => by simp only [netA, List.mem_singleton] at ho; subst ho; rfl),
      (fun o ho => by simp only [netA, List.mem_singleton] at ho; subst ho; exact hpos),
      (fun o ho => by simp only [netA, List.mem_singleton] at ho; subst ho; right; rw [hce]; decide),
      (fun o ho hs => by simp only [netA, List.mem_singleton] at ho; subst ho; cases hs),
      by decide, by decide, rfl, rfl, rfl, hinv5, rfl, rfl, rfl, rfl, rfl⟩
  · intro t ht; simp only [netA, List.mem_singleton] at ht; subst ht; rfl
  · intro t ht; simp only [netA, List.mem_singleton] at ht; subst ht; decide

open PV.C13 in
example : RplRun cfgR 0 1 3 5 .masterWithoutToken 1630 netA evsRp :=
  gap_request_answered_ready cfgR cfgR_ok 1000 (by decide) 0 1 1000 rdy5 [] 3 5 (by decide) evsRp netA nsA3 nsR5
    0 1150 (.inr (.inl ⟨1150, hq1A, by decide⟩)) rfl rfl rfl
    (schedN_of_times _ _ _ _ (schedNT_of_b 100 2 evsRp [1140, 1150] 1150 (by decide)))

/-! ## Cold start of two stations up to the first answered GAP request (one theorem) -/

/-- A fresh ring view (LAS uninitialised) is not ready before the third witnessed token of the lone holder. -/
theorem fresh_listener_not_ready (aL : Nat) (haL : aL ≤ 125) (r : TokenRing) (hr : r.las = .uninitialized) (k : Nat)
    (hk : k ≤ 2) : (witnessK aL k r).readyForRing = false :=
  witnessK_notReady aL haL r hr k hk

/-- **Cold start of two stations from silence to the first answered GAP poll** (C02 "the ring forms", phases
(a1)–(a3) and the first request/reply handshake of (b), chained).  Hypotheses as in
`two_station_cold_start_until_polled` (two station models on the byte-accurate bus, both online in `ListenToken`
on a bus on which nothing has been transmitted, `CS2` — which now also states that the listener runs at the
configured rate and that the claimant's pending-byte counter is 0 —, stagger
`lx + Tto_x + P + ⌈11 bit⌉ < ly + Tto_y`, both polled at least every `P`, `Tslot + 3P ≤ G`,
`G + ⌈11 bit⌉ + 2 ≤ Tto_y`, `P ≤ 100 ms`), plus: the listener's LAS is uninitialised (a fresh station).  Then
(`TwoRun2`, `DuoRun2`, `RplRun`): every poll returns regularly; nobody transmits before `T = lx + Tto_x`; `x` claims
at its first poll at or after `T` (≤ `T + P`); the listener never transmits while `x` sends its second token and the
GAP requests to third addresses (each poll of `x` within `formTime` of the claim); when `x` sends the GAP request to
the listener's address (at `r`), the listener — which has heard at most two tokens and is therefore NOT ready
(`fresh_listener_not_ready`) — registers it, waits 33 bit and answers "not ready" in exactly one poll; `x` never
runs into its slot time-out, receives the reply in whatever pieces it arrives no later than
`r + 2·⌈66 bit⌉ + bits 33 + 3P`, does not admit the listener and goes on with its GAP scan, both stations up to date
with the log (`HQ3`).  What follows — the rest of the sweep, the rotations of `x` alone, the "ready" reply and the
admission — is not proved. -/
theorem two_station_cold_start_first_poll_answered (cfg : Cfg) (hok : cfg.Ok) (hP100 : cfg.P ≤ 100000) (G : Nat)
    (hG : cfg.slot + 3 * cfg.P ≤ G) (x y : Nat) (stx sty : NetStation) (lx ly : Int)
    (hGy : G + cfg.ce 0 + 2 ≤ sty.s.p.tokenLostTimeout) (hne : stx.s.p.address ≠ sty.s.p.address)
    (hsync : cfg.b33 < stx.s.p.tokenLostTimeout) (hr0 : sty.s.ring.las = .uninitialized)
    (hv : RingView [stx.s.p.address] stx.s.p.address stx.s.ring.claimToken)
    (hstag : lx + (stx.s.p.tokenLostTimeout : Nat) + (cfg.P : Nat) + ((cfg.ce 0 : Nat) : Int) < ly + (sty.s.p.tokenLostTimeout : Nat))
    (evs : List (Nat × Int)) (n : Net) (tl : Int) (h : CS2 cfg n x y stx sty lx ly) (hN : n.stations.length = 2)
    (hsx : n.bus.seen.getD x 0 < lx + (stx.s.p.tokenLostTimeout : Nat)) (hsy : n.bus.seen.getD y 0 ≤ tl)
    (hs : SchedN cfg.P n tl evs) :
    TwoRun2 cfg x y stx.s.p.address sty.s.p.address (lx + (stx.s.p.tokenLostTimeout : Nat))
      (lx + (stx.s.p.tokenLostTimeout : Nat) + (cfg.P : Nat)) (cfg.formTime stx.s.p.hsa) n evs :=
  two_cold_start2 hok hP100 G hG x y stx sty lx ly hGy hne hsync hr0 hv hstag evs n tl h hN hsx hsy hs

open PV.C13 in
example : TwoRun2 cfgR 0 1 3 5 4800 4900 (cfgR.formTime 10) netL evsT :=
  two_station_cold_start_first_poll_answered cfgR cfgR_ok (by decide) 1000 (by decide) 0 1 { s := sL3, apps := [], online := true }
    { s := sL5, apps := [], online := true } 0 50 (by decide) (by decide) (by decide) rfl viewOne (by decide) evsT netL 50 cs2L rfl
    (by decide) (by decide) (schedN_of_times _ _ _ _ (schedNT_of_b 100 2 evsT [0, 50] 50 (by decide)))

/-! ## The token pass to the adopted station -/

/-- **The adopted station gets the token** (C02, admission of the second station, on the bus with arbitrary lag).
Two station models on the byte-accurate bus.  Start (`TPass`, first alternative `TP0`): the holder `x` (address `aL`,
stamp `lx`) is in `PassToken` — as after `gap_request_answered_ready` in `AwaitStatusResponse` —, its view is the ring
`M` in which the adopted station is its successor; the adopted station `y` (address `aH`) idles (`ActiveIdle`, nothing
pending) with `x` as its previous station and an empty pending-byte counter; both are up to date with the log (`Solo`);
`x` has not been polled after the end of its synchronisation pause; `2·bits 33 + 4P + 4 ≤ Tto_y`.  Both polled at least
every `P` (`SchedN`, `2 + 2P + bits 33 + ⌈11 bit⌉ ≤ Tslot`).  Then (`PassRun`): every poll returns regularly; `x`
transmits nothing within its synchronisation pause, passes the token to `aH` at its first poll after it (exactly one
token telegram; ring view still `M`, state `CheckTokenPass`) and then waits without its slot time running out; `y`
transmits nothing, keeps the incomplete token in its buffer, accepts it — coming from its previous station — at its
first poll after the last character and holds the token (`UseToken`) no later than `lx + 2·bits 33 + 2P + 1`.  What
the new holder does with the token (its first visit, its GAP poll, the pass back) is not part of this theorem. -/
theorem adopted_station_gets_token (cfg : Cfg) (hok : cfg.Ok) (x y : Nat) (lx : Int) (M : List Nat) (aL aH : Nat)
    (evs : List (Nat × Int)) (n : Net) (stx sty : NetStation) (tl : Int) (h : TPass cfg n x y stx sty lx M tl)
    (hN : n.stations.length = 2) (haL : stx.s.p.address = aL) (haH : sty.s.p.address = aH) (hs : SchedN cfg.P n tl evs) :
    PassRun x y aL aH (lx + 2 * (cfg.b33 : Nat) + 2 * (cfg.P : Nat) + 1) n evs :=
  pass_run hok x y lx M aL aH evs n stx sty tl h hN haL haH hs

/-! Non-vacuity: station 3 (view {3, 5}) about to pass the token at 2000 µs, station 5 idle with previous station 3; both
polled every 100 µs: the token is sent at 2150 µs and accepted at 2300 µs (bound 2333 µs). -/
open PV.C13 in
def sP3 : Station := { (Station.new pR3) with online := true, st := .passToken false .first, lastBusActivity := some 2000, ring := ringR 3 }
open PV.C13 in
def sI5 : Station := { (Station.new pR5) with online := true, st := .activeIdle none none 0, lastBusActivity := some 2000, ring := ringR 5 }
def nsP3 : NetStation := { s := sP3, apps := [], online := true }
def nsI5 : NetStation := { s := sI5, apps := [], online := true }
def netP : Net := { bus := { rate := 500000, txs := [], seen := [2000, 2000] }, stations := [nsP3, nsI5] }

open PV.C13 in
theorem tp0P : TP0 cfgR netP 0 1 nsP3 nsI5 2000 2000 MR 2000 := by
  have hinv3 : Inv sP3 [] := by
    have h := inv_new pR3 [] (by decide) (by decide) (by intro s hs; cases hs)
    exact ⟨h.addr, h.hsa, ringR_ok 3 (by decide), fun ho => by simp [sP3] at ho, h.gap, fun a ha => by simp [sP3] at ha,
      fun a ha => by simp [sP3] at ha, h.app, fun a d ha => by simp [sP3] at ha, h.scripts, by simp [sP3]⟩
  have hinv5 : Inv sI5 [] := by
    have h := inv_new pR5 [] (by decide) (by decide) (by intro s hs; cases hs)
    exact ⟨h.addr, h.hsa, ringR_ok 5 (by decide), fun ho => by simp [sI5] at ho, h.gap, fun a ha => by simp [sI5] at ha,
      fun a ha => by simp [sI5] at ha, h.app, fun a d ha => by simp [sI5] at ha, h.scripts, by simp [sI5]⟩
  have hv3 : RingView MR 3 (ringR 3) := ringR_view 3 (by decide)
  have hv5 : RingView MR 5 (ringR 5) := ringR_view 5 (by decide)
  refine ⟨?_, ?_, rfl, hv3, by decide, by decide, rfl, ?_, rfl, by decide, by decide, by decide, by decide, by decide⟩
  · exact ⟨rfl, rfl, rfl, List.Pairwise.nil, (fun o ho => by cases ho), (fun o ho => by cases ho), (fun o ho => by cases ho),
      (fun o ho => by cases ho), by decide, by decide, rfl, rfl, rfl, hinv3, rfl, rfl, rfl, rfl, rfl⟩
  · exact ⟨rfl, rfl, rfl, List.Pairwise.nil, (fun o ho => by cases ho), (fun o ho => by cases ho), (fun o ho => by cases ho),
      (fun o ho => by cases ho), by decide, by decide, rfl, rfl, rfl, hinv5, rfl, rfl, rfl, rfl, rfl⟩
  · show (ringR 5).ps = 3
    rw [hv5.ns.2]; decide

def evsP : List (Nat × Int) := [(0, 2050), (1, 2100), (0, 2150), (1, 2200), (0, 2250), (1, 2300), (0, 2350), (1, 2400)]

open PV.C13 in
example : PassRun 0 1 3 5 2333 netP evsP :=
  adopted_station_gets_token cfgR cfgR_ok 0 1 2000 MR 3 5 evsP netP nsP3 nsI5 2000 (.inl ⟨2000, tp0P⟩) rfl rfl rfl
    (schedN_of_times _ _ _ _ (schedNT_of_b 100 2 evsP [2000, 2000] 2000 (by decide)))

end PV.C06
