/-
C06 — The token ring recovers from lost stations, lost tokens and corrupted traffic
(station-level mechanisms; the N-station timed recovery is not proved, DESIGN 5.5).
-/
import ProfiVerif.Props.C11
import ProfiVerif.Props.C15
import ProfiVerif.Props.C16
import ProfiVerif.Props.C02

namespace PV.C06
open PV

/-- `claim_on_silence`: a listening or idle station whose bus has been silent for its time-out enters
`ClaimToken` in that very poll (and transmits the claim token as soon as the synchronisation pause
allows — immediately, since the time-out is far longer than the pause). -/
theorem claim_on_silence (c : Ctx) (now : Int) (l : Int) (hl : c.s.lastBusActivity = some l)
    (hsil : (now - l).natAbs ≥ c.s.p.tokenLostTimeout) (s' : Station) (hs : toClaimToken c.s = some s') :
    (handleLostToken c now).2 = some (doClaimToken { c with s := s' } now 2) := by
  unfold handleLostToken getOrInsertLast
  simp only [hl]
  rw [if_pos hsil]
  simp [hs]

/-- The claim is possible from both waiting states. -/
theorem claim_from_listen_or_idle (s : Station) :
    (∃ a b, s.st = .listenToken a b) ∨ (∃ a b d, s.st = .activeIdle a b d) → (toClaimToken s).isSome := by
  rintro (⟨a, b, h⟩ | ⟨a, b, d, h⟩) <;> simp [toClaimToken, h]

/-- `garbage_dropped`: undecodable data is discarded completely and delivers nothing — so an idle
station's FDL state is untouched by it (only the activity time stamp moves). -/
theorem garbage_dropped (c : Ctx) (now : Int) (np : Option Nat) (coll : Nat)
    (hst : c.s.st = .activeIdle none np coll) (hg : deserialize c.rx = .reject)
    (hq : (handleLostToken c now).2 = none) (hsame : (handleLostToken c now).1.s.st = c.s.st)
    (hrx : (handleLostToken c now).1.rx = c.rx) :
    doActiveIdle c now = .ok { (handleLostToken c now).1 with rx := [] } := by
  have := (C16.resync c.rx hg .sc (by trivial)).1
  unfold doActiveIdle
  rw [hst]
  simp only
  cases hh : handleLostToken c now with
  | mk c1 r =>
    rw [hh] at hq hsame hrx
    simp only at hq hsame hrx
    subst hq
    simp only [hsame, hst, hrx, this, foldTelegrams]

/-- `backoff`: a telegram that is not a valid reply, arriving while a data reply is awaited, sends the
station to `ActiveIdle` without any transmission or callback (`C15.reply_delivery`, invalid branch). -/
theorem backoff_data (c : Ctx) (now : Int) (addr : Nat) (d : UseData) (hst : c.s.st = .awaitData addr d)
    (happ : c.s.nextApp < c.apps.length)
    (rx' : Bytes) (t : Telegram) (flag : Bool) (rest : List (Telegram × Bool)) (ret : Bool)
    (hrx : receiveTelegram c.rx = .done rx' ((t, flag) :: rest) ret)
    (hinv : C15.ValidReply c.s.p.address addr t = false) :
    doAwaitDataResponse c now =
      .ok { c with rx := rx', s := { (markRx c.s now) with st := .activeIdle none none 0 } } := by
  rw [C15.reply_delivery c now addr d hst happ rx' t flag rest ret hrx]
  simp [hinv]

/-- `restart_clean`: `set_offline` followed by `set_online` is indistinguishable from a fresh station. -/
theorem restart_clean (s : Station) : s.setOffline.setOnline = (Station.new s.p).setOnline := rfl

end PV.C06
