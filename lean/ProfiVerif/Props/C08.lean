/-
C08 — Requests follow the frame-count-bit and retry discipline on the wire.

Property theorems only; definitions are in `Lemmas/Dp.lean` (histories `Op` / `gstep` / `grun` with
the FDL contract C15 built in, ghost observations `SG` per slot) and `Lemmas/Dp08.lean` (the ghost
invariant `J8` / `Await`).  All statements are about `Model/Dp/{Peripheral,Master}.lean`, tied to
`src/dp/{peripheral,master,peripheral_set}.rs` by the `dp` correspondence.

The per-destination sequence of requests is observed through the ghost fields of the slot
(`Lemmas/Dp.lean`, `sgSend` / `sgReply` / `sgOffline`):
* `last`        — service (`reqKind`: SAP pair + function) and frame count bit of the last request,
* `accepted`    — an *acceptable* reply to it arrived (`acceptable`: well-formed diagnostics response /
                  short confirmation / Data_Exchange response of the configured length),
* `anyReply`    — any reply arrived, `count` — transmissions of it in a row without any reply,
* `expectFirst` — no request went out yet since start-up or since the peripheral was declared offline,
* `diagReq`     — the user called `request_diagnostics()` since the last request (not needed any more
                  since the repair c18fdc1; kept as an observation).
Every theorem is stated for an arbitrary state satisfying the invariants `Inv` and `Inv8`, which every
state reached by a contract history does (`reachable`), for all `max_retry_limit` 1..15, any number of
peripherals in any slots, all reply kinds and user calls at every point.
-/
import ProfiVerif.Lemmas.Dp08

namespace PV.C08
open PV PV.Dp

/-- Every state a contract history reaches satisfies the invariants the step theorems assume. -/
theorem reachable {fp : FdlParams} (hfp : FpOk fp) {slots : List (Option Peripheral)}
    (hinit : InitOk fp slots) (gr : Bool) (ops : List Op) :
    ∀ {g : G}, grun fp (G.init slots gr) ops = .ok g → Inv fp g ∧ (g.tainted = false → Inv8 g) := by
  suffices H : ∀ (ops : List Op) (g0 : G), Inv fp g0 → (g0.tainted = false → Inv8 g0) →
      ∀ g, grun fp g0 ops = .ok g → Inv fp g ∧ (g.tainted = false → Inv8 g) by
    intro g h; exact H ops _ (inv_init hinit gr) (fun _ => inv8_init hinit gr) g h
  intro ops
  induction ops with
  | nil => intro g0 h1 h2 g h; simp only [grun, Res3.ok.injEq] at h; subst h; exact ⟨h1, h2⟩
  | cons op ops ih =>
    intro g0 h1 h2 g h
    simp only [grun] at h
    cases hs : gstep fp g0 op with
    | ok g1 =>
      rw [hs] at h
      exact ih g1 (inv_step hfp h1 op hs) (fun hu => inv8_step hfp h1 (h2 (tainted_mono op hs hu)) op hs hu) g h
    | panic => rw [hs] at h; cases h
    | hang => rw [hs] at h; cases h
    | refused => rw [hs] at h; cases h

/-- What is known when a request goes out to slot `i` (see `Dp.send_step`). -/
theorem send_step {fp : FdlParams} (hfp : FpOk fp) {g g' : G} (hI : Inv fp g) (h8 : Inv8 g)
    {now : Int} {hp : Bool} (h : gstep fp g (.tx now hp) = .ok g')
    {i : Nat} {hd : Header} {pdu : Bytes} (ho : g'.o = .sent i hd pdu) :
    ∃ p p' p0, g.m.slots[i]? = some (some p0) ∧ p = { p0 with retry := p.retry } ∧
      J8 (g.sg i) p ∧ PInv fp p ∧ TxSpec fp .operate p (.send p' hd pdu) ∧
      g'.sg i = sgSend hd p' (g.sg i) ∧ g'.out = some p0.address :=
  Dp.send_step hfp hI h8 h ho

/-- `first_is_first`: the first request to a peripheral after start-up, and the first after it was
declared offline, carries FCV = 0 / FCB = 1. -/
theorem first_is_first {fp : FdlParams} (hfp : FpOk fp) {g g' : G} (hI : Inv fp g) (h8 : Inv8 g)
    {now : Int} {hp : Bool} (h : gstep fp g (.tx now hp) = .ok g')
    {i : Nat} {hd : Header} {pdu : Bytes} (ho : g'.o = .sent i hd pdu)
    (hfirst : (g.sg i).expectFirst = true) :
    fcbOf hd = .first ∧ (fcbOf hd).fcv = false ∧ (fcbOf hd).fcb = true := by
  obtain ⟨p, p', p0, _, _, hJ, _, hts, _, _⟩ := send_step hfp hI h8 h ho
  have : fcbOf hd = .first := by rw [(send_header hts).2.2.2.1]; exact hJ.first hfirst
  rw [this]; exact ⟨rfl, rfl, rfl⟩

/-- `toggle_after_accept`: a request that follows an accepted reply carries FCV = 1 and the opposite
frame count bit. -/
theorem toggle_after_accept {fp : FdlParams} (hfp : FpOk fp) {g g' : G} (hI : Inv fp g) (h8 : Inv8 g)
    {now : Int} {hp : Bool} (h : gstep fp g (.tx now hp) = .ok g')
    {i : Nat} {hd : Header} {pdu : Bytes} (ho : g'.o = .sent i hd pdu)
    (hnf : (g.sg i).expectFirst = false) (hacc : (g.sg i).accepted = true)
    {k : RKind} {f0 : FrameCountBit} (hl : (g.sg i).last = some (k, f0)) :
    (fcbOf hd).fcv = true ∧ (fcbOf hd).fcb = !f0.fcb := by
  obtain ⟨p, p', p0, _, _, hJ, _, hts, _, _⟩ := send_step hfp hI h8 h ho
  rw [(send_header hts).2.2.2.1, hJ.toggled hnf hacc k f0 hl]
  exact cyc_bits (hJ.kind k f0 hl).2

/-- `same_fcb_only_retransmit`: if a request carries the same frame count bit as the previous
request to that peripheral, then no acceptable reply arrived in between, it is a request of the same
service (same SAP pair and function) to the same destination, and the previous transmission is still
counted as unanswered — i.e. it is a retransmission.  (Full strength since /repo c18fdc1; before that
repair `request_diagnostics()` between an unanswered Data_Exchange request and its retransmission
produced a diagnostics request with the same bit — finding K_C08_diagreq_retry, corpus/dp/06.) -/
theorem same_fcb_only_retransmit {fp : FdlParams} (hfp : FpOk fp) {g g' : G} (hI : Inv fp g) (h8 : Inv8 g)
    {now : Int} {hp : Bool} (h : gstep fp g (.tx now hp) = .ok g')
    {i : Nat} {hd : Header} {pdu : Bytes} (ho : g'.o = .sent i hd pdu)
    (hnf : (g.sg i).expectFirst = false)
    {k : RKind} {f0 : FrameCountBit} (hl : (g.sg i).last = some (k, f0)) (hsame : fcbOf hd = f0) :
    (g.sg i).accepted = false ∧ reqKind hd = k := by
  obtain ⟨p, p', p0, _, _, hJ, hP, hts, _, _⟩ := send_step hfp hI h8 h ho
  have hf : p.fcb = f0 := by rw [← (send_header hts).2.2.2.1]; exact hsame
  have hk := (hJ.kind k f0 hl)
  constructor
  · cases hacc : (g.sg i).accepted with
    | false => rfl
    | true =>
      have := hJ.toggled hnf hacc k f0 hl
      rw [hf] at this
      exact absurd this.symm (cyc_ne_self hk.2)
  · obtain ⟨hst, hdx⟩ := hJ.snap hnf k f0 hl hf
    have hkind := (send_kind_snap hts).1
    rw [hkind, hk.1, ← hst]
    by_cases hd' : p.state = .preDataExchange ∨ p.state = .dataExchange
    · obtain ⟨hin, hre⟩ := hdx hd'
      have : p.serviceIsDiag = (g.sg i).snapDiag := by
        unfold Peripheral.serviceIsDiag
        rw [if_neg (by omega), hin]
      rw [this]
    · cases hps : p.state with
      | preDataExchange => exact absurd (Or.inl hps) hd'
      | dataExchange => exact absurd (Or.inr hps) hd'
      | offline => rfl
      | waitForParam => rfl
      | waitForConfig => rfl
      | validateConfig => rfl

/-- The statement over whole histories, in the form it was refuted before the repair. -/
def same_fcb_only_retransmit_full : Prop :=
  ∀ (fp : FdlParams), FpOk fp → ∀ (slots : List (Option Peripheral)), InitOk fp slots →
  ∀ (gr : Bool) (ops : List Op) (g g' : G) (now : Int) (hp : Bool) (i : Nat) (hd : Header) (pdu : Bytes)
    (k : RKind) (f0 : FrameCountBit),
    grun fp (G.init slots gr) ops = .ok g → g.tainted = false → gstep fp g (.tx now hp) = .ok g' →
    g'.o = .sent i hd pdu →
    (g.sg i).expectFirst = false → (g.sg i).last = some (k, f0) → fcbOf hd = f0 → reqKind hd = k

theorem same_fcb_only_retransmit_full_holds : same_fcb_only_retransmit_full := by
  intro fp hfp slots hinit gr ops g g' now hp i hd pdu k f0 hrun hu hstep ho hnf hl hsame
  obtain ⟨hI, h8⟩ := reachable hfp hinit gr ops hrun
  exact (same_fcb_only_retransmit hfp hI (h8 hu) hstep ho hnf hl hsame).2

/-- `retry_bound`: towards a live peripheral a request is transmitted at most `1 + max_retry_limit`
times in a row without any reply. -/
theorem retry_bound {fp : FdlParams} (hfp : FpOk fp) {g g' : G} (hI : Inv fp g) (h8 : Inv8 g)
    {now : Int} {hp : Bool} (h : gstep fp g (.tx now hp) = .ok g')
    {i : Nat} {hd : Header} {pdu : Bytes} (ho : g'.o = .sent i hd pdu)
    {p0 : Peripheral} (hp0 : g.m.slots[i]? = some (some p0)) (hlive : p0.state ≠ .offline) :
    (g'.sg i).count ≤ 1 + fp.maxRetry := by
  obtain ⟨p, p', q0, hq0, hsame, hJ, hP, hts, hsg, _⟩ := send_step hfp hI h8 h ho
  rw [hp0] at hq0
  simp only [Option.some.injEq] at hq0
  subst hq0
  obtain ⟨_, hst, _, _, hre, _, hrl, hprm, hcfg, _⟩ := send_kind_snap hts
  have hps : p.state = p0.state := by rw [hsame]
  rw [hsg]
  simp only [sgSend]
  split
  · rename_i hc
    have := hJ.count (by rw [hps]; exact hlive) hprm hcfg hc.2
    omega
  · omega

/-- After `1 + max_retry_limit` unanswered transmissions the next turn of the (live) peripheral does
not transmit again: it is declared offline — `transmit_telegram` of the peripheral answers with the
Offline event, the state `Offline` and the frame count bit reset to First. -/
theorem exhausted_goes_offline {fp : FdlParams} {x : SG} {p : Peripheral} (op : OpState) (hop : op ≠ .stop)
    (hJ : J8 x p) (hlive : p.state ≠ .offline)
    (hprm : p.state = .waitForParam → p.opts.userPrm ≠ none) (hcfg : p.state = .waitForConfig → p.opts.config ≠ none)
    (hno : x.anyReply = false) (hcount : x.count = 1 + fp.maxRetry) :
    p.transmit fp op = .decline { p with state := .offline, fcb := .first, retry := 0 } (some .offline) := by
  have := hJ.count hlive hprm hcfg hno
  exact transmit_retry_exceeded fp op p hop (by omega)

/-- Exactly one Offline event: it is raised only for a peripheral that is live, leaves it offline
(so it cannot be raised again before the peripheral answered a probe), ends the master's turn
without a telegram, and arms `first_is_first` for the next probe. -/
theorem offline_event_once {fp : FdlParams} (hfp : FpOk fp) {g g' : G} (hI : Inv fp g)
    {now : Int} {hp : Bool} (h : gstep fp g (.tx now hp) = .ok g')
    {he : HEvent} (hev : g'.m.lastEvents.peripheral = some he) :
    he.ev = .offline ∧ g'.o = .idle ∧ g'.out = none ∧ (g'.sg he.index).expectFirst = true ∧
    ∃ p0 p', g.m.slots[he.index]? = some (some p0) ∧ p0.state ≠ .offline ∧ he.address = p0.address ∧
      g'.m.slots[he.index]? = some (some p') ∧ p'.state = .offline ∧ p'.fcb = .first := by
  cases tx_form hfp hI h with
  | gc => simp [G.polled] at hev
  | idle m' _ _ hn _ => simp only [G.polled] at hev; rw [hn] at hev; cases hev
  | send => simp [G.polled] at hev
  | off m1 index i p hD hM1 hcy hc hret _ =>
    have hev' : (afterDecline m1 index i p { p with state := .offline, fcb := .first, retry := 0 } (some .offline)).lastEvents.peripheral
        = some { index := i, address := p.address, ev := .offline } := by
      unfold afterDecline; cases nextSlot m1.slots index <;> rfl
    simp only [G.polled, hev', Option.some.injEq] at hev
    subst hev
    have hi := (curSlot_spec hc).2.2.1
    obtain ⟨p0, hp0, hsame⟩ := decSlot_back (hD.slot i) hi
    have hP := hM1.pinv i p hi
    have hlive : p.state ≠ .offline := by
      intro hs
      have := hP.off_retry hs
      have := hfp.retry_lo
      omega
    have hs : (afterDecline m1 index i p { p with state := .offline, fcb := .first, retry := 0 } (some .offline)).slots
        = m1.slots.set i (some { p with state := .offline, fcb := .first, retry := 0 }) := by
      simp only [afterDecline]; cases nextSlot m1.slots index <;> rfl
    refine ⟨rfl, rfl, rfl, by simp [G.upd, sgOffline], p0, { p with state := .offline, fcb := .first, retry := 0 },
      hp0, by rw [hsame] at hlive; exact hlive, by rw [hsame], ?_, rfl, rfl⟩
    simp only [G.polled, hs, List.getElem?_set, (curSlot_spec hc).2.1, if_true]

/-- Until it answers, an offline peripheral is only probed with diagnostics requests (DSAP 60,
SSAP 62, no PDU). -/
theorem offline_only_probed {fp : FdlParams} (hfp : FpOk fp) {g g' : G} (hI : Inv fp g) (h8 : Inv8 g)
    {now : Int} {hp : Bool} (h : gstep fp g (.tx now hp) = .ok g')
    {i : Nat} {hd : Header} {pdu : Bytes} (ho : g'.o = .sent i hd pdu)
    {p0 : Peripheral} (hp0 : g.m.slots[i]? = some (some p0)) (hoff : p0.state = .offline) :
    reqKind hd = .diag ∧ pdu = [] ∧ hd.dsap = some 60 ∧ hd.ssap = some 62 := by
  obtain ⟨p, p', q0, hq0, hsame, _, _, hts, _, _⟩ := send_step hfp hI h8 h ho
  rw [hp0] at hq0
  simp only [Option.some.injEq] at hq0
  subst hq0
  have hps : p.state = .offline := by rw [hsame]; exact hoff
  rcases send_kind hts with ⟨hk, hpdu, _⟩ | ⟨_, hst, _⟩ | ⟨_, hst, _⟩ | ⟨_, hst, _⟩
  · have := reqKind_diag_saps hk
    exact ⟨hk, hpdu, this.1, this.2⟩
  · rw [hps] at hst; cases hst
  · rw [hps] at hst; cases hst
  · rcases hst with hst | hst <;> (rw [hps] at hst; cases hst)

/-- `fcb_never_inactive`: every request to a peripheral carries a frame count bit (First, High or
Low), so `FrameCountBit::cycle` never meets `Inactive` — together with `never_panics`. -/
theorem fcb_never_inactive {fp : FdlParams} (hfp : FpOk fp) {g g' : G} (hI : Inv fp g) (h8 : Inv8 g)
    {now : Int} {hp : Bool} (h : gstep fp g (.tx now hp) = .ok g')
    {i : Nat} {hd : Header} {pdu : Bytes} (ho : g'.o = .sent i hd pdu) :
    fcbOf hd ≠ .inactive := by
  obtain ⟨p, p', p0, _, _, _, hP, hts, _, _⟩ := send_step hfp hI h8 h ho
  rw [(send_header hts).2.2.2.1]; exact hP.fcb

theorem never_panics {fp : FdlParams} (hfp : FpOk fp) {slots : List (Option Peripheral)}
    (hinit : InitOk fp slots) (gr : Bool) (ops : List Op) :
    grun fp (G.init slots gr) ops ≠ .panic ∧ grun fp (G.init slots gr) ops ≠ .hang :=
  ⟨(inv_run hfp ops _ (inv_init hinit gr)).1, (inv_run hfp ops _ (inv_init hinit gr)).2.1⟩

/-! ### Regression: the witness of the former finding K_C08_diagreq_retry -/

/-- corpus/dp/06_K_C08_diagreq_retry.ops: bring-up, one data exchange, a Data_Exchange request that
times out, `request_diagnostics()`, next poll. -/
def witness : List Op :=
  Ex.bringUp ++ [.tx 10000 false, .take, .reply 7 (Ex.dxReply [0xa5]), .take, .tx 11000 false, .take,
    .tx 12000 false, .take, .timeout 7, .take, .diagReq 1]

/-- On the repaired code the next poll *retransmits the Data_Exchange request* (same service, same
bit: `0x5d` again); the diagnostics request follows once that request is answered, with the toggled
bit (`0x7c`). -/
def witnessCheck : Bool :=
  match grun Ex.fp (G.init Ex.slots false) witness with
  | .ok g =>
    match gstep Ex.fp g (.tx 13000 false) with
    | .ok g' =>
      (match g'.o, (g.sg 1).last with
       | .sent 1 hd _, some (k, f0) =>
         (g.sg 1).expectFirst == false && fcbOf hd == f0 && k == .dx && reqKind hd == .dx &&
         (g.sg 1).diagReq && hd.fc.toByte == 0x5d
       | _, _ => false) &&
      (match grun Ex.fp g' [.take, .reply 7 (Ex.dxReply [0xa6]), .take, .tx 14000 false, .take, .tx 15000 false] with
       | .ok g2 => (match g2.o with | .sent 1 hd _ => reqKind hd == .diag && hd.fc.toByte == 0x7c | _ => false)
       | _ => false)
    | _ => false
  | _ => false

example : witnessCheck = true := by decide +kernel

/-! ### Non-vacuity of the step theorems: states of a real history meet their hypotheses -/

/-- After start-up the first request is due with `expectFirst`; after the bring-up the slot's last
request was accepted (hypotheses of `first_is_first` / `toggle_after_accept` / `retry_bound`). -/
def hypothesesCheck : Bool :=
  (match grun Ex.fp (G.init Ex.slots false) [.tx 1000 false] with
   | .ok g => (g.sg 1).expectFirst &&
       (match gstep Ex.fp g (.tx 2000 false) with
        | .ok g' => (match g'.o with | .sent 1 hd _ => fcbOf hd == .first && hd.fc.toByte == 0x6c | _ => false)
        | _ => false)
   | _ => false) &&
  (match grun Ex.fp (G.init Ex.slots false) Ex.bringUp with
   | .ok g => !(g.sg 1).expectFirst && (g.sg 1).accepted && (g.sg 1).last == some (.diag, .low) &&
       (match gstep Ex.fp g (.tx 10000 false) with
        | .ok g' => (match g'.o with | .sent 1 hd _ => fcbOf hd == .high && reqKind hd == .dx && (g'.sg 1).count == 1 | _ => false)
        | _ => false)
   | _ => false)

example : hypothesesCheck = true := by decide +kernel

/-- `reset_address()` while a request is in flight: to ANOTHER address the history stays untainted — the
reply of the old address is ignored and the first request to the new address carries FCB First, as
`first_is_first` (whose hypotheses `reachable` provides) says; to the very address the reply is
outstanding from, the history is tainted (the reply would be delivered to the fresh incarnation). -/
def resetCheck : Bool :=
  (match grun Ex.fp (G.init Ex.slots false)
      [.tx 1000 false, .tx 2000 false, .resetAddr 1 9, .reply 7 (Ex.diagReply 0x02 0x05), .tx 3000 false] with
   | .ok g => !g.tainted && (g.sg 1).count == 1 &&
       (match g.o with | .sent 1 hd _ => hd.da == 9 && fcbOf hd == .first | _ => false)
   | _ => false) &&
  (match grun Ex.fp (G.init Ex.slots false) [.tx 1000 false, .tx 2000 false, .resetAddr 1 7] with
   | .ok g => g.tainted
   | _ => false) &&
  (match grun Ex.fp (G.init Ex.slots false) [.tx 1000 false, .tx 2000 false, .timeout 7, .resetAddr 1 7] with
   | .ok g => !g.tainted
   | _ => false)

example : resetCheck = true := by decide +kernel

end PV.C08
