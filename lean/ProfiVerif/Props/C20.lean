/-
C20 — Parameter blocks are packed bit-exactly from the GSD definitions.

Property theorems only; helper lemmas are in `Lemmas/Prm.lean`.  The statements relate

* the model of the code, `Model/Gsd/Prm.lean` (`Builder.new`, `setPrm`, `setPrmFromText`,
  `asBytes`, `writeValue`; tied to `gsd-parser/src/lib.rs` by the `prm` correspondence), to
* the independent specification, `Model/Gsd/PrmSpec.lean` (`prmSpec`, `specInit`, `specCall`,
  `specRun`, and the oracle's `judgeCall` / `judgeNew`).

Open finding **K2**: a `BitArea(first,last)` write stores `value << first` and thereby clears the
other bits of its byte.  The model mirrors the code, so the full property (`C20_full`) is *false*
for it (`C20_full_fails`); what holds instead is proved at full strength:
exactness for every non-`BitArea` write and for every `BitArea` write onto a byte with no bit set
outside the field (`set_prm_exact`, `set_prm_exact_partial`), the exact description of what the
code does otherwise (`bitarea_actual`), rejection (`rejects_leave_unchanged`), panic freedom
(`*_panics_iff`, `set_never_panics`) and the lift to arbitrary call histories (`run_*`).
All theorems quantify over all layouts, blocks, values (all of `Int`, hence all of `i64`) and
call lists; nothing is bounded.
-/
import ProfiVerif.Lemmas.Prm

namespace PV.C20
open PV PV.Prm

/-! ## What the specification says (the meaning of `prmSpec`, independent of the code) -/

/-- Writing a field never changes the length of the block. -/
theorem spec_length (blk : Bytes) (off : Nat) (t : DataType) (v : Int)
    (h : off + t.size ≤ blk.length) : (prmSpec blk off t v).length = blk.length :=
  prmWrite_length false blk off t v h

/-- Every byte outside `off .. off + size` keeps its value. -/
theorem spec_outside (blk : Bytes) (off : Nat) (t : DataType) (v : Int) (i : Nat)
    (h : off + t.size ≤ blk.length) (hi : i < off ∨ off + t.size ≤ i) :
    (prmSpec blk off t v)[i]? = blk[i]? :=
  prmWrite_outside false blk off t v i h hi

/-- U8/U16/U32/S8/S16/S32: byte `j` of the field is digit `size-1-j` of the value (big-endian). -/
theorem spec_field_bytes (blk : Bytes) (off : Nat) (t : DataType) (v : Int) (j : Nat)
    (ht : t.isByteType = true) (h : off + t.size ≤ blk.length) (hj : j < t.size) :
    (prmSpec blk off t v)[off + j]? = some (beByte t.size j v) := by
  have key : ∀ n, t.size = n → prmSpec blk off t v = overlay blk off (beImage n v) → n = t.size →
      (prmSpec blk off t v)[off + j]? = some (beByte t.size j v) := by
    intro n hn he _
    rw [he, overlay_inside blk off (beImage n v) j (by rw [beImage_length]; omega)
      (by rw [beImage_length]; omega)]
    simp only [beImage, hn]
    rw [List.getElem?_map, List.getElem?_range (by omega)]
    rfl
  cases t <;> simp only [DataType.isByteType, Bool.false_eq_true] at ht
  all_goals exact key _ rfl rfl rfl

/-- … and those digits are two's complement: bit `i` of byte `j` of an `n`-byte image is bit
`8·(n-1-j) + i` of the (signed) value. -/
theorem spec_be_bits (n j : Nat) (v : Int) (i : Nat) (hi : i < 8) :
    bitOf (beByte n j v) i = intBit v (8 * (n - 1 - j) + i) :=
  beByte_bit n j v i hi

/-- `BitArea(f,l)`: bits `f..l` of the byte become the value, every other bit keeps its value. -/
theorem spec_field_bits (blk : Bytes) (off f l : Nat) (v : Int) (i : Nat)
    (hoff : off < blk.length) (hfl : f ≤ l) (hl : l ≤ 7) (h0 : 0 ≤ v) (hi : i < 8) :
    bitOf ((prmSpec blk off (.bitArea f l) v).getD off 0) i =
      if f ≤ i ∧ i ≤ l then intBit v (i - f) else bitOf (blk.getD off 0) i := by
  simp only [prmSpec, prmWrite, Bool.false_eq_true, if_false, List.getD_eq_getElem?_getD,
    List.getElem?_set_self hoff, Option.getD_some]
  rw [maskedWrite_bit _ f l v i hfl hl hi, intBit_nonneg v h0]

/-- `Bit(b)` is the one-bit field `b..b`. -/
theorem spec_bit_bits (blk : Bytes) (off b : Nat) (v : Int) (i : Nat)
    (hoff : off < blk.length) (hb : b ≤ 7) (h0 : 0 ≤ v) (hi : i < 8) :
    bitOf ((prmSpec blk off (.bit b) v).getD off 0) i =
      if i = b then intBit v 0 else bitOf (blk.getD off 0) i := by
  simp only [prmSpec, prmWrite, List.getD_eq_getElem?_getD, List.getElem?_set_self hoff,
    Option.getD_some]
  rw [maskedWrite_bit _ b b v i (Nat.le_refl _) hb hi, intBit_nonneg v h0]
  by_cases h : i = b
  · subst h; simp
  · have : ¬ (b ≤ i ∧ i ≤ b) := by omega
    simp [h, this]

/-! ## (a) Accepted calls: exactly the field changes, to exactly the encoding of the value -/

/-- Any accepted call (`set_prm` or `set_prm_from_text`) on a parameter that is not a `BitArea`:
the new block is `prmSpec` of the old one — all layouts, all blocks satisfying the builder's
invariant, all values. -/
theorem call_exact (b : Builder) (c : Call) (off : Nat) (d : PrmDef) (v : Int) (hI : Inv b)
    (ht : target b.desc c = .ok (off, d, v)) (hnb : d.dataType.isBitArea = false)
    (hc : d.constraint.holds v = true) (hd : d.dataType.holds v = true) :
    b.call c = .ok { b with prm := prmSpec b.prm off d.dataType v } := by
  rw [call_eq b c hI]
  simp [callWith, ht, hc, hd, outcomeOf, prmSpec, prmWrite_clobber_irrelevant _ _ _ _ hnb]

/-- `set_prm` on a non-`BitArea` parameter with a value inside constraint and data type. -/
theorem set_prm_exact (b : Builder) (name : String) (v : Int) (off : Nat) (d : PrmDef) (hI : Inv b)
    (hg : b.desc.getPrm name = some (off, d)) (hnb : d.dataType.isBitArea = false)
    (hc : d.constraint.holds v = true) (hd : d.dataType.holds v = true) :
    b.setPrm name v = .ok { b with prm := prmSpec b.prm off d.dataType v } :=
  call_exact b (.set name v) off d v hI (by simp [target, hg]) hnb hc hd

/-- `set_prm_from_text` is `set_prm` with the value the text stands for. -/
theorem set_prm_from_text_eq (b : Builder) (name text : String) (off : Nat) (d : PrmDef)
    (m : List (String × Int)) (kv : String × Int)
    (hg : b.desc.getPrm name = some (off, d)) (hm : d.texts = some m)
    (hf : m.find? (fun kv => kv.1 == text) = some kv) :
    b.setPrmFromText name text = b.setPrm name kv.2 := by
  simp [Builder.setPrmFromText, Builder.setPrm, hg, PrmDef.valueFromText, hm, lookup_eq_find, hf]

/-! ## (b) Rejected calls: the specific error, block unchanged -/

/-- Unknown name; value outside the declared range / enumeration; value outside the data type
(incl. `Bit(b)` with `b > 7`, `BitArea(f,l)` with `l < f` or `l > 7`); text on a parameter without
texts; unknown text — each returns its own error.  (An `.err` outcome carries no new builder: the
block is unchanged, see `err_unchanged`.) -/
theorem rejects_leave_unchanged (b : Builder) (name : String) (hI : Inv b) :
    (b.desc.getPrm name = none →
      ∀ v text, b.setPrm name v = .err .prmNotFound ∧ b.setPrmFromText name text = .err .prmNotFound) ∧
    (∀ off d, b.desc.getPrm name = some (off, d) →
      (∀ v, d.constraint.holds v = false → b.setPrm name v = .err .valueConstraint) ∧
      (∀ v, d.constraint.holds v = true → d.dataType.holds v = false → b.setPrm name v = .err .valueRange) ∧
      (d.texts = none → ∀ text, b.setPrmFromText name text = .err .prmWithoutTexts) ∧
      (∀ m text, d.texts = some m → m.find? (fun kv => kv.1 == text) = none →
        b.setPrmFromText name text = .err .prmTextNotFound)) := by
  refine ⟨fun hg v text => ?_, fun off d hg => ⟨fun v hc => ?_, fun v hc hd => ?_, fun hm text => ?_,
    fun m text hm hf => ?_⟩⟩
  · simp [Builder.setPrm, Builder.setPrmFromText, hg]
  · have := call_eq b (.set name v) hI
    simpa [Builder.call, callWith, target, hg, hc, outcomeOf] using this
  · have := call_eq b (.set name v) hI
    simpa [Builder.call, callWith, target, hg, hc, hd, outcomeOf] using this
  · simp [Builder.setPrmFromText, hg, PrmDef.valueFromText, hm]
  · simp [Builder.setPrmFromText, hg, PrmDef.valueFromText, hm, lookup_eq_find, hf]

/-- A rejected call leaves the builder as it was. -/
theorem err_unchanged (b : Builder) (c : Call) (e : SetErr) (h : b.call c = .err e) :
    b.after c = some b := by
  simp [Builder.after, h]

/-- Every call is either accepted or rejected exactly as the specification demands — the error
kinds coincide for all layouts and values (K2 only concerns the bytes of an accepted write). -/
theorem call_result_kind (b : Builder) (c : Call) (hI : Inv b) :
    (∀ e, specCall b.desc b.prm c = .error e → b.call c = .err e) ∧
    (∀ w, specCall b.desc b.prm c = .ok w → ∃ b', b.call c = .ok b' ∧ b'.desc = b.desc ∧
      b'.prm.length = b.prm.length) := by
  rw [call_eq b c hI]
  constructor
  · intro e he
    unfold specCall callWith at he
    unfold callWith
    cases ht : target b.desc c with
    | error e' => simp only [ht] at he ⊢; cases he; rfl
    | ok r =>
      obtain ⟨off, d, v⟩ := r
      simp only [ht] at he ⊢
      by_cases hc : d.constraint.holds v <;> by_cases hd : d.dataType.holds v <;>
        simp [hc, hd] at he ⊢ <;> subst he <;> rfl
  · intro w hw
    obtain ⟨off, d, v, ht, hc, hd, _⟩ := callWith_ok_inv _ _ _ _ _ hw
    refine ⟨{ b with prm := prmWrite true b.prm off d.dataType v }, ?_, rfl, ?_⟩
    · simp [callWith, ht, hc, hd, outcomeOf]
    · exact prmWrite_length _ _ _ _ _ (hI _ (target_mem _ _ _ _ _ ht))

/-! ## (c) Panics -/

/-- `write_value_to_slice` (public) panics exactly when the slice is shorter than the field and the
write gets as far as touching it: always for the byte types (the slice is indexed before the range
check), for `Bit`/`BitArea` only when the value is accepted. -/
theorem write_value_panics_iff (t : DataType) (v : Int) (s : Bytes) :
    writeValue t v s = .panic ↔ s.length < t.size ∧ (t.isByteType = true ∨ t.holds v = true) :=
  writeValue_panic_iff t v s

/-- `PrmBuilder::new` panics exactly on layouts where some `offset + size` leaves the `usize`
range (2^64) before a default is rejected: a constant, or a reference all of whose predecessors
have defaults of their data type.  These are the only layouts the real code panics on. -/
theorem new_panics_iff (L : Layout) :
    Builder.new L = .panic ↔
      (∃ c ∈ L.consts, usizeLimit ≤ c.1 + c.2.length) ∨
      (∃ pre r post, L.refs = pre ++ r :: post ∧ usizeLimit ≤ r.1 + r.2.dataType.size ∧
        ∀ q ∈ pre, q.2.dataType.holds q.2.default = true) := by
  rw [new_panic_iff', refsPanic_iff]

/-- No panic for any well-formed layout (every `offset + size < 2^64`): `new` returns the block
the code-as-is builds, or the range error when a default is not a value of its data type. -/
theorem new_no_panic (L : Layout) (hwf : wellFormed L = true) :
    Builder.new L = match actualInit L with
      | none => .rangeErr
      | some blk => .ok { desc := L, prm := blk } :=
  new_eq L hwf

/-- `new` establishes the invariant "every referenced parameter lies inside the block" — for every
layout, whatever `UserPrmData::length` says, offsets at and beyond the constants included. -/
theorem new_establishes_inv (L : Layout) (b : Builder) (h : Builder.new L = .ok b) :
    b.desc = L ∧ Inv b :=
  inv_of_new L b h

/-- `set_prm` / `set_prm_from_text` never panic on a builder that `new` returned — any layout, any
name, any value, any text. -/
theorem set_never_panics (L : Layout) (b : Builder) (h : Builder.new L = .ok b) (c : Call) :
    b.call c ≠ .panic := by
  rw [call_eq b c (inv_of_new L b h).2]
  cases callWith true b.desc b.prm c <;> simp [outcomeOf]

/-! ## (d) `BitArea` — open finding K2 -/

/-- What the code really does on an accepted `BitArea(f,l)` write: the byte becomes the value
placed at bit `f`; every other bit of that byte is cleared; all other bytes are unchanged. -/
theorem bitarea_actual (b : Builder) (c : Call) (off f l : Nat) (d : PrmDef) (v : Int) (hI : Inv b)
    (ht : target b.desc c = .ok (off, d, v)) (hdt : d.dataType = .bitArea f l)
    (hc : d.constraint.holds v = true) (hd : d.dataType.holds v = true) :
    b.call c = .ok { b with prm := b.prm.set off (placed f v) } ∧
    (∀ i, i < 8 → bitOf (placed f v) i = (decide (f ≤ i) && v.toNat.testBit (i - f))) := by
  have hd' : (DataType.bitArea f l).holds v = true := by rw [← hdt]; exact hd
  constructor
  · rw [call_eq b c hI]
    simp [callWith, ht, hc, hd', outcomeOf, hdt, prmWrite]
  · exact fun i hi => placed_bit f v i hi

/-- K2-exclusion: on a byte with no bit set outside `f..l` the `BitArea` write is exact, too. -/
theorem set_prm_exact_partial (b : Builder) (c : Call) (off f l : Nat) (d : PrmDef) (v : Int)
    (hI : Inv b) (ht : target b.desc c = .ok (off, d, v)) (hdt : d.dataType = .bitArea f l)
    (hc : d.constraint.holds v = true) (hd : d.dataType.holds v = true)
    (hk2 : b.prm.getD off 0 &&& ~~~ fieldMask f l = 0) :
    b.call c = .ok { b with prm := prmSpec b.prm off d.dataType v } := by
  have hfit := hI _ (target_mem _ _ _ _ _ ht)
  have hoff : off < b.prm.length := by simp only [hdt, DataType.size] at hfit; omega
  rw [call_eq b c hI]
  have hd' : (DataType.bitArea f l).holds v = true := by rw [← hdt]; exact hd
  have := (bitArea_write_eq_iff b.prm off f l v hoff hd').mpr hk2
  simp [callWith, ht, hc, hd', outcomeOf, hdt, prmSpec, this]

/-- Conversely, outside that hypothesis the write is *not* exact: the exact class of K2. -/
theorem bitarea_deviates_iff (b : Builder) (c : Call) (off : Nat) (d : PrmDef) (v : Int)
    (hI : Inv b) (ht : target b.desc c = .ok (off, d, v))
    (hc : d.constraint.holds v = true) (hd : d.dataType.holds v = true) :
    b.call c ≠ .ok { b with prm := prmSpec b.prm off d.dataType v } ↔ k2Call b.desc b.prm c = true := by
  have hfit := hI _ (target_mem _ _ _ _ _ ht)
  have hiff := actual_eq_spec_iff b.desc b.prm c off d v ht hc hd hfit
  rw [call_eq b c hI]
  have h1 : callWith true b.desc b.prm c = .ok (prmWrite true b.prm off d.dataType v) := by
    simp [callWith, ht, hc, hd]
  simp only [h1, outcomeOf, prmSpec, ne_eq, SetOutcome.ok.injEq, Builder.mk.injEq, true_and]
  rw [hiff]
  simp

/-- The mock.gsd layout (`gsd-parser/tests/data/mock.gsd`): a `Bit(0)` and a `BitArea(1-2)` sharing
byte 5 over constants. -/
def mockLayout : Layout :=
  { length := 10
    consts := [(0, [0, 0, 0, 0, 0, 0, 0, 0, 0, 0, 0, 0xff])]
    refs := [
      (5, { name := "Peripheral Setting", dataType := .bit 0, default := 0, constraint := .minMax 0 1,
            texts := some [("FALSE", 0), ("TRUE", 1)] }),
      (5, { name := "Peripheral Setting 2", dataType := .bitArea 1 2, default := 0,
            constraint := .minMax 0 3,
            texts := some [("Value 1", 0), ("Value 2", 1), ("Value 3", 2), ("Value 4", 3)] })] }

/-- The calls of `tests/regress.rs` on it. -/
def mockCalls : List Call :=
  [.setText "Peripheral Setting" "TRUE", .setText "Peripheral Setting 2" "Value 2"]

/-- Concrete witness (the shipped snapshot `regress__mock-PRM.snap`): after setting the bit and then
the bit area, byte 5 is `2` where bit-exact packing gives `3`. -/
theorem bitarea_counterexample :
    ∃ b0, Builder.new mockLayout = .ok b0 ∧
      (b0.run mockCalls).map Builder.asBytes = some [0, 0, 0, 0, 0, 2, 0, 0, 0, 0, 0, 0xff] ∧
      specRun mockLayout b0.prm mockCalls = [0, 0, 0, 0, 0, 3, 0, 0, 0, 0, 0, 0xff] :=
  ⟨⟨mockLayout, [0, 0, 0, 0, 0, 0, 0, 0, 0, 0, 0, 0xff]⟩, by decide +kernel, by decide +kernel, by decide +kernel⟩

/-! ## (e) Histories -/

/-- For every layout and every list of calls on a builder returned by `new`: no call panics, the
block length never changes, every byte no referenced parameter covers keeps its initial value, and
the block is the fold of the code's per-call behaviour (`prmActual`) over the accepted calls. -/
theorem run_invariant (L : Layout) (b0 : Builder) (h : Builder.new L = .ok b0) (cs : List Call) :
    ∃ b, b0.run cs = some b ∧ b.desc = L ∧ b.prm.length = b0.prm.length ∧
      (∀ i, untouched L i → b.prm[i]? = b0.prm[i]?) ∧
      b.prm = runWith true L b0.prm cs := by
  obtain ⟨hd, hI⟩ := inv_of_new L b0 h
  refine ⟨_, run_eq b0 cs hI, hd, ?_, ?_, by rw [hd]⟩
  · exact runWith_length true b0.desc b0.prm cs hI
  · intro i hi
    exact runWith_outside true b0.desc b0.prm cs i hI (by rw [hd]; exact hi)

/-- K2-exclusion at the level of layouts: without `BitArea` parameters the builder is bit-exact
from construction through every history of calls. -/
theorem run_exact (L : Layout) (hwf : wellFormed L = true) (hnb : L.hasBitArea = false)
    (cs : List Call) :
    (specInit L = none ∧ Builder.new L = .rangeErr) ∨
    (∃ blk, specInit L = some blk ∧ Builder.new L = .ok ⟨L, blk⟩ ∧
      (⟨L, blk⟩ : Builder).run cs = some ⟨L, specRun L blk cs⟩) := by
  have hn := new_eq L hwf
  rw [initWith_noBitArea L hnb] at hn
  cases hs : specInit L with
  | none => left; simp only [hs] at hn; exact ⟨rfl, hn⟩
  | some blk =>
    right
    simp only [hs] at hn
    refine ⟨blk, rfl, hn, ?_⟩
    rw [run_eq _ cs (inv_of_new L _ hn).2, runWith_noBitArea L blk cs hnb]

/-- The model passes the oracle's judgement of every call, in every reachable state, with verdict
`k2` exactly on the K2 class and `pass` otherwise — never `fail`. -/
theorem oracle_sound_call (L : Layout) (b0 b : Builder) (cs : List Call) (c : Call)
    (h : Builder.new L = .ok b0) (hr : b0.run cs = some b) :
    judgeCall b.desc b.prm c (obsOf b (b.call c)) = if k2Call b.desc b.prm c then .k2 else .pass := by
  obtain ⟨hd, hI⟩ := inv_of_new L b0 h
  have := run_eq b0 cs hI
  rw [hr] at this
  have hb : b = { b0 with prm := runWith true b0.desc b0.prm cs } := Option.some.inj this
  have hI' : Inv b := by
    rw [hb]; intro r hr'
    simp only [runWith_length true b0.desc b0.prm cs hI]
    exact hI r hr'
  exact judgeCall_model b c hI'

/-- … and of `new`. -/
theorem oracle_sound_new (L : Layout) :
    judgeNew L (newObsOf (Builder.new L)) =
      if wellFormed L && decide (actualInit L ≠ specInit L) then .k2 else .pass :=
  judgeNew_model L

/-! ## The full property, and why it is not a theorem -/

/-- C20 as stated, for the model of the code as it is. -/
def C20_full : Prop :=
  ∀ (L : Layout) (b0 : Builder) (cs : List Call), wellFormed L = true → Builder.new L = .ok b0 →
    specInit L = some b0.prm ∧ b0.run cs = some ⟨L, specRun L b0.prm cs⟩

/-- It fails (K2), by the mock.gsd witness. -/
theorem C20_full_fails : ¬ C20_full := by
  intro hfull
  obtain ⟨b0, hn, hr, hs⟩ := bitarea_counterexample
  have := (hfull mockLayout b0 mockCalls (by decide +kernel) hn).2
  rw [this, hs] at hr
  revert hr
  decide

/-! ### Non-vacuity -/

/-- A layout with every data type, overlapping bit fields, a constraint, texts, an offset beyond the
constants. -/
def demoLayout : Layout :=
  { length := 4
    consts := [(0, [0xff, 0xff, 0xff, 0xff, 0xff, 0xff])]
    refs := [
      (0, { name := "s16", dataType := .s16, default := -2, constraint := .minMax (-32768) 32767, texts := none }),
      (2, { name := "bit", dataType := .bit 7, default := 0, constraint := .unconstrained,
            texts := some [("off", 0), ("on", 1)] }),
      (2, { name := "area", dataType := .bitArea 0 0, default := 1, constraint := .enum [0, 1], texts := none }),
      (7, { name := "u32", dataType := .u32, default := 4294967295, constraint := .unconstrained, texts := none })] }

def demoBuilder : Builder := ⟨demoLayout, [0xff, 0xfe, 1, 0xff, 0xff, 0xff, 0, 0xff, 0xff, 0xff, 0xff]⟩

-- `new` accepts it (the BitArea default already clobbers byte 2: `01`, the specification says `7f`)
example : Builder.new demoLayout = .ok demoBuilder := by decide +kernel
example : specInit demoLayout = some [0xff, 0xfe, 0x7f, 0xff, 0xff, 0xff, 0, 0xff, 0xff, 0xff, 0xff] := by
  decide +kernel
example : wellFormed demoLayout = true ∧ Inv demoBuilder := by
  refine ⟨by decide +kernel, (inv_of_new demoLayout demoBuilder (by decide +kernel)).2⟩
-- (a) hypotheses of `set_prm_exact` / `call_exact`: Signed16 := -32768, block = `80 00 …`
example : demoLayout.getPrm "s16" = some (0, demoLayout.refs[0]!.2) ∧
    (DataType.s16).holds (-32768) = true ∧
    prmSpec demoBuilder.prm 0 .s16 (-32768) = [0x80, 0, 1, 0xff, 0xff, 0xff, 0, 0xff, 0xff, 0xff, 0xff] := by
  decide +kernel
example : demoBuilder.setPrm "s16" (-32768) =
    .ok ⟨demoLayout, [0x80, 0, 1, 0xff, 0xff, 0xff, 0, 0xff, 0xff, 0xff, 0xff]⟩ := by decide +kernel
-- (b) each rejection occurs
example : demoBuilder.setPrm "nosuch" 0 = .err .prmNotFound ∧
    demoBuilder.setPrm "area" 2 = .err .valueConstraint ∧
    demoBuilder.setPrm "s16" 40000 = .err .valueConstraint ∧
    demoBuilder.setPrm "u32" 4294967296 = .err .valueRange ∧
    demoBuilder.setPrmFromText "s16" "on" = .err .prmWithoutTexts ∧
    demoBuilder.setPrmFromText "bit" "maybe" = .err .prmTextNotFound ∧
    demoBuilder.setPrmFromText "bit" "on" = demoBuilder.setPrm "bit" 1 := by decide +kernel
-- (c) panics: a short slice; an offset at the end of the usize range; no panic otherwise
example : writeValue .u16 (-1) [0xa5] = .panic ∧ writeValue (.bit 0) 2 [] = .rangeErr ∧
    writeValue (.bit 0) 1 [] = .panic := by decide +kernel
example : Builder.new { length := 0, consts := [], refs := [(2 ^ 64 - 1,
    { name := "p", dataType := .u8, default := 0, constraint := .unconstrained, texts := none })] } = .panic := by
  decide +kernel
-- (d) K2: hypotheses of `bitarea_actual` hold with a bit set outside the field; of
-- `set_prm_exact_partial` on a clean byte
example : demoLayout.getPrm "area" = some (2, demoLayout.refs[2]!.2) ∧
    k2Call demoLayout [0xff, 0xfe, 0x80, 0xff, 0xff, 0xff, 0, 0xff, 0xff, 0xff, 0xff] (.set "area" 0) = true ∧
    k2Call demoLayout demoBuilder.prm (.set "area" 0) = false := by decide +kernel
-- (e) a history
example : (demoBuilder.run [.set "s16" 1, .setText "bit" "on", .set "area" 1, .set "u32" 7, .set "u32" (-1)]).map
    Builder.asBytes = some [0, 1, 1, 0xff, 0xff, 0xff, 0, 0, 0, 0, 7] := by decide +kernel
example : untouched demoLayout 3 ∧ untouched demoLayout 6 ∧ ¬ untouched demoLayout 2 := by
  refine ⟨?_, ?_, ?_⟩
  · intro r hr; simp [demoLayout] at hr; rcases hr with rfl | rfl | rfl | rfl <;> simp [DataType.size]
  · intro r hr; simp [demoLayout] at hr; rcases hr with rfl | rfl | rfl | rfl <;> simp [DataType.size]
  · intro h
    have := h (2, demoLayout.refs[1]!.2) (by decide +kernel)
    simp [demoLayout, DataType.size] at this
-- the specification itself on concrete bytes: bits 2..4 of a5 := 5 gives b5, every other bit kept;
-- Signed32 -2 is ff ff ff fe; bit 15 of -32768 is set, bit 14 is not
example : prmSpec [0xa5] 0 (.bitArea 2 4) 5 = [0xb5] ∧ prmActual [0xa5] 0 (.bitArea 2 4) 5 = [0x14] ∧
    prmSpec [1, 2, 3, 4, 5] 1 .s32 (-2) = [1, 0xff, 0xff, 0xff, 0xfe] ∧
    intBit (-32768) 15 = true ∧ intBit (-32768) 14 = false ∧ bitOf 0xb5 4 = true := by decide +kernel
-- `bitarea_deviates_iff` / `oracle_sound_call`: both verdicts occur
example : judgeCall demoLayout demoBuilder.prm (.set "area" 0) (.ok [0xff, 0xfe, 0, 0xff, 0xff, 0xff, 0, 0xff, 0xff, 0xff, 0xff]) = .pass ∧
    judgeCall demoLayout [0xff, 0xfe, 0x81, 0xff, 0xff, 0xff, 0, 0xff, 0xff, 0xff, 0xff] (.set "area" 0)
      (.ok [0xff, 0xfe, 0, 0xff, 0xff, 0xff, 0, 0xff, 0xff, 0xff, 0xff]) = .k2 ∧
    judgeCall demoLayout [0xff, 0xfe, 0x81, 0xff, 0xff, 0xff, 0, 0xff, 0xff, 0xff, 0xff] (.set "area" 0)
      (.ok [0xff, 0xfe, 0x81, 0xff, 0xff, 0xff, 0, 0xff, 0xff, 0xff, 0xff]) = .fail "block differs from prmSpec" ∧
    judgeNew demoLayout (.ok demoBuilder.prm) = .k2 := by decide +kernel
-- `run_exact`: a layout without BitArea
example : wellFormed { demoLayout with refs := demoLayout.refs.take 2 } = true ∧
    Layout.hasBitArea { demoLayout with refs := demoLayout.refs.take 2 } = false := by decide +kernel

end PV.C20
