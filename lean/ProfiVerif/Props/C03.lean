/-
C03 — A peripheral enters data exchange only after a complete, correct bring-up.

Property theorems only; definitions are in `Lemmas/Dp.lean` (histories under the FDL contract C15
with ghost observations), `Lemmas/Dp08.lean`, `Lemmas/Dp03.lean` (ghost invariants), and
`Lemmas/DpBytes.lean` (byte-level facts).  All statements are about
`Model/Dp/{Peripheral,Master}.lean`, tied to `src/dp/{peripheral,master}.rs` and
`src/fdl/parameters.rs` by the `dp` correspondence.

The bring-up is observed by the ghost automaton `s` of a slot (`Lemmas/Dp.lean`: `sgSend`, `sgReply`,
`bringUp`, `sgOffline`), driven only by what is visible on the wire and through `is_live()`:
  S0 --acceptable reply to a diagnostics request--> S1 --SC to Set_Prm--> S2 --SC to Chk_Cfg--> S3
     --acceptable diagnostics reply with none of PRM_FAULT, CFG_FAULT, PRM_REQ, STATION_NOT_READY--> S4;
  back to S0 whenever the peripheral is (considered) offline afterwards — the Offline event, a
  ParameterError / ConfigError — and back to S1 whenever the master sends Set_Prm again (the
  peripheral is asked to be re-parameterised).
`bringUp_step` says these are the only upward moves.  Theorems are stated for every state satisfying
the invariants, which every state reached by a contract history does (`reachable`) — histories may
contain `reset_address()` calls at any point, also while a request is in flight (the reply is then
ignored); the bookkeeping invariants `Inv8` / `Inv3` are established for all histories except those in
which the peripheral in flight is reset to the very address the reply is outstanding from
(`tainted = false` excludes exactly that); `never_panics` holds for all.
-/
import ProfiVerif.Lemmas.Dp03
import ProfiVerif.Driver.DpOracle

namespace PV.C03
open PV PV.Dp

theorem reachable {fp : FdlParams} (hfp : FpOk fp) {slots : List (Option Peripheral)}
    (hinit : InitOk fp slots) (gr : Bool) (ops : List Op) :
    ∀ {g : G}, grun fp (G.init slots gr) ops = .ok g → Inv fp g ∧ (g.tainted = false → Inv8 g ∧ Inv3 g) := by
  suffices H : ∀ (ops : List Op) (g0 : G), Inv fp g0 → (g0.tainted = false → Inv8 g0 ∧ Inv3 g0) →
      ∀ g, grun fp g0 ops = .ok g → Inv fp g ∧ (g.tainted = false → Inv8 g ∧ Inv3 g) by
    intro g h
    exact H ops _ (inv_init hinit gr) (fun _ => ⟨inv8_init hinit gr, inv3_init hinit gr⟩) g h
  intro ops
  induction ops with
  | nil => intro g0 h1 h2 g h; simp only [grun, Res3.ok.injEq] at h; subst h; exact ⟨h1, h2⟩
  | cons op ops ih =>
    intro g0 h1 h2 g h
    simp only [grun] at h
    cases hs : gstep fp g0 op with
    | ok g1 =>
      rw [hs] at h
      refine ih g1 (inv_step hfp h1 op hs) ?_ g h
      intro hu
      obtain ⟨h8, h3⟩ := h2 (tainted_mono op hs hu)
      exact ⟨inv8_step hfp h1 h8 op hs hu, inv3_step hfp h1 h8 h3 op hs hu⟩
    | panic => rw [hs] at h; cases h
    | hang => rw [hs] at h; cases h
    | refused => rw [hs] at h; cases h

/-- The four flag tests of the bring-up state machine (`flags.contains(...)` on the decoded 16-bit
word, bit form in the model) are exactly the arithmetic tests on the first two bytes of the reply:
PRM_FAULT = bit 6 of byte 0, CFG_FAULT = bit 2 of byte 0, PRM_REQ = bit 0 of byte 1,
STATION_NOT_READY = bit 1 of byte 0 (removing the permanent bit 10 does not touch any of them). -/
theorem flag_tests_arith (pdu : Bytes) :
    let f := (Diag.infoOf pdu).flags
    let b0 := (pdu.getD 0 0).toNat
    let b1 := (pdu.getD 1 0).toNat
    (f &&& PARAMETER_FAULT = 0 ↔ b0 / 64 % 2 = 0) ∧
    (f &&& CONFIGURATION_FAULT = 0 ↔ b0 / 4 % 2 = 0) ∧
    (f &&& PARAMETER_REQUIRED = 0 ↔ b1 % 2 = 0) ∧
    (f &&& STATION_NOT_READY = 0 ↔ b0 / 2 % 2 = 0) := by
  intro f b0 b1
  have hn : f.toNat = Diag.Spec.flagsNat pdu := Diag.flags_toNat _ _
  have h0 := (pdu.getD 0 0).toNat_lt
  have h1 := (pdu.getD 1 0).toNat_lt
  have e6 : PARAMETER_FAULT = UInt16.ofNat (2 ^ 6) := by decide
  have e2 : CONFIGURATION_FAULT = UInt16.ofNat (2 ^ 2) := by decide
  have e8 : PARAMETER_REQUIRED = UInt16.ofNat (2 ^ 8) := by decide
  have e1 : STATION_NOT_READY = UInt16.ofNat (2 ^ 1) := by decide
  rw [e6, e2, e8, e1, and_pow_zero_iff f 6 (by decide), and_pow_zero_iff f 2 (by decide),
    and_pow_zero_iff f 8 (by decide), and_pow_zero_iff f 1 (by decide), hn]
  simp only [Diag.Spec.flagsNat]
  show (_ ↔ b0 / 64 % 2 = 0) ∧ (_ ↔ b0 / 4 % 2 = 0) ∧ (_ ↔ b1 % 2 = 0) ∧ (_ ↔ b0 / 2 % 2 = 0)
  have hb0 : (pdu.getD 0 0).toNat = b0 := rfl
  have hb1 : (pdu.getD 1 0).toNat = b1 := rfl
  rw [hb0, hb1]
  split <;> refine ⟨?_, ?_, ?_, ?_⟩ <;> omega

/-- The readiness test of the bring-up automaton (`readyFlags`, bit form, used by `bringUp_step` /
`dx_only_when_ready`) IS the test the executable oracle `oracle3` applies to the reply bytes on the
implementation's stream (`Driver.flagsReady`): the oracle judges the real code by the very predicate
the theorems are about. -/
theorem ready_flags_arith (t : Telegram) :
    readyFlags t = PV.Driver.flagsReady (pduOf t) := by
  have h := flag_tests_arith (pduOf t)
  simp only at h
  obtain ⟨h6, h2, h8, h1⟩ := h
  rw [Bool.eq_iff_iff, readyFlags_iff]
  simp only [PV.Driver.flagsReady, flagsOf, Bool.and_eq_true, beq_iff_eq, h6, h2, h8, h1]
  constructor
  · rintro ⟨a, b, c, d⟩; exact ⟨⟨⟨a, b⟩, d⟩, c⟩
  · rintro ⟨⟨⟨a, b⟩, d⟩, c⟩; exact ⟨a, b, c, d⟩

/-- The only upward moves of the bring-up automaton, in order. -/
theorem bringUp_step (k : RKind) (t : Telegram) (s : Nat) :
    bringUp k t s = s ∨
    (bringUp k t s = s + 1 ∧
      ((s = 0 ∧ k = .diag) ∨ (s = 1 ∧ k = .setPrm) ∨ (s = 2 ∧ k = .chkCfg) ∨
       (s = 3 ∧ k = .diag ∧ readyFlags t = true))) := by
  unfold bringUp
  cases k <;> simp only
  · by_cases h0 : s = 0
    · right; subst h0; simp
    · by_cases h3 : s = 3 ∧ readyFlags t = true
      · right; obtain ⟨rfl, hr⟩ := h3; simp [hr]
      · left; simp only [h0, if_false, h3]
  · by_cases h1 : s = 1
    · right; subst h1; simp
    · left; simp [h1]
  · by_cases h2 : s = 2
    · right; subst h2; simp
    · left; simp [h2]
  · left; trivial
  · left; trivial

/-- `dx_only_when_ready`: a cyclic Data_Exchange request (no SAPs, SRD high) goes out to a
peripheral only in S4: since it was last offline or asked to be re-parameterised it answered a
diagnostics request, acknowledged Set_Prm, acknowledged Chk_Cfg, and a later diagnostics reply
confirmed readiness. -/
theorem dx_only_when_ready {fp : FdlParams} (hfp : FpOk fp) {g g' : G} (hI : Inv fp g) (h8 : Inv8 g) (h3 : Inv3 g)
    {now : Int} {hp : Bool} (h : gstep fp g (.tx now hp) = .ok g')
    {i : Nat} {hd : Header} {pdu : Bytes} (ho : g'.o = .sent i hd pdu) (hk : reqKind hd = .dx) :
    (g.sg i).s = 4 := by
  obtain ⟨p, p', p0, hp0, hsame, _, _, hts, _, _⟩ := send_step hfp hI h8 h ho
  have hJ := h3.slot i p0 hp0
  rcases send_kind hts with ⟨hk', _⟩ | ⟨hk', _⟩ | ⟨hk', _⟩ | ⟨_, hst, _, _⟩
  · rw [hk'] at hk; cases hk
  · rw [hk'] at hk; cases hk
  · rw [hk'] at hk; cases hk
  · exact hJ.dx (by rw [hsame] at hst; exact hst)

/-- Set_Prm and Chk_Cfg are only sent in S1 resp. S2 (after the step: Set_Prm leaves the automaton in S1). -/
theorem bringup_requests_in_order {fp : FdlParams} (hfp : FpOk fp) {g g' : G} (hI : Inv fp g) (h8 : Inv8 g) (h3 : Inv3 g)
    {now : Int} {hp : Bool} (h : gstep fp g (.tx now hp) = .ok g')
    {i : Nat} {hd : Header} {pdu : Bytes} (ho : g'.o = .sent i hd pdu) :
    (reqKind hd = .setPrm → 1 ≤ (g.sg i).s ∧ (g'.sg i).s = 1) ∧ (reqKind hd = .chkCfg → (g.sg i).s = 2) := by
  obtain ⟨p, p', p0, hp0, hsame, _, _, hts, hsg, _⟩ := send_step hfp hI h8 h ho
  have hJ := h3.slot i p0 hp0
  have hps : p.state = p0.state := by rw [hsame]
  rcases send_kind hts with ⟨hk', _⟩ | ⟨hk', hst, _⟩ | ⟨hk', hst, _⟩ | ⟨hk', _⟩
  · rw [hk']; exact ⟨(by intro h; cases h), (by intro h; cases h)⟩
  · rw [hk']
    have h1 := hJ.prm (by rw [← hps]; exact hst)
    refine ⟨fun _ => ⟨h1, ?_⟩, (by intro h; cases h)⟩
    rw [hsg]; simp only [sgSend, hk']; simp; omega
  · rw [hk']; exact ⟨(by intro h; cases h), fun _ => hJ.cfg (by rw [← hps]; exact hst)⟩
  · rw [hk']; exact ⟨(by intro h; cases h), (by intro h; cases h)⟩

/-- Every request of the master to a peripheral is exactly the PROFIBUS frame of its header and PDU
(C09 frame layout) and decodes back to them: the statements below about `hd` / `pdu` are statements
about the bytes on the wire.  It is addressed from the master's to the peripheral's address. -/
theorem request_on_wire {fp : FdlParams} (hfp : FpOk fp) {g g' : G} (hI : Inv fp g) (h8 : Inv8 g)
    {now : Int} {hp : Bool} (h : gstep fp g (.tx now hp) = .ok g')
    {i : Nat} {hd : Header} {pdu : Bytes} (ho : g'.o = .sent i hd pdu) :
    ∃ p0, g.m.slots[i]? = some (some p0) ∧ hd.da = p0.address ∧ hd.sa = fp.address ∧
      hd.serialize pdu = .ok (frameSpec hd pdu) ∧
      ∀ rest, deserialize (frameSpec hd pdu ++ rest) = .accept (.data hd pdu) (frameSpec hd pdu).length := by
  obtain ⟨p, p', p0, hp0, hsame, _, hP, hts, _, _⟩ := send_step hfp hI h8 h ho
  have hS := pinv_sendable hfp hP (send_kind_snap hts).2.2.2.2.2.2.1
  have hda : hd.da = p.address := (send_header hts).2.2.1
  have hsa : hd.sa = fp.address := by cases hts <;> rfl
  have hl : hd.lengthByte pdu.length ≤ 249 := by
    obtain ⟨_, _, _, _, hprm, hcfg, hq⟩ := hS
    cases hts with
    | probe => simp [diagHeader_lengthByte]
    | setPrm up _ _ hu' =>
      rw [setPrmHeader_lengthByte]
      have : (setPrmPdu fp p.opts up).length = 7 + up.length := by simp [setPrmPdu]; omega
      rw [this]; have := hprm up hu'; omega
    | chkCfg c _ _ hu' => rw [chkCfgHeader_lengthByte]; have := hcfg _ hu'; omega
    | validate => simp [diagHeader_lengthByte]
    | dxDiag => simp [diagHeader_lengthByte]
    | dx => rw [dxHeader_lengthByte, dxPdu_length]; omega
  refine ⟨p0, hp0, by rw [hda, hsame], hsa, (wire_of_send hd pdu [] (by rw [hda]; exact hP.addr) (by rw [hsa]; exact hfp.addr) hl).1, ?_⟩
  intro rest
  exact (wire_of_send hd pdu rest (by rw [hda]; exact hP.addr) (by rw [hsa]; exact hfp.addr) hl).2

/-- `set_prm_bytes`: a Set_Prm request is `DSAP 61 / SSAP 62 / SRD low`, and its PDU is
`[0x80 + 0x20·sync + 0x10·freeze + 0x08·WD_On, f1, f2, min_tsdr, ident_hi, ident_lo, groups] ++ user_parameters`
with exactly the configured values (the watchdog factors of the FDL parameters, `0, 0` and WD_On
clear when no watchdog is configured). -/
theorem set_prm_bytes {fp : FdlParams} (hfp : FpOk fp) {g g' : G} (hI : Inv fp g) (h8 : Inv8 g)
    {now : Int} {hp : Bool} (h : gstep fp g (.tx now hp) = .ok g')
    {i : Nat} {hd : Header} {pdu : Bytes} (ho : g'.o = .sent i hd pdu) (hk : reqKind hd = .setPrm) :
    ∃ p0 up, g.m.slots[i]? = some (some p0) ∧ p0.opts.userPrm = some up ∧
      hd = { da := p0.address, sa := fp.address, dsap := some 61, ssap := some 62, fc := .request (fcbOf hd) .srdLow } ∧
      pdu = setPrmPdu fp p0.opts up ∧
      (p0.opts.ident < 65536 →
        pdu.length = 7 + up.length ∧ pdu.drop 7 = up ∧
        (pdu.getD 0 0).toNat = 128 + (if p0.opts.sync then 32 else 0) + (if p0.opts.freeze then 16 else 0) +
          (if fp.watchdog.isSome then 8 else 0) ∧
        pdu.getD 1 0 = (match fp.watchdog with | some (f1, _) => f1 | none => 0) ∧
        pdu.getD 2 0 = (match fp.watchdog with | some (_, f2) => f2 | none => 0) ∧
        pdu.getD 3 0 = fp.minTsdr ∧
        (pdu.getD 4 0).toNat * 256 + (pdu.getD 5 0).toNat = p0.opts.ident ∧
        pdu.getD 6 0 = p0.opts.groups) := by
  obtain ⟨p, p', p0, hp0, hsame, _, _, hts, _, _⟩ := send_step hfp hI h8 h ho
  rcases send_kind hts with ⟨hk', _⟩ | ⟨_, _, up, hu, hpdu⟩ | ⟨hk', _⟩ | ⟨hk', _⟩
  · rw [hk'] at hk; cases hk
  · have hop : p.opts = p0.opts := by rw [hsame]
    have hpa : p.address = p0.address := by rw [hsame]
    refine ⟨p0, up, hp0, by rw [← hop]; exact hu, ?_, by rw [hpdu, hop], ?_⟩
    · cases hts <;> first | (rw [reqKind_diag] at hk; cases hk) | (rw [reqKind_chkCfg] at hk; cases hk) | (rw [reqKind_dx] at hk; cases hk) | skip
      simp [Peripheral.setPrmHeader, SAP_SLAVE_SET_PRM, SAP_MASTER_MS0, fcbOf, hpa]
    · intro hid
      rw [hpdu, hop]
      exact setPrmPdu_spec fp p0.opts up hid
  · rw [hk'] at hk; cases hk
  · rw [hk'] at hk; cases hk

/-- `chk_cfg_bytes`: a Chk_Cfg request is `DSAP 62 / SSAP 62 / SRD low` and its PDU is exactly the
configured configuration bytes. -/
theorem chk_cfg_bytes {fp : FdlParams} (hfp : FpOk fp) {g g' : G} (hI : Inv fp g) (h8 : Inv8 g)
    {now : Int} {hp : Bool} (h : gstep fp g (.tx now hp) = .ok g')
    {i : Nat} {hd : Header} {pdu : Bytes} (ho : g'.o = .sent i hd pdu) (hk : reqKind hd = .chkCfg) :
    ∃ p0, g.m.slots[i]? = some (some p0) ∧ p0.opts.config = some pdu ∧
      hd = { da := p0.address, sa := fp.address, dsap := some 62, ssap := some 62, fc := .request (fcbOf hd) .srdLow } := by
  obtain ⟨p, p', p0, hp0, hsame, _, _, hts, _, _⟩ := send_step hfp hI h8 h ho
  rcases send_kind hts with ⟨hk', _⟩ | ⟨hk', _⟩ | ⟨_, _, hu⟩ | ⟨hk', _⟩
  · rw [hk'] at hk; cases hk
  · rw [hk'] at hk; cases hk
  · have hop : p.opts = p0.opts := by rw [hsame]
    have hpa : p.address = p0.address := by rw [hsame]
    refine ⟨p0, hp0, by rw [← hop]; exact hu, ?_⟩
    cases hts <;> first | (rw [reqKind_diag] at hk; cases hk) | (rw [reqKind_setPrm] at hk; cases hk) | (rw [reqKind_dx] at hk; cases hk) | skip
    simp [Peripheral.chkCfgHeader, SAP_SLAVE_CHK_CFG, SAP_MASTER_MS0, fcbOf, hpa]
  · rw [hk'] at hk; cases hk

/-- `diag_request_bytes`: a diagnostics request is `DSAP 60 / SSAP 62 / SRD low` without PDU. -/
theorem diag_request_bytes {fp : FdlParams} (hfp : FpOk fp) {g g' : G} (hI : Inv fp g) (h8 : Inv8 g)
    {now : Int} {hp : Bool} (h : gstep fp g (.tx now hp) = .ok g')
    {i : Nat} {hd : Header} {pdu : Bytes} (ho : g'.o = .sent i hd pdu) (hk : reqKind hd = .diag) :
    ∃ p0, g.m.slots[i]? = some (some p0) ∧ pdu = [] ∧
      hd = { da := p0.address, sa := fp.address, dsap := some 60, ssap := some 62, fc := .request (fcbOf hd) .srdLow } := by
  obtain ⟨p, p', p0, hp0, hsame, _, _, hts, _, _⟩ := send_step hfp hI h8 h ho
  rcases send_kind hts with ⟨_, hpdu, _⟩ | ⟨hk', _⟩ | ⟨hk', _⟩ | ⟨hk', _⟩
  · have hpa : p.address = p0.address := by rw [hsame]
    refine ⟨p0, hp0, hpdu, ?_⟩
    cases hts <;> first | (rw [reqKind_setPrm] at hk; cases hk) | (rw [reqKind_chkCfg] at hk; cases hk) | (rw [reqKind_dx] at hk; cases hk) | skip
    all_goals simp [Peripheral.diagHeader, SAP_SLAVE_DIAGNOSIS, SAP_MASTER_MS0, fcbOf, hpa]
  · rw [hk'] at hk; cases hk
  · rw [hk'] at hk; cases hk
  · rw [hk'] at hk; cases hk

/-- Every request to a peripheral is one of the four standard services (no other SAP pair). -/
theorem standard_saps_only {fp : FdlParams} (hfp : FpOk fp) {g g' : G} (hI : Inv fp g) (h8 : Inv8 g)
    {now : Int} {hp : Bool} (h : gstep fp g (.tx now hp) = .ok g')
    {i : Nat} {hd : Header} {pdu : Bytes} (ho : g'.o = .sent i hd pdu) : reqKind hd ≠ .other := by
  obtain ⟨p, p', p0, _, _, _, _, hts, _, _⟩ := send_step hfp hI h8 h ho
  rcases send_kind hts with ⟨hk', _⟩ | ⟨hk', _⟩ | ⟨hk', _⟩ | ⟨hk', _⟩ <;> (rw [hk']; intro hh; cases hh)

/-- `watchdog_factors_spec`: for every watchdog time-out from 10 ms to 650 s the builder's search
returns factors `1 ≤ f1, f2 ≤ 255` with `f2 = ⌈⌊ms/10⌋ / f1⌉` (so `f1·f2·10 ms` covers the requested
time, floored to 10 ms units) and `f1` the least factor for which that fits a byte; outside that
range the builder refuses (`none` = its assertion). -/
theorem watchdog_factors_spec (ms : Nat) (h1 : 10 ≤ ms) (h2 : ms ≤ 650000) :
    ∃ f1 f2 : Nat, watchdogFactors ms = some (UInt8.ofNat f1, UInt8.ofNat f2) ∧
      1 ≤ f1 ∧ f1 ≤ 255 ∧ 1 ≤ f2 ∧ f2 ≤ 255 ∧ ms / 10 ≤ f1 * f2 ∧ f1 * f2 < ms / 10 + f1 ∧
      (∀ g, 1 ≤ g → g < f1 → 256 ≤ (ms / 10 + g - 1) / g) :=
  Dp.watchdog_factors_spec ms h1 h2

theorem watchdog_factors_none_iff (ms : Nat) : watchdogFactors ms = none ↔ (ms < 10 ∨ 650000 < ms) :=
  Dp.watchdogFactors_none_iff ms

/-- The observation of DESIGN §6: the request is floored to 10 ms units, 15 ms yields 10 ms. -/
example : watchdogFactors 15 = some (1, 1) ∧ watchdogFactors 2550 = some (1, 255) ∧
    watchdogFactors 2560 = some (2, 128) := by decide

theorem never_panics {fp : FdlParams} (hfp : FpOk fp) {slots : List (Option Peripheral)}
    (hinit : InitOk fp slots) (gr : Bool) (ops : List Op) :
    grun fp (G.init slots gr) ops ≠ .panic ∧ grun fp (G.init slots gr) ops ≠ .hang :=
  ⟨(inv_run hfp ops _ (inv_init hinit gr)).1, (inv_run hfp ops _ (inv_init hinit gr)).2.1⟩

/-! ### Non-vacuity -/

/-- On the example history the automaton walks S0..S4 and the first Data_Exchange request goes out in S4;
the Set_Prm frame on the wire is `68 0f 0f 68 87 82 5c 3d 3e 98 01 0a 0b 80 b1 03 01 02 03 c8 16`. -/
def bringUpCheck : Bool :=
  let sAfter := fun (n : Nat) =>
    match grun Ex.fp (G.init Ex.slots false) (Ex.bringUp.take n) with
    | .ok g => (g.sg 1).s
    | _ => 99
  sAfter 4 == 0 && sAfter 6 == 1 && sAfter 12 == 2 && sAfter 18 == 3 && sAfter 24 == 4 &&
  (match grun Ex.fp (G.init Ex.slots false) (Ex.bringUp.take 8) with
   | .ok g =>
     (match gstep Ex.fp g (.tx 4000 false) with
      | .ok g' => (match g'.o with
        | .sent 1 hd pdu => reqKind hd == .setPrm &&
            hd.serialize pdu == .ok [0x68, 0x0f, 0x0f, 0x68, 0x87, 0x82, 0x5c, 0x3d, 0x3e, 0x98, 0x01, 0x0a, 0x0b,
              0x80, 0xb1, 0x03, 0x01, 0x02, 0x03, 0xc8, 0x16]
        | _ => false)
      | _ => false)
   | _ => false) &&
  (match grun Ex.fp (G.init Ex.slots false) Ex.bringUp with
   | .ok g =>
     (match gstep Ex.fp g (.tx 10000 false) with
      | .ok g' => (match g'.o with | .sent 1 hd _ => reqKind hd == .dx && (g.sg 1).s == 4 | _ => false)
      | _ => false)
   | _ => false)

example : bringUpCheck = true := by decide +kernel

end PV.C03
