import ProfiVerif.Model.Dp.Master
namespace PV.C03
open PV PV.Dp
/-- placeholder, replaced below -/
theorem stub : Master.handleTimeout = fun m _ => m := rfl
end PV.C03
