/-
C01 — Bus access respects the PROFIBUS idle times (station-level obligations).
-/
import ProfiVerif.Model.Station
import ProfiVerif.Lemmas.StationWho
import ProfiVerif.Lemmas.StationMark

namespace PV.C01
open PV

/-- `wait_synchronization_pause` lets the caller proceed exactly when more than 33 bit times have
passed since the last registered bus activity (which it initialises to `now` when unknown). -/
theorem sync_pause_spec (s : Station) (now : Int) :
    (waitSyncPause s now).2 = false ↔
      now > (s.lastBusActivity.getD now) + (s.p.bits 33 : Nat) := by
  unfold waitSyncPause getOrInsertLast
  cases s.lastBusActivity <;> simp <;> omega

/-- `tx_not_while_transmitting`: a poll made while the PHY still transmits, or before the predicted
end of the own last transmission, starts no transmission. -/
theorem tx_not_while_transmitting (c : Ctx) (now : Int) (phyTx : Bool) (hon : c.s.online = true)
    (hst : c.s.st ≠ .offline) (hst2 : c.s.st ≠ .passiveIdle) (htx : c.tx = none)
    (hbusy : phyTx = true ∨ ∃ l, c.s.lastBusActivity = some l ∧ now ≤ l) :
    ∃ c', pollInner c now phyTx = .ok c' ∧ c'.tx = none ∧ c'.calls = c.calls := by
  refine ⟨upd c fun s => markBusActivity s now, ?_, by simpa [upd] using htx, by simp [upd]⟩
  unfold pollInner
  simp only [hon]
  rcases hbusy with h | ⟨l, hl, hle⟩
  · subst h
    cases h : c.s.st <;> simp_all [Res.bind, pollStart, ongoing]
  · cases h : c.s.st <;> simp_all [Res.bind, tr, pollStart, ongoing]

/-- The token is passed (or retransmitted) by `do_pass_token` only after the synchronisation pause. -/
theorem pass_token_needs_idle (c : Ctx) (now : Int) (g : Bool) (a : Attempt) (hst : c.s.st = .passToken g a)
    (hw : (waitSyncPause c.s now).2 = true) :
    doPassToken c now = .ok { c with s := (waitSyncPause c.s now).1 } := by
  unfold doPassToken
  rw [hst]
  simp [hw]

/-- `claim_needs_silence`: a listening or idle station enters `ClaimToken` only when the bus has been
silent for its own time-out `Tto = (6 + 2·TS)·Tsl`. -/
theorem claim_needs_silence (c : Ctx) (now : Int) (l : Int) (hl : c.s.lastBusActivity = some l)
    (h : (now - l).natAbs < c.s.p.tokenLostTimeout) :
    (handleLostToken c now).2 = none := by
  unfold handleLostToken getOrInsertLast
  simp only [hl]
  rw [if_neg (by omega)]

theorem div_stagger (a b r : Nat) (hr : 0 < r) : a / r + 2 * (b / r) ≤ (a + 2 * b) / r := by
  rw [Nat.le_div_iff_mul_le hr]
  have ha := Nat.div_mul_le_self a r
  have hb := Nat.div_mul_le_self b r
  calc (a / r + 2 * (b / r)) * r = a / r * r + 2 * (b / r * r) := by rw [Nat.add_mul, Nat.mul_assoc]
    _ ≤ a + 2 * b := by omega

/-- `claim_staggered`: the time-out grows with the address by at least two slot times, so two
listeners that start counting together never claim together. -/
theorem claim_staggered (p : Params) (hr : 0 < p.rate) :
    p.tokenLostTimeout + 2 * p.slotTime ≤
      ({ p with address := p.address + 1 } : Params).tokenLostTimeout := by
  unfold Params.tokenLostTimeout Params.slotTime Params.bits bitsToTime
  simp only
  have h1 : p.slotBits * (6 + 2 * (p.address + 1)) * 1000000 =
      p.slotBits * (6 + 2 * p.address) * 1000000 + 2 * (p.slotBits * 1000000) := by
    simp only [Nat.mul_add, Nat.add_mul, Nat.mul_comm, Nat.mul_left_comm, Nat.mul_assoc]
    omega
  rw [h1]
  exact div_stagger _ _ _ hr

/-- `tx_needs_idle` (every poll, every state, every input): whenever a `poll` call hands a telegram
to the PHY, (1) the PHY was not transmitting, (2) no bus activity was newly registered in this very
poll (the receive buffer holds no more bytes than already accounted for), and (3) more than the
synchronisation pause of 33 bit times has passed since the last bus activity the station had
registered — which, after an own transmission, is the predicted end of that transmission
(`markTx`).  No hypothesis on the state: it holds from every state, reachable or not. -/
theorem tx_needs_idle (s : Station) (apps : Apps) (now : Int) (phyTx : Bool) (rx : Bytes) (c' : Ctx)
    (h : s.poll apps now phyTx rx = .ok c') (ht : c'.tx ≠ none) :
    phyTx = false ∧ rx.length ≤ s.pendingBytes ∧
      ∀ l, s.lastBusActivity = some l → l + (s.p.bits 33 : Nat) < now :=
  pollInner_tx { s := s, apps := apps, rx := rx } now phyTx c' h rfl ht

/-- `who_may_transmit` (every poll, every state, every input): what a `poll` call hands to the PHY
is determined by the FDL state at the start of the call —
* `Offline`/`ListenToken`/`ActiveIdle` (no token): only the self-addressed claim token, and only when
  the measured silence has reached the station's own time-out, or the FDL status reply to the station
  whose request addressed to this station was registered (`statusReq = some src`), sent to `src`;
* `ClaimToken`: the self-addressed token or a GAP poll (status request from the own address);
* `UseToken`/`AwaitDataResponse` (token holder): only a telegram an application handed over in a
  `transmit_telegram` call of this poll or earlier (recorded in `calls`);
* `PassToken`: the token with the own source address, or (with GAP maintenance due) a GAP poll;
* `CheckTokenPass`/`AwaitStatusResponse`: only a token with the own source address (the retry of the
  own pass, or the pass after an unanswered GAP poll). -/
theorem who_may_transmit (s : Station) (apps : Apps) (now : Int) (phyTx : Bool) (rx : Bytes) (c' : Ctx)
    (b : Bytes) (h : s.poll apps now phyTx rx = .ok c') (hb : c'.tx = some b) :
    Allowed s now c'.calls b :=
  pollInner_who { s := s, apps := apps, rx := rx } now phyTx c' b h rfl hb

/-- `tx_marks_busy` (every poll, every state, every input): after a `poll` call that handed the telegram
`b` to the PHY, the station's bus-activity stamp is the predicted end of that transmission,
`now + 11·|b|` bit times — whichever handler transmitted.  Together with `tx_needs_idle` and
`tx_not_while_transmitting`: after an own transmission the station does nothing before its predicted end
and initiates nothing within 33 bit times after it. -/
theorem tx_marks_busy (s : Station) (apps : Apps) (now : Int) (phyTx : Bool) (rx : Bytes) (c' : Ctx) (b : Bytes)
    (h : s.poll apps now phyTx rx = .ok c') (hb : c'.tx = some b) :
    c'.s.lastBusActivity = some (now + (c'.s.p.bits (11 * b.length) : Nat)) :=
  pollInner_marks { s := s, apps := apps, rx := rx } now phyTx c' b h rfl hb

/-- A listening station that has registered no request never sends anything but its claim. -/
theorem listener_only_claims (s : Station) (apps : Apps) (now : Int) (phyTx : Bool) (rx : Bytes) (c' : Ctx)
    (b : Bytes) (coll : Nat) (hst : s.st = .listenToken none coll)
    (h : s.poll apps now phyTx rx = .ok c') (hb : c'.tx = some b) :
    SilenceExpired s now ∧ b = selfToken s.p.address := by
  have := who_may_transmit s apps now phyTx rx c' b h hb
  simp only [Allowed, hst] at this
  rcases this with h1 | ⟨src, h1, _⟩
  · exact h1
  · cases h1

/-! Non-vacuity: a concrete station (address 3, alone in its ring, holding the token in `PassToken`,
last activity at 0) does transmit at `now = 1000` — the hypotheses of the two theorems are met. -/
def pEx : Params :=
  { address := 3, rate := 500000, slotBits := 200, ttrBits := 10000, gapWait := 1, hsa := 10, maxRetry := 1, minTsdrBits := 11 }
def sEx : Station :=
  { (Station.new pEx) with online := true, st := .passToken false .first, lastBusActivity := some 0 }
example : ∃ c', sEx.poll [] 1000 false [] = .ok c' ∧ c'.tx = some [0xDC, 3, 3] := ⟨_, rfl, rfl⟩

end PV.C01
