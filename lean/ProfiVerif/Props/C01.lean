/-
C01 — Bus access respects the PROFIBUS idle times (station-level obligations).
-/
import ProfiVerif.Model.Station
import ProfiVerif.Lemmas.StationWho
import ProfiVerif.Lemmas.StationMark
import ProfiVerif.Lemmas.StationHandshake
import ProfiVerif.Lemmas.TimedRing2Step
import ProfiVerif.Lemmas.TimedRingNSys

namespace PV.C01
open PV

/-- `wait_synchronization_pause` lets the caller proceed exactly when more than 33 bit times have
passed since the last registered bus activity (which it initialises to `now` when unknown). -/
theorem sync_pause_spec (s : Station) (now : Int) :
    (waitSyncPause s now).2 = false ↔
      now > (s.lastBusActivity.getD now) + (s.p.bits 33 : Nat) := by
  unfold waitSyncPause getOrInsertLast
  cases s.lastBusActivity <;> simp <;> omega

/-- `tx_not_while_transmitting`: a poll made while the PHY still transmits, or before the predicted
end of the own last transmission, starts no transmission. -/
theorem tx_not_while_transmitting (c : Ctx) (now : Int) (phyTx : Bool) (hon : c.s.online = true)
    (hst : c.s.st ≠ .offline) (hst2 : c.s.st ≠ .passiveIdle) (htx : c.tx = none)
    (hbusy : phyTx = true ∨ ∃ l, c.s.lastBusActivity = some l ∧ now ≤ l) :
    ∃ c', pollInner c now phyTx = .ok c' ∧ c'.tx = none ∧ c'.calls = c.calls := by
  refine ⟨upd c fun s => markBusActivity s now, ?_, by simpa [upd] using htx, by simp [upd]⟩
  unfold pollInner
  simp only [hon]
  rcases hbusy with h | ⟨l, hl, hle⟩
  · subst h
    cases h : c.s.st <;> simp_all [Res.bind, pollStart, ongoing]
  · cases h : c.s.st <;> simp_all [Res.bind, tr, pollStart, ongoing]

/-- The token is passed (or retransmitted) by `do_pass_token` only after the synchronisation pause. -/
theorem pass_token_needs_idle (c : Ctx) (now : Int) (g : Bool) (a : Attempt) (hst : c.s.st = .passToken g a)
    (hw : (waitSyncPause c.s now).2 = true) :
    doPassToken c now = .ok { c with s := (waitSyncPause c.s now).1 } := by
  unfold doPassToken
  rw [hst]
  simp [hw]

/-- `claim_needs_silence`: a listening or idle station enters `ClaimToken` only when the bus has been
silent for its own time-out `Tto = (6 + 2·TS)·Tsl`. -/
theorem claim_needs_silence (c : Ctx) (now : Int) (l : Int) (hl : c.s.lastBusActivity = some l)
    (h : (now - l).natAbs < c.s.p.tokenLostTimeout) :
    (handleLostToken c now).2 = none := by
  unfold handleLostToken getOrInsertLast
  simp only [hl]
  rw [if_neg (by omega)]

theorem div_stagger (a b r : Nat) (hr : 0 < r) : a / r + 2 * (b / r) ≤ (a + 2 * b) / r := by
  rw [Nat.le_div_iff_mul_le hr]
  have ha := Nat.div_mul_le_self a r
  have hb := Nat.div_mul_le_self b r
  calc (a / r + 2 * (b / r)) * r = a / r * r + 2 * (b / r * r) := by rw [Nat.add_mul, Nat.mul_assoc]
    _ ≤ a + 2 * b := by omega

/-- `claim_staggered`: the time-out grows with the address by at least two slot times, so two
listeners that start counting together never claim together. -/
theorem claim_staggered (p : Params) (hr : 0 < p.rate) :
    p.tokenLostTimeout + 2 * p.slotTime ≤
      ({ p with address := p.address + 1 } : Params).tokenLostTimeout := by
  unfold Params.tokenLostTimeout Params.slotTime Params.bits bitsToTime
  simp only
  have h1 : p.slotBits * (6 + 2 * (p.address + 1)) * 1000000 =
      p.slotBits * (6 + 2 * p.address) * 1000000 + 2 * (p.slotBits * 1000000) := by
    simp only [Nat.mul_add, Nat.add_mul, Nat.mul_comm, Nat.mul_left_comm, Nat.mul_assoc]
    omega
  rw [h1]
  exact div_stagger _ _ _ hr

/-- `tx_needs_idle` (every poll, every state, every input): whenever a `poll` call hands a telegram
to the PHY, (1) the PHY was not transmitting, (2) no bus activity was newly registered in this very
poll (the receive buffer holds no more bytes than already accounted for), and (3) more than the
synchronisation pause of 33 bit times has passed since the last bus activity the station had
registered — which, after an own transmission, is the predicted end of that transmission
(`markTx`).  No hypothesis on the state: it holds from every state, reachable or not. -/
theorem tx_needs_idle (s : Station) (apps : Apps) (now : Int) (phyTx : Bool) (rx : Bytes) (c' : Ctx)
    (h : s.poll apps now phyTx rx = .ok c') (ht : c'.tx ≠ none) :
    phyTx = false ∧ rx.length ≤ s.pendingBytes ∧
      ∀ l, s.lastBusActivity = some l → l + (s.p.bits 33 : Nat) < now :=
  pollInner_tx { s := s, apps := apps, rx := rx } now phyTx c' h rfl ht

/-- `who_may_transmit` (every poll, every state, every input): what a `poll` call hands to the PHY
is determined by the FDL state at the start of the call —
* `Offline`/`ListenToken`/`ActiveIdle` (no token): only the self-addressed claim token, and only when
  the measured silence has reached the station's own time-out, or the FDL status reply to the station
  whose request addressed to this station was registered (`statusReq = some src`), sent to `src`;
* `ClaimToken`: the self-addressed token or a GAP poll (status request from the own address);
* `UseToken`/`AwaitDataResponse` (token holder): only a telegram an application handed over in a
  `transmit_telegram` call of this poll or earlier (recorded in `calls`);
* `PassToken`: the token with the own source address, or (with GAP maintenance due) a GAP poll;
* `CheckTokenPass`/`AwaitStatusResponse`: only a token with the own source address (the retry of the
  own pass, or the pass after an unanswered GAP poll). -/
theorem who_may_transmit (s : Station) (apps : Apps) (now : Int) (phyTx : Bool) (rx : Bytes) (c' : Ctx)
    (b : Bytes) (h : s.poll apps now phyTx rx = .ok c') (hb : c'.tx = some b) :
    Allowed s now c'.calls b :=
  pollInner_who { s := s, apps := apps, rx := rx } now phyTx c' b h rfl hb

/-- `tx_marks_busy` (every poll, every state, every input): after a `poll` call that handed the telegram
`b` to the PHY, the station's bus-activity stamp is the predicted end of that transmission,
`now + 11·|b|` bit times — whichever handler transmitted.  Together with `tx_needs_idle` and
`tx_not_while_transmitting`: after an own transmission the station does nothing before its predicted end
and initiates nothing within 33 bit times after it. -/
theorem tx_marks_busy (s : Station) (apps : Apps) (now : Int) (phyTx : Bool) (rx : Bytes) (c' : Ctx) (b : Bytes)
    (h : s.poll apps now phyTx rx = .ok c') (hb : c'.tx = some b) :
    c'.s.lastBusActivity = some (now + (c'.s.p.bits (11 * b.length) : Nat)) :=
  pollInner_marks { s := s, apps := apps, rx := rx } now phyTx c' b h rfl hb

/-- A listening station that has registered no request never sends anything but its claim. -/
theorem listener_only_claims (s : Station) (apps : Apps) (now : Int) (phyTx : Bool) (rx : Bytes) (c' : Ctx)
    (b : Bytes) (coll : Nat) (hst : s.st = .listenToken none coll)
    (h : s.poll apps now phyTx rx = .ok c') (hb : c'.tx = some b) :
    SilenceExpired s now ∧ b = selfToken s.p.address := by
  have := who_may_transmit s apps now phyTx rx c' b h hb
  simp only [Allowed, hst] at this
  rcases this with h1 | ⟨src, h1, _⟩
  · exact h1
  · cases h1

/-! Non-vacuity: a concrete station (address 3, alone in its ring, holding the token in `PassToken`,
last activity at 0) does transmit at `now = 1000` — the hypotheses of the two theorems are met. -/
def pEx : Params :=
  { address := 3, rate := 500000, slotBits := 200, ttrBits := 10000, gapWait := 1, hsa := 10, maxRetry := 1, minTsdrBits := 11 }
def sEx : Station :=
  { (Station.new pEx) with online := true, st := .passToken false .first, lastBusActivity := some 0 }
example : ∃ c', sEx.poll [] 1000 false [] = .ok c' ∧ c'.tx = some [0xDC, 3, 3] := ⟨_, rfl, rfl⟩

/-! ## Two-party handshake timing (token hand-over, request/reply)

Theorems about ONE station model each (parts 1, 2, 4) and pure arithmetic about poll times (part 3).
The shared bus enters only through named hypotheses on what a station finds in its receive buffer at
its polls.  Which start states accept a token at all: `ActiveIdle` without pending status request
(from the registered predecessor, or from the pending stranger on its repeated offer) and
`CheckTokenPass` before the slot time of the own pass has expired (from the registered predecessor
only) — `C11.accept_only_from_ps_or_repeat`, `C11.pass_supervision`; a station in `ListenToken` never
accepts (`C11.listener_never_accepts`). -/

/-- **Part 1a, accepting poll** (`ActiveIdle`, any `new_previous_station`, any collision count, no
status request pending).  The station is polled at `p1` (PHY idle, later than its stamp) with a buffer
that decodes to exactly the token addressed to it, from the registered predecessor or from the pending
stranger; the token-lost time-out has not run out (automatic when the last byte of the token is new at
this poll).  Then: nothing is transmitted, no application is called, the buffer is consumed, and the
station is in `UseToken` with `token_time = p1`, bus-activity stamp `p1`, pending count 0. -/
theorem token_accepted_idle (s : Station) (apps : Apps) (p1 : Int) (rx rx' : Bytes) (np : Option Nat) (coll : Nat)
    (da sa : UInt8) (ret : Bool) (hon : s.online = true) (hst : s.st = .activeIdle none np coll)
    (hlate : ∀ l, s.lastBusActivity = some l → l < p1) (hto : 0 < s.p.tokenLostTimeout)
    (hfresh : s.pendingBytes < rx.length ∨ ∃ l, s.lastBusActivity = some l ∧ p1 < l + (s.p.tokenLostTimeout : Nat))
    (hrx : receiveAll rx = .done rx' [(.token da sa, true)] ret)
    (hda : da.toNat = s.p.address) (hsa : sa.toNat ≠ s.p.address) (hsrc : sa.toNat = s.ring.ps ∨ np = some sa.toNat) :
    ∃ c1, s.poll apps p1 false rx = .ok c1 ∧ c1.tx = none ∧ c1.calls = [] ∧ c1.rx = [] ∧ c1.apps = apps ∧
      c1.s.st = .useToken ⟨p1, none⟩ false ∧ c1.s.lastBusActivity = some p1 ∧ c1.s.pendingBytes = 0 ∧
      c1.s.p = s.p ∧ c1.s.online = true := by
  have hrx' : rx' = [] := receiveAll_true_empty rx rx' _ ret hrx ⟨(.token da sa, true), List.mem_singleton.mpr rfl, rfl⟩
  subst hrx'
  exact ⟨_, idle_poll_accepts s apps p1 rx [] np coll da sa ret hon hst hlate hto hfresh hrx hda hsa hsrc,
    rfl, rfl, rfl, rfl, rfl, rfl, rfl, rfl, hon⟩

/-- **Part 1a', accepting poll from `CheckTokenPass`** (own pass still supervised, slot time not expired
— automatic when the last byte of the token is new at this poll): only the registered predecessor's
token is accepted; same result. -/
theorem token_accepted_check (s : Station) (apps : Apps) (p1 : Int) (rx rx' : Bytes) (att : Attempt)
    (da sa : UInt8) (ret : Bool) (hon : s.online = true) (hst : s.st = .checkTokenPass att)
    (hlate : ∀ l, s.lastBusActivity = some l → l < p1)
    (hfresh : s.pendingBytes < rx.length ∨ ∃ l, s.lastBusActivity = some l ∧ p1 ≤ l + (s.p.slotTime : Nat))
    (hrx : receiveAll rx = .done rx' [(.token da sa, true)] ret)
    (hda : da.toNat = s.p.address) (hsa : sa.toNat ≠ s.p.address) (hsrc : sa.toNat = s.ring.ps) :
    ∃ c1, s.poll apps p1 false rx = .ok c1 ∧ c1.tx = none ∧ c1.calls = [] ∧ c1.rx = [] ∧ c1.apps = apps ∧
      c1.s.st = .useToken ⟨p1, none⟩ false ∧ c1.s.lastBusActivity = some p1 ∧ c1.s.pendingBytes = 0 ∧
      c1.s.p = s.p ∧ c1.s.online = true := by
  have hrx' : rx' = [] := receiveAll_true_empty rx rx' _ ret hrx ⟨(.token da sa, true), List.mem_singleton.mpr rfl, rfl⟩
  subst hrx'
  exact ⟨_, check_poll_accepts s apps p1 rx [] att da sa ret hon hst hlate hfresh hrx hda hsa hsrc,
    rfl, rfl, rfl, rfl, rfl, rfl, rfl, rfl, hon⟩

/-- **Part 1b, `holder_starts_after_pause`.**  A token holder in `UseToken` (any `token_time`, any
`first_cycle_done`) with bus-activity stamp `l`, under the station invariant, on a silent bus (PHY
idle, empty receive buffer at every poll): for ANY polls `early` at times `≤ l + 33 bit` (any number,
any order) followed by ANY poll at a time `t > l + 33 bit`, none of the early polls transmits, calls an
application or panics, and the poll at `t` — the FIRST poll later than the synchronisation pause —
transmits: an application telegram, a GAP poll or the token with the own source address, and stamps
its predicted end (`QuietThenTx`).  No second poll is ever needed (repair of finding K3: `UseToken`
passes the token in the same poll when the applications decline). -/
theorem holder_starts_after_pause (s : Station) (apps : Apps) (l : Int) (d : UseData) (fcd : Bool)
    (hinv : Inv s apps) (hon : s.online = true) (hst : s.st = .useToken d fcd) (hl : s.lastBusActivity = some l)
    (early : List Int) (t : Int) (hearly : ∀ e ∈ early, e ≤ l + (s.p.bits 33 : Nat)) (ht : l + (s.p.bits 33 : Nat) < t) :
    QuietThenTx s.p.address s apps early t :=
  holder_schedule s.p.address s.p l t d fcd ht early s apps hinv hon hst hl rfl rfl hearly

/-- **Part 1, `handover_receiver_starts`** (`ActiveIdle` start).  The accepting poll at `p1` followed by
any silent-bus schedule: no poll at a time `≤ p1 + 33 bit` transmits, the first poll at a time
`> p1 + 33 bit` does. -/
theorem handover_receiver_starts (s : Station) (apps : Apps) (p1 : Int) (rx rx' : Bytes) (np : Option Nat) (coll : Nat)
    (da sa : UInt8) (ret : Bool) (hinv : Inv s apps) (hon : s.online = true) (hst : s.st = .activeIdle none np coll)
    (hlate : ∀ l, s.lastBusActivity = some l → l < p1) (hto : 0 < s.p.tokenLostTimeout)
    (hfresh : s.pendingBytes < rx.length ∨ ∃ l, s.lastBusActivity = some l ∧ p1 < l + (s.p.tokenLostTimeout : Nat))
    (hrx : receiveAll rx = .done rx' [(.token da sa, true)] ret)
    (hda : da.toNat = s.p.address) (hsa : sa.toNat ≠ s.p.address) (hsrc : sa.toNat = s.ring.ps ∨ np = some sa.toNat) :
    ∃ c1, s.poll apps p1 false rx = .ok c1 ∧ c1.tx = none ∧ c1.calls = [] ∧ c1.rx = [] ∧
      c1.s.st = .useToken ⟨p1, none⟩ false ∧ c1.s.lastBusActivity = some p1 ∧
      ∀ (early : List Int) (t : Int), (∀ e ∈ early, e ≤ p1 + (s.p.bits 33 : Nat)) → p1 + (s.p.bits 33 : Nat) < t →
        QuietThenTx s.p.address c1.s c1.apps early t := by
  obtain ⟨c1, h1, h2, h3, h4, h5, h6, h7, -, h9, h10⟩ :=
    token_accepted_idle s apps p1 rx rx' np coll da sa ret hon hst hlate hto hfresh hrx hda hsa hsrc
  obtain ⟨c', hc', hinv', -⟩ := pollInner_good { s := s, apps := apps, rx := rx } p1 false hinv rfl
  have : c' = c1 := by
    have h1' : pollInner { s := s, apps := apps, rx := rx } p1 false = .ok c1 := h1
    rw [hc'] at h1'; cases h1'; rfl
  subst this
  refine ⟨c', h1, h2, h3, h4, h6, h7, fun early t he ht => ?_⟩
  have := holder_starts_after_pause c'.s c'.apps p1 ⟨p1, none⟩ false hinv' h10 h6 h7 early t
    (by rw [h9]; exact he) (by rw [h9]; exact ht)
  rw [h9] at this
  exact this

/-- **Part 1, `CheckTokenPass` start** (the station still supervises its own pass when the token comes
back, e.g. in a two-station ring). -/
theorem handover_receiver_starts_check (s : Station) (apps : Apps) (p1 : Int) (rx rx' : Bytes) (att : Attempt)
    (da sa : UInt8) (ret : Bool) (hinv : Inv s apps) (hon : s.online = true) (hst : s.st = .checkTokenPass att)
    (hlate : ∀ l, s.lastBusActivity = some l → l < p1)
    (hfresh : s.pendingBytes < rx.length ∨ ∃ l, s.lastBusActivity = some l ∧ p1 ≤ l + (s.p.slotTime : Nat))
    (hrx : receiveAll rx = .done rx' [(.token da sa, true)] ret)
    (hda : da.toNat = s.p.address) (hsa : sa.toNat ≠ s.p.address) (hsrc : sa.toNat = s.ring.ps) :
    ∃ c1, s.poll apps p1 false rx = .ok c1 ∧ c1.tx = none ∧ c1.calls = [] ∧ c1.rx = [] ∧
      c1.s.st = .useToken ⟨p1, none⟩ false ∧ c1.s.lastBusActivity = some p1 ∧
      ∀ (early : List Int) (t : Int), (∀ e ∈ early, e ≤ p1 + (s.p.bits 33 : Nat)) → p1 + (s.p.bits 33 : Nat) < t →
        QuietThenTx s.p.address c1.s c1.apps early t := by
  obtain ⟨c1, h1, h2, h3, h4, h5, h6, h7, -, h9, h10⟩ :=
    token_accepted_check s apps p1 rx rx' att da sa ret hon hst hlate hfresh hrx hda hsa hsrc
  obtain ⟨c', hc', hinv', -⟩ := pollInner_good { s := s, apps := apps, rx := rx } p1 false hinv rfl
  have : c' = c1 := by
    have h1' : pollInner { s := s, apps := apps, rx := rx } p1 false = .ok c1 := h1
    rw [hc'] at h1'; cases h1'; rfl
  subst this
  refine ⟨c', h1, h2, h3, h4, h6, h7, fun early t he ht => ?_⟩
  have := holder_starts_after_pause c'.s c'.apps p1 ⟨p1, none⟩ false hinv' h10 h6 h7 early t
    (by rw [h9]; exact he) (by rw [h9]; exact ht)
  rw [h9] at this
  exact this

/-- **Part 1, timed form.**  If the token holder (stamp `l`, e.g. `l = p1` after the accepting poll) is
polled at times `t 0, t 1, …` with `t 0 ≤ l + P`, gaps at most `P`, silent bus, and the schedule goes on
beyond `l + 33 bit`, then its first transmission starts at a poll time in
`(l + 33 bit, l + 33 bit + P]`, and no earlier poll transmits. -/
theorem holder_starts_timed (s : Station) (apps : Apps) (l : Int) (d : UseData) (fcd : Bool)
    (hinv : Inv s apps) (hon : s.online = true) (hst : s.st = .useToken d fcd) (hl : s.lastBusActivity = some l)
    (t : Nat → Int) (P : Nat) (h0 : t 0 ≤ l + P) (hgap : ∀ i, t (i + 1) ≤ t i + P)
    (hgo : ∃ k, l + (s.p.bits 33 : Nat) < t k) :
    ∃ n, l + (s.p.bits 33 : Nat) < t n ∧ t n ≤ l + (s.p.bits 33 : Nat) + P ∧
      QuietThenTx s.p.address s apps ((List.range n).map t) (t n) := by
  obtain ⟨k, hk⟩ := hgo
  obtain ⟨n, h1, h2, h3⟩ := first_exceed_timed t l (s.p.bits 33) P h0 hgap k hk
  refine ⟨n, h1, h2, holder_starts_after_pause s apps l d fcd hinv hon hst hl _ _ ?_ h1⟩
  intro e he
  simp only [List.mem_map, List.mem_range] at he
  obtain ⟨i, hi, rfl⟩ := he
  exact h3 i hi

/-! Non-vacuity of part 1: station 3 (`pEx`), idle, pending stranger 5, stamp 0, polled at 1000 µs with
the token 5→3.  All hypotheses of `handover_receiver_starts` hold; 33 bit times are 66 µs. -/
def sB : Station :=
  { (Station.new pEx) with online := true, st := .activeIdle none (some 5) 0, lastBusActivity := some 0 }

theorem sB_inv : Inv sB [] := by
  have h := inv_new pEx [] (by decide) (by decide) (by intro s hs; cases hs)
  exact ⟨h.addr, h.hsa, h.ring, fun ho => by simp [sB] at ho, h.gap, fun a ha => by simp [sB] at ha,
    fun a ha => by simp [sB] at ha, h.app, fun a d ha => by simp [sB] at ha, h.scripts, by simp [sB]⟩

example : ∃ c1, sB.poll [] 1000 false (sendToken 3 5) = .ok c1 ∧ c1.tx = none ∧ c1.calls = [] ∧ c1.rx = [] ∧
    c1.s.st = .useToken ⟨1000, none⟩ false ∧ c1.s.lastBusActivity = some 1000 ∧
    ∀ (early : List Int) (t : Int), (∀ e ∈ early, e ≤ 1066) → 1066 < t → QuietThenTx 3 c1.s c1.apps early t :=
  handover_receiver_starts sB [] 1000 (sendToken 3 5) [] (some 5) 0 3 5 true sB_inv rfl rfl
    (by intro l hl; cases hl; decide) (by decide) (.inl (by decide)) (receiveAll_token 3 5) rfl (by decide) (.inr rfl)

/-! ### Part 2 — the sender of the token -/

/-- The stamp after handing a token telegram (3 characters) to the PHY at `now` is its predicted end
`now + 33 bit` (`tx_marks_busy`). -/
theorem token_pass_stamp (s : Station) (apps : Apps) (now : Int) (phyTx : Bool) (rx : Bytes) (c' : Ctx) (da sa : UInt8)
    (h : s.poll apps now phyTx rx = .ok c') (hb : c'.tx = some (sendToken da sa)) :
    c'.s.lastBusActivity = some (now + (c'.s.p.bits 33 : Nat)) := by
  have := tx_marks_busy s apps now phyTx rx c' _ h hb
  rw [this]
  have h3 : (sendToken da sa).length = 3 := rfl
  rw [h3]

/-- **Part 2, `handover_sender_waits`.**  Station A supervises its token pass: `CheckTokenPass att`, stamp
`te` (the predicted end of its token telegram, `token_pass_stamp`).  For ONE poll at ANY time `now`, with
ANY PHY flag and ANY receive buffer, that returns regularly:
(a) at `now ≤ te` (own transmission still on the wire) the poll is a complete no-op — nothing is
    transmitted, nothing consumed, the station is unchanged;
(b) at `now ≤ te + Tslot` nothing is transmitted (the slot has not expired: no retry);
(c) at a poll that finds more bytes in the receive buffer than already accounted for
    (`|rx| > pending_bytes`) nothing is transmitted either — WHATEVER the time — and (PHY idle, `now > te`)
    the stamp moves to `now`;
and in cases (b), (c) with the PHY idle and `now > te`: no application is called, and either no complete
telegram has arrived — then the station is unchanged except for the registered activity
(`check_for_bus_activity`), in particular it is still in `CheckTokenPass att` with the same ring view —
or a telegram was heard: supervision ends, the stamp is `now`. -/
theorem handover_sender_waits (s : Station) (apps : Apps) (now : Int) (phy : Bool) (rx : Bytes) (c' : Ctx)
    (att : Attempt) (te : Int) (hon : s.online = true) (hst : s.st = .checkTokenPass att)
    (hl : s.lastBusActivity = some te) (h : s.poll apps now phy rx = .ok c') :
    (now ≤ te → c' = { s := s, apps := apps, rx := rx }) ∧
    ((now ≤ te + (s.p.slotTime : Nat) ∨ s.pendingBytes < rx.length) → c'.tx = none) ∧
    (te < now → phy = false → (now ≤ te + (s.p.slotTime : Nat) ∨ s.pendingBytes < rx.length) →
      c'.calls = [] ∧ (s.pendingBytes < rx.length → c'.s.lastBusActivity = some now) ∧
      ((c'.s = checkBusActivity s now rx.length ∧ ∃ rx' ret, receiveAll rx = .done rx' [] ret ∧ c'.rx = rx') ∨
       (c'.s.lastBusActivity = some now ∧ (∀ a, c'.s.st ≠ .checkTokenPass a) ∧
          ∃ rx' x rest ret, receiveAll rx = .done rx' (x :: rest) ret))) := by
  have ha : now ≤ te → c' = { s := s, apps := apps, rx := rx } := by
    intro hle
    rw [poll_ongoing s apps now phy rx hon (by rw [hst]; simp) (by rw [hst]; simp) te hl hle] at h
    cases h; rfl
  have hc : te < now → phy = false → (now ≤ te + (s.p.slotTime : Nat) ∨ s.pendingBytes < rx.length) →
      c'.tx = none ∧ c'.calls = [] ∧ (s.pendingBytes < rx.length → c'.s.lastBusActivity = some now) ∧
      ((c'.s = checkBusActivity s now rx.length ∧ ∃ rx' ret, receiveAll rx = .done rx' [] ret ∧ c'.rx = rx') ∨
       (c'.s.lastBusActivity = some now ∧ (∀ a, c'.s.st ≠ .checkTokenPass a) ∧
          ∃ rx' x rest ret, receiveAll rx = .done rx' (x :: rest) ret)) := by
    intro hlt hphy hne
    subst hphy
    obtain ⟨h1, h2, -, -, -, h6⟩ := check_poll_waits s apps now rx c' att te hon hst hl hlt hne.symm h
    refine ⟨h1, h2, fun hn => ?_, h6⟩
    rcases h6 with ⟨hs, -⟩ | ⟨hs, -⟩
    · rw [hs, checkBA_last s now rx.length (by intro l' hl'; rw [hl] at hl'; cases hl'; exact hlt), if_pos hn]
    · exact hs
  refine ⟨ha, fun hne => ?_, fun hlt hphy hne => (hc hlt hphy hne).2⟩
  by_cases hle : now ≤ te
  · rw [ha hle]
  · cases phy with
    | true =>
      cases htx : c'.tx with
      | none => rfl
      | some b => exact absurd (tx_needs_idle s apps now true rx c' h (by rw [htx]; simp)).1 (by simp)
    | false => exact (hc (by omega) rfl hne).1

/-- **Part 2, run form (`sender_never_interrupts`).**  Under the station invariant, for ANY sequence of
polls `(time, receive buffer)` (PHY idle) that is `Dense` w.r.t. the slot time — every poll is not later
than the stamp, or finds a new byte pending (stamp := poll time), or is not later than stamp + slot
time — every poll returns regularly, transmits nothing and calls no application, as long as the station
is in `CheckTokenPass att`; it leaves that state only by hearing a complete telegram.  `Dense` is a
condition on the INPUTS only (poll times and buffer lengths, starting from `te` and the pending count);
part 3 derives it from the arrival times of the successor's characters. -/
theorem sender_never_interrupts (s : Station) (apps : Apps) (att : Attempt) (te : Int) (hinv : Inv s apps)
    (hon : s.online = true) (hst : s.st = .checkTokenPass att) (hl : s.lastBusActivity = some te)
    (polls : List (Int × Bytes)) (hd : Dense s.p.slotTime te s.pendingBytes polls) :
    SupervisesQuietly att s apps polls :=
  sender_run att s.p polls s apps te hinv hon hst hl rfl hd

/-! Non-vacuity of part 2: station 5 supervising (stamp 0, `Tslot` = 400 µs); the successor's token
trickles in: nothing at 100 µs, one byte at 300 µs, two at 650 µs (more than a slot time after the
stamp 0, but a new byte is pending), still two at 900 µs (≤ 650 + 400). -/
def pA : Params := { pEx with address := 5 }
def sA : Station :=
  { (Station.new pA) with online := true, st := .checkTokenPass .first, lastBusActivity := some 0 }

theorem sA_inv : Inv sA [] := by
  have h := inv_new pA [] (by decide) (by decide) (by intro s hs; cases hs)
  exact ⟨h.addr, h.hsa, h.ring, fun ho => by simp [sA] at ho, h.gap, fun a ha => by simp [sA] at ha,
    fun a ha => by simp [sA] at ha, h.app, fun a d ha => by simp [sA] at ha, h.scripts, by simp [sA]⟩

example : SupervisesQuietly .first sA [] [(100, []), (300, [0xDC]), (650, [0xDC, 5]), (900, [0xDC, 5])] :=
  sender_never_interrupts sA [] .first 0 sA_inv rfl rfl rfl _ (by
    show Dense 400 0 0 _
    simp [Dense])

/-! ### Part 3 — arithmetic composition of the two sides

Pure arithmetic about poll times and character arrival times; the station models enter only through
the conclusions of parts 1 and 2.  Named bus hypotheses:
* `tb` — the instant the last character of A's token telegram is on the bus; `tb ≤ te + E` where `te` is
  A's stamp (its *predicted* end, `floor`) and `E` the rounding slack (`E = 1` µs on the bus of DESIGN 5.1,
  where a character ends at `ceil`);
* B's accepting poll `p1` is its first poll that sees the complete token: `tb ≤ p1 ≤ tb + P_B`;
* `C` — the time after the start `q` of B's transmission at which its first character is in A's
  receive buffer (`C = ceil(11 bit) ≤ bits 11 + 1`);
* `Arrivals n arr vis` — characters of B's telegram become visible to A one by one at the times `arr k`,
  consecutive ones at most a slot time apart. -/

/-- **The margin condition**: rounding slack + two poll periods of the receiver + the synchronisation
pause + one character time fit into the sender's slot time. -/
def Margin (slot b33 E PB C : Nat) : Prop := E + 2 * PB + b33 + C ≤ slot

/-- **`handover_first_char`** (arithmetic).  With B's first transmitting poll `q ∈ (p1 + 33 bit,
p1 + 33 bit + P_B]` (part 1, timed form) and `Margin`: B starts later than 33 bit times after the real
end `tb` of A's telegram, and B's first character is complete at `q + C ≤ te + Tslot` — before every
poll of A that could find the slot time expired (`a > te + Tslot`). -/
theorem handover_first_char (slot b33 E PB C : Nat) (te tb p1 q : Int) (hm : Margin slot b33 E PB C)
    (hE : tb ≤ te + E) (hp1 : tb ≤ p1) (hp1' : p1 ≤ tb + PB) (hq : p1 + b33 < q) (hq' : q ≤ p1 + b33 + PB) :
    tb + b33 < q ∧ q + C ≤ te + slot ∧ ∀ a : Int, te + slot < a → q + C < a := by
  unfold Margin at hm
  refine ⟨by omega, by omega, fun a ha => by omega⟩

/-- The margin is also necessary for this argument: if it fails by one microsecond there are poll times
satisfying all hypotheses with B's first character complete only AFTER `te + Tslot` (A polling in between
retransmits). -/
theorem margin_tight (slot b33 E PB C : Nat) (te : Int) (hPB : 0 < PB) (hm : ¬ Margin slot b33 E PB C) :
    ∃ tb p1 q : Int, tb ≤ te + E ∧ tb ≤ p1 ∧ p1 ≤ tb + PB ∧ p1 + b33 < q ∧ q ≤ p1 + b33 + PB ∧
      te + slot < q + C := by
  unfold Margin at hm
  exact ⟨te + E, te + E + PB, te + E + PB + b33 + PB, by omega, by omega, by omega, by omega, by omega, by omega⟩

/-- **`margin_of_quarter_slot`**: for receiver poll periods `P_B ≤ Tslot/4` (DESIGN 5.2) the margin with
`E = 1`, `C = bits 11 + 1` (bus of DESIGN 5.1: characters end at `ceil`) holds whenever
`88·10⁶ + 4·rate ≤ slotBits·10⁶`, i.e. `slotBits ≥ 88 + 4·rate/10⁶` (92 bit up to 1 Mbit/s, 94 at
1.5 Mbit/s, 136 at 12 Mbit/s; the standard slot times 100 … 1000 satisfy it).  The floors of
`bits_to_time` are accounted for: `bits 33 + bits 11 ≤ floor(44·10⁶/rate)`, `2·floor(44·10⁶/rate) ≤
floor(88·10⁶/rate)`, `floor((88·10⁶ + 4·rate)/rate) = floor(88·10⁶/rate) + 4`. -/
theorem margin_of_quarter_slot (p : Params) (PB : Nat) (hr : 0 < p.rate) (hP : PB ≤ p.slotTime / 4)
    (hs : 88 * 1000000 + 4 * p.rate ≤ p.slotBits * 1000000) :
    Margin p.slotTime (p.bits 33) 1 PB (p.bits 11 + 1) := by
  unfold Margin Params.slotTime Params.bits bitsToTime at *
  have h1 : 33 * 1000000 / p.rate + 11 * 1000000 / p.rate ≤ 44 * 1000000 / p.rate := by
    rw [Nat.le_div_iff_mul_le hr, Nat.add_mul]
    have a := Nat.div_mul_le_self (33 * 1000000) p.rate
    have b := Nat.div_mul_le_self (11 * 1000000) p.rate
    omega
  have h2 : 2 * (44 * 1000000 / p.rate) ≤ 88 * 1000000 / p.rate := by
    rw [Nat.le_div_iff_mul_le hr]
    have a := Nat.div_mul_le_self (44 * 1000000) p.rate
    rw [Nat.mul_assoc]
    omega
  have h3 : 88 * 1000000 / p.rate + 4 ≤ p.slotBits * 1000000 / p.rate := by
    have := Nat.div_le_div_right (c := p.rate) hs
    rw [Nat.add_mul_div_right _ _ hr] at this
    exact this
  omega

/-- The idealised variant without rounding slack (`E = 0`, `C = bits 11`): `slotBits ≥ 88` suffices. -/
theorem margin_of_quarter_slot_ideal (p : Params) (PB : Nat) (hr : 0 < p.rate) (hP : PB ≤ p.slotTime / 4)
    (hs : 88 ≤ p.slotBits) : Margin p.slotTime (p.bits 33) 0 PB (p.bits 11) := by
  unfold Margin Params.slotTime Params.bits bitsToTime at *
  have h1 : 33 * 1000000 / p.rate + 11 * 1000000 / p.rate ≤ 44 * 1000000 / p.rate := by
    rw [Nat.le_div_iff_mul_le hr, Nat.add_mul]
    have a := Nat.div_mul_le_self (33 * 1000000) p.rate
    have b := Nat.div_mul_le_self (11 * 1000000) p.rate
    omega
  have h2 : 2 * (44 * 1000000 / p.rate) ≤ 88 * 1000000 / p.rate := by
    rw [Nat.le_div_iff_mul_le hr]
    have a := Nat.div_mul_le_self (44 * 1000000) p.rate
    rw [Nat.mul_assoc]
    omega
  have h3 : 88 * 1000000 / p.rate ≤ p.slotBits * 1000000 / p.rate :=
    Nat.div_le_div_right (Nat.mul_le_mul_right _ hs)
  omega

/-- **Part 3, `handover_no_collision`** (two stations, one hand-over).
Station A supervises its pass (`CheckTokenPass att`, stamp `te`, nothing pending).  Station B is idle and
its poll at `p1` is the first that sees A's complete token (`tb ≤ p1 ≤ tb + P_B`, `tb ≤ te + E` the real end
of the token on the bus); afterwards B is polled at `tB 0, tB 1, …` with gaps `≤ P_B` on a silent bus.
Under `Margin Tslot (33 bit) E P_B C`:
1. B accepts at `p1`, transmits at none of its polls up to `p1 + 33 bit`, and transmits (application
   telegram, GAP poll or token) at its first later poll `q = tB n`, where `tb + 33 bit < q` — B does not
   start before the synchronisation pause after the REAL end of A's telegram — and `q + C ≤ te + Tslot`;
2. whatever B's telegram (`nb > 0` characters), if its characters reach A according to an arrival model
   with the first character complete by `q + C` and consecutive characters at most a slot time apart,
   then for EVERY time-ordered sequence of polls of A that see the corresponding prefixes (only the last
   may see the whole telegram): every poll returns regularly, A transmits nothing — it never retransmits
   into B's transmission — until it has heard B's complete telegram. -/
theorem handover_no_collision
    (sA : Station) (appsA : Apps) (att : Attempt) (te : Int) (hinvA : Inv sA appsA) (honA : sA.online = true)
    (hstA : sA.st = .checkTokenPass att) (hlA : sA.lastBusActivity = some te) (hpbA : sA.pendingBytes = 0)
    (sB : Station) (appsB : Apps) (p1 : Int) (rx rx' : Bytes) (np : Option Nat) (coll : Nat)
    (da sa : UInt8) (ret : Bool) (hinv : Inv sB appsB) (hon : sB.online = true) (hst : sB.st = .activeIdle none np coll)
    (hlate : ∀ l, sB.lastBusActivity = some l → l < p1) (hto : 0 < sB.p.tokenLostTimeout)
    (hfresh : sB.pendingBytes < rx.length ∨ ∃ l, sB.lastBusActivity = some l ∧ p1 < l + (sB.p.tokenLostTimeout : Nat))
    (hrx : receiveAll rx = .done rx' [(.token da sa, true)] ret)
    (hda : da.toNat = sB.p.address) (hsa : sa.toNat ≠ sB.p.address) (hsrc : sa.toNat = sB.ring.ps ∨ np = some sa.toNat)
    (tB : Nat → Int) (PB : Nat) (h0 : tB 0 ≤ p1 + PB) (hgap : ∀ i, tB (i + 1) ≤ tB i + PB)
    (hgo : ∃ k, p1 + (sB.p.bits 33 : Nat) < tB k)
    (tb : Int) (E C : Nat) (hE : tb ≤ te + E) (hp1 : tb ≤ p1) (hp1' : p1 ≤ tb + PB)
    (hm : Margin sA.p.slotTime (sB.p.bits 33) E PB C) :
    ∃ c1 n, sB.poll appsB p1 false rx = .ok c1 ∧ c1.tx = none ∧
      QuietThenTx sB.p.address c1.s c1.apps ((List.range n).map tB) (tB n) ∧
      tb + (sB.p.bits 33 : Nat) < tB n ∧ tB n + C ≤ te + (sA.p.slotTime : Nat) ∧
      ∀ (nb : Nat) (arr : Nat → Int) (vis : Int → Nat), 0 < nb → Arrivals nb arr vis → arr 0 ≤ tB n + C →
        (∀ k, k + 1 < nb → arr (k + 1) ≤ arr k + (sA.p.slotTime : Nat)) →
        ∀ polls : List (Int × Bytes), polls.Pairwise (fun x y => x.1 ≤ y.1) →
          (∀ x ∈ polls, x.2.length = vis x.1) → (∀ x ∈ polls, ∀ y ∈ polls, x.1 < y.1 → vis x.1 < nb) →
          SupervisesQuietly att sA appsA polls := by
  obtain ⟨c1, h1, h2, -, -, -, h6, h7, -, h9, h10⟩ :=
    token_accepted_idle sB appsB p1 rx rx' np coll da sa ret hon hst hlate hto hfresh hrx hda hsa hsrc
  obtain ⟨c', hc', hinv', -⟩ := pollInner_good { s := sB, apps := appsB, rx := rx } p1 false hinv rfl
  have : c' = c1 := by
    have h1' : pollInner { s := sB, apps := appsB, rx := rx } p1 false = .ok c1 := h1
    rw [hc'] at h1'; cases h1'; rfl
  subst this
  obtain ⟨n, hn1, hn2, hq⟩ := holder_starts_timed c'.s c'.apps p1 ⟨p1, none⟩ false hinv' h10 h6 h7 tB PB h0 hgap
    (by rw [h9]; exact hgo)
  rw [h9] at hn1 hn2 hq
  obtain ⟨f1, f2, -⟩ := handover_first_char sA.p.slotTime (sB.p.bits 33) E PB C te tb p1 (tB n) hm hE hp1 hp1' hn1 hn2
  refine ⟨c', n, h1, h2, hq, f1, f2, ?_⟩
  intro nb arr vis hnb hA harr0 hgapc polls hpw hlen hinc
  refine sender_never_interrupts sA appsA att te hinvA honA hstA hlA polls ?_
  rw [hpbA]
  exact dense_of_arrivals sA.p.slotTime nb arr vis hA hgapc polls te 0 hpw hlen hinc (fun _ _ _ => Nat.zero_le _)
    (fun _ => by omega) (fun h0 => by omega)

/-! Non-vacuity of part 3: A = station 5 (`sA`: stamp `te = 0`, `Tslot` = 400 µs), B = station 3 (`sB`) whose
first poll seeing the token 5→3 is at 50 µs and which is then polled every 40 µs (`P_B` = 100 µs = `Tslot/4`);
`tb = 1`, `E = 1`, `C = bits 11 + 1 = 23` µs; the margin is `margin_of_quarter_slot`. -/
example : Margin pA.slotTime (pEx.bits 33) 1 100 (pEx.bits 11 + 1) :=
  margin_of_quarter_slot pA 100 (by decide) (by decide) (by decide)

example := handover_no_collision sA [] .first 0 sA_inv rfl rfl rfl rfl
  sB [] 50 (sendToken 3 5) [] (some 5) 0 3 5 true sB_inv rfl rfl
  (by intro l hl; cases hl; decide) (by decide) (.inl (by decide)) (receiveAll_token 3 5) rfl (by decide) (.inr rfl)
  (fun i => 50 + 40 * ((i : Int) + 1)) 100 (by decide) (by intro i; omega) ⟨1, by decide⟩
  1 1 (pEx.bits 11 + 1) (by decide) (by decide) (by decide)
  (margin_of_quarter_slot pA 100 (by decide) (by decide) (by decide))

/-- An arrival model: three characters visible from 1110, 1120, 1130 µs. -/
example : Arrivals 3 (fun k => 1100 + 10 * ((k : Int) + 1))
    (fun a => if a < 1110 then 0 else if a < 1120 then 1 else if a < 1130 then 2 else 3) :=
  ⟨fun a k hk => by
      have : k = 0 ∨ k = 1 ∨ k = 2 := by omega
      rcases this with rfl | rfl | rfl <;> split <;> (try split) <;> (try split) <;> omega,
   fun a => by split <;> (try split) <;> (try split) <;> omega⟩

/-! ### Part 4 — request / reply (FDL status request answered from `ListenToken` / `ActiveIdle`) -/

/-- **Part 4a, registering poll (`ActiveIdle`).**  An idle station without pending request, polled at `r1`
(PHY idle, later than its stamp, token-lost time-out not run out) with a buffer that decodes to exactly
one telegram, an FDL status request addressed to it: nothing is transmitted, no application is called,
the request is registered (`statusReq = some SA`), stamp := `r1`, pending count 0. -/
theorem request_registered_idle (s : Station) (apps : Apps) (r1 : Int) (rx rx' : Bytes) (np : Option Nat) (coll : Nat)
    (h : Header) (pdu : Bytes) (fcb : FrameCountBit) (ret : Bool) (hon : s.online = true)
    (hst : s.st = .activeIdle none np coll)
    (hlate : ∀ l, s.lastBusActivity = some l → l < r1) (hto : 0 < s.p.tokenLostTimeout)
    (hfresh : s.pendingBytes < rx.length ∨ ∃ l, s.lastBusActivity = some l ∧ r1 < l + (s.p.tokenLostTimeout : Nat))
    (hrx : receiveAll rx = .done rx' [(.data h pdu, true)] ret)
    (hfc : h.fc = .request fcb .fdlStatus) (hda : h.da.toNat = s.p.address) :
    ∃ c1, s.poll apps r1 false rx = .ok c1 ∧ c1.tx = none ∧ c1.calls = [] ∧ c1.rx = [] ∧ c1.apps = apps ∧
      Registered c1.s h.sa.toNat ∧ c1.s.st = .activeIdle (some h.sa.toNat) np coll ∧
      c1.s.lastBusActivity = some r1 ∧ c1.s.p = s.p ∧ c1.s.online = true := by
  have hrx' : rx' = [] := receiveAll_true_empty rx rx' _ ret hrx ⟨(.data h pdu, true), List.mem_singleton.mpr rfl, rfl⟩
  subst hrx'
  exact ⟨_, idle_poll_registers s apps r1 rx [] np coll h pdu fcb ret hon hst hlate hto hfresh hrx hfc hda,
    rfl, rfl, rfl, rfl, .inr ⟨np, coll, rfl⟩, rfl, rfl, rfl, hon⟩

/-- **Part 4a, registering poll (`ListenToken`)**: the same for a listening station (the request must come
from another address). -/
theorem request_registered_listen (s : Station) (apps : Apps) (r1 : Int) (rx rx' : Bytes) (coll : Nat)
    (h : Header) (pdu : Bytes) (fcb : FrameCountBit) (ret : Bool) (hon : s.online = true)
    (hst : s.st = .listenToken none coll)
    (hlate : ∀ l, s.lastBusActivity = some l → l < r1) (hto : 0 < s.p.tokenLostTimeout)
    (hfresh : s.pendingBytes < rx.length ∨ ∃ l, s.lastBusActivity = some l ∧ r1 < l + (s.p.tokenLostTimeout : Nat))
    (hrx : receiveAll rx = .done rx' [(.data h pdu, true)] ret)
    (hfc : h.fc = .request fcb .fdlStatus) (hda : h.da.toNat = s.p.address) (hsa : h.sa.toNat ≠ s.p.address) :
    ∃ c1, s.poll apps r1 false rx = .ok c1 ∧ c1.tx = none ∧ c1.calls = [] ∧ c1.rx = [] ∧ c1.apps = apps ∧
      Registered c1.s h.sa.toNat ∧ c1.s.st = .listenToken (some h.sa.toNat) coll ∧
      c1.s.lastBusActivity = some r1 ∧ c1.s.p = s.p ∧ c1.s.online = true := by
  have hrx' : rx' = [] := receiveAll_true_empty rx rx' _ ret hrx ⟨(.data h pdu, true), List.mem_singleton.mpr rfl, rfl⟩
  subst hrx'
  exact ⟨_, listen_poll_registers s apps r1 rx [] coll h pdu fcb ret hon hst hlate hto hfresh hrx hfc hda hsa,
    rfl, rfl, rfl, rfl, .inl ⟨coll, rfl⟩, rfl, rfl, rfl, hon⟩

/-- **Part 4, `reply_handshake_responder`.**  A station with a registered status request from `src`
(`ListenToken (some src)` or `ActiveIdle (some src)`, `Registered`), stamp `r1` (the registering poll),
under the invariant, on a silent bus, with the token-lost time-out longer than the synchronisation
pause: ANY polls at times `≤ r1 + 33 bit` are complete no-ops (nothing transmitted, station unchanged),
and the FIRST poll at a time `t > r1 + 33 bit` hands the FDL status reply addressed to `src` to the PHY,
clears the request (`afterReply`: an idle station stays idle, a listener with a valid LAS joins as
`ActiveIdle`) and stamps the predicted end — provided `t < r1 + Tto` (otherwise `handle_lost_token`
comes first and the station claims the token instead, `C06.claim_progress`). -/
theorem reply_handshake_responder (s : Station) (apps : Apps) (r1 : Int) (src : Nat) (hinv : Inv s apps)
    (hon : s.online = true) (hreg : Registered s src) (hl : s.lastBusActivity = some r1)
    (hto : s.p.bits 33 < s.p.tokenLostTimeout)
    (early : List Int) (t : Int) (hearly : ∀ e ∈ early, e ≤ r1 + (s.p.bits 33 : Nat))
    (ht : r1 + (s.p.bits 33 : Nat) < t) (hq : t < r1 + (s.p.tokenLostTimeout : Nat)) :
    QuietThenReply s.p.address src s apps early t :=
  responder_schedule s apps r1 t src hinv hon hreg hl hto ht hq early hearly

/-- **Part 4, responder, timed form**: polled at `t 0, t 1, …` with `t 0 ≤ r1 + P`, gaps at most `P`,
`33 bit + P < Tto`, the reply starts at a poll time in `(r1 + 33 bit, r1 + 33 bit + P]`. -/
theorem responder_replies_timed (s : Station) (apps : Apps) (r1 : Int) (src : Nat) (hinv : Inv s apps)
    (hon : s.online = true) (hreg : Registered s src) (hl : s.lastBusActivity = some r1)
    (t : Nat → Int) (P : Nat) (hto : s.p.bits 33 + P < s.p.tokenLostTimeout)
    (h0 : t 0 ≤ r1 + P) (hgap : ∀ i, t (i + 1) ≤ t i + P) (hgo : ∃ k, r1 + (s.p.bits 33 : Nat) < t k) :
    ∃ n, r1 + (s.p.bits 33 : Nat) < t n ∧ t n ≤ r1 + (s.p.bits 33 : Nat) + P ∧
      QuietThenReply s.p.address src s apps ((List.range n).map t) (t n) := by
  obtain ⟨k, hk⟩ := hgo
  obtain ⟨n, h1, h2, h3⟩ := first_exceed_timed t r1 (s.p.bits 33) P h0 hgap k hk
  refine ⟨n, h1, h2, reply_handshake_responder s apps r1 src hinv hon hreg hl (by omega) _ _ ?_ h1 (by omega)⟩
  intro e he
  simp only [List.mem_map, List.mem_range] at he
  obtain ⟨i, hi, rfl⟩ := he
  exact h3 i hi

/-- **Part 4, `reply_handshake_requester`.**  A station waiting for a reply — `AwaitStatusResponse`
(GAP poll), `ClaimToken(ScanAwait)` (GAP poll while claiming) or `AwaitDataResponse` (application
request), `Awaiting` — with stamp `te` (predicted end of its request, `tx_marks_busy`).  For ONE poll
at any time, any PHY flag, any receive buffer, that returns regularly:
(a) at `now ≤ te` the poll is a complete no-op;
(b) at `now ≤ te + Tslot`, and (c) at ANY time if more bytes are in the receive buffer than accounted
    for: nothing is transmitted — the station does not give up: no retry, no token pass, and (PHY idle,
    `now > te`) no `timeout` is reported to the application (`NoTimeout`); while no complete telegram has
    arrived the station is unchanged except for the registered activity (still waiting, stamp := `now`
    if a byte is new). -/
theorem reply_handshake_requester (s : Station) (apps : Apps) (now : Int) (phy : Bool) (rx : Bytes) (c' : Ctx)
    (te : Int) (hon : s.online = true) (haw : Awaiting s) (hl : s.lastBusActivity = some te)
    (h : s.poll apps now phy rx = .ok c') :
    (now ≤ te → c' = { s := s, apps := apps, rx := rx }) ∧
    ((now ≤ te + (s.p.slotTime : Nat) ∨ s.pendingBytes < rx.length) → c'.tx = none) ∧
    (te < now → phy = false → (now ≤ te + (s.p.slotTime : Nat) ∨ s.pendingBytes < rx.length) →
      NoTimeout [] c'.calls ∧
      ∀ rx' ret, receiveTelegram rx = .done rx' [] ret →
        c' = { s := checkBusActivity s now rx.length, apps := apps, rx := rx' }) := by
  have ha : now ≤ te → c' = { s := s, apps := apps, rx := rx } := by
    intro hle
    rw [poll_ongoing s apps now phy rx hon haw.awake.1 haw.awake.2 te hl hle] at h
    cases h; rfl
  have hc : te < now → phy = false → (now ≤ te + (s.p.slotTime : Nat) ∨ s.pendingBytes < rx.length) →
      c'.tx = none ∧ NoTimeout [] c'.calls ∧
      ∀ rx' ret, receiveTelegram rx = .done rx' [] ret →
        c' = { s := checkBusActivity s now rx.length, apps := apps, rx := rx' } := by
    intro hlt hphy hne
    subst hphy
    exact requester_poll_waits s apps now rx c' te hon haw hl hlt hne.symm h
  refine ⟨ha, fun hne => ?_, fun hlt hphy hne => (hc hlt hphy hne).2⟩
  by_cases hle : now ≤ te
  · rw [ha hle]
  · cases phy with
    | true =>
      cases htx : c'.tx with
      | none => rfl
      | some b => exact absurd (tx_needs_idle s apps now true rx c' h (by rw [htx]; simp)).1 (by simp)
    | false => exact (hc (by omega) rfl hne).1

/-- **Part 4, requester, run form (`requester_never_gives_up`)**: under the invariant, for any `Dense`
sequence of polls, every poll returns regularly, transmits nothing and reports no time-out, for as long
as the polls find no complete telegram in the buffer (then the reply is handled, `C15.reply_delivery`,
`C12`). -/
theorem requester_never_gives_up (s : Station) (apps : Apps) (te : Int) (hinv : Inv s apps)
    (hon : s.online = true) (haw : Awaiting s) (hl : s.lastBusActivity = some te)
    (polls : List (Int × Bytes)) (hd : Dense s.p.slotTime te s.pendingBytes polls) :
    AwaitsQuietly s apps polls :=
  requester_run s.p polls s apps te hinv hon haw hl rfl hd

/-- **Part 4, `reply_handshake`** (two stations, one request/reply).  Requester A waits (`Awaiting`, stamp
`te`, nothing pending); responder R has registered A's request at its poll `r1`, the first that saw the
complete request (`tb ≤ r1 ≤ tb + P_R`, `tb ≤ te + E` the real end of the request on the bus), and is then
polled at `tR 0, tR 1, …` with gaps `≤ P_R` (`33 bit + P_R < Tto`) on a silent bus.  Under
`Margin Tslot (33 bit) E P_R C`: R replies at its first poll `q = tR n` later than `r1 + 33 bit`, with
`tb + 33 bit < q` (in particular later than the minimum station delay of 11 bit after the request) and
`q + C ≤ te + Tslot`; and if the characters of the reply reach A according to an arrival model with the
first character complete by `q + C` and consecutive ones at most a slot time apart, then for every
time-ordered sequence of polls of A seeing the corresponding prefixes A never gives up: no retry, no
token pass, no `timeout` callback, until the complete reply is in its buffer. -/
theorem reply_handshake
    (sA : Station) (appsA : Apps) (te : Int) (hinvA : Inv sA appsA) (honA : sA.online = true)
    (hawA : Awaiting sA) (hlA : sA.lastBusActivity = some te) (hpbA : sA.pendingBytes = 0)
    (sR : Station) (appsR : Apps) (r1 : Int) (src : Nat) (hinv : Inv sR appsR) (hon : sR.online = true)
    (hreg : Registered sR src) (hl : sR.lastBusActivity = some r1)
    (tR : Nat → Int) (PR : Nat) (hto : sR.p.bits 33 + PR < sR.p.tokenLostTimeout)
    (h0 : tR 0 ≤ r1 + PR) (hgap : ∀ i, tR (i + 1) ≤ tR i + PR) (hgo : ∃ k, r1 + (sR.p.bits 33 : Nat) < tR k)
    (tb : Int) (E C : Nat) (hE : tb ≤ te + E) (hr1 : tb ≤ r1) (hr1' : r1 ≤ tb + PR)
    (hm : Margin sA.p.slotTime (sR.p.bits 33) E PR C) :
    ∃ n, QuietThenReply sR.p.address src sR appsR ((List.range n).map tR) (tR n) ∧
      tb + (sR.p.bits 33 : Nat) < tR n ∧ tR n + C ≤ te + (sA.p.slotTime : Nat) ∧
      ∀ (nb : Nat) (arr : Nat → Int) (vis : Int → Nat), 0 < nb → Arrivals nb arr vis → arr 0 ≤ tR n + C →
        (∀ k, k + 1 < nb → arr (k + 1) ≤ arr k + (sA.p.slotTime : Nat)) →
        ∀ polls : List (Int × Bytes), polls.Pairwise (fun x y => x.1 ≤ y.1) →
          (∀ x ∈ polls, x.2.length = vis x.1) → (∀ x ∈ polls, ∀ y ∈ polls, x.1 < y.1 → vis x.1 < nb) →
          AwaitsQuietly sA appsA polls := by
  obtain ⟨n, hn1, hn2, hq⟩ := responder_replies_timed sR appsR r1 src hinv hon hreg hl tR PR hto h0 hgap hgo
  obtain ⟨f1, f2, -⟩ := handover_first_char sA.p.slotTime (sR.p.bits 33) E PR C te tb r1 (tR n) hm hE hr1 hr1' hn1 hn2
  refine ⟨n, hq, f1, f2, ?_⟩
  intro nb arr vis hnb hA harr0 hgapc polls hpw hlen hinc
  refine requester_never_gives_up sA appsA te hinvA honA hawA hlA polls ?_
  rw [hpbA]
  exact dense_of_arrivals sA.p.slotTime nb arr vis hA hgapc polls te 0 hpw hlen hinc (fun _ _ _ => Nat.zero_le _)
    (fun _ => by omega) (fun h0 => by omega)

/-! Non-vacuity of part 4.  Responder: station 3, idle (`sB` without pending stranger), receives at 1000 µs
the status request 5→3 (`10 03 05 49 51 16`), registers it, and replies at its first poll later than 1066 µs.
Requester: station 5 in `AwaitStatusResponse 3` (stamp 0, `Tslot` = 400 µs) while the reply trickles in. -/
def sR0 : Station :=
  { (Station.new pEx) with online := true, st := .activeIdle none none 0, lastBusActivity := some 0 }

theorem sR0_inv : Inv sR0 [] := by
  have h := inv_new pEx [] (by decide) (by decide) (by intro s hs; cases hs)
  exact ⟨h.addr, h.hsa, h.ring, fun ho => by simp [sR0] at ho, h.gap, fun a ha => by simp [sR0] at ha,
    fun a ha => by simp [sR0] at ha, h.app, fun a d ha => by simp [sR0] at ha, h.scripts, by simp [sR0]⟩

example : ∃ c1, sR0.poll [] 1000 false [0x10, 3, 5, 0x49, 0x51, 0x16] = .ok c1 ∧ c1.tx = none ∧ c1.calls = [] ∧
    c1.rx = [] ∧ c1.apps = [] ∧ Registered c1.s 5 ∧ c1.s.st = .activeIdle (some 5) none 0 ∧
    c1.s.lastBusActivity = some 1000 ∧ c1.s.p = pEx ∧ c1.s.online = true :=
  request_registered_idle sR0 [] 1000 [0x10, 3, 5, 0x49, 0x51, 0x16] [] none 0 (fdlStatusRequestHeader 3 5) []
    .inactive true rfl rfl (by intro l hl; cases hl; decide) (by decide) (.inl (by decide)) (by decide) rfl rfl

def sR : Station :=
  { (Station.new pEx) with online := true, st := .activeIdle (some 5) none 0, lastBusActivity := some 1000 }

theorem sR_inv : Inv sR [] := by
  have h := inv_new pEx [] (by decide) (by decide) (by intro s hs; cases hs)
  exact ⟨h.addr, h.hsa, h.ring, fun ho => by simp [sR] at ho, h.gap, fun a ha => by simp [sR] at ha,
    fun a ha => by simp [sR] at ha, h.app, fun a d ha => by simp [sR] at ha, h.scripts, by simp [sR]⟩

example : QuietThenReply 3 5 sR [] [1010, 1066] 1100 :=
  reply_handshake_responder sR [] 1000 5 sR_inv rfl (.inr ⟨none, 0, rfl⟩) rfl (by decide) [1010, 1066] 1100
    (by intro e he; simp at he; rcases he with rfl | rfl <;> decide) (by decide) (by decide)

def sQ : Station :=
  { (Station.new pA) with online := true, st := .awaitStatus 3, gap := .doPoll 3, lastBusActivity := some 0 }

theorem sQ_inv : Inv sQ [] := by
  have h := inv_new pA [] (by decide) (by decide) (by intro s hs; cases hs)
  exact ⟨h.addr, h.hsa, h.ring, fun ho => by simp [sQ] at ho,
    fun cur hc => by simp [sQ] at hc; subst hc; decide,
    fun a ha => by simp [sQ] at ha; subst ha; exact ⟨rfl, by decide⟩,
    fun a ha => by simp [sQ] at ha, h.app, fun a d ha => by simp [sQ] at ha, h.scripts, by simp [sQ]⟩

example : AwaitsQuietly sQ [] [(100, []), (300, [0x10]), (650, [0x10, 5]), (900, [0x10, 5])] :=
  requester_never_gives_up sQ [] 0 sQ_inv rfl (.inl ⟨3, rfl⟩) rfl _ (by
    show Dense 400 0 0 _
    simp [Dense])

/-! ## Whole runs of a stable two-station ring on the byte-accurate bus of `Model/Net.lean`

Two station models (indices 0 and 1) on the bus that the `net` correspondence ties to the real code: a
transmission of `n` characters started at `t` makes character `k` visible to the other station at
`t + ⌈11·(k+1)·10⁶/rate⌉`; overlapping transmissions would be delivered as zero bytes.  Stable ring: both
stations are members with agreeing, valid LAS (`RingView` over the same member list), nobody joins or
leaves, fault-free bus, no application traffic (`apps = []`); every token hold ends with a GAP request to
an unoccupied address (which times out) or with the token pass, as `gapAdvance` decides.
The invariant `RInv cfg n v` (`Lemmas/TimedRing2.lean`) describes the three phases `hold` / `gap` / `pass`
of the station whose turn it is, what the other station has received so far, the time stamps and the
shape of the transmission log; `cfg.Ok` is the handshake margin `2 + 2·P + bits 33 + ⌈11 bit⌉ ≤ Tslot`;
the schedule `Sched` says: events in time order, each station's own poll times strictly increasing, no
station unpolled for more than `P` at any event. -/

/-- **`two_station_ring_run`** — for EVERY schedule and EVERY length of run from a state satisfying the
invariant: every poll returns regularly (no panic); ONLY the station whose turn it is ever transmits — no
claim, no retry, no reply occurs, so nobody's token-lost or slot time-out ever fires spuriously; every
transmission starts LATER than 33 bit times after the END of the previous transmission on the bus (hence no
two transmissions overlap, and the synchronisation pause is respected); each transmission is a GAP
request to an address other than the other station's (the turn stays) or the token to the other station
(the turn passes on: the token alternates between the two stations).  (`GoodRun`.) -/
theorem two_station_ring_run (cfg : Cfg) (hok : cfg.Ok) (adr : Nat → Nat) (n : Net) (v : View) (h : RInv cfg n v)
    (hadr : ∀ j, j < 2 → v.adr j = adr j) (evs : List (Nat × Int)) (hs : Sched cfg.P n v.tl evs) :
    GoodRun cfg adr n v.nextTx (n.bus.txEnd v.tr) evs :=
  ring2_run hok adr evs n v h hadr hs

/-- The invariant is re-established after every scheduled run (so the statement above applies again). -/
theorem two_station_ring_inv (cfg : Cfg) (hok : cfg.Ok) (n : Net) (v : View) (h : RInv cfg n v)
    (evs : List (Nat × Int)) (hs : Sched cfg.P n v.tl evs) :
    ∃ v', RInv cfg (n.after evs) v' ∧ ∀ j, j < 2 → v'.adr j = v.adr j :=
  ring2_inv_run hok evs n v h hs

/-- One event preserves the invariant (the case analysis behind the two theorems above). -/
theorem two_station_ring_step (cfg : Cfg) (hok : cfg.Ok) (n : Net) (v : View) (h : RInv cfg n v) (i : Nat) (now : Int)
    (e : EvOk cfg n v i now) : StepOut cfg n v i now :=
  ring2_step h hok i now e

/-- **Silence bound of normal operation**: at every event of a scheduled run the end of the last
transmission lies at most `Tslot + P` back (the longest silence is the unanswered GAP request) — far
below every token-lost time-out `Tto ≥ 6·Tslot`; this is why nobody claims. -/
theorem two_station_ring_silence (cfg : Cfg) (hok : cfg.Ok) (n : Net) (v : View) (h : RInv cfg n v) (i : Nat) (now : Int)
    (e : EvOk cfg n v i now) : now ≤ n.bus.txEnd v.tr + (cfg.slot : Nat) + (cfg.P : Nat) :=
  ring2_silence h hok i now e

/-- The schedule condition is a condition on the poll times alone. -/
theorem schedule_of_times (P : Nat) (evs : List (Nat × Int)) (n : Net) (tl : Int)
    (h : SchedT P n.bus.seen tl evs) : Sched P n tl evs :=
  sched_of_times P evs n tl h

/-- For poll gaps `P ≤ Tslot/4` the margin `cfg.Ok` holds whenever `88·10⁶ + 6·rate ≤ slotBits·10⁶`. -/
theorem ring_margin_of_quarter_slot (cfg : Cfg) (hr : 0 < cfg.rate) (hP : cfg.P ≤ cfg.slot / 4)
    (hs : 88 * 1000000 + 6 * cfg.rate ≤ cfg.slotBits * 1000000) : cfg.Ok :=
  cfg.ok_of_quarter_slot hr hP hs

/-! Non-vacuity: stations 3 (index 0) and 5 (index 1) at 500 kbit/s, `Tslot` = 400 µs, `P` = 100 µs.  Station 5
passed the token at time 0 (on the bus until 66 µs), station 3 accepted it at its poll at 70 µs and holds it;
station 5 supervises.  The invariant holds, and so does the schedule below. -/
def cfg2 : Cfg := { rate := 500000, slotBits := 200, P := 100 }

theorem cfg2_ok : cfg2.Ok := cfg2.ok_of_quarter_slot (by decide) (by decide) (by decide)

open TokenRing in
def ring2 (ts : Nat) : TokenRing :=
  updateNextPrev { active := Vector.ofFn fun i => decide (i.val = 3 ∨ i.val = 5), las := .valid, ts := ts, ns := ts, ps := ts }

open TokenRing in
theorem ring2_view (ts : Nat) (hts : ts ∈ [3, 5]) : RingView [3, 5] ts (ring2 ts) := by
  refine ⟨⟨by simp, ⟨by decide, trivial⟩, by decide⟩, hts, (updateNextPrev_las _).2, (updateNextPrev_las _).1, ?_,
    updateNextPrev_nbr _⟩
  intro a ha
  unfold ring2
  rw [updateNextPrev_active]
  simp [isActive, ha]

theorem ring2_ok (ts : Nat) (hts : ts < 128) : TokenRing.RingOk (ring2 ts) := by
  have := TokenRing.upd_ok { active := Vector.ofFn fun i => decide (i.val = 3 ∨ i.val = 5), las := .valid, ts := ts, ns := ts, ps := ts }
    (Vector.ofFn fun i => decide (i.val = 3 ∨ i.val = 5)) ⟨hts, hts⟩
  exact this.1

def st0 : Station :=
  { (Station.new pEx) with online := true, st := .useToken ⟨70, none⟩ false, lastBusActivity := some 70, ring := ring2 3 }
def st1 : Station :=
  { (Station.new pA) with online := true, st := .checkTokenPass .first, lastBusActivity := some 66, ring := ring2 5 }

theorem st0_inv : Inv st0 [] := by
  have h := inv_new pEx [] (by decide) (by decide) (by intro s hs; cases hs)
  exact ⟨h.addr, h.hsa, ring2_ok 3 (by decide), fun ho => by simp [st0] at ho, h.gap, fun a ha => by simp [st0] at ha,
    fun a ha => by simp [st0] at ha, h.app, fun a d ha => by simp [st0] at ha, h.scripts, by simp [st0]⟩

theorem st1_inv : Inv st1 [] := by
  have h := inv_new pA [] (by decide) (by decide) (by intro s hs; cases hs)
  exact ⟨h.addr, h.hsa, ring2_ok 5 (by decide), fun ho => by simp [st1] at ho, h.gap, fun a ha => by simp [st1] at ha,
    fun a ha => by simp [st1] at ha, h.app, fun a d ha => by simp [st1] at ha, h.scripts, by simp [st1]⟩

def tok0 : Transmission := { start := 0, sender := 1, bytes := StationGap.tokenBytes 3 5, dropped := false }
def net0 : Net :=
  { bus := { rate := 500000, txs := [tok0], seen := [70, 0] },
    stations := [{ s := st0, apps := [], online := true }, { s := st1, apps := [], online := true }] }
def view0 : View :=
  { x := 0, sx := { s := st0, apps := [], online := true }, sy := { s := st1, apps := [], online := true },
    ax := 3, ay := 5, old := [], tr := tok0, ph := .hold 70, idle := false, ly := 66, tl := 70 }

theorem stok0 : StOk cfg2 view0.sx 3 5 :=
  ⟨rfl, rfl, rfl, st0_inv, rfl, rfl, rfl, rfl, ⟨[3, 5], ring2_view 3 (by simp), by decide, by decide⟩, by decide,
    by decide, by decide, by decide⟩
theorem stok1 : StOk cfg2 view0.sy 5 3 :=
  ⟨rfl, rfl, rfl, st1_inv, rfl, rfl, rfl, rfl, ⟨[3, 5], ring2_view 5 (by simp), by decide, by decide⟩, by decide,
    by decide, by decide, by decide⟩

theorem rinv0 : RInv cfg2 net0 view0 := by
  refine ⟨by decide, rfl, rfl, rfl, stok0, stok1, ⟨rfl, rfl, rfl, rfl, rfl, rfl, ?_, ?_⟩, by decide, by decide, by decide,
    rfl, rfl, ?_⟩
  · intro o ho; cases ho
  · intro i _ o ho; cases ho
  · unfold PhaseOk
    show _ ∧ _
    refine ⟨rfl, rfl, ⟨_, _, rfl⟩, rfl, rfl, by decide, rfl, rfl, rfl, by decide, by decide, by decide, by decide, by decide⟩

def evs0 : List (Nat × Int) := [(1, 80), (0, 137), (1, 160), (0, 230), (1, 250)]

theorem sched0 : Sched cfg2.P net0 view0.tl evs0 :=
  schedule_of_times _ _ _ _ (by
    show SchedT 100 [70, 0] 70 evs0
    simp [SchedT, evs0]
    decide)

example : GoodRun cfg2 (fun j => if j = 0 then 3 else 5) net0 0 (net0.bus.txEnd tok0) evs0 :=
  two_station_ring_run cfg2 cfg2_ok _ net0 view0 rinv0
    (by intro j hj; have : j = 0 ∨ j = 1 := by omega
        rcases this with rfl | rfl <;> rfl) evs0 sched0

/-! ## Whole runs of a stable ring of N ≥ 2 stations on the byte-accurate bus

N station models on the bus of `Model/Net.lean`; stable ring with member list `M` (`RingCfg`: the stations'
addresses are exactly the members, pairwise different, at least two), every station has a valid LAS equal
to `M` (`RingView`), no application traffic.  New with respect to the two-station case is the THIRD PARTY:
a station that is neither sender nor addressee may lag behind by any number of telegrams; at a poll it gets
the rest of the telegram it was in, whole telegrams and possibly a trailing fragment in one batch
(`listener_step`): it witnesses the passes (its LAS stays `M`), answers nothing, and accepts the token only
when it is addressed to it — then it is the last telegram of the batch.  `NInv` is the invariant (the station
whose turn it is with its phase `hold`/`gap`/`pass`; for every other station the listener condition `LOk`:
what it has consumed, what is in its buffer, its deadline).  Hypotheses: `cfg.Ok` (the handshake margin
`2 + 2P + bits 33 + ⌈11 bit⌉ ≤ Tslot`), `P ≤ 100 ms` (the bus model forgets transmissions after 100 ms), every
`Tto ≥ Tslot + 2P + bits 33 + ⌈11 bit⌉ + 2` (in `StOkN`), the schedule `SchedN`. -/

/-- **`n_station_ring_run`** — every schedule, every length of run, any N ≥ 2: every poll returns regularly;
only the station whose turn it is transmits (no claim, retry or reply); every transmission starts later than
33 bit times after the end of the previous one (no overlap; synchronisation pause); each transmission is a
GAP request to a non-member address (the turn stays) or the token to the cyclic successor in the ascending
member list (the turn passes to it: `ascending_rotation`).  (`GoodRunN`.) -/
theorem n_station_ring_run (cfg : Cfg) (hok : cfg.Ok) (hP100 : cfg.P ≤ 100000) (M : List Nat) (adr : Nat → Nat)
    (n : Net) (v : NView) (h : NInv cfg M adr n v) (hna : NoApps n) (hpl : v.ph.plain)
    (evs : List (Nat × Int)) (hs : SchedN cfg.P n v.tl evs) :
    GoodRunN cfg M adr n (v.turn M adr) (cEnd cfg v.tr) evs :=
  ringN_run hok hP100 M adr evs n v h hna hpl hs

/-- **`n_station_ring_run_apps`** — the same WITH application traffic: every station has an arbitrary list of
applications with arbitrary scripts whose telegrams satisfy `AppP` (destination and source address below 128,
anything but an FDL status request — requests with or without reply, to member addresses, which do not
answer application requests, or to absent addresses) and the encoder's length limit (`ScriptsOk`, in the
station invariant).  Inside a token hold the holder sends application telegrams (`holdT`: no reply expected,
the hold continues after the synchronisation pause; `await a`: the reply never comes, after the slot time the
application gets its `timeout` and the hold continues in the same poll), then a GAP request or the token, as
the hold-time logic decides.  For every schedule and every length of run: every poll returns regularly, only
the station whose turn it is transmits, every transmission starts at least 33 bit times after the end of the
previous one (strictly later after another station's transmission), the token goes round in ascending
cyclic order, nobody claims, retries or replies (`GoodRunA`). -/
theorem n_station_ring_run_apps (cfg : Cfg) (hok : cfg.Ok) (hP100 : cfg.P ≤ 100000) (M : List Nat) (adr : Nat → Nat)
    (n : Net) (v : NView) (h : NInv cfg M adr n v) (evs : List (Nat × Int)) (hs : SchedN cfg.P n v.tl evs) :
    GoodRunA cfg M adr n (v.turn M adr) (cEnd cfg v.tr) v.tr.sender evs :=
  ringA_run hok hP100 M adr evs n v h hs

/-- The invariant holds again after every scheduled run. -/
theorem n_station_ring_inv (cfg : Cfg) (hok : cfg.Ok) (hP100 : cfg.P ≤ 100000) (M : List Nat) (adr : Nat → Nat)
    (n : Net) (v : NView) (h : NInv cfg M adr n v) (evs : List (Nat × Int)) (hs : SchedN cfg.P n v.tl evs) :
    ∃ v', NInv cfg M adr (n.afterN evs) v' :=
  ringN_inv_run hok hP100 M adr evs n v h hs

/-- One event preserves the invariant. -/
theorem n_station_ring_step (cfg : Cfg) (hok : cfg.Ok) (hP100 : cfg.P ≤ 100000) (M : List Nat) (adr : Nat → Nat)
    (n : Net) (v : NView) (h : NInv cfg M adr n v) (i : Nat) (now : Int) (e : EvOkN cfg n v.tl i now) :
    NStepOut cfg M adr n v i now :=
  ringN_step h hok hP100 i now e

/-- Silence bound: at every event the end of the last transmission lies at most `Tslot + 2P + bits 33` back;
every token-lost time-out is longer, so nobody claims. -/
theorem n_station_ring_silence (cfg : Cfg) (hok : cfg.Ok) (M : List Nat) (adr : Nat → Nat) (n : Net) (v : NView)
    (h : NInv cfg M adr n v) (i : Nat) (now : Int) (e : EvOkN cfg n v.tl i now) :
    now ≤ cEnd cfg v.tr + (cfg.gmax : Nat) :=
  ringN_silence h hok i now e

/-- The token goes round in ascending cyclic order: the station the turn passes to is the next larger
member, or — from the largest — the smallest. -/
theorem ascending_rotation (M : List Nat) (a : Nat) (ha : a ∈ M) :
    TokenRing.cycSucc a M ∈ M ∧
    ((∃ b ∈ M, a < b) → a < TokenRing.cycSucc a M ∧ ∀ b ∈ M, a < b → TokenRing.cycSucc a M ≤ b) ∧
    ((∀ b ∈ M, b ≤ a) → ∀ b ∈ M, TokenRing.cycSucc a M ≤ b) := by
  have hs := TokenRing.cycSucc_spec a M
  exact ⟨TokenRing.cycSucc_mem a M ha, fun h => (hs.above h).2, fun h => (hs.wrap h ⟨a, ha⟩).2⟩

/-- The schedule condition is a condition on poll times only. -/
theorem scheduleN_of_times (P : Nat) (evs : List (Nat × Int)) (n : Net) (tl : Int)
    (h : SchedNT P n.stations.length n.bus.seen tl evs) : SchedN P n tl evs :=
  schedN_of_times P evs n tl h

/-! Non-vacuity for N = 3: stations 3, 5, 7 (indices 0, 1, 2) at 500 kbit/s.  Station 3 passed the token at time 0,
station 5 accepted it at 70 µs and holds it; station 3 supervises its pass, station 7 (a third party) has
overheard the pass completely at its poll at 68 µs. -/
def M3 : List Nat := [3, 5, 7]
def adr3 (i : Nat) : Nat := M3.getD i 0

open TokenRing in
def ring3 (ts : Nat) : TokenRing :=
  updateNextPrev { active := Vector.ofFn fun i => decide (i.val ∈ M3), las := .valid, ts := ts, ns := ts, ps := ts }

open TokenRing in
theorem ring3_view (ts : Nat) (hts : ts ∈ M3) : RingView M3 ts (ring3 ts) := by
  refine ⟨⟨by simp [M3], ⟨by decide, by decide, trivial⟩, by decide⟩, hts, (updateNextPrev_las _).2, (updateNextPrev_las _).1, ?_,
    updateNextPrev_nbr _⟩
  intro a ha
  unfold ring3
  rw [updateNextPrev_active]
  simp [isActive, ha]

theorem ring3_ok (ts : Nat) (hts : ts < 128) : TokenRing.RingOk (ring3 ts) := by
  have := TokenRing.upd_ok { active := Vector.ofFn fun i => decide (i.val ∈ M3), las := .valid, ts := ts, ns := ts, ps := ts }
    (Vector.ofFn fun i => decide (i.val ∈ M3)) ⟨hts, hts⟩
  exact this.1

def p7 : Params := { pEx with address := 7 }
def s3a : Station :=
  { (Station.new pEx) with online := true, st := .checkTokenPass .first, lastBusActivity := some 66, ring := ring3 3 }
def s3b : Station :=
  { (Station.new pA) with online := true, st := .useToken ⟨70, none⟩ false, lastBusActivity := some 70, ring := ring3 5 }
def s3c : Station :=
  { (Station.new p7) with online := true, st := .activeIdle none none 0, lastBusActivity := some 68, ring := ring3 7 }

theorem s3a_inv : Inv s3a [] := by
  have h := inv_new pEx [] (by decide) (by decide) (by intro s hs; cases hs)
  exact ⟨h.addr, h.hsa, ring3_ok 3 (by decide), fun ho => by simp [s3a] at ho, h.gap, fun a ha => by simp [s3a] at ha,
    fun a ha => by simp [s3a] at ha, h.app, fun a d ha => by simp [s3a] at ha, h.scripts, by simp [s3a]⟩
theorem s3b_inv : Inv s3b [] := by
  have h := inv_new pA [] (by decide) (by decide) (by intro s hs; cases hs)
  exact ⟨h.addr, h.hsa, ring3_ok 5 (by decide), fun ho => by simp [s3b] at ho, h.gap, fun a ha => by simp [s3b] at ha,
    fun a ha => by simp [s3b] at ha, h.app, fun a d ha => by simp [s3b] at ha, h.scripts, by simp [s3b]⟩
theorem s3c_inv : Inv s3c [] := by
  have h := inv_new p7 [] (by decide) (by decide) (by intro s hs; cases hs)
  exact ⟨h.addr, h.hsa, ring3_ok 7 (by decide), fun ho => by simp [s3c] at ho, h.gap, fun a ha => by simp [s3c] at ha,
    fun a ha => by simp [s3c] at ha, h.app, fun a d ha => by simp [s3c] at ha, h.scripts, by simp [s3c]⟩

def tok3 : Transmission := { start := 0, sender := 0, bytes := StationGap.tokenBytes 5 3, dropped := false }
def ns3a : NetStation := { s := s3a, apps := [], online := true }
def ns3b : NetStation := { s := s3b, apps := [], online := true }
def ns3c : NetStation := { s := s3c, apps := [], online := true }
def net3 : Net := { bus := { rate := 500000, txs := [tok3], seen := [0, 70, 68] }, stations := [ns3a, ns3b, ns3c] }
def view3 : NView := { x := 1, sx := ns3b, pre := [], tr := tok3, ph := .hold 70, H := 236, Lo := 136, tl := 70 }

theorem ringCfg3 : RingCfg M3 adr3 3 :=
  ⟨⟨by simp [M3], ⟨by decide, by decide, trivial⟩, by decide⟩, by decide,
    (by
      intro i j hi hj he
      have hi' : i = 0 ∨ i = 1 ∨ i = 2 := by omega
      have hj' : j = 0 ∨ j = 1 ∨ j = 2 := by omega
      rcases hi' with rfl | rfl | rfl <;> rcases hj' with rfl | rfl | rfl <;> simp [adr3, M3] at he ⊢),
    by decide, by decide⟩

theorem stok3a : StOkN cfg2 M3 ns3a 3 := ⟨rfl, rfl, (fun s hs => by cases hs), s3a_inv, rfl, rfl, rfl, rfl, ring3_view 3 (by decide), by decide⟩
theorem stok3b : StOkN cfg2 M3 ns3b 5 := ⟨rfl, rfl, (fun s hs => by cases hs), s3b_inv, rfl, rfl, rfl, rfl, ring3_view 5 (by decide), by decide⟩
theorem stok3c : StOkN cfg2 M3 ns3c 7 := ⟨rfl, rfl, (fun s hs => by cases hs), s3c_inv, rfl, rfl, rfl, rfl, ring3_view 7 (by decide), by decide⟩

theorem tok3_not (j : Nat) (hj : adr3 j ≠ 5) (hj' : adr3 j < 256) : ∀ a, tok3.bytes ≠ StationGap.tokenBytes (adr3 j) a := by
  intro a hb
  exact hj (tokenBytes_adr_inj 5 3 (adr3 j) a (by decide) hj' hb).symm

theorem ninv3 : NInv cfg2 M3 adr3 net3 view3 := by
  refine ⟨ringCfg3, by decide, rfl, stok3b, ⟨rfl, rfl, rfl, rfl, List.pairwise_singleton _ _, ?_, ?_⟩, rfl, ?_, ?_, ?_, ?_, ?_,
    rfl, rfl, ?_⟩
  · intro t ht; simp only [net3, List.mem_singleton] at ht; subst ht; rfl
  · intro t ht; simp only [net3, List.mem_singleton] at ht; subst ht
    exact ⟨0, by decide, rfl, .inl (by decide)⟩
  · intro o ho; simp only [net3, List.mem_singleton] at ho; subst ho; right; decide
  · intro l hl o ho hs; simp only [net3, List.mem_singleton] at ho; subst ho; cases hs
  · intro j hj hjx
    have : j = 0 ∨ j = 2 := by simp only [net3, view3, List.length_cons, List.length_nil] at hj hjx; omega
    rcases this with rfl | rfl
    · refine ⟨ns3a, rfl, stok3a, [tok3], [], false, 66, rfl, ?_, ?_, rfl, Nat.le_refl _, ?_, ?_, rfl, .inr ⟨?_, by decide⟩, ?_, ?_, ?_⟩
      · intro o ho; simp only [List.mem_singleton] at ho; subst ho; exact .inl rfl
      · intro t ht; cases ht
      · intro o ho hs; simp only [net3, List.mem_singleton] at ho; subst ho; decide
      · intro t rest hrs; cases hrs
      · intro t ht; cases ht
      · intro t ht; cases ht
      · rintro ⟨t, a, hl, hb⟩
        simp only [net3, List.getLast?_singleton, Option.some.injEq] at hl
        subst hl
        exact absurd hb (tok3_not 0 (by decide) (by decide) a)
      · simp only [Bool.false_eq_true, if_false]; exact ⟨rfl, by decide⟩
    · refine ⟨ns3c, rfl, stok3c, [tok3], [], true, 68, rfl, ?_, ?_, rfl, Nat.le_refl _, ?_, ?_, rfl, .inl (by decide), ?_, ?_, ?_⟩
      · intro o ho; simp only [List.mem_singleton] at ho; subst ho; right; decide
      · intro t ht; cases ht
      · intro o ho hs; simp only [net3, List.mem_singleton] at ho; subst ho; cases hs
      · intro t rest hrs; cases hrs
      · intro t ht; cases ht
      · rintro ⟨t, a, hl, hb⟩
        simp only [net3, List.getLast?_singleton, Option.some.injEq] at hl
        subst hl
        exact absurd hb (tok3_not 2 (by decide) (by decide) a)
      · simp only [if_true]; exact ⟨⟨none, 0, rfl⟩, by decide⟩
  · intro j hj
    have : j = 0 ∨ j = 1 ∨ j = 2 := by simp only [net3, List.length_cons, List.length_nil] at hj; omega
    rcases this with rfl | rfl | rfl <;> decide
  · intro t ht; simp only [net3, List.mem_singleton] at ht; subst ht; decide
  · unfold PhaseOkN
    show _ ∧ _
    exact ⟨⟨_, _, rfl⟩, rfl, ⟨3, rfl⟩, by decide, by decide, by decide, by decide, by decide, by decide⟩

def evs3 : List (Nat × Int) := [(0, 80), (2, 110), (1, 137), (0, 150), (2, 170), (1, 200), (0, 230)]

theorem sched3 : SchedN cfg2.P net3 view3.tl evs3 :=
  scheduleN_of_times _ _ _ _ (by
    show SchedNT 100 3 [0, 70, 68] 70 evs3
    simp [SchedNT, evs3]
    decide)

example : GoodRunN cfg2 M3 adr3 net3 5 (cEnd cfg2 tok3) evs3 :=
  n_station_ring_run cfg2 cfg2_ok (by decide) M3 adr3 net3 view3 ninv3
    (by intro st hst; simp only [net3, List.mem_cons, List.mem_nil_iff, or_false] at hst; rcases hst with rfl | rfl | rfl <;> rfl)
    trivial evs3 sched3

/-! Non-vacuity with application traffic: as above, but station 5 (the holder) has one application whose script
sends an SDN telegram to address 9 (no reply expected), then an SRD request to station 3 (a master: not answered,
times out), then declines. -/
def hSDN : Header := { da := 9, sa := 5, dsap := none, ssap := none, fc := .request .inactive .sdnLow }
def hSRD : Header := { da := 3, sa := 5, dsap := none, ssap := none, fc := .request .first .srdLow }
def appsEx : Apps := [[.send hSDN [1, 2], .send hSRD [], .decline]]

theorem appsEx_ok : AnsOk AppP appsEx ∧ ScriptsOk appsEx := by
  constructor
  · intro script hs ans ha h pdu he
    simp only [appsEx, List.mem_singleton] at hs
    subst hs
    simp only [List.mem_cons, List.mem_nil_iff, or_false] at ha
    rcases ha with rfl | rfl | rfl
    · cases he; exact ⟨by decide, by decide, fun fcb hc => by cases hc⟩
    · cases he; exact ⟨by decide, by decide, fun fcb hc => by cases hc⟩
    · cases he
  · intro script hs ans ha h pdu he
    simp only [appsEx, List.mem_singleton] at hs
    subst hs
    simp only [List.mem_cons, List.mem_nil_iff, or_false] at ha
    rcases ha with rfl | rfl | rfl
    · cases he; decide
    · cases he; decide
    · cases he

def ns3b' : NetStation := { s := s3b, apps := appsEx, online := true }
def net3a : Net := { bus := { rate := 500000, txs := [tok3], seen := [0, 70, 68] }, stations := [ns3a, ns3b', ns3c] }
def view3a : NView := { x := 1, sx := ns3b', pre := [], tr := tok3, ph := .hold 70, H := 236, Lo := 136, tl := 70 }

theorem s3b_inv' : Inv s3b appsEx := by
  have h := s3b_inv
  exact ⟨h.addr, h.hsa, h.ring, h.off, h.gap, h.await1, h.await2, fun _ => by decide, fun a d ha => by simp [s3b] at ha,
    appsEx_ok.2, h.noPassive⟩

theorem ninv3a : NInv cfg2 M3 adr3 net3a view3a := by
  have h := ninv3
  exact ⟨h.ring, h.xlt, rfl, ⟨rfl, rfl, appsEx_ok.1, s3b_inv', rfl, rfl, rfl, rfl, ring3_view 5 (by decide), by decide⟩,
    h.log, h.txs, h.doneX, h.ownX, (fun j hj hjx => by
      have : j = 0 ∨ j = 2 := by simp only [net3a, view3a, List.length_cons, List.length_nil] at hj hjx; omega
      rcases this with rfl | rfl
      · obtain ⟨st, hst, hL⟩ := h.lis 0 (by decide) (by decide)
        exact ⟨st, hst, hL⟩
      · obtain ⟨st, hst, hL⟩ := h.lis 2 (by decide) (by decide)
        exact ⟨st, hst, hL⟩), h.tls, h.tlt, rfl, rfl, h.ph⟩

example : GoodRunA cfg2 M3 adr3 net3a 5 (cEnd cfg2 tok3) 0 evs3 :=
  n_station_ring_run_apps cfg2 cfg2_ok (by decide) M3 adr3 net3a view3a ninv3a evs3
    (scheduleN_of_times _ _ _ _ (by
      show SchedNT 100 3 [0, 70, 68] 70 evs3
      simp [SchedNT, evs3]
      decide))

end PV.C01
