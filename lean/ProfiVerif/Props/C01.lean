/-
C01 — Bus access respects the PROFIBUS idle times (station-level obligations).
-/
import ProfiVerif.Model.Station

namespace PV.C01
open PV

/-- `wait_synchronization_pause` lets the caller proceed exactly when more than 33 bit times have
passed since the last registered bus activity (which it initialises to `now` when unknown). -/
theorem sync_pause_spec (s : Station) (now : Int) :
    (waitSyncPause s now).2 = false ↔
      now > (s.lastBusActivity.getD now) + (s.p.bits 33 : Nat) := by
  unfold waitSyncPause getOrInsertLast
  cases s.lastBusActivity <;> simp <;> omega

/-- `tx_not_while_transmitting`: a poll made while the PHY still transmits, or before the predicted
end of the own last transmission, starts no transmission. -/
theorem tx_not_while_transmitting (c : Ctx) (now : Int) (phyTx : Bool) (hon : c.s.online = true)
    (hst : c.s.st ≠ .offline) (hst2 : c.s.st ≠ .passiveIdle) (htx : c.tx = none)
    (hbusy : phyTx = true ∨ ∃ l, c.s.lastBusActivity = some l ∧ now ≤ l) :
    ∃ c', pollInner c now phyTx = .ok c' ∧ c'.tx = none ∧ c'.calls = c.calls := by
  refine ⟨upd c fun s => markBusActivity s now, ?_, by simpa [upd] using htx, by simp [upd]⟩
  unfold pollInner
  simp only [hon]
  rcases hbusy with h | ⟨l, hl, hle⟩
  · subst h
    cases h : c.s.st <;> simp_all [Res.bind, pollStart, ongoing]
  · cases h : c.s.st <;> simp_all [Res.bind, tr, pollStart, ongoing]

/-- The token is passed (or retransmitted) by `do_pass_token` only after the synchronisation pause. -/
theorem pass_token_needs_idle (c : Ctx) (now : Int) (g : Bool) (a : Attempt) (hst : c.s.st = .passToken g a)
    (hw : (waitSyncPause c.s now).2 = true) :
    doPassToken c now = .ok { c with s := (waitSyncPause c.s now).1 } := by
  unfold doPassToken
  rw [hst]
  simp [hw]

/-- `claim_needs_silence`: a listening or idle station enters `ClaimToken` only when the bus has been
silent for its own time-out `Tto = (6 + 2·TS)·Tsl`. -/
theorem claim_needs_silence (c : Ctx) (now : Int) (l : Int) (hl : c.s.lastBusActivity = some l)
    (h : (now - l).natAbs < c.s.p.tokenLostTimeout) :
    (handleLostToken c now).2 = none := by
  unfold handleLostToken getOrInsertLast
  simp only [hl]
  rw [if_neg (by omega)]

theorem div_stagger (a b r : Nat) (hr : 0 < r) : a / r + 2 * (b / r) ≤ (a + 2 * b) / r := by
  rw [Nat.le_div_iff_mul_le hr]
  have ha := Nat.div_mul_le_self a r
  have hb := Nat.div_mul_le_self b r
  calc (a / r + 2 * (b / r)) * r = a / r * r + 2 * (b / r * r) := by rw [Nat.add_mul, Nat.mul_assoc]
    _ ≤ a + 2 * b := by omega

/-- `claim_staggered`: the time-out grows with the address by at least two slot times, so two
listeners that start counting together never claim together. -/
theorem claim_staggered (p : Params) (hr : 0 < p.rate) :
    p.tokenLostTimeout + 2 * p.slotTime ≤
      ({ p with address := p.address + 1 } : Params).tokenLostTimeout := by
  unfold Params.tokenLostTimeout Params.slotTime Params.bits bitsToTime
  simp only
  have h1 : p.slotBits * (6 + 2 * (p.address + 1)) * 1000000 =
      p.slotBits * (6 + 2 * p.address) * 1000000 + 2 * (p.slotBits * 1000000) := by
    simp only [Nat.mul_add, Nat.add_mul, Nat.mul_comm, Nat.mul_left_comm, Nat.mul_assoc]
    omega
  rw [h1]
  exact div_stagger _ _ _ hr

end PV.C01
