/-
C03 for the composed system FDL ∘ DP (`Model/Stack.lean`).

The theorems of `Props/C03.lean` are stated for steps from states reached by contract histories
(`Lemmas/Dp.lean`).  In the composed system — the station model with the DP master model as its only
application — the contract is a theorem (`Stack.station_log_is_contract_history`,
`Lemmas/Stack.lean`): every callback the station makes and every user call in between is such a step.
`stack_reachable` transfers all step theorems of `Props/C03.lean`; the headline clause is restated.
(A separate file because importing the station lemmas into `Props/C03.lean` would make the name
`Inv` ambiguous there.)
-/
import ProfiVerif.Props.C03
import ProfiVerif.Lemmas.StackEx

namespace PV.C03
open PV PV.Dp

/-- Every master call `x` of a composed run is a history step from a ghost state satisfying the
invariants the step theorems of `Props/C03.lean` assume. -/
theorem stack_reachable {fp : FdlParams} (hfp : FpOk fp) (p : Params)
    (haddr : fp.address.toNat = p.address) {slots : List (Option Peripheral)} (hinit : InitOk fp slots) (gr : Bool)
    (calls : List Stack.Call) {t0 : Int} (ht0 : -(2:Int)^62 < t0) (ht : Stack.TimesOk t0 calls)
    {k' : Stack.State} {l : List Stack.MCall} (h : Stack.run fp (Stack.init p slots gr) calls = .ok (k', l))
    {pre post : List Stack.MCall} {x : Stack.MCall} (hl : l = pre ++ x :: post) :
    ∃ g g', grun fp (G.init slots gr) (pre.map Stack.toOp) = .ok g ∧ gstep fp g (Stack.toOp x) = .ok g' ∧
      Dp.Inv fp g ∧ (g.tainted = false → Inv8 g ∧ Inv3 g) := by
  obtain ⟨g, g', e1, e2⟩ := Stack.stack_step hfp p haddr hinit gr calls ht0 ht h hl
  obtain ⟨hI, hr⟩ := reachable hfp hinit gr _ e1
  exact ⟨g, g', e1, e2, hI, hr⟩

/-- **`dx_only_when_ready` for the composed stack**: whenever, in any run of station ∘ master from
the initial state, a `transmit_telegram` callback of the station makes the master send a
Data_Exchange request to the peripheral in slot `i`, the bring-up automaton of that slot — driven by
the callbacks the station made before — is in S4.  No assumption about the FDL layer is left. -/
theorem stack_dx_only_when_ready {fp : FdlParams} (hfp : FpOk fp) (p : Params)
    (haddr : fp.address.toNat = p.address) {slots : List (Option Peripheral)} (hinit : InitOk fp slots) (gr : Bool)
    (calls : List Stack.Call) {t0 : Int} (ht0 : -(2:Int)^62 < t0) (ht : Stack.TimesOk t0 calls)
    {k' : Stack.State} {l : List Stack.MCall} (h : Stack.run fp (Stack.init p slots gr) calls = .ok (k', l))
    {pre post : List Stack.MCall} {now : Int} {hp : Bool} (hl : l = pre ++ .tx now hp :: post) :
    ∃ g g', grun fp (G.init slots gr) (pre.map Stack.toOp) = .ok g ∧ gstep fp g (.tx now hp) = .ok g' ∧
      ∀ i hd pdu, g'.o = .sent i hd pdu → reqKind hd = .dx → g.tainted = false → (g.sg i).s = 4 := by
  obtain ⟨g, g', e1, e2, hI, hr⟩ := stack_reachable hfp p haddr hinit gr calls ht0 ht h hl
  refine ⟨g, g', e1, e2, ?_⟩
  intro i hd pdu ho hk hu
  obtain ⟨h8, h3⟩ := hr hu
  exact dx_only_when_ready hfp hI h8 h3 e2 ho hk

/-- … and Set_Prm / Chk_Cfg are only handed to the station in S1 resp. S2. -/
theorem stack_bringup_requests_in_order {fp : FdlParams} (hfp : FpOk fp) (p : Params)
    (haddr : fp.address.toNat = p.address) {slots : List (Option Peripheral)} (hinit : InitOk fp slots) (gr : Bool)
    (calls : List Stack.Call) {t0 : Int} (ht0 : -(2:Int)^62 < t0) (ht : Stack.TimesOk t0 calls)
    {k' : Stack.State} {l : List Stack.MCall} (h : Stack.run fp (Stack.init p slots gr) calls = .ok (k', l))
    {pre post : List Stack.MCall} {now : Int} {hp : Bool} (hl : l = pre ++ .tx now hp :: post) :
    ∃ g g', grun fp (G.init slots gr) (pre.map Stack.toOp) = .ok g ∧ gstep fp g (.tx now hp) = .ok g' ∧
      ∀ i hd pdu, g'.o = .sent i hd pdu → g.tainted = false →
        (reqKind hd = .setPrm → 1 ≤ (g.sg i).s ∧ (g'.sg i).s = 1) ∧ (reqKind hd = .chkCfg → (g.sg i).s = 2) := by
  obtain ⟨g, g', e1, e2, hI, hr⟩ := stack_reachable hfp p haddr hinit gr calls ht0 ht h hl
  refine ⟨g, g', e1, e2, ?_⟩
  intro i hd pdu ho hu
  obtain ⟨h8, h3⟩ := hr hu
  exact bringup_requests_in_order hfp hI h8 h3 e2 ho


/-! ### Non-vacuity -/

/-- In the concrete composed run `Stack.Ex.calls` the station hands a Data_Exchange request of the
master to the wire, in an untainted history, with the bring-up automaton in S4 — the hypotheses of
`stack_dx_only_when_ready` occur. -/
example : Stack.Ex.runHas (fun g _ g' =>
    match g'.o with
    | .sent i hd _ => reqKind hd == .dx && (g.sg i).s == 4 && !g.tainted
    | _ => false) = true := by decide +kernel

example : ∃ k' l, Stack.run Stack.Ex.fp (Stack.init Stack.Ex.params Stack.Ex.slots false) Stack.Ex.calls = .ok (k', l) := by
  rcases Stack.run_total Stack.Ex.fp_ok Stack.Ex.params (by decide) (by decide) (by decide) Stack.Ex.init_ok false
    Stack.Ex.calls (t0 := 0) (by decide) Stack.Ex.times_ok with he | ⟨k', l, _, hr, _⟩
  · have : (match Stack.run Stack.Ex.fp (Stack.init Stack.Ex.params Stack.Ex.slots false) Stack.Ex.calls with
        | .userError => true | _ => false) = false := by decide +kernel
    rw [he] at this; cases this
  · exact ⟨k', l, hr⟩

end PV.C03
