/-
C10 — The decoder is total, prefix-consistent and never mis-accepts damaged frames.

Property theorems only; the decoder is first shown equal to a flat, slice-free specification
(`decode_eq_spec` in `Lemmas/Decoder.lean`), everything below is derived from that.
-/
import ProfiVerif.Lemmas.Decoder

namespace PV.C10
open PV

/-- The decoder never panics: every index and slice of `Telegram::deserialize` is in range for every
byte string. -/
theorem decode_total (bs : Bytes) : deserialize bs ≠ .panic := by
  have hb : ∀ b len total, bodySpec b len total ≠ .panic := by
    intro b len total h
    unfold bodySpec at h
    repeat' split at h
    all_goals cases h
  have hd : ∀ bs, dataSpec bs ≠ .panic := by
    intro bs h
    unfold dataSpec at h
    split at h
    · cases h
    simp only at h
    repeat' split at h
    all_goals first | cases h | exact hb _ _ _ h
  rw [decode_eq_spec]
  intro h
  unfold decodeSpec at h
  split at h
  · cases h
  simp only at h
  repeat' split at h
  all_goals first | cases h | exact hd _ h

/-- The three possible verdicts. -/
theorem decode_verdicts (bs : Bytes) :
    deserialize bs = .needMore ∨ deserialize bs = .reject ∨ ∃ t n, deserialize bs = .accept t n := by
  have := decode_total bs
  cases h : deserialize bs with
  | needMore => simp
  | reject => simp
  | accept t n => exact Or.inr (Or.inr ⟨t, n, rfl⟩)
  | panic => exact absurd h this

/-- A verdict other than "need more" is final: it is the verdict on every extension of the input. -/
theorem verdict_stable (bs ext : Bytes) (h : deserialize bs ≠ .needMore) :
    deserialize (bs ++ ext) = deserialize bs := by
  rw [decode_eq_spec] at h ⊢
  rw [decode_eq_spec]
  exact decodeSpec_append bs ext h

theorem accept_stable (bs ext : Bytes) (t : Telegram) (n : Nat) (h : deserialize bs = .accept t n) :
    deserialize (bs ++ ext) = .accept t n := by
  rw [verdict_stable bs ext (by rw [h]; simp), h]

theorem reject_stable (bs ext : Bytes) (h : deserialize bs = .reject) :
    deserialize (bs ++ ext) = .reject := by
  rw [verdict_stable bs ext (by rw [h]; simp), h]

/-! "Asks for more data only when the input is shorter than the frame it announces", per start code. -/

theorem needMore_nil : deserialize [] = .needMore := by rfl

theorem needMore_sc (bs : Bytes) (h0 : bs.length ≠ 0) (h : bs.getD 0 0 = SC) : deserialize bs = .accept .sc 1 := by
  rw [decode_eq_spec]; unfold decodeSpec; simp [-List.getD_eq_getElem?_getD, h0, h]

theorem needMore_sd4 (bs : Bytes) (h0 : bs.length ≠ 0) (h : bs.getD 0 0 = SD4) :
    deserialize bs = .needMore ↔ bs.length < 3 := by
  rw [decode_eq_spec]; unfold decodeSpec
  have : ¬ (SD4 = SC) := by decide
  simp only [h0, h, this, if_false, if_true]
  constructor
  · intro hh; split at hh
    · assumption
    · cases hh
  · intro hh; simp [hh]

theorem decode_data (bs : Bytes) (h0 : bs.length ≠ 0)
    (h : bs.getD 0 0 = SD1 ∨ bs.getD 0 0 = SD2 ∨ bs.getD 0 0 = SD3) : deserialize bs = dataSpec bs := by
  rw [decode_eq_spec]; unfold decodeSpec
  have hsc : bs.getD 0 0 ≠ SC := by rcases h with h | h | h <;> rw [h] <;> decide
  have hs4 : bs.getD 0 0 ≠ SD4 := by rcases h with h | h | h <;> rw [h] <;> decide
  simp only [h0, if_false]
  rw [if_neg hsc, if_neg hs4, if_pos h]

theorem needMore_sd1 (bs : Bytes) (h0 : bs.length ≠ 0) (h : bs.getD 0 0 = SD1) :
    deserialize bs = .needMore ↔ bs.length < 6 := by
  rw [decode_data bs h0 (Or.inl h)]; unfold dataSpec
  simp only [h, if_true]
  constructor
  · intro hh; split at hh
    · assumption
    · rw [bodySpec_needMore_iff] at hh; omega
  · intro hh; simp [hh]

theorem needMore_sd3 (bs : Bytes) (h0 : bs.length ≠ 0) (h : bs.getD 0 0 = SD3) :
    deserialize bs = .needMore ↔ bs.length < 14 := by
  rw [decode_data bs h0 (Or.inr (Or.inr h))]; unfold dataSpec
  have e1 : ¬ (SD3 = SD1) := by decide
  have e2 : ¬ (SD3 = SD2) := by decide
  simp only [h, e1, e2, if_true, if_false]
  constructor
  · intro hh; split at hh
    · omega
    · rw [bodySpec_needMore_iff] at hh; omega
  · intro hh; split
    · rfl
    · rw [bodySpec_needMore_iff]; omega

/-- SD2: more data is requested while fewer than 6 bytes are there, or when the header is valid
(LE = LEr ≥ 3, repeated SD2) and fewer than LE + 6 bytes are there — never on an invalid header. -/
theorem needMore_sd2 (bs : Bytes) (h0 : bs.length ≠ 0) (h : bs.getD 0 0 = SD2) :
    deserialize bs = .needMore ↔
      bs.length < 6 ∨ (bs.getD 1 0 = bs.getD 2 0 ∧ ¬ (bs.getD 1 0 < 3) ∧ bs.getD 3 0 = SD2 ∧
        bs.length < (bs.getD 1 0).toNat + 6) := by
  rw [decode_data bs h0 (Or.inr (Or.inl h))]; unfold dataSpec
  have e1 : ¬ (SD2 = SD1) := by decide
  simp only [h, e1, if_true, if_false]
  by_cases h6 : bs.length < 6
  · simp [h6]
  · simp only [h6, if_false, false_or]
    by_cases ha : bs.getD 1 0 = bs.getD 2 0
    · by_cases hb : bs.getD 1 0 < 3
      · have ha' : ¬ (bs.getD 1 0 ≠ bs.getD 2 0) := by simpa using ha
        rw [if_neg ha', if_pos hb]
        constructor
        · intro hh; cases hh
        · rintro ⟨-, hb2, -⟩; exact absurd hb hb2
      · by_cases hc : bs.getD 3 0 = SD2
        · have hb' : ¬ ((bs.getD 1 0).toNat < 3) := by
            intro hh; apply hb; rw [UInt8.lt_iff_toNat_lt]; simpa using hh
          have ha' : ¬ (bs.getD 1 0 ≠ bs.getD 2 0) := by simpa using ha
          have hc' : ¬ (bs.getD 3 0 ≠ SD2) := by simpa using hc
          rw [if_neg ha', if_neg hb, if_neg hc', bodySpec_needMore_iff]
          simp only [List.length_drop]
          constructor
          · intro hh; exact ⟨ha, hb, hc, by omega⟩
          · rintro ⟨-, -, -, hh⟩; omega
        · have hc' : bs.getD 3 0 ≠ SD2 := hc
          have ha' : ¬ (bs.getD 1 0 ≠ bs.getD 2 0) := by simpa using ha
          rw [if_neg ha', if_neg hb, if_pos hc']
          simp [-List.getD_eq_getElem?_getD, hc]
    · have ha' : bs.getD 1 0 ≠ bs.getD 2 0 := ha
      rw [if_pos ha']
      simp [-List.getD_eq_getElem?_getD, ha]

/-- Any other first byte is rejected at once. -/
theorem reject_other (bs : Bytes) (h0 : bs.length ≠ 0) (h : NotStartCode (bs.getD 0 0)) :
    deserialize bs = .reject := by
  rw [decode_eq_spec]; exact decodeSpec_reject_of_not_start bs h0 h


/-- The decoder asks for more data exactly when the input is shorter than the frame it announces
(`announced`, `Model/TelegramSpec.lean`). -/
theorem needMore_iff (bs : Bytes) :
    deserialize bs = .needMore ↔ ∃ n, announced bs = some n ∧ bs.length < n := by
  by_cases h0 : bs.length = 0
  · have : bs = [] := List.eq_nil_of_length_eq_zero h0
    subst this
    exact ⟨fun _ => ⟨1, rfl, by simp⟩, fun _ => rfl⟩
  · have e14 : ¬ (SD1 = SC) := by decide
    have e24 : ¬ (SD2 = SC) := by decide
    have e34 : ¬ (SD3 = SC) := by decide
    have e44 : ¬ (SD4 = SC) := by decide
    have f1 : ¬ (SD1 = SD4) := by decide
    have f2 : ¬ (SD2 = SD4) := by decide
    have f3 : ¬ (SD3 = SD4) := by decide
    have g2 : ¬ (SD2 = SD1) := by decide
    have g3 : ¬ (SD3 = SD1) := by decide
    have g4 : ¬ (SD3 = SD2) := by decide
    unfold announced
    simp only [h0, if_false]
    by_cases hsc : bs.getD 0 0 = SC
    · rw [needMore_sc bs h0 hsc]
      simp only [hsc, if_true]
      constructor
      · intro h; cases h
      · rintro ⟨n, hn, hl⟩; cases hn; omega
    · by_cases h4 : bs.getD 0 0 = SD4
      · rw [needMore_sd4 bs h0 h4]
        simp only [h4, e44, if_true, if_false]
        exact ⟨fun h => ⟨3, rfl, h⟩, fun ⟨n, hn, hl⟩ => by cases hn; exact hl⟩
      · by_cases h1 : bs.getD 0 0 = SD1
        · rw [needMore_sd1 bs h0 h1]
          simp only [h1, e14, f1, if_true, if_false]
          exact ⟨fun h => ⟨6, rfl, h⟩, fun ⟨n, hn, hl⟩ => by cases hn; exact hl⟩
        · by_cases h2 : bs.getD 0 0 = SD2
          · rw [needMore_sd2 bs h0 h2]
            simp only [h2, e24, f2, g2, if_true, if_false]
            by_cases h6 : bs.length < 6
            · simp only [h6, if_true, true_or, true_iff]
              exact ⟨6, rfl, h6⟩
            · simp only [h6, if_false, false_or]
              by_cases hh : bs.getD 1 0 = bs.getD 2 0 ∧ ¬ (bs.getD 1 0 < 3) ∧ bs.getD 3 0 = SD2
              · rw [if_pos hh]
                obtain ⟨a, b, c⟩ := hh
                constructor
                · intro h; exact ⟨_, rfl, h.2.2.2⟩
                · rintro ⟨n, hn, hl⟩; cases hn; exact ⟨a, b, c, hl⟩
              · rw [if_neg hh]
                constructor
                · rintro ⟨a, b, c, -⟩; exact absurd ⟨a, b, c⟩ hh
                · rintro ⟨n, hn, -⟩; cases hn
          · by_cases h3 : bs.getD 0 0 = SD3
            · rw [needMore_sd3 bs h0 h3]
              simp only [h3, e34, f3, g3, g4, if_true, if_false]
              exact ⟨fun h => ⟨14, rfl, h⟩, fun ⟨n, hn, hl⟩ => by cases hn; exact hl⟩
            · rw [reject_other bs h0 ⟨hsc, h4, h1, h2, h3⟩]
              simp only [hsc, h4, h1, h2, h3, if_false]
              constructor
              · intro h; cases h
              · rintro ⟨n, hn, -⟩; cases hn
/-! ### What an `accept` verdict implies -/

theorem accept_cases (bs : Bytes) (t : Telegram) (n : Nat) (h : deserialize bs = .accept t n) :
    (t = .sc ∧ n = 1 ∧ 1 ≤ bs.length ∧ bs.getD 0 0 = SC) ∨
    (t = .token (bs.getD 1 0) (bs.getD 2 0) ∧ n = 3 ∧ 3 ≤ bs.length ∧ bs.getD 0 0 = SD4) ∨
    ((bs.getD 0 0 = SD1 ∨ bs.getD 0 0 = SD2 ∨ bs.getD 0 0 = SD3) ∧ dataSpec bs = .accept t n) := by
  rw [decode_eq_spec] at h
  unfold decodeSpec at h
  split at h
  · cases h
  · rename_i h0
    simp only at h
    split at h
    · rename_i hsc
      simp only [Decoded.accept.injEq] at h
      exact Or.inl ⟨h.1.symm, h.2.symm, by omega, hsc⟩
    · split at h
      · rename_i h4
        split at h
        · cases h
        · simp only [Decoded.accept.injEq] at h
          exact Or.inr (Or.inl ⟨h.1.symm, h.2.symm, by omega, h4⟩)
      · split at h
        · rename_i hd
          exact Or.inr (Or.inr ⟨hd, h⟩)
        · cases h

/-- An accepted telegram lies inside the input: `1 ≤ n ≤ length`. -/
theorem accept_inside (bs : Bytes) (t : Telegram) (n : Nat) (h : deserialize bs = .accept t n) :
    1 ≤ n ∧ n ≤ bs.length := by
  rcases accept_cases bs t n h with ⟨-, hn, hl, -⟩ | ⟨-, hn, hl, -⟩ | ⟨-, hd⟩
  · omega
  · omega
  · obtain ⟨off, len, -, hn, hl, -⟩ := dataSpec_accept_inv _ _ _ hd
    omega

/-- A data telegram is accepted only from a well-formed frame: start delimiter SD1/SD3, or SD2 with
LE = LEr ≥ 3 and the repeated SD2; reported length = the announced frame length, inside the input;
the checksum byte equals the byte sum of DA..PDU; the end delimiter is ED; the function-code byte is
valid; and the returned payload is the corresponding slice of the input. -/
theorem accept_only_if_wellformed (bs : Bytes) (h : Header) (pdu : Bytes) (n : Nat)
    (hacc : deserialize bs = .accept (.data h pdu) n) :
    ∃ off len, Shape bs off len ∧ n = off + len + 6 ∧ n ≤ bs.length ∧
      bs.getD (off + len + 4) 0 = checksum ((bs.drop (off + 1)).take (len + 3)) ∧
      bs.getD (off + len + 5) 0 = ED ∧
      FunctionCode.fromByte (bs.getD (off + 3) 0) = .ok h.fc ∧
      h = headerOf (bs.drop off) h.fc ∧
      pdu = ((bs.drop off).drop (4 + sapCount (bs.drop off))).take (len - sapCount (bs.drop off)) := by
  rcases accept_cases bs _ n hacc with ⟨ht, -⟩ | ⟨ht, -⟩ | ⟨-, hd⟩
  · cases ht
  · cases ht
  · obtain ⟨off, len, hsh, hn, hl, hcs, hed, fc, hfc, ht⟩ := dataSpec_accept_inv _ _ _ hd
    simp only [Telegram.data.injEq] at ht
    have hfc' : h.fc = fc := by rw [ht.1]; rfl
    refine ⟨off, len, hsh, hn, hl, hcs, hed, by rw [hfc']; exact hfc, by rw [hfc']; exact ht.1, ht.2⟩

/-! ### Damaged frames -/

theorem frameSpec_first (h : Header) (pdu : Bytes) :
    (frameSpec h pdu).getD 0 0 = SD1 ∨ (frameSpec h pdu).getD 0 0 = SD2 ∨ (frameSpec h pdu).getD 0 0 = SD3 := by
  unfold frameSpec
  simp only
  split
  · left; rfl
  · split
    · right; right; rfl
    · right; left; rfl

/-- **Single-byte corruption.** Take any valid data frame (C09's domain). Replace any one byte by any
different value — except replacing the *first* byte by another start code (finding K1, below) —
and append anything: the decoder never accepts *any* telegram from it. -/
theorem single_byte_error_safe (h : Header) (pdu ext : Bytes)
    (hda : h.da < 128) (hsa : h.sa < 128) (hl : h.lengthByte pdu.length ≤ 249)
    (i : Nat) (v : UInt8) (hi : i < (frameSpec h pdu).length) (hv : v ≠ (frameSpec h pdu).getD i 0)
    (hK : i = 0 → NotStartCode v) (t' : Telegram) (n' : Nat) :
    deserialize ((frameSpec h pdu).set i v ++ ext) ≠ .accept t' n' := by
  have hdec := decode_frame h pdu [] hda hsa hl
  rw [List.append_nil] at hdec
  have hne : (frameSpec h pdu).length ≠ 0 := by omega
  rw [decode_data _ hne (frameSpec_first h pdu)] at hdec
  rw [decode_eq_spec]
  exact data_single_byte _ ext _ hdec (frameSpec_first h pdu) i v hi hv hK t' n'

/-- The same for a short confirmation: a corrupted SC byte that is not another start code is rejected. -/
theorem sc_single_byte_error_safe (v : UInt8) (ext : Bytes) (hK : NotStartCode v) :
    deserialize (sendSc.set 0 v ++ ext) = .reject := by
  apply reject_other
  · simp [sendSc]
  · simpa [sendSc] using hK

/-- Flipping one bit of a start delimiter or of SC never yields another start code (Hamming
distance 4), so *every* single-bit error is covered by the two theorems above. -/
theorem bitflip_not_start_code :
    ∀ sd ∈ [SD1, SD2, SD3, SC], ∀ k ∈ bits, NotStartCode (sd ^^^ (1 <<< k)) := by
  decide

theorem bitflip_ne (b : UInt8) : ∀ k ∈ bits, (b ^^^ (1 <<< k)) ≠ b := by
  have := forall_u8 (fun b => bits.all (fun k => (b ^^^ (1 <<< k)) != b)) (by decide +kernel) b
  simpa using this

/-- **Single-bit errors** in a valid data frame are never accepted as anything. -/
theorem single_bit_error_safe (h : Header) (pdu ext : Bytes)
    (hda : h.da < 128) (hsa : h.sa < 128) (hl : h.lengthByte pdu.length ≤ 249)
    (i : Nat) (k : UInt8) (hk : k ∈ bits) (hi : i < (frameSpec h pdu).length)
    (t' : Telegram) (n' : Nat) :
    deserialize ((frameSpec h pdu).set i ((frameSpec h pdu).getD i 0 ^^^ (1 <<< k)) ++ ext)
      ≠ .accept t' n' := by
  apply single_byte_error_safe h pdu ext hda hsa hl i _ hi (bitflip_ne _ k hk)
  intro hi0
  subst hi0
  rcases frameSpec_first h pdu with e | e | e <;> rw [e] <;> exact bitflip_not_start_code _ (by simp) k hk

/-! ### Finding K1 (inherent to the frame format): the excluded case is real -/

/-- Replacing the first byte of a valid SD1 frame by SD4 decodes as a *token*: the literal
counterexample to "any corruption confined to a single byte is never decoded as a different
telegram".  `10 03 04 6c 73 16` → `dc 03 04 …` = token 4 → 3. -/
theorem misaccept_witness_sd1_sd4 :
    let f := frameSpec ⟨3, 4, none, none, .request .first .srdLow⟩ []
    deserialize f = .accept (.data ⟨3, 4, none, none, .request .first .srdLow⟩ []) 6 ∧
    deserialize (f.set 0 SD4) = .accept (.token 3 4) 3 := by
  decide

/-- … and by SC as a short confirmation. -/
theorem misaccept_witness_sd2_sc :
    let f := frameSpec ⟨3, 4, some 1, none, .request .first .srdLow⟩ [7]
    deserialize (f.set 0 SC) = .accept .sc 1 := by
  decide

end PV.C10
