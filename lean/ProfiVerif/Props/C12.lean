/-
C12 — GAP maintenance polls exactly the own GAP (core: `next_gap_poll` and the sweep it drives).
The station-level clauses (one poll per token visit, status replies) live with the Station model.
-/
import ProfiVerif.Lemmas.Gap

namespace PV.C12
open PV

/-- For every valid parameter triple the function never overflows. -/
theorem next_gap_no_panic (ts ns hsa cur : Nat) (hh : 0 < hsa) (hh2 : hsa ≤ 126) (hc : cur < hsa) :
    nextGapPoll ts ns hsa cur ≠ .panic := by
  rw [nextGapPoll_eq ts ns hsa cur hh hh2 hc]; split <;> simp

/-- **Only the own GAP is polled**: whatever NS is, an address handed out by `next_gap_poll` lies
strictly between TS and NS (cyclically, below HSA) — never TS itself, never at or beyond NS. -/
theorem next_gap_in_gap (ts ns hsa cur a : Nat) (hh : 0 < hsa) (hh2 : hsa ≤ 126) (hc : cur < hsa)
    (h : nextGapPoll ts ns hsa cur = .poll a) : InGap ts ns hsa a := by
  rw [nextGapPoll_eq ts ns hsa cur hh hh2 hc] at h
  split at h
  · cases h; assumption
  · cases h

/-- It is the cyclic successor of the current address … -/
theorem next_gap_is_successor (ts ns hsa cur a : Nat) (hh : 0 < hsa) (hh2 : hsa ≤ 126) (hc : cur < hsa)
    (h : nextGapPoll ts ns hsa cur = .poll a) : a = succAddr hsa cur := by
  rw [nextGapPoll_eq ts ns hsa cur hh hh2 hc] at h
  split at h
  · cases h; rfl
  · cases h

/-- … and the sweep ends exactly when that successor is outside the GAP. -/
theorem next_gap_waiting_iff (ts ns hsa cur : Nat) (hh : 0 < hsa) (hh2 : hsa ≤ 126) (hc : cur < hsa) :
    nextGapPoll ts ns hsa cur = .waiting ↔ ¬ InGap ts ns hsa (succAddr hsa cur) := by
  rw [nextGapPoll_eq ts ns hsa cur hh hh2 hc]
  by_cases hg : InGap ts ns hsa (succAddr hsa cur)
  · simp [hg]
  · simp [hg]

/-- In particular TS itself is never polled, nor NS. -/
theorem never_self_nor_successor (ts ns hsa cur a : Nat) (hh : 0 < hsa) (hh2 : hsa ≤ 126) (hc : cur < hsa)
    (h : nextGapPoll ts ns hsa cur = .poll a) : a ≠ ts ∧ a ≠ ns ∧ a < hsa := by
  have := next_gap_in_gap ts ns hsa cur a hh hh2 hc h
  unfold InGap at this
  obtain ⟨h1, h2, h3⟩ := this
  refine ⟨h2, ?_, h1⟩
  split at h3
  · omega
  · split at h3
    · omega
    · omega

/-- Soundness of a whole sweep (with NS fixed): every polled address is in the GAP. -/
theorem sweep_sound (ts ns hsa : Nat) (hts : ts < hsa) (hh2 : hsa ≤ 126) :
    ∀ fuel cur, cur < hsa → ∀ a ∈ sweepFrom ts ns hsa fuel cur, InGap ts ns hsa a := by
  intro fuel
  induction fuel with
  | zero => intro cur _ a ha; simp [sweepFrom] at ha
  | succ f ih =>
    intro cur hc a ha
    unfold sweepFrom at ha
    cases hn : nextGapPoll ts ns hsa cur with
    | poll x =>
      rw [hn] at ha
      have hx := next_gap_in_gap ts ns hsa cur x (by omega) hh2 hc hn
      simp at ha
      rcases ha with rfl | ha
      · exact hx
      · exact ih x hx.1 a ha
    | waiting => rw [hn] at ha; simp at ha
    | panic => rw [hn] at ha; simp at ha

/-- The k-th polled address of a sweep is `k+1` steps (cyclically) behind the start: the sweep is
ascending, visits no address twice and is over after fewer than HSA polls. -/
theorem sweep_length (ts ns hsa : Nat) (hts : ts < hsa) (hh2 : hsa ≤ 126) :
    ∀ fuel cur, cur < hsa → (sweepFrom ts ns hsa fuel cur).length + off ts hsa cur ≤ hsa - 1 := by
  intro fuel
  induction fuel with
  | zero => intro cur hc; have := off_lt ts hsa cur hts hc; simp [sweepFrom]; omega
  | succ f ih =>
    intro cur hc
    unfold sweepFrom
    cases hn : nextGapPoll ts ns hsa cur with
    | poll x =>
      have hx := next_gap_in_gap ts ns hsa cur x (by omega) hh2 hc hn
      have hs := next_gap_is_successor ts ns hsa cur x (by omega) hh2 hc hn
      have ho := off_succ ts hsa cur hts hc (by rw [← hs]; exact hx.2.1)
      rw [← hs] at ho
      have := ih x hx.1
      simp only [List.length_cons]
      omega
    | waiting => have := off_lt ts hsa cur hts hc; simp; omega
    | panic => have := off_lt ts hsa cur hts hc; simp; omega

theorem sweep_ascending (ts ns hsa : Nat) (hts : ts < hsa) (hh2 : hsa ≤ 126) :
    ∀ fuel cur, cur < hsa → ∀ a ∈ sweepFrom ts ns hsa fuel cur, off ts hsa cur < off ts hsa a := by
  intro fuel
  induction fuel with
  | zero => intro cur _ a ha; simp [sweepFrom] at ha
  | succ f ih =>
    intro cur hc a ha
    unfold sweepFrom at ha
    cases hn : nextGapPoll ts ns hsa cur with
    | poll x =>
      rw [hn] at ha
      have hx := next_gap_in_gap ts ns hsa cur x (by omega) hh2 hc hn
      have hs := next_gap_is_successor ts ns hsa cur x (by omega) hh2 hc hn
      have ho := off_succ ts hsa cur hts hc (by rw [← hs]; exact hx.2.1)
      rw [← hs] at ho
      simp at ha
      rcases ha with rfl | ha
      · omega
      · have := ih x hx.1 a ha; omega
    | waiting => rw [hn] at ha; simp at ha
    | panic => rw [hn] at ha; simp at ha

/-- Each address is polled at most once per sweep. -/
theorem sweep_nodup (ts ns hsa : Nat) (hts : ts < hsa) (hh2 : hsa ≤ 126) :
    ∀ fuel cur, cur < hsa → (sweepFrom ts ns hsa fuel cur).Nodup := by
  intro fuel
  induction fuel with
  | zero => intro cur _; simp [sweepFrom]
  | succ f ih =>
    intro cur hc
    unfold sweepFrom
    cases hn : nextGapPoll ts ns hsa cur with
    | poll x =>
      have hx := next_gap_in_gap ts ns hsa cur x (by omega) hh2 hc hn
      simp only [List.nodup_cons]
      refine ⟨?_, ih x hx.1⟩
      intro hmem
      have := sweep_ascending ts ns hsa hts hh2 f x hx.1 x hmem
      omega
    | waiting => simp
    | panic => simp

/-- **Completeness**: a sweep started at TS polls *every* address of the GAP (so with `sweep_sound`
and `sweep_nodup`: exactly the GAP, each address once, in ascending cyclic order). -/
theorem sweep_complete (ts ns hsa : Nat) (hts : ts < hsa) (hh2 : hsa ≤ 126) (a : Nat)
    (ha : InGap ts ns hsa a) :
    ∀ fuel cur, cur < hsa → off ts hsa cur < off ts hsa a → off ts hsa a - off ts hsa cur ≤ fuel →
      a ∈ sweepFrom ts ns hsa fuel cur := by
  intro fuel
  induction fuel with
  | zero => intro cur _ h1 h2; omega
  | succ f ih =>
    intro cur hc h1 h2
    have hs := succ_lt hsa cur hc
    have hne : succAddr hsa cur ≠ ts := by
      intro h
      -- then off cur = hsa - 1 ≥ off a: contradiction
      have hoa := off_lt ts hsa a hts ha.1
      unfold succAddr at h; unfold off at h1 hoa
      by_cases c1 : cur = hsa - 1 <;> by_cases c2 : cur ≥ ts <;> by_cases c3 : a ≥ ts
      all_goals (first
        | (rw [if_pos c1] at h; first
            | (rw [if_pos c2, if_pos c3] at h1; rw [if_pos c3] at hoa; omega)
            | (rw [if_pos c2, if_neg c3] at h1; rw [if_neg c3] at hoa; omega)
            | (rw [if_neg c2, if_pos c3] at h1; rw [if_pos c3] at hoa; omega)
            | (rw [if_neg c2, if_neg c3] at h1; rw [if_neg c3] at hoa; omega))
        | (rw [if_neg c1] at h; first
            | (rw [if_pos c2, if_pos c3] at h1; rw [if_pos c3] at hoa; omega)
            | (rw [if_pos c2, if_neg c3] at h1; rw [if_neg c3] at hoa; omega)
            | (rw [if_neg c2, if_pos c3] at h1; rw [if_pos c3] at hoa; omega)
            | (rw [if_neg c2, if_neg c3] at h1; rw [if_neg c3] at hoa; omega)))
    have ho := off_succ ts hsa cur hts hc hne
    have hin : InGap ts ns hsa (succAddr hsa cur) := inGap_prefix ts ns hsa a _ hts hs hne ha (by omega)
    unfold sweepFrom
    rw [nextGapPoll_eq ts ns hsa cur (by omega) hh2 hc, if_pos hin]
    simp only [List.mem_cons]
    by_cases hEq : a = succAddr hsa cur
    · exact Or.inl hEq
    · right
      apply ih _ hs
      · have : off ts hsa a ≠ off ts hsa (succAddr hsa cur) := by
          intro he; apply hEq
          have ha1 := ha.1
          unfold off at he
          split at he <;> split at he <;> omega
        omega
      · omega

/-- The whole sweep from TS with fuel HSA is therefore exactly the GAP. -/
theorem sweep_exact (ts ns hsa : Nat) (hts : ts < hsa) (hh2 : hsa ≤ 126) (a : Nat) :
    a ∈ sweepFrom ts ns hsa hsa ts ↔ InGap ts ns hsa a := by
  constructor
  · exact sweep_sound ts ns hsa hts hh2 hsa ts hts a
  · intro ha
    have h0 : off ts hsa ts = 0 := (off_zero_iff ts hsa ts hts hts).mpr rfl
    have hpos : 0 < off ts hsa a := by
      have h := off_zero_iff ts hsa a hts ha.1
      have : off ts hsa a ≠ 0 := fun h0 => ha.2.1 (h.mp h0)
      omega
    have hlt := off_lt ts hsa a hts ha.1
    exact sweep_complete ts ns hsa hts hh2 a ha hsa ts hts (by omega) (by omega)

/-! Non-vacuity and the two F1 witnesses (now in the GAP / end of sweep as they should be). -/
example : nextGapPoll 5 4 10 3 = .waiting := by decide      -- F1 (a): (TS,NS,HSA,cur) = (5,4,10,4) used to give poll 5
example : nextGapPoll 5 4 10 4 = .waiting := by decide
example : nextGapPoll 2 9 10 8 = .waiting := by decide      -- F1 (b): (2,9,10,9) used to wrap to 0
example : sweepFrom 5 4 10 10 5 = [6, 7, 8, 9, 0, 1, 2, 3] := by decide
example : sweepFrom 2 9 10 10 2 = [3, 4, 5, 6, 7, 8] := by decide
example : sweepFrom 7 7 10 10 7 = [8, 9, 0, 1, 2, 3, 4, 5, 6] := by decide
example : InGap 5 4 10 0 := by decide

end PV.C12
