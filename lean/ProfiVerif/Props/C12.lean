/-
C12 — GAP maintenance polls exactly the own GAP (core: `next_gap_poll` and the sweep it drives),
followed by the station-level clauses (one poll per token visit, whole GAP after a claim, the
gap-wait pause, ready master becomes NS, truthful status replies) as exact step theorems about the
handlers of `Model/Station.lean`, for every station state and every input.
-/
import ProfiVerif.Lemmas.Gap
import ProfiVerif.Lemmas.StationGap
import ProfiVerif.Lemmas.StationVisit

namespace PV.C12
open PV

/-- For every valid parameter triple the function never overflows. -/
theorem next_gap_no_panic (ts ns hsa cur : Nat) (hh : 0 < hsa) (hh2 : hsa ≤ 126) (hc : cur < hsa) :
    nextGapPoll ts ns hsa cur ≠ .panic := by
  rw [nextGapPoll_eq ts ns hsa cur hh hh2 hc]; split <;> simp

/-- **Only the own GAP is polled**: whatever NS is, an address handed out by `next_gap_poll` lies
strictly between TS and NS (cyclically, below HSA) — never TS itself, never at or beyond NS. -/
theorem next_gap_in_gap (ts ns hsa cur a : Nat) (hh : 0 < hsa) (hh2 : hsa ≤ 126) (hc : cur < hsa)
    (h : nextGapPoll ts ns hsa cur = .poll a) : InGap ts ns hsa a := by
  rw [nextGapPoll_eq ts ns hsa cur hh hh2 hc] at h
  split at h
  · cases h; assumption
  · cases h

/-- It is the cyclic successor of the current address … -/
theorem next_gap_is_successor (ts ns hsa cur a : Nat) (hh : 0 < hsa) (hh2 : hsa ≤ 126) (hc : cur < hsa)
    (h : nextGapPoll ts ns hsa cur = .poll a) : a = succAddr hsa cur := by
  rw [nextGapPoll_eq ts ns hsa cur hh hh2 hc] at h
  split at h
  · cases h; rfl
  · cases h

/-- … and the sweep ends exactly when that successor is outside the GAP. -/
theorem next_gap_waiting_iff (ts ns hsa cur : Nat) (hh : 0 < hsa) (hh2 : hsa ≤ 126) (hc : cur < hsa) :
    nextGapPoll ts ns hsa cur = .waiting ↔ ¬ InGap ts ns hsa (succAddr hsa cur) := by
  rw [nextGapPoll_eq ts ns hsa cur hh hh2 hc]
  by_cases hg : InGap ts ns hsa (succAddr hsa cur)
  · simp [hg]
  · simp [hg]

/-- In particular TS itself is never polled, nor NS. -/
theorem never_self_nor_successor (ts ns hsa cur a : Nat) (hh : 0 < hsa) (hh2 : hsa ≤ 126) (hc : cur < hsa)
    (h : nextGapPoll ts ns hsa cur = .poll a) : a ≠ ts ∧ a ≠ ns ∧ a < hsa := by
  have := next_gap_in_gap ts ns hsa cur a hh hh2 hc h
  unfold InGap at this
  obtain ⟨h1, h2, h3⟩ := this
  refine ⟨h2, ?_, h1⟩
  split at h3
  · omega
  · split at h3
    · omega
    · omega

/-- Soundness of a whole sweep (with NS fixed): every polled address is in the GAP. -/
theorem sweep_sound (ts ns hsa : Nat) (hts : ts < hsa) (hh2 : hsa ≤ 126) :
    ∀ fuel cur, cur < hsa → ∀ a ∈ sweepFrom ts ns hsa fuel cur, InGap ts ns hsa a := by
  intro fuel
  induction fuel with
  | zero => intro cur _ a ha; simp [sweepFrom] at ha
  | succ f ih =>
    intro cur hc a ha
    unfold sweepFrom at ha
    cases hn : nextGapPoll ts ns hsa cur with
    | poll x =>
      rw [hn] at ha
      have hx := next_gap_in_gap ts ns hsa cur x (by omega) hh2 hc hn
      simp at ha
      rcases ha with rfl | ha
      · exact hx
      · exact ih x hx.1 a ha
    | waiting => rw [hn] at ha; simp at ha
    | panic => rw [hn] at ha; simp at ha

/-- The k-th polled address of a sweep is `k+1` steps (cyclically) behind the start: the sweep is
ascending, visits no address twice and is over after fewer than HSA polls. -/
theorem sweep_length (ts ns hsa : Nat) (hts : ts < hsa) (hh2 : hsa ≤ 126) :
    ∀ fuel cur, cur < hsa → (sweepFrom ts ns hsa fuel cur).length + off ts hsa cur ≤ hsa - 1 := by
  intro fuel
  induction fuel with
  | zero => intro cur hc; have := off_lt ts hsa cur hts hc; simp [sweepFrom]; omega
  | succ f ih =>
    intro cur hc
    unfold sweepFrom
    cases hn : nextGapPoll ts ns hsa cur with
    | poll x =>
      have hx := next_gap_in_gap ts ns hsa cur x (by omega) hh2 hc hn
      have hs := next_gap_is_successor ts ns hsa cur x (by omega) hh2 hc hn
      have ho := off_succ ts hsa cur hts hc (by rw [← hs]; exact hx.2.1)
      rw [← hs] at ho
      have := ih x hx.1
      simp only [List.length_cons]
      omega
    | waiting => have := off_lt ts hsa cur hts hc; simp; omega
    | panic => have := off_lt ts hsa cur hts hc; simp; omega

theorem sweep_ascending (ts ns hsa : Nat) (hts : ts < hsa) (hh2 : hsa ≤ 126) :
    ∀ fuel cur, cur < hsa → ∀ a ∈ sweepFrom ts ns hsa fuel cur, off ts hsa cur < off ts hsa a := by
  intro fuel
  induction fuel with
  | zero => intro cur _ a ha; simp [sweepFrom] at ha
  | succ f ih =>
    intro cur hc a ha
    unfold sweepFrom at ha
    cases hn : nextGapPoll ts ns hsa cur with
    | poll x =>
      rw [hn] at ha
      have hx := next_gap_in_gap ts ns hsa cur x (by omega) hh2 hc hn
      have hs := next_gap_is_successor ts ns hsa cur x (by omega) hh2 hc hn
      have ho := off_succ ts hsa cur hts hc (by rw [← hs]; exact hx.2.1)
      rw [← hs] at ho
      simp at ha
      rcases ha with rfl | ha
      · omega
      · have := ih x hx.1 a ha; omega
    | waiting => rw [hn] at ha; simp at ha
    | panic => rw [hn] at ha; simp at ha

/-- Each address is polled at most once per sweep. -/
theorem sweep_nodup (ts ns hsa : Nat) (hts : ts < hsa) (hh2 : hsa ≤ 126) :
    ∀ fuel cur, cur < hsa → (sweepFrom ts ns hsa fuel cur).Nodup := by
  intro fuel
  induction fuel with
  | zero => intro cur _; simp [sweepFrom]
  | succ f ih =>
    intro cur hc
    unfold sweepFrom
    cases hn : nextGapPoll ts ns hsa cur with
    | poll x =>
      have hx := next_gap_in_gap ts ns hsa cur x (by omega) hh2 hc hn
      simp only [List.nodup_cons]
      refine ⟨?_, ih x hx.1⟩
      intro hmem
      have := sweep_ascending ts ns hsa hts hh2 f x hx.1 x hmem
      omega
    | waiting => simp
    | panic => simp

/-- **Completeness**: a sweep started at TS polls *every* address of the GAP (so with `sweep_sound`
and `sweep_nodup`: exactly the GAP, each address once, in ascending cyclic order). -/
theorem sweep_complete (ts ns hsa : Nat) (hts : ts < hsa) (hh2 : hsa ≤ 126) (a : Nat)
    (ha : InGap ts ns hsa a) :
    ∀ fuel cur, cur < hsa → off ts hsa cur < off ts hsa a → off ts hsa a - off ts hsa cur ≤ fuel →
      a ∈ sweepFrom ts ns hsa fuel cur := by
  intro fuel
  induction fuel with
  | zero => intro cur _ h1 h2; omega
  | succ f ih =>
    intro cur hc h1 h2
    have hs := succ_lt hsa cur hc
    have hne : succAddr hsa cur ≠ ts := by
      intro h
      -- then off cur = hsa - 1 ≥ off a: contradiction
      have hoa := off_lt ts hsa a hts ha.1
      unfold succAddr at h; unfold off at h1 hoa
      by_cases c1 : cur = hsa - 1 <;> by_cases c2 : cur ≥ ts <;> by_cases c3 : a ≥ ts
      all_goals (first
        | (rw [if_pos c1] at h; first
            | (rw [if_pos c2, if_pos c3] at h1; rw [if_pos c3] at hoa; omega)
            | (rw [if_pos c2, if_neg c3] at h1; rw [if_neg c3] at hoa; omega)
            | (rw [if_neg c2, if_pos c3] at h1; rw [if_pos c3] at hoa; omega)
            | (rw [if_neg c2, if_neg c3] at h1; rw [if_neg c3] at hoa; omega))
        | (rw [if_neg c1] at h; first
            | (rw [if_pos c2, if_pos c3] at h1; rw [if_pos c3] at hoa; omega)
            | (rw [if_pos c2, if_neg c3] at h1; rw [if_neg c3] at hoa; omega)
            | (rw [if_neg c2, if_pos c3] at h1; rw [if_pos c3] at hoa; omega)
            | (rw [if_neg c2, if_neg c3] at h1; rw [if_neg c3] at hoa; omega)))
    have ho := off_succ ts hsa cur hts hc hne
    have hin : InGap ts ns hsa (succAddr hsa cur) := inGap_prefix ts ns hsa a _ hts hs hne ha (by omega)
    unfold sweepFrom
    rw [nextGapPoll_eq ts ns hsa cur (by omega) hh2 hc, if_pos hin]
    simp only [List.mem_cons]
    by_cases hEq : a = succAddr hsa cur
    · exact Or.inl hEq
    · right
      apply ih _ hs
      · have : off ts hsa a ≠ off ts hsa (succAddr hsa cur) := by
          intro he; apply hEq
          have ha1 := ha.1
          unfold off at he
          split at he <;> split at he <;> omega
        omega
      · omega

/-- The whole sweep from TS with fuel HSA is therefore exactly the GAP. -/
theorem sweep_exact (ts ns hsa : Nat) (hts : ts < hsa) (hh2 : hsa ≤ 126) (a : Nat) :
    a ∈ sweepFrom ts ns hsa hsa ts ↔ InGap ts ns hsa a := by
  constructor
  · exact sweep_sound ts ns hsa hts hh2 hsa ts hts a
  · intro ha
    have h0 : off ts hsa ts = 0 := (off_zero_iff ts hsa ts hts hts).mpr rfl
    have hpos : 0 < off ts hsa a := by
      have h := off_zero_iff ts hsa a hts ha.1
      have : off ts hsa a ≠ 0 := fun h0 => ha.2.1 (h.mp h0)
      omega
    have hlt := off_lt ts hsa a hts ha.1
    exact sweep_complete ts ns hsa hts hh2 a ha hsa ts hts (by omega) (by omega)

/-! Non-vacuity and the two F1 witnesses (now in the GAP / end of sweep as they should be). -/
example : nextGapPoll 5 4 10 3 = .waiting := by decide      -- F1 (a): (TS,NS,HSA,cur) = (5,4,10,4) used to give poll 5
example : nextGapPoll 5 4 10 4 = .waiting := by decide
example : nextGapPoll 2 9 10 8 = .waiting := by decide      -- F1 (b): (2,9,10,9) used to wrap to 0
example : sweepFrom 5 4 10 10 5 = [6, 7, 8, 9, 0, 1, 2, 3] := by decide
example : sweepFrom 2 9 10 10 2 = [3, 4, 5, 6, 7, 8] := by decide
example : sweepFrom 7 7 10 10 7 = [8, 9, 0, 1, 2, 3, 4, 5, 6] := by decide
example : InGap 5 4 10 0 := by decide

/-! # Station level

All theorems below are about the handlers of `Model/Station.lean` (tied byte-exactly to
`src/fdl/active.rs` by the station correspondence) and hold for EVERY context `c` (station state,
application scripts, receive buffer) and every time `now`.  `c.tx = none` says that nothing was
handed to the PHY earlier in this poll (true at the start of every poll: `Station.poll` starts with
`tx := none`). -/

open StationGap

/-! ## 1. One GAP poll per token visit -/

/-- While the synchronisation pause is not over `do_pass_token` does nothing (in particular no GAP
bookkeeping, no poll). -/
theorem pass_token_waits (c : Ctx) (now : Int) (g : Bool) (att : Attempt) (hst : c.s.st = .passToken g att)
    (hw : ¬ SyncOver c.s now) : doPassToken c now = .ok { c with s := stamped c.s now } := by
  unfold doPassToken
  rw [hst]
  have : (waitSyncPause c.s now).2 = true := by simpa [SyncOver] using hw
  simp [this, sync_stamped]

/-- **`gap_poll_once_per_visit` (exact step)**: `do_pass_token` at the end of a token visit
(`do_gap = Yes`) advances the GAP state by exactly one `gapAdvance` step and then
* transmits ONE FDL status request, to the new poll address `a`, and awaits its answer
  (`AwaitStatusResponse a`) — the token is not passed in this poll; or
* (GAP state `Waiting`) transmits no request and passes the token on. -/
theorem gap_poll_once_per_visit (c : Ctx) (now : Int) (att : Attempt)
    (hst : c.s.st = .passToken true att) (htx : c.tx = none) (hw : SyncOver c.s now) :
    match gapAdvance (stamped c.s now) with
    | none => doPassToken c now = .panic "next_gap_poll overflow"
    | some (.doPoll a) =>
      a ≠ c.s.p.address →
        doPassToken c now =
          .ok { c with tx := some (statusRequestBytes a c.s.p.address),
                       s := { (markTx { (stamped c.s now) with gap := .doPoll a } now 6) with st := .awaitStatus a } }
    | some (.waiting r) =>
      doPassToken c now = passTokenOn { c with s := { (stamped c.s now) with gap := .waiting r } } now att := by
  have hw' : (waitSyncPause c.s now).2 = false := hw
  unfold doPassToken
  rw [hst]
  simp only [hw', sync_stamped, if_true, Bool.false_eq_true, if_false]
  cases hga : gapAdvance (stamped c.s now) with
  | none => simp
  | some g =>
    cases g with
    | doPoll a =>
      intro hne
      simp only [upd]
      rw [transmitGapPoll_poll { c with s := { (stamped c.s now) with gap := .doPoll a } } now a rfl hne htx]
      simp [tr, toAwaitStatus, markTx, hst]
    | waiting r =>
      simp only [upd]
      rw [transmitGapPoll_waiting { c with s := { (stamped c.s now) with gap := .waiting r } } now r rfl]

/-- Readable corollary: whatever happens in a `do_pass_token` poll with `do_gap = Yes`, the station
transmits nothing, or one status request (and is then in `AwaitStatusResponse` for exactly the
polled address, which is the address `gapAdvance` computed), or the token to NS. -/
theorem gap_poll_once_per_visit_outcomes (c c' : Ctx) (now : Int) (att : Attempt)
    (hst : c.s.st = .passToken true att) (htx : c.tx = none) (h : doPassToken c now = .ok c') :
    (c'.tx = none ∧ c'.s.st = .passToken true att ∧ c'.s.gap = c.s.gap) ∨
    (∃ a, gapAdvance (stamped c.s now) = some (.doPoll a) ∧ c'.tx = some (statusRequestBytes a c.s.p.address) ∧
          c'.s.st = .awaitStatus a ∧ c'.s.gap = .doPoll a) ∨
    (∃ r, gapAdvance (stamped c.s now) = some (.waiting r) ∧ c'.tx = some (tokenBytes c.s.ring.ns c.s.p.address) ∧
          c'.s.gap = .waiting r ∧ (c'.s.st = .checkTokenPass att ∨ c'.s.st = .useToken ⟨now, none⟩ false)) := by
  by_cases hw : SyncOver c.s now
  · have hstep := gap_poll_once_per_visit c now att hst htx hw
    cases hga : gapAdvance (stamped c.s now) with
    | none => rw [hga] at hstep; rw [hstep] at h; cases h
    | some g =>
      rw [hga] at hstep
      cases g with
      | doPoll a =>
        simp only at hstep
        by_cases hne : a = c.s.p.address
        · -- the code would trip its `debug_assert_ne!`: no regular outcome
          exfalso
          have hw' : (waitSyncPause c.s now).2 = false := hw
          unfold doPassToken at h
          rw [hst] at h
          simp only [hw', sync_stamped, if_true, Bool.false_eq_true, if_false, hga, upd] at h
          rw [transmitGapPoll_self { c with s := { (stamped c.s now) with gap := .doPoll a } } now (by simp [hne])] at h
          cases h
        · rw [hstep hne] at h
          cases h
          exact Or.inr (Or.inl ⟨a, rfl, rfl, rfl, rfl⟩)
      | waiting r =>
        simp only at hstep
        rw [hstep, passTokenOn_eq { c with s := { (stamped c.s now) with gap := .waiting r } } now att true att (by simpa using hst) htx] at h
        cases h
        refine Or.inr (Or.inr ⟨r, rfl, rfl, rfl, ?_⟩)
        simp only
        split
        · exact Or.inr rfl
        · exact Or.inl rfl
  · rw [pass_token_waits c now true att hst hw] at h
    cases h
    exact Or.inl ⟨htx, by simpa using hst, rfl⟩

/-- After the answer or the time-out the token is passed WITHOUT another GAP poll: `do_pass_token`
with `do_gap = No` leaves the GAP state alone and transmits the token to NS. -/
theorem pass_token_without_gap (c : Ctx) (now : Int) (att : Attempt)
    (hst : c.s.st = .passToken false att) (htx : c.tx = none) (hw : SyncOver c.s now) :
    doPassToken c now =
      .ok { c with
        tx := some (tokenBytes c.s.ring.ns c.s.p.address),
        s := { (markTx (stamped c.s now) now 3) with
          ring := c.s.ring.witness c.s.p.address c.s.ring.ns,
          st := if (c.s.ring.witness c.s.p.address c.s.ring.ns).ns = c.s.p.address
                then FState.useToken ⟨now, none⟩ false else FState.checkTokenPass att } } := by
  have hw' : (waitSyncPause c.s now).2 = false := hw
  unfold doPassToken
  rw [hst]
  simp only [hw', sync_stamped, Bool.false_eq_true, if_false]
  rw [passTokenOn_eq { c with s := stamped c.s now } now att false att (by simpa using hst) htx]
  rfl

/-- `do_await_status_response`, nothing received and the slot time not yet over: keep waiting. -/
theorem await_status_waits (c : Ctx) (now : Int) (addr : Nat) (rx' : Bytes) (ret : Bool)
    (hst : c.s.st = .awaitStatus addr) (hne : addr ≠ c.s.p.address) (hg : c.s.gap = .doPoll addr)
    (hrx : receiveTelegram c.rx = .done rx' [] ret) (hex : ¬ SlotExpired c.s now) :
    doAwaitStatusResponse c now = .ok { c with rx := rx', s := stamped c.s now } := by
  have hex' : (checkSlotExpired c.s now).2 = false := by simpa [SlotExpired] using hex
  unfold doAwaitStatusResponse
  rw [hst]
  simp only [awaitGap_silent c now addr rx' ret hne hg hrx, hex', Bool.false_eq_true, if_false]

/-- … slot time over without an answer: straight on to `PassToken` with `do_gap = No`, handled in
the same poll. -/
theorem await_status_timeout (c : Ctx) (now : Int) (addr : Nat) (rx' : Bytes) (ret : Bool)
    (hst : c.s.st = .awaitStatus addr) (hne : addr ≠ c.s.p.address) (hg : c.s.gap = .doPoll addr)
    (hrx : receiveTelegram c.rx = .done rx' [] ret) (hex : SlotExpired c.s now) :
    doAwaitStatusResponse c now =
      doPassToken { c with rx := rx', s := { (stamped c.s now) with st := .passToken false .first } } now := by
  have hex' : (checkSlotExpired c.s now).2 = true := hex
  unfold doAwaitStatusResponse
  rw [hst]
  simp only [awaitGap_silent c now addr rx' ret hne hg hrx, hex', if_true]
  simp [tr, toPassToken, hst, Res.bind]

/-- … a response telegram from the polled address: the ring view is updated iff the reply admits
the station (`Admits`), and the state becomes `PassToken` with `do_gap = No`. -/
theorem await_status_reply (c : Ctx) (now : Int) (addr : Nat) (rx' : Bytes) (t : Telegram) (l ret : Bool)
    (rest : List (Telegram × Bool)) (state : ResponseState) (status : ResponseStatus)
    (hst : c.s.st = .awaitStatus addr) (hne : addr ≠ c.s.p.address) (hg : c.s.gap = .doPoll addr)
    (hrx : receiveTelegram c.rx = .done rx' ((t, l) :: rest) ret)
    (hr : replyOf c.s.p.address addr t = some (state, status)) :
    doAwaitStatusResponse c now =
      if Admits state status then
        match c.s.ring.setNextStation addr with
        | some r => .ok { c with rx := rx', s := { (markRx c.s now) with ring := r, st := .passToken false .first } }
        | none => .panic "set_next_station index"
      else .ok { c with rx := rx', s := { (markRx c.s now) with st := .passToken false .first } } := by
  have hst' : (markRx c.s now).st = .awaitStatus addr := by simpa [markRx, markBusActivity] using hst
  unfold doAwaitStatusResponse
  rw [hst]
  by_cases ha : Admits state status
  · simp only [awaitGap_admit c now addr rx' t l ret rest state status hne hg hrx hr ha, if_pos ha]
    cases c.s.ring.setNextStation addr with
    | none => rfl
    | some r => simp [tr, toPassToken, hst']
  · simp only [awaitGap_other c now addr rx' t l ret rest state status hne hg hrx hr ha, if_neg ha]
    simp [tr, toPassToken, hst']

/-- … anything else: the station backs off into `ActiveIdle` (it no longer holds the token). -/
theorem await_status_unexpected (c : Ctx) (now : Int) (addr : Nat) (rx' : Bytes) (t : Telegram) (l ret : Bool)
    (rest : List (Telegram × Bool))
    (hst : c.s.st = .awaitStatus addr) (hne : addr ≠ c.s.p.address) (hg : c.s.gap = .doPoll addr)
    (hrx : receiveTelegram c.rx = .done rx' ((t, l) :: rest) ret)
    (hr : replyOf c.s.p.address addr t = none) :
    doAwaitStatusResponse c now =
      .ok { c with rx := rx', s := { (markRx c.s now) with st := .activeIdle none none 0 } } := by
  have hst' : (markRx c.s now).st = .awaitStatus addr := by simpa [markRx, markBusActivity] using hst
  unfold doAwaitStatusResponse
  rw [hst]
  simp only [awaitGap_unexpected c now addr rx' t l ret rest hne hg hrx hr]
  simp [tr, toActiveIdle, hst']

/-- **No second GAP poll in the same visit**: whatever is received, `do_await_status_response`
transmits nothing or the token to NS — never another status request — and it leaves
`AwaitStatusResponse` only towards `PassToken` with `do_gap = No`, (on a time-out) directly on to the
supervision of the token pass, or (unexpected telegram) into `ActiveIdle`. -/
theorem await_status_outcomes (c c' : Ctx) (now : Int) (addr : Nat)
    (hst : c.s.st = .awaitStatus addr) (htx : c.tx = none) (h : doAwaitStatusResponse c now = .ok c') :
    (c'.tx = none ∧ c'.s.gap = c.s.gap ∧
      (c'.s.st = .awaitStatus addr ∨ c'.s.st = .passToken false .first ∨ c'.s.st = .activeIdle none none 0)) ∨
    (c'.tx = some (tokenBytes c.s.ring.ns c.s.p.address) ∧ c'.s.gap = c.s.gap ∧
      (c'.s.st = .checkTokenPass .first ∨ c'.s.st = .useToken ⟨now, none⟩ false)) := by
  by_cases hne : addr = c.s.p.address
  · exfalso
    have := awaitGap_self c now addr hne
    unfold doAwaitStatusResponse at h
    rw [hst] at h
    simp only at h
    split at h <;> simp_all
  by_cases hg' : c.s.gap ≠ .doPoll addr
  · exfalso
    have := awaitGap_wrongGap c now addr hne hg'
    unfold doAwaitStatusResponse at h
    rw [hst] at h
    simp only at h
    split at h <;> simp_all
  have hg : c.s.gap = .doPoll addr := Decidable.not_not.mp hg'
  cases hrx : receiveTelegram c.rx with
  | panic =>
    exfalso
    obtain ⟨m, hm⟩ := awaitGap_rxPanic c now addr hne hg (Or.inl hrx)
    unfold doAwaitStatusResponse at h
    rw [hst] at h
    simp only at h
    split at h <;> simp_all
  | hang =>
    exfalso
    obtain ⟨m, hm⟩ := awaitGap_rxPanic c now addr hne hg (Or.inr hrx)
    unfold doAwaitStatusResponse at h
    rw [hst] at h
    simp only at h
    split at h <;> simp_all
  | done rx' calls ret =>
    cases calls with
    | nil =>
      by_cases hex : SlotExpired c.s now
      · rw [await_status_timeout c now addr rx' ret hst hne hg hrx hex] at h
        obtain ⟨c1, hc1⟩ : ∃ c1 : Ctx, c1 = { c with rx := rx', s := { (stamped c.s now) with st := .passToken false .first } } :=
          ⟨_, rfl⟩
        rw [← hc1] at h
        have h1 : c1.s.st = .passToken false .first := by rw [hc1]
        have h2 : c1.tx = none := by rw [hc1]; exact htx
        have h3 : c1.s.ring = c.s.ring ∧ c1.s.p = c.s.p ∧ c1.s.gap = c.s.gap := by rw [hc1]; exact ⟨rfl, rfl, rfl⟩
        by_cases hw : SyncOver c1.s now
        · rw [pass_token_without_gap c1 now .first h1 h2 hw] at h
          cases h
          refine Or.inr ⟨by simp only [h3.1, h3.2.1], by simpa [markTx] using h3.2.2, ?_⟩
          simp only
          split
          · exact Or.inr rfl
          · exact Or.inl rfl
        · rw [pass_token_waits c1 now false .first h1 hw] at h
          cases h
          exact Or.inl ⟨h2, by simpa using h3.2.2, Or.inr (Or.inl (by simpa using h1))⟩
      · rw [await_status_waits c now addr rx' ret hst hne hg hrx hex] at h
        cases h
        exact Or.inl ⟨htx, rfl, Or.inl (by simpa using hst)⟩
    | cons tl rest =>
      obtain ⟨t, l⟩ := tl
      cases hr : replyOf c.s.p.address addr t with
      | none =>
        rw [await_status_unexpected c now addr rx' t l ret rest hst hne hg hrx hr] at h
        cases h
        exact Or.inl ⟨htx, rfl, Or.inr (Or.inr rfl)⟩
      | some ss =>
        obtain ⟨state, status⟩ := ss
        rw [await_status_reply c now addr rx' t l ret rest state status hst hne hg hrx hr] at h
        split at h
        · split at h
          · cases h
            exact Or.inl ⟨htx, rfl, Or.inr (Or.inl rfl)⟩
          · cases h
        · cases h
          exact Or.inl ⟨htx, rfl, Or.inr (Or.inl rfl)⟩

/-- **Only the own GAP is polled** (station level): the address `do_pass_token` polls at the end of
a visit lies in the station's GAP with respect to its ring view at that poll — strictly between TS
and NS, below HSA, never TS or NS.  (`hcur`: the sweep cursor is below HSA — part of the station
invariant `Inv.gap` of C05.) -/
theorem gap_poll_only_own_gap (s : Station) (a : Nat) (hts : s.p.address < s.p.hsa) (hh : s.p.hsa ≤ 126)
    (hcur : ∀ cur, s.gap = .doPoll cur → cur < s.p.hsa) (h : gapAdvance s = some (.doPoll a)) :
    InGap s.p.address s.ring.ns s.p.hsa a := by
  have key : ∀ cur, cur < s.p.hsa → nextGap s cur = some (.doPoll a) → InGap s.p.address s.ring.ns s.p.hsa a := by
    intro cur hc hn
    unfold nextGap at hn
    cases hp : nextGapPoll s.p.address s.ring.ns s.p.hsa cur with
    | poll x =>
      rw [hp] at hn
      simp only [Option.some.injEq, GapState.doPoll.injEq] at hn
      subst hn
      exact next_gap_in_gap _ _ _ cur x (by omega) hh hc hp
    | waiting => rw [hp] at hn; simp at hn
    | panic => rw [hp] at hn; simp at hn
  unfold gapAdvance at h
  cases hg : s.gap with
  | waiting rot =>
    rw [hg] at h
    simp only at h
    split at h
    · exact key _ hts h
    · simp at h
  | doPoll cur =>
    rw [hg] at h
    exact key cur (hcur cur hg) h

/-- The same for the post-claim scan (`claim_scan_step` polls `next_gap_poll(cur)`). -/
theorem claim_poll_only_own_gap (s : Station) (cur a : Nat) (hts : s.p.address < s.p.hsa) (hh : s.p.hsa ≤ 126)
    (hcur : cur < s.p.hsa) (h : nextGap s cur = some (.doPoll a)) :
    InGap s.p.address s.ring.ns s.p.hsa a := by
  unfold nextGap at h
  cases hp : nextGapPoll s.p.address s.ring.ns s.p.hsa cur with
  | poll x =>
    rw [hp] at h
    simp only [Option.some.injEq, GapState.doPoll.injEq] at h
    subst h
    exact next_gap_in_gap _ _ _ cur x (by omega) hh hcur hp
  | waiting => rw [hp] at h; simp at h
  | panic => rw [hp] at h; simp at h

/-- **End of the token hold** (`passNow`, since the repair of K3): `do_use_token` moves to `PassToken`
with `do_gap = Yes` and runs `do_pass_token` in the same poll.  So that poll transmits nothing (pause
not over), or the ONE GAP poll of this visit (then `AwaitStatusResponse` for the polled address), or
the token to NS. -/
theorem hold_end_outcomes (c c' : Ctx) (now : Int) (htx : c.tx = none) (h : passNow c now = .ok c') :
    (c'.tx = none ∧ c'.s.st = .passToken true .first ∧ c'.s.gap = c.s.gap) ∨
    (∃ a, gapAdvance (stamped c.s now) = some (.doPoll a) ∧ c'.tx = some (statusRequestBytes a c.s.p.address) ∧
          c'.s.st = .awaitStatus a ∧ c'.s.gap = .doPoll a) ∨
    (∃ r, gapAdvance (stamped c.s now) = some (.waiting r) ∧ c'.tx = some (tokenBytes c.s.ring.ns c.s.p.address) ∧
          c'.s.gap = .waiting r ∧ (c'.s.st = .checkTokenPass .first ∨ c'.s.st = .useToken ⟨now, none⟩ false)) := by
  unfold passNow at h
  cases htr : tr c (fun s => toPassToken s true .first) "transition_pass_token" with
  | panic m => rw [htr] at h; cases h
  | ok c1 =>
    rw [htr] at h
    simp only [Res.bind] at h
    obtain ⟨s', hs', rfl⟩ := tr_cases _ _ _ _ htr
    have hs'eq : s' = { c.s with st := .passToken true .first } := by
      unfold toPassToken at hs'
      split at hs' <;> first | (cases hs'; rfl) | cases hs'
    subst hs'eq
    exact gap_poll_once_per_visit_outcomes { c with s := { c.s with st := .passToken true .first } } c' now .first rfl htx h

/-- **What a poll of the application phase puts on the bus** (`Station.poll` in `UseToken` /
`AwaitDataResponse`, any inputs): nothing; or a message cycle of an application (its
`transmit_telegram` returned a telegram; the station stays in the visit); or — the token hold ends in
this poll — the own GAP poll, after which the station is in `AwaitStatusResponse` for the polled
address; or the token.  Hence a status request in this phase is either an application's or is counted
by `gapPolls`. -/
theorem visit_poll_outcomes (s : Station) (apps : Apps) (now : Int) (phyTx : Bool) (rx : Bytes) (c' : Ctx)
    (hin : StationVisit.inVisit s.st = true) (h : s.poll apps now phyTx rx = .ok c') :
    c'.tx = none ∨
    (StationVisit.hasSend c'.calls = true ∧ StationVisit.inVisit c'.s.st = true) ∨
    (∃ a, c'.tx = some (statusRequestBytes a s.p.address) ∧ c'.s.st = .awaitStatus a ∧ c'.s.gap = .doPoll a) ∨
    (∃ ns, c'.tx = some (tokenBytes ns s.p.address) ∧
      (c'.s.st = .checkTokenPass .first ∨ c'.s.st = .useToken ⟨now, none⟩ false)) := by
  rcases StationVisit.poll_visit_cases s apps now phyTx rx c' hin h with h1 | h1 | ⟨c1, h1, h2, h3⟩
  · exact Or.inl h1
  · exact Or.inr (Or.inl h1)
  · rcases hold_end_outcomes c1 c' now h1 h3 with ⟨ht, _, _⟩ | ⟨a, _, ht, hs, hg⟩ | ⟨r, _, ht, _, hs⟩
    · exact Or.inl ht
    · exact Or.inr (Or.inr (Or.inl ⟨a, by rw [ht, h2], hs, hg⟩))
    · exact Or.inr (Or.inr (Or.inr ⟨c1.s.ring.ns, by rw [ht, h2], hs⟩))

/-! ### … as one theorem over the polls of a whole token visit -/

/-- One poll (`Station.poll`, any inputs) of a station that is past the application phase of its
visit (`phase ≥ 1`): a status request (SD1 frame) is transmitted only on the step from phase 1
(`PassToken`, `do_gap = Yes`) to phase 2 (`AwaitStatusResponse`), and from phase 2 or 3 the station
never returns to phase 1. -/
theorem poll_gap_phase (s : Station) (apps : Apps) (now : Int) (phyTx : Bool) (rx : Bytes) (c' : Ctx) (ph : Nat)
    (hph : phase s.st = some ph) (hne : ph ≠ 0) (h : s.poll apps now phyTx rx = .ok c') :
    (isSd1 c'.tx = true → ph = 1 ∧ phase c'.s.st = some 2) ∧
    (2 ≤ ph → phase c'.s.st ≠ some 1) := by
  have h1 : s.st ≠ .offline := by intro hh; rw [hh] at hph; simp [phase] at hph
  have h2 : s.st ≠ .passiveIdle := by intro hh; rw [hh] at hph; simp [phase] at hph
  rcases poll_cases s apps now phyTx rx c' h1 h2 h with rfl | hd
  · -- own transmission still running
    refine ⟨fun hh => (by simp [isSd1] at hh), fun h2 => ?_⟩
    simp only [markBusActivity]
    rw [hph]
    simp
    omega
  · have hc := checkBusActivity_core s now rx.length
    obtain ⟨s1, hs1⟩ : ∃ s1, checkBusActivity s now rx.length = s1 := ⟨_, rfl⟩
    rw [hs1] at hd hc
    unfold dispatch at hd
    cases hst : s.st with
    | passToken g att =>
      have hst1 : s1.st = .passToken g att := by rw [hc.1]; exact hst
      simp only [hst1] at hd
      cases g with
      | true =>
        have hph1 : ph = 1 := by rw [hst] at hph; simp [phase] at hph; omega
        rcases gap_poll_once_per_visit_outcomes { s := s1, apps := apps, rx := rx } c' now att hst1 rfl hd with
          ⟨ht, _, _⟩ | ⟨a, _, ht, hs, _⟩ | ⟨r, _, ht, _, _⟩
        · exact ⟨fun hh => (by rw [ht] at hh; simp [isSd1] at hh), fun h2 => by omega⟩
        · exact ⟨fun _ => ⟨hph1, by rw [hs]; rfl⟩, fun h2 => by omega⟩
        · exact ⟨fun hh => (by rw [ht, isSd1_token] at hh; cases hh), fun h2 => by omega⟩
      | false =>
        by_cases hw : SyncOver s1 now
        · rw [pass_token_without_gap { s := s1, apps := apps, rx := rx } now att hst1 rfl hw] at hd
          have hd' := Res.ok.inj hd
          subst hd'
          refine ⟨fun hh => (by simp only [isSd1_token] at hh; cases hh), fun _ => ?_⟩
          simp only
          split <;> simp [phase]
        · rw [pass_token_waits { s := s1, apps := apps, rx := rx } now false att hst1 hw] at hd
          have hd' := Res.ok.inj hd
          subst hd'
          exact ⟨fun hh => (by simp [isSd1] at hh), fun _ => by simp [hst1, phase]⟩
    | awaitStatus addr =>
      have hst1 : s1.st = .awaitStatus addr := by rw [hc.1]; exact hst
      simp only [hst1] at hd
      rcases await_status_outcomes { s := s1, apps := apps, rx := rx } c' now addr hst1 rfl hd with
        ⟨ht, _, hs⟩ | ⟨ht, _, hs⟩
      · refine ⟨fun hh => (by rw [ht] at hh; simp [isSd1] at hh), fun _ => ?_⟩
        rcases hs with hs | hs | hs <;> (rw [hs]; simp [phase])
      · refine ⟨fun hh => (by rw [ht, isSd1_token] at hh; cases hh), fun _ => ?_⟩
        rcases hs with hs | hs <;> (rw [hs]; simp [phase])
    | useToken d f => rw [hst] at hph; simp [phase] at hph; omega
    | awaitData a d => rw [hst] at hph; simp [phase] at hph; omega
    | _ => rw [hst] at hph; simp [phase] at hph

/-- Outside a visit nothing is counted. -/
theorem gapPolls_none (s : Station) (apps : Apps) (ins : List (Int × Bool × Bytes)) (h : phase s.st = none) :
    gapPolls s apps ins = some 0 := by
  cases ins with
  | nil => rfl
  | cons x rest => obtain ⟨now, phyTx, rx⟩ := x; simp [gapPolls, h]

/-- **`one_gap_poll_per_visit`**: over ANY sequence of polls of one token visit — arbitrary times,
received bytes, PHY states, application scripts, station state, from the token receipt (`UseToken`)
to the token pass — the station transmits at most ONE FDL status request of its own (one that is
not an application's message cycle, see `gapPolls` and `visit_poll_outcomes`), and after that request
no further one before the token has left (or a new visit has begun).  (The post-claim sweep is not a
visit in this sense: `ClaimToken` has no phase; its behaviour is `claim_scan_step` /
`claim_sweeps_whole_gap`.) -/
theorem one_gap_poll_per_visit : ∀ (ins : List (Int × Bool × Bytes)) (s : Station) (apps : Apps) (n : Nat),
    gapPolls s apps ins = some n →
    n + (if phase s.st = some 2 ∨ phase s.st = some 3 then 1 else 0) ≤ 1 := by
  intro ins
  induction ins with
  | nil =>
    intro s apps n h
    simp only [gapPolls, Option.some.injEq] at h
    subst h
    split <;> omega
  | cons x rest ih =>
    intro s apps n h
    obtain ⟨now, phyTx, rx⟩ := x
    cases hph : phase s.st with
    | none =>
      rw [gapPolls_none s apps _ hph] at h
      cases h
      simp
    | some ph =>
      simp only [gapPolls, hph] at h
      cases hp : s.poll apps now phyTx rx with
      | panic m => rw [hp] at h; cases h
      | ok c' =>
        rw [hp] at h
        simp only at h
        obtain ⟨k, hk⟩ : ∃ k : Nat, k = if isSd1 c'.tx = true ∧ (ph ≠ 0 ∨ phase c'.s.st = some 2) then 1 else 0 :=
          ⟨_, rfl⟩
        rw [← hk] at h
        have hk01 : k = 0 ∨ k = 1 := by rw [hk]; split <;> simp
        by_cases h0 : ph = 0
        · -- application phase: the only counted request is the one that leads to AwaitStatusResponse
          subst h0
          simp only [ne_eq, not_true_eq_false, false_and, if_false, Option.map_eq_some_iff] at h
          obtain ⟨m, hm, rfl⟩ := h
          have hrec := ih c'.s c'.apps m hm
          have hw0 : (if some 0 = some 2 ∨ some 0 = some 3 then 1 else 0) = 0 := by simp
          rw [hw0]
          rcases hk01 with hk0 | hk1
          · rw [hk0]; omega
          · have hp2 : phase c'.s.st = some 2 := by
              rw [hk1] at hk
              split at hk
              · rename_i hc
                rcases hc.2 with hc2 | hc2
                · exact absurd rfl hc2
                · exact hc2
              · cases hk
            rw [hp2] at hrec
            simp at hrec
            omega
        · have hv := poll_gap_phase s apps now phyTx rx c' ph hph h0 hp
          -- a counted request comes from phase 1 and leads to phase 2
          have hk1 : k = 1 → ph = 1 ∧ phase c'.s.st = some 2 := by
            intro hk1
            rw [hk1] at hk
            split at hk
            · rename_i hc; exact hv.1 hc.1
            · cases hk
          split at h
          · -- a new visit begins: stop
            simp only [Option.some.injEq] at h
            subst h
            rcases hk01 with hk0 | hk1'
            · rw [hk0]; split <;> omega
            · have := hk1 hk1'
              rw [hk1', if_neg (by simp [this.1])]
              omega
          · rename_i hstop
            simp only [Option.map_eq_some_iff] at h
            obtain ⟨m, hm, rfl⟩ := h
            have hrec := ih c'.s c'.apps m hm
            rcases hk01 with hk0 | hk1'
            · rw [hk0]
              simp only [Nat.add_zero]
              -- no request in this poll
              cases hph' : phase c'.s.st with
              | none =>
                rw [gapPolls_none c'.s c'.apps rest hph'] at hm
                cases hm
                split <;> omega
              | some ph' =>
                by_cases h23 : ph = 2 ∨ ph = 3
                · have hge : 2 ≤ ph := by omega
                  have hne1 := hv.2 hge
                  rw [hph'] at hne1 hrec
                  have hne0 : ph' ≠ 0 := by
                    intro hh; apply hstop; exact ⟨h0, by rw [hph', hh]⟩
                  -- ph' ∈ {2, 3}: the induction hypothesis already carries the 1
                  have hle := phase_le3 c'.s.st ph' hph'
                  have hne1' : ph' ≠ 1 := fun hh => hne1 (by rw [hh])
                  have : ph' = 2 ∨ ph' = 3 := by omega
                  rw [if_pos (by simpa using this)] at hrec
                  rw [if_pos (by simpa using h23)]
                  omega
                · rw [if_neg (by simpa using h23)]
                  split at hrec <;> omega
            · obtain ⟨hp1, hp2⟩ := hk1 hk1'
              rw [hp2] at hrec
              simp at hrec
              rw [hk1', hp1]
              simp
              omega

/-- Plain form: at most one own status request per token visit. -/
theorem one_gap_poll_per_visit_le (s : Station) (apps : Apps) (ins : List (Int × Bool × Bytes)) (n : Nat)
    (h : gapPolls s apps ins = some n) : n ≤ 1 := by
  have := one_gap_poll_per_visit ins s apps n h
  omega

/-! ### The exception: the post-claim sweep of `ClaimToken` polls the whole GAP -/

/-- Claiming the token: two token telegrams TS → TS (each after the synchronisation pause); each
sets the LAS valid and (re)sets the GAP cursor to the own address, so the scan that follows starts
with `next_gap_poll(TS)` and — by `sweep_exact` — covers the whole GAP. -/
theorem claim_token_step (c : Ctx) (now : Int) (fuel : Nat) (step : ClaimStep)
    (hstep : step = .firstToken ∨ step = .secondToken) (hst : c.s.st = .claimToken step)
    (htx : c.tx = none) (hw : SyncOver c.s now) :
    doClaimToken c now (fuel + 1) =
      .ok { c with
        tx := some (tokenBytes c.s.p.address c.s.p.address),
        s := { (markTx (stamped c.s now) now 3) with
          ring := c.s.ring.claimToken,
          st := .claimToken (if step = .firstToken then .secondToken else .scan),
          gap := .doPoll c.s.p.address } } := by
  have hw' : (waitSyncPause c.s now).2 = false := hw
  unfold doClaimToken
  rw [hst]
  rcases hstep with rfl | rfl <;>
    simp [hw', sync_stamped, transmit, htx, Res.bind, upd, markTx, tokenBytes, sendToken]

theorem claim_token_step_waits (c : Ctx) (now : Int) (fuel : Nat) (step : ClaimStep)
    (hstep : step = .firstToken ∨ step = .secondToken) (hst : c.s.st = .claimToken step)
    (hw : ¬ SyncOver c.s now) :
    doClaimToken c now (fuel + 1) = .ok { c with s := stamped c.s now } := by
  have hw' : (waitSyncPause c.s now).2 = true := by simpa [SyncOver] using hw
  unfold doClaimToken
  rw [hst]
  rcases hstep with rfl | rfl <;> simp [hw', sync_stamped]

/-- While the synchronisation pause is not over the scan step does nothing. -/
theorem claim_scan_waits (c : Ctx) (now : Int) (fuel : Nat) (hst : c.s.st = .claimToken .scan)
    (hw : ¬ SyncOver c.s now) : doClaimToken c now (fuel + 1) = .ok { c with s := stamped c.s now } := by
  have : (waitSyncPause c.s now).2 = true := by simpa [SyncOver] using hw
  unfold doClaimToken
  rw [hst]
  simp [this, sync_stamped]

/-- **`claim_scan_step` (exact)**: one scan step of `do_claim_token` after the token was claimed.
* GAP state `Waiting` (the sweep is complete): on to `PassToken` with `do_gap = No`;
* GAP state `DoPoll cur`: the cursor advances by exactly one `next_gap_poll` step; if that yields
  another GAP address `a`, ONE status request is sent to `a` and its answer awaited
  (`ScanAwaitResponse a`), otherwise the GAP state becomes `Waiting` (and the next poll passes the
  token).  So the station keeps the token and polls address after address until the sweep ends. -/
theorem claim_scan_step (c : Ctx) (now : Int) (fuel : Nat) (hst : c.s.st = .claimToken .scan)
    (htx : c.tx = none) (hw : SyncOver c.s now) :
    doClaimToken c now (fuel + 1) =
      match c.s.gap with
      | .waiting _ => .ok { c with s := { (stamped c.s now) with st := .passToken false .first } }
      | .doPoll cur =>
        match nextGap c.s cur with
        | none => .panic "next_gap_poll overflow"
        | some (.waiting r) => .ok { c with s := { (stamped c.s now) with gap := .waiting r } }
        | some (.doPoll a) =>
          if a = c.s.p.address then .panic "debug_assert_ne!(current_address, self.p.address)" else
          .ok { c with tx := some (statusRequestBytes a c.s.p.address),
                       s := { (markTx { (stamped c.s now) with gap := .doPoll a } now 6) with
                              st := .claimToken (.scanAwait a) } } := by
  have hw' : (waitSyncPause c.s now).2 = false := hw
  unfold doClaimToken
  rw [hst]
  simp only [hw', sync_stamped, Bool.false_eq_true, if_false, stamped_gap]
  cases hg : c.s.gap with
  | waiting r => simp [tr, toPassToken, hst, hg]
  | doPoll cur =>
    simp only
    have hn : nextGap (stamped c.s now) cur = nextGap c.s cur := rfl
    rw [hn]
    cases hng : nextGap c.s cur with
    | none => rfl
    | some g =>
      cases g with
      | waiting r =>
        simp only [upd]
        rw [transmitGapPoll_waiting { c with s := { (stamped c.s now) with gap := .waiting r } } now r rfl]
      | doPoll a =>
        simp only [upd]
        by_cases hne : a = c.s.p.address
        · rw [transmitGapPoll_self { c with s := { (stamped c.s now) with gap := .doPoll a } } now (by simp [hne])]
          simp [hne]
        · rw [transmitGapPoll_poll { c with s := { (stamped c.s now) with gap := .doPoll a } } now a rfl hne htx]
          simp [hne]

/-- `ScanAwaitResponse`, nothing received and the slot time not yet over: keep waiting. -/
theorem claim_await_waits (c : Ctx) (now : Int) (fuel addr : Nat) (rx' : Bytes) (ret : Bool)
    (hst : c.s.st = .claimToken (.scanAwait addr)) (hne : addr ≠ c.s.p.address) (hg : c.s.gap = .doPoll addr)
    (hrx : receiveTelegram c.rx = .done rx' [] ret) (hex : ¬ SlotExpired c.s now) :
    doClaimToken c now (fuel + 1) = .ok { c with rx := rx', s := stamped c.s now } := by
  have hex' : (checkSlotExpired c.s now).2 = false := by simpa [SlotExpired] using hex
  unfold doClaimToken
  rw [hst]
  simp only [awaitGap_silent c now addr rx' ret hne hg hrx, hex', Bool.false_eq_true, if_false]

/-- … slot time over without an answer: the next scan step is taken in the same poll. -/
theorem claim_await_timeout (c : Ctx) (now : Int) (fuel addr : Nat) (rx' : Bytes) (ret : Bool)
    (hst : c.s.st = .claimToken (.scanAwait addr)) (hne : addr ≠ c.s.p.address) (hg : c.s.gap = .doPoll addr)
    (hrx : receiveTelegram c.rx = .done rx' [] ret) (hex : SlotExpired c.s now) :
    doClaimToken c now (fuel + 1) =
      doClaimToken { c with rx := rx', s := { (stamped c.s now) with st := .claimToken .scan } } now fuel := by
  have hex' : (checkSlotExpired c.s now).2 = true := hex
  conv => lhs; unfold doClaimToken
  rw [hst]
  simp only [awaitGap_silent c now addr rx' ret hne hg hrx, hex', if_true]
  rfl

/-- … a response telegram from the polled address: the ring view is updated iff the reply admits
the station, and the scan goes on (`Scan`) with the same cursor. -/
theorem claim_await_reply (c : Ctx) (now : Int) (fuel addr : Nat) (rx' : Bytes) (t : Telegram) (l ret : Bool)
    (rest : List (Telegram × Bool)) (state : ResponseState) (status : ResponseStatus)
    (hst : c.s.st = .claimToken (.scanAwait addr)) (hne : addr ≠ c.s.p.address) (hg : c.s.gap = .doPoll addr)
    (hrx : receiveTelegram c.rx = .done rx' ((t, l) :: rest) ret)
    (hr : replyOf c.s.p.address addr t = some (state, status)) :
    doClaimToken c now (fuel + 1) =
      if Admits state status then
        match c.s.ring.setNextStation addr with
        | some r => .ok { c with rx := rx', s := { (markRx c.s now) with ring := r, st := .claimToken .scan } }
        | none => .panic "set_next_station index"
      else .ok { c with rx := rx', s := { (markRx c.s now) with st := .claimToken .scan } } := by
  unfold doClaimToken
  rw [hst]
  by_cases ha : Admits state status
  · simp only [awaitGap_admit c now addr rx' t l ret rest state status hne hg hrx hr ha, if_pos ha]
    cases c.s.ring.setNextStation addr with
    | none => rfl
    | some r => simp [upd]
  · simp only [awaitGap_other c now addr rx' t l ret rest state status hne hg hrx hr ha, if_neg ha]
    simp [upd]

/-- … anything else: back off into `ActiveIdle`. -/
theorem claim_await_unexpected (c : Ctx) (now : Int) (fuel addr : Nat) (rx' : Bytes) (t : Telegram) (l ret : Bool)
    (rest : List (Telegram × Bool))
    (hst : c.s.st = .claimToken (.scanAwait addr)) (hne : addr ≠ c.s.p.address) (hg : c.s.gap = .doPoll addr)
    (hrx : receiveTelegram c.rx = .done rx' ((t, l) :: rest) ret)
    (hr : replyOf c.s.p.address addr t = none) :
    doClaimToken c now (fuel + 1) =
      .ok { c with rx := rx', s := { (markRx c.s now) with st := .activeIdle none none 0 } } := by
  have hst' : (markRx c.s now).st = .claimToken (.scanAwait addr) := by simpa [markRx, markBusActivity] using hst
  unfold doClaimToken
  rw [hst]
  simp only [awaitGap_unexpected c now addr rx' t l ret rest hne hg hrx hr]
  simp [tr, toActiveIdle, hst']

/-! ### … and as one theorem over the polls of the whole post-claim scan (silent bus) -/

theorem scanOk_stamped (s : Station) (now : Int) (h : ScanOk s) : ScanOk (stamped s now) :=
  ⟨h.addr, h.hsa, h.gap, h.await⟩

/-- One scan step (`Scan`) transmits exactly the head of what remained of the sweep. -/
theorem claim_scan_stepOk (c c' : Ctx) (now : Int) (fuel : Nat) (hst : c.s.st = .claimToken .scan)
    (htx : c.tx = none) (hok : ScanOk c.s) (h : doClaimToken c now (fuel + 1) = .ok c') : StepOk c.s c' := by
  by_cases hw : SyncOver c.s now
  · rw [claim_scan_step c now fuel hst htx hw] at h
    cases hg : c.s.gap with
    | waiting r =>
      rw [hg] at h
      have h' := Res.ok.inj h
      subst h'
      refine ⟨?_, rfl, rfl, Or.inr ⟨rfl, ?_⟩⟩
      · simp [htx, reqs, remaining, hg]
      · simp [remaining, hg]
    | doPoll cur =>
      rw [hg] at h
      simp only [nextGap] at h
      have hc := hok.gap cur hg
      cases hn : nextGapPoll c.s.p.address c.s.ring.ns c.s.p.hsa cur with
      | panic => rw [hn] at h; cases h
      | waiting =>
        rw [hn] at h
        have h' := Res.ok.inj h
        subst h'
        refine ⟨?_, rfl, rfl, Or.inl ⟨by simp [hst, inScan], ?_⟩⟩
        · simp [htx, reqs, remaining, hg, sweepFrom_end _ _ _ _ _ hn]
        · exact ⟨hok.addr, hok.hsa, fun cur' hh => by simp at hh, fun a' hh => by simp [hst] at hh⟩
      | poll a =>
        rw [hn] at h
        have hs := sweepFrom_step _ _ _ cur a hok.addr hok.hsa hc hn
        simp only [if_neg hs.2.2] at h
        have h' := Res.ok.inj h
        subst h'
        refine ⟨?_, rfl, rfl, Or.inl ⟨by simp [inScan], ?_⟩⟩
        · simp [reqs, remaining, hg, markTx, hs.1]
        · refine ⟨hok.addr, hok.hsa, fun cur' hh => ?_, fun a' hh => ?_⟩
          · simp [markTx] at hh; subst hh; exact hs.2.1
          · simp [markTx] at hh; subst hh; exact ⟨rfl, hs.2.2⟩
  · rw [claim_scan_waits c now fuel hst hw] at h
    have h' := Res.ok.inj h
    subst h'
    exact ⟨by simp [htx, reqs_congr c.s (stamped c.s now) rfl rfl rfl], rfl, rfl,
      Or.inl ⟨by simp [hst, inScan], scanOk_stamped c.s now hok⟩⟩

/-- One step in `ScanAwaitResponse` with nothing received: wait, or — slot time over — poll the next
address at once. -/
theorem claim_await_stepOk (c c' : Ctx) (now : Int) (fuel addr : Nat)
    (hst : c.s.st = .claimToken (.scanAwait addr)) (htx : c.tx = none) (hok : ScanOk c.s)
    (hsil : Silent c.rx) (h : doClaimToken c now (fuel + 2) = .ok c') : StepOk c.s c' := by
  obtain ⟨rx', ret, hrx⟩ := hsil
  obtain ⟨hg, hne⟩ := hok.await addr hst
  by_cases hex : SlotExpired c.s now
  · rw [claim_await_timeout c now (fuel + 1) addr rx' ret hst hne hg hrx hex] at h
    obtain ⟨c2, hc2⟩ : ∃ c2 : Ctx, c2 = { c with rx := rx', s := { (stamped c.s now) with st := .claimToken .scan } } :=
      ⟨_, rfl⟩
    rw [← hc2] at h
    have hok2 : ScanOk c2.s := by
      rw [hc2]
      exact ⟨hok.addr, hok.hsa, hok.gap, fun a' hh => by simp at hh⟩
    have := claim_scan_stepOk c2 c' now fuel (by rw [hc2]) (by rw [hc2]; exact htx) hok2 h
    have hr : reqs c2.s = reqs c.s := by rw [hc2]; exact reqs_congr c.s _ rfl rfl rfl
    have hp : c2.s.p = c.s.p := by rw [hc2]; rfl
    have hring : c2.s.ring = c.s.ring := by rw [hc2]; rfl
    exact ⟨by rw [this.1, hr], by rw [this.2.1, hp], by rw [this.2.2.1, hring], this.2.2.2⟩
  · rw [claim_await_waits c now (fuel + 1) addr rx' ret hst hne hg hrx hex] at h
    have h' := Res.ok.inj h
    subst h'
    exact ⟨by simp [htx, reqs_congr c.s (stamped c.s now) rfl rfl rfl], rfl, rfl,
      Or.inl ⟨by simp [hst, inScan], scanOk_stamped c.s now hok⟩⟩

/-- One whole `poll` during the scan, nothing (complete) received. -/
theorem claim_poll_stepOk (s : Station) (apps : Apps) (now : Int) (phyTx : Bool) (rx : Bytes) (c' : Ctx)
    (hin : inScan s.st = true) (hok : ScanOk s) (hsil : Silent rx)
    (h : s.poll apps now phyTx rx = .ok c') : StepOk s c' := by
  have h1 : s.st ≠ .offline := by intro hh; rw [hh] at hin; simp [inScan] at hin
  have h2 : s.st ≠ .passiveIdle := by intro hh; rw [hh] at hin; simp [inScan] at hin
  rcases poll_cases s apps now phyTx rx c' h1 h2 h with rfl | hd
  · exact ⟨by simp [reqs_congr s (markBusActivity s now) rfl rfl rfl], rfl, rfl,
      Or.inl ⟨by simpa [markBusActivity] using hin, ⟨hok.addr, hok.hsa, hok.gap, hok.await⟩⟩⟩
  · have hc := checkBusActivity_core s now rx.length
    obtain ⟨s1, hs1⟩ : ∃ s1, checkBusActivity s now rx.length = s1 := ⟨_, rfl⟩
    rw [hs1] at hd hc
    have hok1 : ScanOk s1 :=
      ⟨by rw [hc.2.1]; exact hok.addr, by rw [hc.2.1]; exact hok.hsa, by rw [hc.2.2.2, hc.2.1]; exact hok.gap,
       by rw [hc.1, hc.2.2.2, hc.2.1]; exact hok.await⟩
    have hr : reqs s1 = reqs s := reqs_congr s s1 hc.2.1 hc.2.2.1 hc.2.2.2
    have lift : StepOk s1 c' → StepOk s c' := fun hh =>
      ⟨by rw [hh.1, hr], by rw [hh.2.1, hc.2.1], by rw [hh.2.2.1, hc.2.2.1], hh.2.2.2⟩
    unfold dispatch at hd
    cases hst : s.st with
    | claimToken step =>
      have hst1 : s1.st = .claimToken step := by rw [hc.1]; exact hst
      simp only [hst1] at hd
      cases step with
      | scan => exact lift (claim_scan_stepOk { s := s1, apps := apps, rx := rx } c' now 1 hst1 rfl hok1 hd)
      | scanAwait a => exact lift (claim_await_stepOk { s := s1, apps := apps, rx := rx } c' now 0 a hst1 rfl hok1 hsil hd)
      | firstToken => rw [hst] at hin; simp [inScan] at hin
      | secondToken => rw [hst] at hin; simp [inScan] at hin
    | _ => rw [hst] at hin; simp [inScan] at hin

/-- **`claim_sweeps_whole_gap`**: after claiming the token the station polls successive GAP addresses
until the sweep ends, and only then passes the token.  For ANY sequence of polls (arbitrary times)
during which no complete telegram arrives, the telegrams transmitted while scanning, followed by the
requests still outstanding, are exactly the status requests of the sweep that was outstanding at
the start; parameters and ring view stay; and if the station has left the scan it is in `PassToken`
(`do_gap = No`) with nothing outstanding: it HAS polled the whole sweep — after `claim_token_step`
(cursor = TS) that is, by `sweep_exact`, exactly its GAP, each address once, in ascending order. -/
theorem claim_sweeps_whole_gap : ∀ (ins : List (Int × Bool × Bytes)) (s : Station) (apps : Apps)
    (l : List Bytes) (s' : Station),
    (∀ i ∈ ins, Silent i.2.2) → inScan s.st = true → ScanOk s → claimRun s apps ins = some (l, s') →
    l ++ reqs s' = reqs s ∧ s'.p = s.p ∧ s'.ring = s.ring ∧
    (inScan s'.st = true ∨ (s'.st = .passToken false .first ∧ l = reqs s)) := by
  intro ins
  induction ins with
  | nil =>
    intro s apps l s' _ hin _ h
    simp only [claimRun, Option.some.injEq, Prod.mk.injEq] at h
    obtain ⟨rfl, rfl⟩ := h
    exact ⟨by simp, rfl, rfl, Or.inl hin⟩
  | cons x rest ih =>
    intro s apps l s' hsil hin hok h
    obtain ⟨now, phyTx, rx⟩ := x
    simp only [claimRun, hin, Bool.true_eq_false, if_false] at h
    cases hp : s.poll apps now phyTx rx with
    | panic m => rw [hp] at h; cases h
    | ok c' =>
      rw [hp] at h
      simp only [Option.map_eq_some_iff] at h
      obtain ⟨⟨l1, s1⟩, hrun, hl⟩ := h
      simp only [Prod.mk.injEq] at hl
      obtain ⟨rfl, rfl⟩ := hl
      have hstep := claim_poll_stepOk s apps now phyTx rx c' hin hok (hsil (now, phyTx, rx) (by simp)) hp
      obtain ⟨htx, hpp, hring, hnext⟩ := hstep
      rcases hnext with ⟨hin', hok'⟩ | ⟨hpass, hrem⟩
      · have := ih c'.s c'.apps l1 s1 (fun i hi => hsil i (by simp [hi])) hin' hok' hrun
        obtain ⟨h1, h2, h3, h4⟩ := this
        refine ⟨by rw [List.append_assoc, h1, htx], by rw [h2, hpp], by rw [h3, hring], ?_⟩
        rcases h4 with h4 | ⟨h4, h5⟩
        · exact Or.inl h4
        · exact Or.inr ⟨h4, by rw [h5, htx]⟩
      · -- the scan is complete: the run stops here
        have hstop : claimRun c'.s c'.apps rest = some ([], c'.s) := by
          cases rest with
          | nil => rfl
          | cons y r => simp [claimRun, hpass, inScan]
        rw [hstop] at hrun
        simp only [Option.some.injEq, Prod.mk.injEq] at hrun
        obtain ⟨rfl, rfl⟩ := hrun
        have hr0 : reqs c'.s = [] := by simp [reqs, hrem]
        rw [hr0] at htx
        refine ⟨by simp [hr0, ← htx], hpp, hring, Or.inr ⟨hpass, by simpa using htx⟩⟩

/-! ## 2. The pause between two sweeps (`gap_wait_rotations`) -/

/-- A sweep ends by `next_gap_poll` returning `Waiting { rotation_count: 0 }`. -/
theorem sweep_ends_with_zero (s : Station) (cur r : Nat) (h : nextGap s cur = some (.waiting r)) : r = 0 :=
  nextGap_waiting_zero s cur r h

/-- While waiting, a token visit only counts: as long as the counter does not exceed
`gap_wait_rotations` it is incremented (and by `gap_poll_once_per_visit` no request is sent, the
token is passed on). -/
theorem gap_wait_counts (s : Station) (rot : Nat) (hg : s.gap = .waiting rot) (h : rot ≤ s.p.gapWait) :
    gapAdvance s = some (.waiting (rot + 1)) := by
  unfold gapAdvance
  rw [hg]
  simp only
  rw [if_neg (by omega)]

/-- Once the counter exceeds `gap_wait_rotations` the next visit starts a new sweep behind the own
address (`next_gap_poll(TS)`: a poll of TS+1 if that is a GAP address, else `Waiting 0` again). -/
theorem gap_wait_over (s : Station) (rot : Nat) (hg : s.gap = .waiting rot) (h : s.p.gapWait < rot) :
    gapAdvance s = nextGap s s.p.address := by
  unfold gapAdvance
  rw [hg]
  simp only
  rw [if_pos (by omega)]

/-- **`gap_wait_pause`**: after a sweep has ended (`Waiting 0`) the next `gap_wait_rotations + 1`
token visits only count (no GAP poll), and the visit after those — the
`(gap_wait_rotations + 2)`-th — starts the next sweep.  (`gapAfter s k` = GAP state after `k` token
visits with the ring view unchanged.) -/
theorem gap_wait_pause (s : Station) (hg : s.gap = .waiting 0) :
    (∀ k, k ≤ s.p.gapWait + 1 → gapAfter s k = some (.waiting k)) ∧
    gapAfter s (s.p.gapWait + 2) = nextGap s s.p.address := by
  constructor
  · intro k hk
    have := gapAfter_waiting k s 0 hg (by omega)
    simpa using this
  · rw [show s.p.gapWait + 2 = (s.p.gapWait + 1) + 1 by omega, gapAfter_add]
    have := gapAfter_waiting (s.p.gapWait + 1) s 0 hg (by omega)
    rw [this]
    simp only [gapAfter, Nat.zero_add]
    have hga : gapAdvance { s with gap := .waiting (s.p.gapWait + 1) } = nextGap s s.p.address :=
      gap_wait_over { s with gap := .waiting (s.p.gapWait + 1) } (s.p.gapWait + 1) rfl (by show s.p.gapWait < s.p.gapWait + 1; omega)
    rw [hga]
    cases nextGap s s.p.address <;> rfl

/-- **Every GAP address is polled within a bounded number of token visits**: with the ring view
unchanged, after a sweep has ended every address of the own GAP is the poll address of one of the
visits number `gap_wait_rotations + 2 … gap_wait_rotations + 1 + |sweep|`, where the sweep has fewer
than HSA entries (and by `sweep_exact`/`sweep_nodup` exactly one per GAP address). -/
theorem gap_polled_within (s : Station) (hg : s.gap = .waiting 0) (hts : s.p.address < s.p.hsa)
    (hh : s.p.hsa ≤ 126) (a : Nat) (ha : InGap s.p.address s.ring.ns s.p.hsa a) :
    (sweepFrom s.p.address s.ring.ns s.p.hsa s.p.hsa s.p.address).length ≤ s.p.hsa - 1 ∧
    ∃ v, s.p.gapWait + 2 ≤ v ∧
      v ≤ s.p.gapWait + 1 + (sweepFrom s.p.address s.ring.ns s.p.hsa s.p.hsa s.p.address).length ∧
      gapAfter s v = some (.doPoll a) := by
  constructor
  · have := sweep_length s.p.address s.ring.ns s.p.hsa hts hh s.p.hsa s.p.address hts
    omega
  · have hmem := (sweep_exact s.p.address s.ring.ns s.p.hsa hts hh a).mpr ha
    obtain ⟨j, hj, hja⟩ := List.mem_iff_getElem.mp hmem
    refine ⟨(s.p.gapWait + 1) + (j + 1), by omega, by omega, ?_⟩
    rw [gapAfter_add, gapAfter_waiting (s.p.gapWait + 1) s 0 hg (by omega)]
    simp only [Nat.zero_add]
    have hsw := gapAfter_sweep s.p.hsa { s with gap := .doPoll s.p.address } s.p.address rfl j a
      (by simp only [List.getElem?_eq_getElem hj, hja])
    rw [← hsw]
    have h1 : gapAdvance { s with gap := .waiting (s.p.gapWait + 1) } = nextGap s s.p.address :=
      gap_wait_over { s with gap := .waiting (s.p.gapWait + 1) } (s.p.gapWait + 1) rfl (by show s.p.gapWait < s.p.gapWait + 1; omega)
    have h2 : gapAdvance { s with gap := .doPoll s.p.address } = nextGap s s.p.address := rfl
    simp only [gapAfter, h1, h2]

/-! ## 3. A polled station that reports to be a ready master becomes NS and gets the token -/

/-- With the just-admitted station as successor the sweep is over: `next_gap_poll(a)` with NS = `a`
yields `Waiting` (so neither `do_pass_token` at the next visit nor the post-claim scan polls beyond
the new successor — the F1 overrun cases included: `a = TS-1`, `a = HSA-1`). -/
theorem sweep_ends_at_new_successor (ts hsa a : Nat) (hts : ts < hsa) (hh : hsa ≤ 126) (ha : a < hsa)
    (hne : a ≠ ts) : nextGapPoll ts a hsa a = .waiting := by
  rw [next_gap_waiting_iff ts a hsa a (by omega) hh ha]
  unfold InGap succAddr
  intro h
  generalize hs : (if a = hsa - 1 then 0 else a + 1) = x at h
  have hx : (a = hsa - 1 ∧ x = 0) ∨ (a ≠ hsa - 1 ∧ x = a + 1) := by
    split at hs
    · left; omega
    · right; omega
  obtain ⟨_, h2, h3⟩ := h
  split at h3
  · omega
  · split at h3 <;> omega

/-- **`ready_master_becomes_ns`**: a status reply (status Ok) from the polled address reporting
`MasterWithoutToken` ("ready to enter the ring") — or `MasterInRing`, which the code treats alike —
makes that address the next station: `do_await_status_response` stores `set_next_station(addr)`,
whose NS is `addr` whatever the LAS contained, and goes to `PassToken` with `do_gap = No`. -/
theorem ready_master_becomes_ns (c : Ctx) (now : Int) (addr : Nat) (rx' : Bytes) (t : Telegram) (l ret : Bool)
    (rest : List (Telegram × Bool)) (state : ResponseState)
    (hst : c.s.st = .awaitStatus addr) (hne : addr ≠ c.s.p.address) (hg : c.s.gap = .doPoll addr)
    (hrx : receiveTelegram c.rx = .done rx' ((t, l) :: rest) ret)
    (hr : replyOf c.s.p.address addr t = some (state, .ok))
    (hstate : state = .masterWithoutToken ∨ state = .masterInRing)
    (ha : addr < 128) (hts : c.s.ring.ts = c.s.p.address) (hts' : c.s.p.address < 128) :
    ∃ r, c.s.ring.setNextStation addr = some r ∧ r.ns = addr ∧ r.ts = c.s.ring.ts ∧ r.las = c.s.ring.las ∧
      r.isActive addr = true ∧
      doAwaitStatusResponse c now =
        .ok { c with rx := rx', s := { (markRx c.s now) with ring := r, st := .passToken false .first } } := by
  have hadm : Admits state .ok := ⟨rfl, hstate⟩
  have hstep := await_status_reply c now addr rx' t l ret rest state .ok hst hne hg hrx hr
  rw [if_pos hadm] at hstep
  cases hsn : c.s.ring.setNextStation addr with
  | none =>
    exfalso
    unfold TokenRing.setNextStation at hsn
    rw [if_neg (by omega)] at hsn
    cases hsn
  | some r =>
    have hns := TokenRing.setNextStation_spec c.s.ring r addr (by rw [hts]; exact hne) (by rw [hts]; exact hts') hsn
    rw [hsn] at hstep
    exact ⟨r, rfl, hns.1, hns.2.1, hns.2.2.1, hns.2.2.2, hstep⟩

/-- … and the token then goes to it: in `PassToken` with `do_gap = No` the next poll after the
synchronisation pause transmits the token telegram to NS (`pass_token_without_gap`), i.e. to the
station just admitted. -/
theorem ready_master_gets_token (c : Ctx) (now : Int) (att : Attempt) (addr : Nat)
    (hst : c.s.st = .passToken false att) (htx : c.tx = none) (hw : SyncOver c.s now)
    (hns : c.s.ring.ns = addr) (c' : Ctx) (h : doPassToken c now = .ok c') :
    c'.tx = some (tokenBytes addr c.s.p.address) ∧ c'.s.gap = c.s.gap := by
  rw [pass_token_without_gap c now att hst htx hw] at h
  cases h
  exact ⟨by simp only [hns], rfl⟩

/-- Every other reply from the polled address — `Slave`, `MasterNotReady`, or a status other than
Ok — leaves the ring view (hence NS) untouched; the token goes to the old NS. -/
theorem other_reply_keeps_ns (c : Ctx) (now : Int) (addr : Nat) (rx' : Bytes) (t : Telegram) (l ret : Bool)
    (rest : List (Telegram × Bool)) (state : ResponseState) (status : ResponseStatus)
    (hst : c.s.st = .awaitStatus addr) (hne : addr ≠ c.s.p.address) (hg : c.s.gap = .doPoll addr)
    (hrx : receiveTelegram c.rx = .done rx' ((t, l) :: rest) ret)
    (hr : replyOf c.s.p.address addr t = some (state, status))
    (hno : status ≠ .ok ∨ state = .slave ∨ state = .masterNotReady) :
    doAwaitStatusResponse c now =
      .ok { c with rx := rx', s := { (markRx c.s now) with st := .passToken false .first } } := by
  have hna : ¬ Admits state status := by
    unfold Admits
    rcases hno with h | h | h
    · exact fun hh => h hh.1
    · subst h; simp
    · subst h; simp
  rw [await_status_reply c now addr rx' t l ret rest state status hst hne hg hrx hr, if_neg hna]

/-- The same in the post-claim scan: the admitted station becomes NS, the scan goes on with the
same cursor — and by `sweep_ends_at_new_successor` its next step ends the sweep. -/
theorem ready_master_becomes_ns_claim (c : Ctx) (now : Int) (fuel addr : Nat) (rx' : Bytes) (t : Telegram) (l ret : Bool)
    (rest : List (Telegram × Bool)) (state : ResponseState)
    (hst : c.s.st = .claimToken (.scanAwait addr)) (hne : addr ≠ c.s.p.address) (hg : c.s.gap = .doPoll addr)
    (hrx : receiveTelegram c.rx = .done rx' ((t, l) :: rest) ret)
    (hr : replyOf c.s.p.address addr t = some (state, .ok))
    (hstate : state = .masterWithoutToken ∨ state = .masterInRing)
    (ha : addr < 128) (hts : c.s.ring.ts = c.s.p.address) (hts' : c.s.p.address < 128) :
    ∃ r, c.s.ring.setNextStation addr = some r ∧ r.ns = addr ∧ r.ts = c.s.ring.ts ∧ r.las = c.s.ring.las ∧
      r.isActive addr = true ∧
      doClaimToken c now (fuel + 1) =
        .ok { c with rx := rx', s := { (markRx c.s now) with ring := r, st := .claimToken .scan } } := by
  have hadm : Admits state .ok := ⟨rfl, hstate⟩
  have hstep := claim_await_reply c now fuel addr rx' t l ret rest state .ok hst hne hg hrx hr
  rw [if_pos hadm] at hstep
  cases hsn : c.s.ring.setNextStation addr with
  | none =>
    exfalso
    unfold TokenRing.setNextStation at hsn
    rw [if_neg (by omega)] at hsn
    cases hsn
  | some r =>
    have hns := TokenRing.setNextStation_spec c.s.ring r addr (by rw [hts]; exact hne) (by rw [hts]; exact hts') hsn
    rw [hsn] at hstep
    exact ⟨r, rfl, hns.1, hns.2.1, hns.2.2.1, hns.2.2.2, hstep⟩

/-- After an admitting reply in the post-claim scan, the next scan step (NS = cursor = `addr`) ends
the sweep without a further request; the step after it moves to `PassToken` (`claim_scan_step`,
case `Waiting`), from where `ready_master_gets_token` applies. -/
theorem claim_scan_after_admission (c : Ctx) (now : Int) (fuel addr : Nat)
    (hst : c.s.st = .claimToken .scan) (htx : c.tx = none) (hw : SyncOver c.s now)
    (hg : c.s.gap = .doPoll addr) (hns : c.s.ring.ns = addr) (hne : addr ≠ c.s.p.address)
    (hts : c.s.p.address < c.s.p.hsa) (hh : c.s.p.hsa ≤ 126) (ha : addr < c.s.p.hsa) :
    doClaimToken c now (fuel + 1) = .ok { c with s := { (stamped c.s now) with gap := .waiting 0 } } := by
  rw [claim_scan_step c now fuel hst htx hw, hg]
  simp only
  have : nextGap c.s addr = some (.waiting 0) := by
    unfold nextGap
    rw [hns, sweep_ends_at_new_successor c.s.p.address c.s.p.hsa addr hts hh ha hne]
  rw [this]

/-! ## 4. Truthful status replies -/

/-! ### Which requests are taken up -/

/-- `ListenToken`: an FDL status request addressed to us (from another address) is taken up iff it
is the last telegram of its batch; its source address is remembered. -/
theorem listen_records_request (c : Ctx) (l : Bool) (sr : Option Nat) (coll : Nat) (h : Header) (pdu : Bytes)
    (fcb : FrameCountBit) (hon : c.s.online = true) (hst : c.s.st = .listenToken sr coll)
    (hfc : h.fc = .request fcb .fdlStatus) (hda : h.da.toNat = c.s.p.address) (hsa : h.sa.toNat ≠ c.s.p.address) :
    listenTelegramCore c (.data h pdu) l =
      if l then .ok (upd c fun s => { s with st := .listenToken (some h.sa.toNat) coll }) else .ok c := by
  unfold listenTelegramCore
  simp only [hon, Bool.not_true, Bool.false_eq_true, if_false, hst, Telegram.sourceAddress, Option.map_some,
    Option.some.injEq, hsa, hfc, hda, true_and]

/-- … and nothing else changes the remembered requester: only a status request with DA = own address,
flagged as last telegram of the batch. -/
theorem listen_request_only_if (c c' : Ctx) (t : Telegram) (l : Bool) (sr sr' : Option Nat) (coll coll' : Nat)
    (hst : c.s.st = .listenToken sr coll) (h : listenTelegramCore c t l = .ok c')
    (hst' : c'.s.st = .listenToken sr' coll') (hne : sr' ≠ sr) :
    ∃ hd pdu fcb, t = .data hd pdu ∧ hd.fc = .request fcb .fdlStatus ∧ hd.da.toNat = c.s.p.address ∧
      l = true ∧ sr' = some hd.sa.toNat ∧ hd.sa.toNat ≠ c.s.p.address := by
  unfold listenTelegramCore at h
  split at h
  · cases h; rw [hst] at hst'; cases hst'; exact absurd rfl hne
  · rw [hst] at h
    simp only at h
    split at h
    · split at h
      · cases h; simp [upd] at hst'; exact absurd hst'.1.symm hne
      · have h' := Res.ok.inj h
        rw [← h'] at hst'
        simp [upd, Station.setOffline, Station.new] at hst'
    · rename_i hsrc
      cases t with
      | sc => cases h; rw [hst] at hst'; cases hst'; exact absurd rfl hne
      | token da sa => cases h; simp [upd, hst] at hst'; exact absurd hst'.1.symm hne
      | data hd pdu =>
        simp only at h
        split at h
        · rename_i fcb hfc
          split at h
          · rename_i hcond
            cases h
            simp [upd] at hst'
            refine ⟨hd, pdu, fcb, rfl, hfc, hcond.1, hcond.2, hst'.1.symm, ?_⟩
            intro hh
            apply hsrc
            simp [Telegram.sourceAddress, hh]
          · cases h; rw [hst] at hst'; cases hst'; exact absurd rfl hne
        · cases h; rw [hst] at hst'; cases hst'; exact absurd rfl hne

/-- `ActiveIdle` (`handle_telegram`): a status request with DA = own address that is the last
telegram of its batch is taken up (here the source address is not compared with the own address). -/
theorem active_idle_records_request (c : Ctx) (now : Int) (l : Bool) (sr np : Option Nat) (coll : Nat)
    (h : Header) (pdu : Bytes) (fcb : FrameCountBit) (hst : c.s.st = .activeIdle sr np coll)
    (hfc : h.fc = .request fcb .fdlStatus) (hda : h.da.toNat = c.s.p.address) :
    handleTelegram c now (.data h pdu) l =
      if l then .ok (upd c fun s => { s with st := .activeIdle (some h.sa.toNat) np coll }) else .ok c := by
  unfold handleTelegram
  simp only [hst, hfc, hda, true_and]

theorem active_idle_request_only_if (c c' : Ctx) (now : Int) (t : Telegram) (l : Bool) (sr sr' np np' : Option Nat)
    (coll coll' : Nat) (hst : c.s.st = .activeIdle sr np coll) (h : handleTelegram c now t l = .ok c')
    (hst' : c'.s.st = .activeIdle sr' np' coll') (hne : sr' ≠ sr) :
    ∃ hd pdu fcb, t = .data hd pdu ∧ hd.fc = .request fcb .fdlStatus ∧ hd.da.toNat = c.s.p.address ∧
      l = true ∧ sr' = some hd.sa.toNat := by
  unfold handleTelegram at h
  rw [hst] at h
  simp only at h
  cases t with
  | sc => cases h; rw [hst] at hst'; cases hst'; exact absurd rfl hne
  | token da sa =>
    simp only at h
    split at h
    · split at h
      · cases h; simp [upd] at hst'; exact absurd hst'.1.symm hne
      · simp only [tr, toListenToken, upd] at h; cases h; simp at hst'
    · split at h
      · cases h; simp [upd] at hst'; exact absurd hst'.1.symm hne
      · split at h
        · simp only [tr, toUseToken, upd] at h; cases h; simp at hst'
        · split at h
          · simp only [tr, toUseToken, upd] at h; cases h; simp at hst'
          · cases h; simp [upd] at hst'; exact absurd hst'.1.symm hne
  | data hd pdu =>
    simp only at h
    split at h
    · rename_i fcb hfc
      split at h
      · rename_i hcond
        cases h
        simp [upd] at hst'
        exact ⟨hd, pdu, fcb, rfl, hfc, hcond.1, hcond.2, hst'.1.symm⟩
      · cases h; rw [hst] at hst'; cases hst'; exact absurd rfl hne
    · cases h; rw [hst] at hst'; cases hst'; exact absurd rfl hne

/-! ### What is answered, and when -/

/-- `ListenToken` with a pending request: nothing is sent before the bus has been idle for the
synchronisation pause (33 bit times since the last bus activity; `min_tsdr_bits` is not consulted by
the code). -/
theorem listen_reply_waits (c : Ctx) (now : Int) (src coll : Nat) (hst : c.s.st = .listenToken (some src) coll)
    (hl : ¬ TokenLost c.s now) (hw : ¬ SyncOver c.s now) :
    doListenToken c now = .ok { c with s := stamped c.s now } := by
  have hw' : (waitSyncPause (stamped c.s now) now).2 = true := by
    have : ¬ SyncOver (stamped c.s now) now := fun h => hw ((syncOver_stamped c.s now).mp h)
    simpa [SyncOver] using this
  unfold doListenToken
  -- rewrite `handleLostToken` to a constructor pair BEFORE the iota steps (kernel: 60 s otherwise)
  rw [handleLostToken_none c now hl, hst]
  simp only [stamped_st, hst, hw', if_true, sync_stamped, stamped_stamped]

/-- **`status_reply_truthful` (ListenToken)**: at the first poll after the pause the station sends ONE
status response to the requester, with its own address as SA, reporting
`MasterWithoutToken` ("ready") iff the LAS is valid and the requester is the registered predecessor,
otherwise `MasterNotReady`.  If the LAS is valid it considers itself in the ring from now on
(`ActiveIdle`) — whoever asked —, otherwise it keeps listening; the request is consumed. -/
theorem listen_reply (c : Ctx) (now : Int) (src coll : Nat) (hst : c.s.st = .listenToken (some src) coll)
    (htx : c.tx = none) (hl : ¬ TokenLost c.s now) (hw : SyncOver c.s now) :
    doListenToken c now =
      .ok { c with
        tx := some (statusResponseBytes src c.s.p.address (listenReport c.s src)),
        s := { (markTx (stamped c.s now) now 6) with
          st := if c.s.ring.readyForRing = true then FState.activeIdle none none 0 else FState.listenToken none coll } } := by
  have hw' : (waitSyncPause (stamped c.s now) now).2 = false := (syncOver_stamped c.s now).mpr hw
  unfold doListenToken
  rw [handleLostToken_none c now hl, hst]
  simp only [stamped_st, hst, hw', Bool.false_eq_true, if_false, sync_stamped,
    stamped_stamped, stamped_ring, stamped_p]
  have hser := statusResponse_serialize src c.s.p.address (listenReport c.s src)
  unfold listenReport at hser
  simp only [encodeOrPanic, hser, transmit, htx, Res.bind, statusResponseBytes_length]
  by_cases hr : c.s.ring.readyForRing = true
  · simp [hr, tr, toActiveIdle, markTx, hst, listenReport]
  · simp [hr, upd, markTx, listenReport]

/-- `ActiveIdle` with a pending request: the same pause … -/
theorem active_idle_reply_waits (c : Ctx) (now : Int) (src : Nat) (np : Option Nat) (coll : Nat)
    (hst : c.s.st = .activeIdle (some src) np coll) (hl : ¬ TokenLost c.s now) (hw : ¬ SyncOver c.s now) :
    doActiveIdle c now = .ok { c with s := stamped c.s now } := by
  have hw' : (waitSyncPause (stamped c.s now) now).2 = true := by
    have : ¬ SyncOver (stamped c.s now) now := fun h => hw ((syncOver_stamped c.s now).mp h)
    simpa [SyncOver] using this
  unfold doActiveIdle
  rw [handleLostToken_none c now hl, hst]
  simp only [stamped_st, hst, hw', if_true, sync_stamped, stamped_stamped]

/-- **`status_reply_truthful` (ActiveIdle)**: … then ONE status response to the requester reporting
`MasterInRing`; the request is consumed, everything else stays. -/
theorem active_idle_reply (c : Ctx) (now : Int) (src : Nat) (np : Option Nat) (coll : Nat)
    (hst : c.s.st = .activeIdle (some src) np coll) (htx : c.tx = none) (hl : ¬ TokenLost c.s now)
    (hw : SyncOver c.s now) :
    doActiveIdle c now =
      .ok { c with
        tx := some (statusResponseBytes src c.s.p.address .masterInRing),
        s := { (markTx (stamped c.s now) now 6) with st := .activeIdle none np coll } } := by
  have hw' : (waitSyncPause (stamped c.s now) now).2 = false := (syncOver_stamped c.s now).mpr hw
  unfold doActiveIdle
  rw [handleLostToken_none c now hl, hst]
  simp only [stamped_st, hst, hw', Bool.false_eq_true, if_false, sync_stamped,
    stamped_stamped, stamped_p]
  have hser := statusResponse_serialize src c.s.p.address .masterInRing
  simp only [encodeOrPanic, hser, transmit, htx, Res.bind, statusResponseBytes_length]
  simp [upd, markTx]

/-- **Status responses are sent only as answers**: whatever a listening station receives, the only
telegrams `do_listen_token` ever transmits are (i) the status response to the remembered requester,
with the truthful state, after the pause, or (ii) — after the token-lost time-out — the token
telegram TS → TS that claims the token.  In particular without a remembered request no status
response is sent. -/
theorem listen_transmits_only_reply (c c' : Ctx) (now : Int) (sr : Option Nat) (coll : Nat) (bytes : Bytes)
    (hst : c.s.st = .listenToken sr coll) (htx : c.tx = none)
    (h : doListenToken c now = .ok c') (hb : c'.tx = some bytes) :
    (TokenLost c.s now ∧ bytes = tokenBytes c.s.p.address c.s.p.address) ∨
    (¬ TokenLost c.s now ∧ SyncOver c.s now ∧
      ∃ src, sr = some src ∧ bytes = statusResponseBytes src c.s.p.address (listenReport c.s src)) := by
  by_cases hl : TokenLost c.s now
  · left
    refine ⟨hl, ?_⟩
    unfold doListenToken at h
    rw [handleLostToken_lost c now hl, hst] at h
    simp only [toClaimToken, stamped_st, hst] at h
    obtain ⟨c1, hc1⟩ : ∃ c1 : Ctx, c1 = { c with s := { (stamped c.s now) with st := .claimToken .firstToken } } := ⟨_, rfl⟩
    rw [← hc1] at h
    have h1 : c1.s.st = .claimToken .firstToken := by rw [hc1]
    have h2 : c1.tx = none := by rw [hc1]; exact htx
    by_cases hw : SyncOver c1.s now
    · rw [claim_token_step c1 now 1 .firstToken (Or.inl rfl) h1 h2 hw] at h
      cases h
      simp only [Option.some.injEq] at hb
      have h3 : c1.s.p = c.s.p := by rw [hc1]; rfl
      rw [← hb, h3]
    · rw [claim_token_step_waits c1 now 1 .firstToken (Or.inl rfl) h1 hw] at h
      cases h
      rw [h2] at hb
      cases hb
  · right
    refine ⟨hl, ?_⟩
    cases sr with
    | some src =>
      by_cases hw : SyncOver c.s now
      · rw [listen_reply c now src coll hst htx hl hw] at h
        cases h
        simp only [Option.some.injEq] at hb
        exact ⟨hw, src, rfl, hb.symm⟩
      · rw [listen_reply_waits c now src coll hst hl hw] at h
        cases h
        rw [htx] at hb
        cases hb
    | none =>
      exfalso
      unfold doListenToken at h
      rw [handleLostToken_none c now hl, hst] at h
      simp only [stamped_st, hst] at h
      split at h
      · cases h
      · cases h
      · have := foldTelegrams_tx (listenTelegram now) (listenTelegram_tx now) _ _ _ h
        rw [this, htx] at hb
        cases hb

/-- The same for a station in the ring (`ActiveIdle`): only the `MasterInRing` response to the
remembered requester, or the claiming token after the token-lost time-out. -/
theorem active_idle_transmits_only_reply (c c' : Ctx) (now : Int) (sr np : Option Nat) (coll : Nat) (bytes : Bytes)
    (hst : c.s.st = .activeIdle sr np coll) (htx : c.tx = none)
    (h : doActiveIdle c now = .ok c') (hb : c'.tx = some bytes) :
    (TokenLost c.s now ∧ bytes = tokenBytes c.s.p.address c.s.p.address) ∨
    (¬ TokenLost c.s now ∧ SyncOver c.s now ∧
      ∃ src, sr = some src ∧ bytes = statusResponseBytes src c.s.p.address .masterInRing) := by
  by_cases hl : TokenLost c.s now
  · left
    refine ⟨hl, ?_⟩
    unfold doActiveIdle at h
    rw [handleLostToken_lost c now hl, hst] at h
    simp only [toClaimToken, stamped_st, hst] at h
    obtain ⟨c1, hc1⟩ : ∃ c1 : Ctx, c1 = { c with s := { (stamped c.s now) with st := .claimToken .firstToken } } := ⟨_, rfl⟩
    rw [← hc1] at h
    have h1 : c1.s.st = .claimToken .firstToken := by rw [hc1]
    have h2 : c1.tx = none := by rw [hc1]; exact htx
    by_cases hw : SyncOver c1.s now
    · rw [claim_token_step c1 now 1 .firstToken (Or.inl rfl) h1 h2 hw] at h
      cases h
      simp only [Option.some.injEq] at hb
      have h3 : c1.s.p = c.s.p := by rw [hc1]; rfl
      rw [← hb, h3]
    · rw [claim_token_step_waits c1 now 1 .firstToken (Or.inl rfl) h1 hw] at h
      cases h
      rw [h2] at hb
      cases hb
  · right
    refine ⟨hl, ?_⟩
    cases sr with
    | some src =>
      by_cases hw : SyncOver c.s now
      · rw [active_idle_reply c now src np coll hst htx hl hw] at h
        cases h
        simp only [Option.some.injEq] at hb
        exact ⟨hw, src, rfl, hb.symm⟩
      · rw [active_idle_reply_waits c now src np coll hst hl hw] at h
        cases h
        rw [htx] at hb
        cases hb
    | none =>
      exfalso
      unfold doActiveIdle at h
      rw [handleLostToken_none c now hl, hst] at h
      simp only [stamped_st, hst] at h
      split at h
      · cases h
      · cases h
      · have := foldTelegrams_tx _ (fun c c' t l hh => by
            have := handleTelegram_tx _ c' now t l hh
            simpa [upd] using this) _ _ _ h
        rw [this, htx] at hb
        cases hb

/-! ## Non-vacuity of the station-level theorems: a concrete station 7 (HSA 126, NS 20, PS 3) -/

def demoP : Params :=
  { address := 7, rate := 500000, slotBits := 200, ttrBits := 20000, gapWait := 10, hsa := 126,
    maxRetry := 1, minTsdrBits := 11 }

/-- Station 7 in FDL state `st` with GAP state `gap`, last bus activity at t = 0, receive buffer `rx`. -/
def demo (st : FState) (gap : GapState) (rx : Bytes) (las : LasState := .valid) : Ctx :=
  { s := { (Station.new demoP) with
            online := true, st := st, gap := gap, lastBusActivity := some 0,
            ring := { active := Vector.ofFn fun i => decide (i.val = 3 ∨ i.val = 7 ∨ i.val = 20),
                      ts := 7, ps := 3, ns := 20, las := las } },
    apps := [], rx := rx }

/-- Observable summary of a step result. -/
def obs : Res → Option (FState × GapState × Option Bytes × Nat)
  | .ok c => some (c.s.st, c.s.gap, c.tx, c.s.ring.ns)
  | .panic _ => none

-- 1. end of a visit, sweep running at 8: one request to 9, then AwaitStatusResponse 9
example : SyncOver (demo (.passToken true .first) (.doPoll 8) []).s 1000 := by decide
example : obs (doPassToken (demo (.passToken true .first) (.doPoll 8) []) 1000) =
    some (.awaitStatus 9, .doPoll 9, some (statusRequestBytes 9 7), 20) := by decide
-- a whole visit from the token receipt (no application): the token hold ends at t=1000 with the request to 9
example : gapPolls (demo (.useToken ⟨900, none⟩ false) (.doPoll 8) []).s []
    [(1000, false, []), (1500, false, []), (3000, false, []), (5000, false, [])] = some 1 := by decide
example : obs ((demo (.useToken ⟨900, none⟩ false) (.doPoll 8) []).s.poll [] 1000 false []) =
    some (.awaitStatus 9, .doPoll 9, some (statusRequestBytes 9 7), 20) := by decide
-- a whole visit tail: request at t=1000, still waiting at 1500, time-out and token pass at 3000: one request
example : gapPolls (demo (.passToken true .first) (.doPoll 8) []).s []
    [(1000, false, []), (1500, false, []), (3000, false, []), (5000, false, [])] = some 1 := by decide
example : gapPolls (demo (.passToken true .first) (.waiting 3) []).s []
    [(1000, false, []), (1500, false, []), (3000, false, [])] = some 0 := by decide
-- time-out: the token goes to 20 in the same poll, no further request
example : SlotExpired (demo (.awaitStatus 9) (.doPoll 9) []).s 1000 := by decide
example : obs (doAwaitStatusResponse (demo (.awaitStatus 9) (.doPoll 9) []) 1000) =
    some (.checkTokenPass .first, .doPoll 9, some (tokenBytes 20 7), 20) := by decide
-- post-claim scan: request to 9, and on its time-out at once the request to 10
example : obs (doClaimToken (demo (.claimToken .scan) (.doPoll 8) []) 1000 2) =
    some (.claimToken (.scanAwait 9), .doPoll 9, some (statusRequestBytes 9 7), 20) := by decide
example : obs (doClaimToken (demo (.claimToken (.scanAwait 9)) (.doPoll 9) []) 1000 2) =
    some (.claimToken (.scanAwait 10), .doPoll 10, some (statusRequestBytes 10 7), 20) := by decide
-- the whole rest of the sweep (cursor 17, NS 20) over five silent polls: requests to 18 and 19, then PassToken
example : (claimRun (demo (.claimToken .scan) (.doPoll 17) []).s []
      [(1000, false, []), (2000, false, []), (3000, false, []), (4000, false, []), (5000, false, [])]).map
      (fun r => (r.1, r.2.st)) =
    some ([statusRequestBytes 18 7, statusRequestBytes 19 7], .passToken false .first) := by decide
example : Silent [] := ⟨[], false, by decide⟩
example : ScanOk (demo (.claimToken .scan) (.doPoll 17) []).s :=
  ⟨by decide, by decide, fun cur h => by simp [demo] at h; subst h; decide, fun a h => by simp [demo] at h⟩
-- … until the address before NS was polled: the sweep is over, then the token is passed
example : obs (doClaimToken (demo (.claimToken (.scanAwait 19)) (.doPoll 19) []) 1000 2) =
    some (.claimToken .scan, .waiting 0, none, 20) := by decide
example : obs (doClaimToken (demo (.claimToken .scan) (.waiting 0) []) 1000 2) =
    some (.passToken false .first, .waiting 0, none, 20) := by decide
-- 2. the pause: with gap_wait_rotations = 10 the visits 1..11 after the end of a sweep only count,
-- the 12th polls 8 (= TS+1) again; every GAP address 8..19 is polled by visit 23
example : (List.range 14).map (gapAfter (demo (.passToken true .first) (.waiting 0) []).s) =
    [some (.waiting 0), some (.waiting 1), some (.waiting 2), some (.waiting 3), some (.waiting 4),
     some (.waiting 5), some (.waiting 6), some (.waiting 7), some (.waiting 8), some (.waiting 9),
     some (.waiting 10), some (.waiting 11), some (.doPoll 8), some (.doPoll 9)] := by decide
example : InGap 7 20 126 19 := by decide
example : gapAfter (demo (.passToken true .first) (.waiting 0) []).s 23 = some (.doPoll 19) := by decide
example : gapAfter (demo (.passToken true .first) (.waiting 0) []).s 24 = some (.waiting 0) := by decide
-- 3. station 9 answers "ready" (MasterWithoutToken): NS becomes 9, PassToken without GAP, token to 9
example : obs (doAwaitStatusResponse (demo (.awaitStatus 9) (.doPoll 9) (statusResponseBytes 7 9 .masterWithoutToken)) 1000) =
    some (.passToken false .first, .doPoll 9, none, 9) := by decide
example : obs (doAwaitStatusResponse (demo (.awaitStatus 9) (.doPoll 9) (statusResponseBytes 7 9 .masterInRing)) 1000) =
    some (.passToken false .first, .doPoll 9, none, 9) := by decide
-- "not ready" / slave: NS stays 20
example : obs (doAwaitStatusResponse (demo (.awaitStatus 9) (.doPoll 9) (statusResponseBytes 7 9 .masterNotReady)) 1000) =
    some (.passToken false .first, .doPoll 9, none, 20) := by decide
example : obs (doAwaitStatusResponse (demo (.awaitStatus 9) (.doPoll 9) (statusResponseBytes 7 9 .slave)) 1000) =
    some (.passToken false .first, .doPoll 9, none, 20) := by decide
example : replyOf 7 9 (.data (fdlStatusResponseHeader 7 9 .masterWithoutToken .ok) []) = some (.masterWithoutToken, .ok) := by decide
-- 4. a listening station 7 (LAS valid, PS = 3): "ready" to its predecessor 3, "not ready" to 5 — but in
-- both cases it moves to ActiveIdle; with the LAS not yet valid "not ready" and it keeps listening;
-- in the ring it answers "in ring"
example : ¬ TokenLost (demo (.listenToken (some 3) 0) (.doPoll 7) []).s 1000 := by decide
example : obs (doListenToken (demo (.listenToken (some 3) 0) (.doPoll 7) []) 1000) =
    some (.activeIdle none none 0, .doPoll 7, some (statusResponseBytes 3 7 .masterWithoutToken), 20) := by decide
example : obs (doListenToken (demo (.listenToken (some 5) 0) (.doPoll 7) []) 1000) =
    some (.activeIdle none none 0, .doPoll 7, some (statusResponseBytes 5 7 .masterNotReady), 20) := by decide
example : obs (doListenToken (demo (.listenToken (some 3) 0) (.doPoll 7) [] .verification) 1000) =
    some (.listenToken none 0, .doPoll 7, some (statusResponseBytes 3 7 .masterNotReady), 20) := by decide
example : obs (doActiveIdle (demo (.activeIdle (some 5) none 0) (.doPoll 7) []) 1000) =
    some (.activeIdle none none 0, .doPoll 7, some (statusResponseBytes 5 7 .masterInRing), 20) := by decide
-- a request 3 → 7 is taken up only as the last telegram of its batch
example : obs (listenTelegramCore (demo (.listenToken none 0) (.doPoll 7) []) (.data (fdlStatusRequestHeader 7 3) []) true) =
    some (.listenToken (some 3) 0, .doPoll 7, none, 20) := by decide
example : obs (listenTelegramCore (demo (.listenToken none 0) (.doPoll 7) []) (.data (fdlStatusRequestHeader 7 3) []) false) =
    some (.listenToken none 0, .doPoll 7, none, 20) := by decide
example : obs (listenTelegramCore (demo (.listenToken none 0) (.doPoll 7) []) (.data (fdlStatusRequestHeader 8 3) []) true) =
    some (.listenToken none 0, .doPoll 7, none, 20) := by decide

end PV.C12
