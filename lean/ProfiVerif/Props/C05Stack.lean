/-
C05 for the composed system FDL ∘ DP (`Model/Stack.lean`): the station model with the DP master model
as its application never panics, never spins, and is well defined, for every API-call sequence.

Separate from `Props/C05.lean` only because `Lemmas/StationTrace.lean` (which the composition builds
on) imports `Props/C05.lean`.
-/
import ProfiVerif.Props.C05
import ProfiVerif.Lemmas.StackTotal

namespace PV.C05
open PV PV.Dp

/-- **`stack_never_panics`**: no run of the composed system — any parameters `ParametersBuilder`
produces (station address < HSA ≤ 126, retry limit 1..15), any freshly added peripherals, any sequence
of polls (arbitrary arriving bytes and PHY flags, non-decreasing times below 2⁶² µs), `set_online` /
`set_offline` and user calls into the master between polls — reaches a panic site of `active.rs`,
`master.rs`, `peripheral.rs`, `peripheral_set.rs`, or spins in `transmit_telegram`; and the composition
is well defined (`.mismatch` does not occur).  The only irregular outcome is `.userError`: a user call
outside its documented precondition. -/
theorem stack_never_panics {fp : FdlParams} (hfp : FpOk fp) (p : Params) (h1 : p.address < p.hsa) (h2 : p.hsa ≤ 126)
    (haddr : fp.address.toNat = p.address) {slots : List (Option Peripheral)} (hinit : InitOk fp slots) (gr : Bool)
    (calls : List Stack.Call) {t0 : Int} (ht0 : -(2:Int)^62 < t0) (ht : Stack.TimesOk t0 calls) :
    (∀ site, Stack.run fp (Stack.init p slots gr) calls ≠ .stationPanic site) ∧
    Stack.run fp (Stack.init p slots gr) calls ≠ .masterPanic ∧
    Stack.run fp (Stack.init p slots gr) calls ≠ .masterHang ∧
    Stack.run fp (Stack.init p slots gr) calls ≠ .mismatch :=
  Stack.stack_never_panics hfp p h1 h2 haddr hinit gr calls ht0 ht

/-- … and the regular outcome comes with the DP history (see `Stack.run_total`). -/
theorem stack_run_total {fp : FdlParams} (hfp : FpOk fp) (p : Params) (h1 : p.address < p.hsa) (h2 : p.hsa ≤ 126)
    (haddr : fp.address.toNat = p.address) {slots : List (Option Peripheral)} (hinit : InitOk fp slots) (gr : Bool)
    (calls : List Stack.Call) {t0 : Int} (ht0 : -(2:Int)^62 < t0) (ht : Stack.TimesOk t0 calls) :
    Stack.run fp (Stack.init p slots gr) calls = .userError ∨
    ∃ k' l g', Stack.run fp (Stack.init p slots gr) calls = .ok (k', l) ∧
      grun fp (G.init slots gr) (l.map Stack.toOp) = .ok g' ∧ g'.m = k'.m ∧ Dp.Inv fp g' ∧ PV.Inv k'.s [[]] :=
  Stack.run_total hfp p h1 h2 haddr hinit gr calls ht0 ht

/-! ### Non-vacuity: a concrete run from the initial state

Station 2 (HSA 3) claims the token on a silent bus; the master probes the peripheral at address 7
(diagnostics request, `high_prio_only = true` since the token hold time is used up by the claim), the
reply arrives, the user takes the events and writes outputs, global control and Set_Prm follow, the
user asks for diagnostics and then calls `reset_address()` while a request is in flight (F14), the
time-out of that request is delivered and — in the same poll — the master is asked again
(`C15.ask_after_timeout_same_poll`); finally the station goes offline. -/

def sParams : Params :=
  { address := 2, rate := 500000, slotBits := 200, ttrBits := 20000, gapWait := 10, hsa := 3, maxRetry := 1, minTsdrBits := 11 }
def sFp : FdlParams := { address := 2, slotUs := 400, maxRetry := 1, minTsdr := 11, watchdog := some (1, 10) }
def sOpts : Options := { ident := 0x80b1, sync := false, freeze := true, groups := 3, userPrm := some [1, 2, 3], config := some [0x11, 0x21] }
def sSlots : List (Option Peripheral) := [none, some (Peripheral.new 7 sOpts [0] [0, 0] 16)]

/-- The diagnostics response of station 7 to station 2 as bytes on the wire. -/
def sDiagBytes : Bytes := [162, 130, 135, 8, 62, 60, 2, 5, 0, 255, 128, 177, 194, 22]
def sDiag : Telegram := .data ⟨2, 7, some 62, some 60, .response .slave .dataLow⟩ [2, 5, 0, 255, 128, 177]

def sCalls : List Stack.Call :=
  [.setOnline, .poll 0 false [], .poll 100000 false [], .poll 101000 false [], .poll 102000 false [],
   .poll 103000 false [], .poll 104000 false [], .poll 104100 false [], .poll 104200 false [], .poll 104300 false [],
   .poll 106000 false [], .poll 107000 false sDiagBytes, .take, .poll 107100 false [], .writeQ 1 [5, 6],
   .poll 107200 false [], .poll 108000 false [], .poll 109000 false [], .diagReq 1, .poll 110000 false [],
   .resetAddr 1 9, .poll 111000 false [], .poll 112000 false [], .setOffline, .poll 120200 false []]

def sLog : List Stack.MCall :=
  [.tx 106000 true, .reply 7 sDiag, .take, .writeQ 1 [5, 6], .tx 108000 false, .tx 109000 false, .diagReq 1,
   .tx 110000 false, .resetAddr 1 9, .timeout 7, .tx 111000 false, .timeout 9, .tx 112000 false]

def sCheck : Bool :=
  match Stack.run sFp (Stack.init sParams sSlots false) sCalls with
  | .ok (k, l) => l == sLog && k.s.st == .offline
  | _ => false

example : sCheck = true := by decide +kernel

theorem sFp_ok : FpOk sFp := ⟨by decide, by decide, by decide, by decide⟩

theorem sInit : InitOk sFp sSlots where
  len := by decide
  fresh := by
    intro i q hi
    have : q = Peripheral.new 7 sOpts [0] [0, 0] 16 := by
      match i, hi with
      | 1, hi => simpa [sSlots] using hi.symm
    subst this
    exact ⟨pinv_new _ _ _ _ _ _ (by intro up h; simp [sOpts] at h; subst h; decide)
      (by intro c h; simp [sOpts] at h; subst h; decide) (by decide) (by decide), rfl, rfl, rfl, rfl, rfl⟩

/-- The hypotheses of the composed theorems are satisfiable, and the theorem applies to the run above. -/
example : Stack.run sFp (Stack.init sParams sSlots false) sCalls ≠ .masterPanic :=
  (stack_never_panics sFp_ok sParams (by decide) (by decide) (by decide) sInit false sCalls (t0 := 0) (by decide)
    (by simp [sCalls, Stack.TimesOk])).2.1

end PV.C05
