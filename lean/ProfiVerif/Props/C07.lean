/-
C07 — The DP master always brings a healthy peripheral back into data exchange.

Property theorems only.  Models: the master side is `Model/Dp/{Peripheral,Master}.lean` as they are
(tied to `src/dp/*.rs` by the `dp` and `dplive` correspondences), the slave side is the reference
DP-V0 slave `Model/Dp/Slave.lean` (environment; the same machine in Rust in the harness), composed in
`Model/Dp/Live.lean` (`PJ`: one peripheral and the slave, one step = one visit of the peripheral).
Environment alphabet `PEnv`: a visit with delivery `ok / lossReq / lossRep / sub t` (request lost,
reply lost or corrupted, reply replaced by any well-formed telegram `t`), optionally with a
`request_diagnostics()` call between request and reply; slave power cycle; device fault report with
any extended-diagnostics bytes; `request_diagnostics()`; new outputs; new inputs.

Definitions used in the statements (`Lemmas/DpLive*.lean`):
* `ctl : PJ → Ctl` — the finite control state: peripheral state, frame count bit, `diag_needed`,
  `diag_in_flight`; slave state, the slave's retransmission memory *relative to the master's frame count
  bit*, the slave's pending-report bit; and the retry counter.  Static parameters: the retry limit and
  "the slave has no inputs".
* `cstep` — the control machine; `jinv` — the joint invariant on control.
* `Good j` — master-side invariant `PInv` (C05/C08), matching configuration (`Matched`: same address,
  ident, parameter length, configuration bytes, image lengths), well-formed slave memory.
-/
import ProfiVerif.Lemmas.DpLiveRuns
import ProfiVerif.Lemmas.DpLiveMaster
import ProfiVerif.Lemmas.DpLiveMasterRun
import ProfiVerif.Lemmas.DpLiveNRun
import ProfiVerif.Lemmas.DpLiveMismatch
import ProfiVerif.Lemmas.DpLiveMismatch2
import ProfiVerif.Lemmas.DpLiveNHist
import ProfiVerif.Lemmas.DpLiveNSilent

namespace PV.C07
open PV PV.Dp PV.Live

/-- The bound: `max_retry_limit + 8` visits. -/
def K (fp : FdlParams) : Nat := fp.maxRetry + 8

/-- The joint invariant on the control projection of a joint state. -/
def JInv (j : PJ) : Prop := jinv j.fp.maxRetry (j.s.cfg.inLen == 0) (ctl j) = true

/-- A fresh master (`Peripheral::new`: offline, retry 0, `FrameCountBit::First`) and a slave after
power-on. -/
structure Initial (j : PJ) : Prop where
  state : j.p.state = .offline
  retry : j.p.retry = 0
  fcb : j.p.fcb = .first
  slave : j.s.state = .waitPrm
  stored : j.s.stored = none

/-! ## `control_abstraction` -/

/-- **control_abstraction.**  For *every* environment step — every delivery fault, every substituted
reply telegram, every payload — from every good joint state: the real model does not panic, stays
good, and its control state and the peripheral event are those the finite control machine computes from
the control state and the abstraction of the step alone (`absEnv` keeps of a step only: visit or not,
the delivery kind, and of a substituted reply its `viewOf`). -/
theorem control_abstraction {j : PJ} (hg : Good j) {e : PEnv} (he : e.WellFormed) :
    ∃ j' ev, j.step e = some (j', ev) ∧ Good j' ∧ j'.fp = j.fp ∧ j'.op = j.op ∧ j'.s.cfg = j.s.cfg ∧
      ctl j' = (cstep j.fp.maxRetry (j.s.cfg.inLen == 0) (ctl j) (absEnv j.s.cfg.inLen e)).1 ∧
      ev = (cstep j.fp.maxRetry (j.s.cfg.inLen == 0) (ctl j) (absEnv j.s.cfg.inLen e)).2 := by
  obtain ⟨j', ev, h1, h2, h3, h4, h5, h6⟩ := step_sim hg he
  rw [Prod.ext_iff] at h6
  exact ⟨j', ev, h1, h2, h3, h4, h5, h6.1, h6.2⟩

/-- **Payload bytes never influence control**: two good joint states with the same control state and the
same static parameters (retry limit; whether there are inputs), under steps with the same abstraction —
whatever their process images, parameter / configuration / diagnostics bytes, addresses, and whatever
bytes the steps carry — reach the same control state and raise the same event. -/
theorem payload_irrelevant {j1 j2 : PJ} (h1 : Good j1) (h2 : Good j2) (hc : ctl j1 = ctl j2)
    (hmr : j1.fp.maxRetry = j2.fp.maxRetry) (hz : (j1.s.cfg.inLen == 0) = (j2.s.cfg.inLen == 0))
    {e1 e2 : PEnv} (w1 : e1.WellFormed) (w2 : e2.WellFormed)
    (he : absEnv j1.s.cfg.inLen e1 = absEnv j2.s.cfg.inLen e2) :
    ∃ a ev1 b ev2, j1.step e1 = some (a, ev1) ∧ j2.step e2 = some (b, ev2) ∧ ctl a = ctl b ∧ ev1 = ev2 := by
  obtain ⟨a, ev1, ha, _, _, _, _, ca, ea⟩ := control_abstraction h1 w1
  obtain ⟨b, ev2, hb, _, _, _, _, cb, eb⟩ := control_abstraction h2 w2
  refine ⟨a, ev1, b, ev2, ha, hb, ?_, ?_⟩
  · rw [ca, cb, hc, hmr, hz, he]
  · rw [ea, eb, hc, hmr, hz, he]

/-- The process images in particular: writing outputs or changing inputs is invisible on control. -/
theorem images_irrelevant {j : PJ} (hg : Good j) (bs : Bytes) :
    (∃ j', j.step (.piq bs) = some (j', none) ∧ ctl j' = ctl j) ∧
    (∃ j', j.step (.inputs bs) = some (j', none) ∧ ctl j' = ctl j) := by
  constructor
  · obtain ⟨j', ev, h1, _, _, _, _, h6, h7⟩ := control_abstraction hg (e := .piq bs) trivial
    have : ev = none := by rw [h7]; rfl
    subst this
    exact ⟨j', h1, by rw [h6]; rfl⟩
  · obtain ⟨j', ev, h1, _, _, _, _, h6, h7⟩ := control_abstraction hg (e := .inputs bs) trivial
    have : ev = none := by rw [h7]; rfl
    subst this
    exact ⟨j', h1, by rw [h6]; rfl⟩

/-! ## The joint invariant holds along every history -/

theorem jinv_initial {j : PJ} (hi : Initial j) : JInv j := by
  have hr : rcls j.fp.maxRetry 0 = .zero := rcls_zero
  unfold JInv jinv ctl coreOf
  simp only [hi.state, hi.retry, hi.fcb, hi.slave, memOf_first, hr]
  simp [jinvCore]

/-- Every state reached from a fresh master and a powered-on slave by *any* history of the environment
alphabet satisfies the joint invariant (and is good; the run never panics). -/
theorem jinv_reachable {j0 : PJ} (hg : Good j0) (hi : Initial j0) (es : List PEnv)
    (hw : ∀ e ∈ es, e.WellFormed) :
    ∃ j evs, j0.run es = some (j, evs) ∧ Good j ∧ JInv j ∧ j.fp = j0.fp := by
  obtain ⟨j, evs, h1, h2, h3, h4, h5, h6⟩ := run_sim es hg hw
  refine ⟨j, evs, h1, h2, ?_, h3⟩
  have := jinv_run hg.fp.retry_lo (j0.s.cfg.inLen == 0) j0.s.cfg.inLen es (ctl j0) (jinv_initial hi)
  rw [← h6] at this
  unfold JInv
  rw [h3, h5]
  exact this

/-- The invariant is inductive: preserved by every environment step from every good state. -/
theorem jinv_inductive {j : PJ} (hg : Good j) (hj : JInv j) {e : PEnv} (he : e.WellFormed) :
    ∃ j' ev, j.step e = some (j', ev) ∧ Good j' ∧ JInv j' := by
  obtain ⟨j', ev, h1, h2, h3, _, h5, h6, _⟩ := control_abstraction hg he
  refine ⟨j', ev, h1, h2, ?_⟩
  unfold JInv
  rw [h3, h5, h6]
  exact jinv_step hg.fp.retry_lo hj _

/-! ## `live_from_everywhere` -/

/-- **live_from_everywhere.**  From *every* good joint state whose control projection satisfies the
joint invariant — a superset of the reachable states (`jinv_reachable`), so no history is needed —
with matching configuration (part of `Good`), for every retry limit and every retry count: after any
number `n ≥ max_retry_limit + 8` of fault-free visits the peripheral is in `DataExchange`
(`is_running()`), i.e. it gets there within the bound and stays. -/
theorem live_from_everywhere {j : PJ} (hg : Good j) (hj : JInv j) {n : Nat} (hn : K j.fp ≤ n) :
    ∃ j' evs, j.quiet n = some (j', evs) ∧ j'.p.isRunning = true := by
  obtain ⟨j', evs, h1, _, _, _, _, h6⟩ := quiet_sim n hg
  refine ⟨j', evs, h1, ?_⟩
  have := live_ctl hg.fp.retry_lo hj hn
  rw [← h6] at this
  exact this

/-- The property as stated: after *any* history (losses, corruption, power cycles, fault reports, user
calls) from start-up, the fault-free continuation has the peripheral in data exchange from visit
`max_retry_limit + 8` on. -/
theorem live_after_any_history {j0 : PJ} (hg : Good j0) (hi : Initial j0) (es : List PEnv)
    (hw : ∀ e ∈ es, e.WellFormed) {n : Nat} (hn : K j0.fp ≤ n) :
    ∃ j evs j' evs', j0.run es = some (j, evs) ∧ j.quiet n = some (j', evs') ∧ j'.p.isRunning = true := by
  obtain ⟨j, evs, h1, h2, h3, h4⟩ := jinv_reachable hg hi es hw
  obtain ⟨j', evs', h5, h6⟩ := live_from_everywhere h2 h3 (n := n) (by unfold K at *; rw [h4]; exact hn)
  exact ⟨j, evs, j', evs', h1, h5, h6⟩

/-! ## The product of the two side invariants is *not* enough

`live_from_everywhere_full` asks for liveness from every good state (master-side invariant, matching
configuration, well-formed slave), without the joint invariant.  It is false: a master that believes
the configuration was accepted (`ValidateConfig`) facing a slave that still waits for it (`Wait_Cfg`)
polls diagnostics forever — the slave keeps answering "station not ready", which the master takes as
"wait".  No history reaches this state (`jinv_reachable`: a slave in `Wait_Cfg` is never believed to
be configured), which is why the theorem above needs the joint invariant. -/

def live_from_everywhere_full : Prop :=
  ∀ j : PJ, Good j → ∃ N, ∀ n, N ≤ n → ∃ j' evs, j.quiet n = some (j', evs) ∧ j'.p.isRunning = true

namespace Witness
/-- Master #2, peripheral #7 in `ValidateConfig`; the slave in `Wait_Cfg`. -/
def cfg : SlaveCfg := { address := 7, ident := 0x80b1, prmLen := 3, config := [0x11, 0x21], inLen := 1, outLen := 2 }
def j : PJ :=
  { fp := Dp.Ex.fp, op := .operate,
    p := { Dp.Ex.p7 with state := .validateConfig, fcb := .low },
    s := { Slave.init cfg [0] with state := .waitCfg, master := 2 } }

theorem good : Good j where
  fp := Dp.Ex.fp_ok
  op := by decide
  pinv := by
    have h := pinv_new Dp.Ex.fp 7 Dp.Ex.opts [0] [0, 0] 16
      (by intro up h; simp [Dp.Ex.opts] at h; subst h; decide)
      (by intro c h; simp [Dp.Ex.opts] at h; subst h; decide) (by decide) (by decide)
    exact ⟨by decide, (by intro h; cases h), by decide, h.ext, h.prm, h.cfg, h.piq, h.addr⟩
  m := ⟨rfl, ⟨[1, 2, 3], rfl, rfl⟩, rfl, by decide, rfl, rfl, rfl⟩
  s := ⟨rfl, rfl, rfl, by decide⟩

/-- The control states the witness cycles through. -/
def stuck (c : Ctl) : Prop :=
  c.core.st = .validateConfig ∧ c.core.ss = .waitCfg ∧ c.core.mem = none ∧ c.retry = 0 ∧
  (c.core.fcb = .low ∨ c.core.fcb = .high)

theorem stuck_step {mr : Nat} {iz : Bool} {c : Ctl} (h : stuck c) : stuck (cquiet mr iz c) := by
  obtain ⟨⟨st, fcb, dn, fl, ss, mem, dp⟩, r⟩ := c
  obtain ⟨h1, h2, h3, h4, h5⟩ := h
  simp only at h1 h2 h3 h4 h5
  subst h1 h2 h3 h4
  have hr : rcls mr 0 = .zero := rcls_zero
  rcases h5 with rfl | rfl <;> cases dp <;>
    simp [stuck, cquiet, cstep, cstepCore, hr, cvisit, reqOf, sreact, sserve, AD.deliver, RK.view, mrx,
      FrameCountBit.fcv, cycA, RAct.apply]

theorem stuck_run {mr : Nat} {iz : Bool} : ∀ (n : Nat) (c : Ctl), stuck c → stuck (iterQ mr iz n c) := by
  intro n
  induction n with
  | zero => intro c h; exact h
  | succ n ih => intro c h; exact ih _ (stuck_step h)
end Witness

/-- The full-strength form is refuted by the witness: it is never running. -/
theorem live_from_everywhere_full_false : ¬ live_from_everywhere_full := by
  intro h
  obtain ⟨N, hN⟩ := h Witness.j Witness.good
  obtain ⟨j', evs, h1, h2⟩ := hN N (Nat.le_refl N)
  obtain ⟨j'', evs', h1', _, _, _, _, h6⟩ := quiet_sim N Witness.good
  rw [h1] at h1'
  simp only [Option.some.injEq, Prod.mk.injEq] at h1'
  obtain ⟨rfl, rfl⟩ := h1'
  have hs : Witness.stuck (ctl Witness.j) := by
    refine ⟨rfl, rfl, ?_, rfl, Or.inl rfl⟩
    simp [ctl, coreOf, memOf, isRetransmission, Witness.j, Slave.init]
  have := Witness.stuck_run (mr := Witness.j.fp.maxRetry) (iz := (Witness.j.s.cfg.inLen == 0)) N _ hs
  rw [← h6] at this
  have hst : j'.p.state = .validateConfig := this.1
  simp [Peripheral.isRunning, hst] at h2

/-! ## `offline_online` -/

/-- **A peripheral that stops answering is reported Offline — exactly once.**  From every good state
with a live peripheral (retry count `r`), if from now on every request is lost: the visits
`1 … max_retry_limit + 1 - r` retransmit without any event, visit `max_retry_limit + 2 - r` raises
`Offline`, and no later visit raises any event; `is_live()` is false exactly from that visit on. -/
theorem offline_reported_once {j : PJ} (hg : Good j) (hl : j.p.isLive = true) (n : Nat) :
    ∃ j' evs, j.run (List.replicate n (.visit false .lossReq)) = some (j', evs) ∧
      evs = (if j.fp.maxRetry + 2 - j.p.retry ≤ n then [.offline] else []) ∧
      (j'.p.isLive = false ↔ j.fp.maxRetry + 2 - j.p.retry ≤ n) := by
  obtain ⟨j', evs, h1, _, _, _, h5⟩ := lost_sim n hg
  have hs : (ctl j).core.st ≠ .offline := by
    simpa [Peripheral.isLive, ctl, coreOf] using hl
  obtain ⟨c', h6, h7⟩ := lost_run hg.fp.retry_lo (iz := (j.s.cfg.inLen == 0)) hs hg.pinv.retry_le n
  rw [h6, Prod.mk.injEq] at h5
  refine ⟨j', evs, h1, h5.2, ?_⟩
  have h7' : c'.core.st = .offline ↔ j.fp.maxRetry + 2 - j.p.retry ≤ n := h7
  rw [← h7', ← h5.1]
  simp [Peripheral.isLive, ctl, coreOf]

/-- **A peripheral that answers again is reported Online and Configured again.**  From every good
state satisfying the joint invariant with an offline peripheral, the events of `n ≥ 8` fault-free visits
are `Online`, `Configured`, and then only `DataExchanged` / `Diagnostics`. -/
theorem online_configured_again {j : PJ} (hg : Good j) (hj : JInv j) (ho : j.p.isLive = false)
    {n : Nat} (hn : 8 ≤ n) :
    ∃ j' rest, j.quiet n = some (j', .online :: .configured :: rest) ∧
      ∀ e ∈ rest, e = .dataExchanged ∨ e = .diagnostics := by
  obtain ⟨j', evs, h1, _, _, _, h5⟩ := quiet_sim_ev n hg
  have hs : (ctl j).core.st = .offline := by
    simpa [Peripheral.isLive, ctl, coreOf] using ho
  obtain ⟨rest, h6, h7⟩ := back_online hg.fp.retry_lo hj hs hn
  rw [Prod.ext_iff] at h5
  have h5' : evs = (crunN j.fp.maxRetry (j.s.cfg.inLen == 0) (.visit false .ok) n (ctl j)).2 := h5.2
  refine ⟨j', rest, by rw [h1, h5', h6], ?_⟩
  intro e he
  have := h7 e he
  cases e <;> simp_all [isDxEvent]

/-- **offline_online.**  Along any history from start-up: if the peripheral is live and then stops
answering for `s ≥ max_retry_limit + 2 - retry` visits, exactly one `Offline` event is raised; when it
answers again, `Online` and `Configured` follow within 8 visits (then only data-exchange events), and
it is running from visit `max_retry_limit + 8` on. -/
theorem offline_online {j0 : PJ} (hg0 : Good j0) (hi : Initial j0) (es : List PEnv)
    (hw : ∀ e ∈ es, e.WellFormed) :
    ∃ j evs0, j0.run es = some (j, evs0) ∧
      (j.p.isLive = true → ∀ s, j.fp.maxRetry + 2 - j.p.retry ≤ s →
        ∃ j1, j.run (List.replicate s (.visit false .lossReq)) = some (j1, [.offline]) ∧ j1.p.isLive = false ∧
          ∀ n, 8 ≤ n → ∃ j2 rest, j1.quiet n = some (j2, .online :: .configured :: rest) ∧
            (∀ e ∈ rest, e = .dataExchanged ∨ e = .diagnostics) ∧ (K j0.fp ≤ n → j2.p.isRunning = true)) := by
  obtain ⟨j, evs0, h1, hg, hj, hfp⟩ := jinv_reachable hg0 hi es hw
  refine ⟨j, evs0, h1, ?_⟩
  intro hl s hs
  obtain ⟨j1, evs, h2, h3, h4⟩ := offline_reported_once hg hl s
  rw [if_pos hs] at h3
  subst h3
  -- the state after the silent period is again reachable, hence invariant
  have hw1 : ∀ e ∈ List.replicate s (PEnv.visit false .lossReq), e.WellFormed := by
    intro e he; rw [List.eq_of_mem_replicate he]; trivial
  obtain ⟨ja, ea, ha1, ha2, ha3, ha4, ha5, ha6⟩ := run_sim _ hg hw1
  rw [h2] at ha1
  simp only [Option.some.injEq, Prod.mk.injEq] at ha1
  obtain ⟨rfl, _⟩ := ha1
  have hj1 : JInv j1 := by
    have := jinv_run hg.fp.retry_lo (j.s.cfg.inLen == 0) j.s.cfg.inLen
      (List.replicate s (PEnv.visit false .lossReq)) (ctl j) hj
    rw [← ha6] at this
    unfold JInv; rw [ha3, ha5]; exact this
  refine ⟨j1, h2, h4.mpr hs, ?_⟩
  intro n hn
  obtain ⟨j2, rest, h5, h6⟩ := online_configured_again ha2 hj1 (h4.mpr hs) hn
  refine ⟨j2, rest, h5, h6, ?_⟩
  intro hk
  obtain ⟨j2', evs', h7, h8⟩ := live_from_everywhere ha2 hj1 (n := n) (by unfold K at *; rw [ha3, hfp]; exact hk)
  rw [h5] at h7
  simp only [Option.some.injEq, Prod.mk.injEq] at h7
  rw [h7.1]; exact h8

/-! ## The master level

The theorems above are about visits of the peripheral (`PJ`).  The correspondence engine `dplive`
drives the whole `DpMaster` (`Joint.turn`: one `transmit_telegram` call of the `FdlApplication`, global
control, cycle bookkeeping, `take_last_events`).  For a master holding one peripheral the two levels are
related turn by turn. -/

/-- **master_turn.**  One `transmit_telegram(now, …)` of a master in Operate whose only peripheral sits in
slot 0, against the slave, under any delivery: it never panics or hangs (for times within ±2^62 µs), and
it is (`TurnKind`) a global-control broadcast the slave ignores, or a turn that only closes the DP cycle,
or exactly one visit `PJ.visit` of the peripheral with that delivery whose event is the one
`take_last_events` reports; after a visit the cycle is closed by the reply (`completed`) or still points
at the peripheral.  Hence at most one cycle-closing turn lies between two visits:
`2 (max_retry_limit + 8) + 1` turns that are not broadcasts contain `max_retry_limit + 8` visits — the
bound the `C07` oracle applies to the real `DpMaster`. -/
theorem master_turn {J : Joint} {p : Peripheral} (hS : Single J.m p) (hslot : J.slot = 0)
    (hg : Good ⟨J.fp, J.m.op, p, J.s⟩) (ha : J.s.cfg.address ≠ 127) {now : Int} (hnow : timeB now)
    (hgc : ∀ t, J.m.lastGc = some t → timeB t) (mid : Bool) {d : Delivery} (hd : ∀ t, d = .sub t → RxOk t) :
    ∃ J' o, J.turn now mid d = .ok J' o ∧ TurnKind J p now mid d J' o :=
  turn_single hS hslot hg ha hnow hgc mid hd

/-- The bound in master turns: `2 (max_retry_limit + 8) + 1` turns that are not global-control
broadcasts, i.e. `max_retry_limit + 8` DP cycles (one visit and one cycle-closing turn each) and one
turn for a cycle that was just completed. -/
def KM (fp : FdlParams) : Nat := 2 * K fp + 1

/-- **master_live_from_everywhere.**  A `DpMaster` in Operate with one peripheral (slot 0) and the
reference slave, in *any* state in which the pair is good and satisfies the joint invariant (`MGood`,
`JInv`): for every sequence of fault-free `transmit_telegram` turns — at arbitrary times within ±2^62 µs,
so global-control broadcasts may fall anywhere — the run does not panic or hang, and as soon as the
sequence contains `2 (max_retry_limit + 8) + 1` turns that are not broadcasts the peripheral
`is_running()`; since this holds for every such sequence, it stays so. -/
theorem master_live_from_everywhere {J : Joint} {p : Peripheral} (hM : MGood J p) (hj : JInv (J.pj p))
    (nows : List Int) (ht : ∀ t ∈ nows, timeB t) :
    ∃ J' os p', J.quietTurns nows = some (J', os) ∧ os.length = nows.length ∧ Single J'.m p' ∧
      (KM J.fp ≤ nonBroadcast os → p'.isRunning = true) := by
  obtain ⟨J', os, p', v, evs, h1, hM', _, hlen, hq, hcount⟩ := quietTurns_visits nows ht hM
  refine ⟨J', os, p', h1, hlen, hM'.single, ?_⟩
  intro hk
  have hcl : J.closing ≤ 1 := by unfold Joint.closing; split <;> omega
  have hv : K (J.pj p).fp ≤ v := by
    unfold KM K at hk; unfold K; simp only [Joint.pj]; omega
  obtain ⟨j', evs', h2, h3⟩ := live_from_everywhere hM.good hj hv
  rw [hq] at h2
  simp only [Option.some.injEq, Prod.mk.injEq] at h2
  rw [← h2.1] at h3
  exact h3

/-- Start-up at master level: a well-formed single-peripheral master (`MGood`) whose peripheral is fresh
and whose slave was just powered on. -/
structure MInitial (J : Joint) (p : Peripheral) : Prop where
  good : MGood J p
  init : Initial (J.pj p)

/-- **master_live_after_any_history.**  From start-up, after *any* master-level history — turns with any
delivery fault (request lost, reply lost, reply replaced by any well-formed telegram) and optional
`request_diagnostics()` between request and reply, at any in-range times; slave power cycles; device fault
reports; user calls — the run has not panicked, and in every fault-free continuation the peripheral
`is_running()` once `2 (max_retry_limit + 8) + 1` non-broadcast turns have passed, and stays so. -/
theorem master_live_after_any_history {J0 : Joint} {p0 : Peripheral} (h0 : MInitial J0 p0) (es : List JEnv)
    (hw : ∀ e ∈ es, e.WellFormed) :
    ∃ J p, J0.mrun es = some J ∧ Single J.m p ∧
      ∀ (nows : List Int), (∀ t ∈ nows, timeB t) →
        ∃ J' os p', J.quietTurns nows = some (J', os) ∧ Single J'.m p' ∧
          (KM J0.fp ≤ nonBroadcast os → p'.isRunning = true) := by
  obtain ⟨J, p, h1, hM, hfp, hj⟩ := mrun_good es hw h0.good (jinv_initial h0.init)
  refine ⟨J, p, h1, hM.single, ?_⟩
  intro nows ht
  obtain ⟨J', os, p', h2, _, h3, h4⟩ := master_live_from_everywhere hM hj nows ht
  exact ⟨J', os, p', h2, h3, by rw [← hfp]; exact h4⟩

/-! ## Several peripherals

`JointN` (`Model/Dp/LiveN.lean`): the `DpMaster` with peripherals in slots `0 … n-1` (what `add` produces),
one reference slave per peripheral on the same bus (every slave hears every telegram, only the addressed
one reacts).  `NGood J ps k`: dense storage, Operate, distinct slave addresses (none of them 127), cycle
index within range, and every slot's pair is good and satisfies the joint invariant (`SlotOk`). -/

/-- The bound for `n` peripherals in master turns: `(max_retry_limit + 8) (n + 1) + n` turns that are not
global-control broadcasts — `max_retry_limit + 8` DP cycles of at most `n` visiting turns and one
cycle-closing turn each, plus the remainder of the cycle in progress. -/
def KN (fp : FdlParams) (n : Nat) : Nat := K fp * (n + 1) + n

/-- **multi_turn.**  One fault-free `transmit_telegram` of a master with `n` peripherals: a broadcast the
slaves ignore; or the closing of a completed cycle; or fault-free visits (`PJ.visit` of the slot's own
pair, every other slot untouched) of the consecutive slots `i … j` starting at the cycle index — the
slots before `j` declined silently in the same call — after which the index stands at `j + 1`, or the
cycle is completed / wrapped when `j` is the last slot.  Round-robin: one visit per cycle each. -/
theorem multi_turn {J : JointN} {ps : List Peripheral} {k : Nat} (hN : NGood J ps k) {now : Int} (hnow : timeB now) :
    ∃ J' o ps', J.turn now none .ok = .ok J' o ∧ NGood J' ps' k ∧ J'.fp = J.fp ∧
      ((o.isBroadcast = true ∧ ps' = ps ∧ J'.ss = J.ss ∧ J'.m.cycle = J.m.cycle) ∨
       (o.isBroadcast = false ∧ J.m.cycle = .completed ∧ J'.m.cycle = .dx 0 ∧ ps' = ps ∧ J'.ss = J.ss) ∨
       (o.isBroadcast = false ∧ ∃ i j, J.m.cycle = .dx i ∧ i ≤ j ∧ j < ps.length ∧
          VisitedRange J.fp ps J.ss ps' J'.ss i (j + 1) ∧
          ((j + 1 < ps.length ∧ J'.m.cycle = .dx (j + 1)) ∨
           (j + 1 = ps.length ∧ (J'.m.cycle = .completed ∨ J'.m.cycle = .dx 0))))) :=
  turnN_quiet hN hnow

/-- **multi_live_from_everywhere.**  Liveness composes: a master with `n` peripherals, each facing its own
healthy reference slave with matching configuration, in *any* state in which every pair is good and
satisfies the joint invariant: every sequence of fault-free turns (arbitrary in-range times) runs without
panic, and once it contains `(max_retry_limit + 8) (n + 1) + n` non-broadcast turns **every** peripheral
`is_running()` — and stays so, the statement holding for every longer sequence. -/
theorem multi_live_from_everywhere {J : JointN} {ps : List Peripheral} {k : Nat} (hN : NGood J ps k)
    (nows : List Int) (ht : ∀ t ∈ nows, timeB t) :
    ∃ J' os ps', J.quietTurns nows = some (J', os) ∧ NGood J' ps' k ∧ os.length = nows.length ∧
      (KN J.fp ps.length ≤ nonBroadcast os →
        ∀ l, l < ps.length → (ps'.getD l default).isRunning = true) := by
  obtain ⟨J', os, ps', hq, hN', _, hlen', hlen, c, hv, hcount⟩ := quietTurnsN_progress nows ht hN
  refine ⟨J', os, ps', hq, hN', hlen, ?_⟩
  intro hk l hl
  have hpos : posOf ps.length J'.m.cycle ≤ ps.length := by
    rcases hN'.cycle with h | ⟨i, h, hi⟩
    · rw [h]; exact Nat.le_refl _
    · rw [h]; simp only [posOf]; omega
  obtain ⟨v, evs, hquiet, hvc⟩ := hv l hl
  have hKv : K (pjAt J.fp ps J.ss l).fp ≤ v := by
    have hK : K (pjAt J.fp ps J.ss l).fp = K J.fp := rfl
    rw [hK]
    unfold KN at hk
    rcases count_bound hcount hpos hk with h | ⟨h1, h2, h3⟩
    · unfold ind at hvc; split at hvc <;> split at hvc <;> omega
    · rw [h2, h3] at hvc
      simp only [ind, hl, if_true, Nat.not_lt_zero, if_false] at hvc
      omega
  obtain ⟨j', evs', h2, h3⟩ := live_from_everywhere (hN.ok l hl).1 (hN.ok l hl).2 hKv
  rw [hquiet] at h2
  simp only [Option.some.injEq, Prod.mk.injEq] at h2
  rw [← h2.1] at h3
  exact h3

/-! ### Several peripherals under faults: independence of the slots, any history -/

/-- **multi_turn_any.**  One `transmit_telegram` of a master with `n` peripherals under ANY delivery fault
(request lost, reply lost, reply replaced by any well-formed telegram) and an optional
`request_diagnostics()` on any slot between request and reply: no panic, the master stays well-formed
(`NGood`), and slot by slot the turn is a run of at most two environment steps of that slot's OWN pair
(`StepShape`): a decline if the loop passed the slot, the visit with the turn's delivery for the slot whose
request went out (and only that slot sees the delivery fault), a `diagReq` for the slot the user call aims
at — every other slot is untouched.  A fault concerning slot `i` does not change slot `j ≠ i`. -/
theorem multi_turn_any {J : JointN} {ps : List Peripheral} {k : Nat} (hN : NGood J ps k) {now : Int} (hnow : timeB now)
    (mid : Option Nat) {d : Delivery} (hd : ∀ t, d = .sub t → RxOk t) :
    ∃ J' o ps', J.turn now mid d = .ok J' o ∧ NGood J' ps' k ∧ J'.fp = J.fp ∧ ps'.length = ps.length ∧
      ∀ l, l < ps.length → ∃ es, SlotRun J.fp ps J.ss ps' J'.ss l es ∧ StepShape ps mid d o l es :=
  turnN_any hN hnow mid hd

/-- **multi_projection.**  Any master-level history — turns with any delivery and mid-request user call at
any in-range times, power cycles / fault reports / `request_diagnostics()` / output and input changes on any
slots, interleaved arbitrarily — runs without panic, keeps the master well-formed with every pair good and
within the joint invariant, and projects, for every slot, to a run of that slot's own pair (`PJ.run` of
well-formed `PEnv` steps), so every per-pair theorem of this file applies to every slot. -/
theorem multi_projection {J : JointN} {ps : List Peripheral} {k : Nat} (hN : NGood J ps k) (H : List NEnv)
    (hw : ∀ e ∈ H, e.WellFormed) :
    ∃ J' ps', J.mrun H = some J' ∧ NGood J' ps' k ∧ J'.fp = J.fp ∧ ps'.length = ps.length ∧
      ∀ l, l < ps.length → ∃ es evs, (∀ e ∈ es, e.WellFormed) ∧
        (pjAt J.fp ps J.ss l).run es = some (pjAt J.fp ps' J'.ss l, evs) := by
  obtain ⟨J', ps', h1, h2, h3, h4, h5⟩ := multi_projection_aux H hw hN
  refine ⟨J', ps', h1, h2, h3, h4, ?_⟩
  intro l hl
  obtain ⟨es, hwf, evs, hr⟩ := h5 l hl
  exact ⟨es, evs, hwf, hr⟩

/-- Start-up of a master with `n` peripherals: dense storage, Operate, cycle index at slot 0, distinct
slave addresses, every pair good, fresh (`Initial`). -/
structure NStart (J : JointN) (ps : List Peripheral) (k : Nat) : Prop where
  slots : J.m.slots = denseSlots ps k
  op : J.m.op = .operate
  len : J.ss.length = ps.length
  n256 : ps.length ≤ 256
  pos : 0 < ps.length
  fpok : FpOk J.fp
  cycle : J.m.cycle = .dx 0
  good : ∀ l, l < ps.length → Good (pjAt J.fp ps J.ss l) ∧ Initial (pjAt J.fp ps J.ss l)
  addr : ∀ l, l < ps.length → (J.ss.getD l default).cfg.address ≠ 127
  distinct : ∀ l l', l < ps.length → l' < ps.length → l ≠ l' →
    (J.ss.getD l default).cfg.address ≠ (J.ss.getD l' default).cfg.address
  gc : J.m.lastGc = none

theorem NStart.ngood {J : JointN} {ps : List Peripheral} {k : Nat} (h : NStart J ps k) : NGood J ps k :=
  ⟨h.slots, h.op, h.len, h.n256, h.pos, h.fpok, Or.inr ⟨0, h.cycle, h.pos⟩,
   fun l hl => ⟨(h.good l hl).1, jinv_initial (h.good l hl).2⟩, h.addr, h.distinct,
   by intro t ht; rw [h.gc] at ht; cases ht⟩

/-- **multi_live_after_any_history.**  A master with `n` peripherals (slots `0 … n-1`), each with its own
healthy reference slave and matching configuration: from start-up, after ANY master-level history (faults
and user calls interleaved arbitrarily across the peripherals, broadcasts anywhere), every fault-free
continuation has ALL peripherals `is_running()` once it contains `(max_retry_limit + 8)(n + 1) + n`
turns that are not broadcasts — and they stay so. -/
theorem multi_live_after_any_history {J0 : JointN} {ps0 : List Peripheral} {k : Nat} (h0 : NStart J0 ps0 k)
    (H : List NEnv) (hw : ∀ e ∈ H, e.WellFormed) :
    ∃ J ps, J0.mrun H = some J ∧ NGood J ps k ∧
      ∀ (nows : List Int), (∀ t ∈ nows, timeB t) →
        ∃ J' os, ∃ ps' : List Peripheral, J.quietTurns nows = some (J', os) ∧ NGood J' ps' k ∧
          (KN J0.fp ps0.length ≤ nonBroadcast os → ∀ l, l < ps0.length → (ps'.getD l default).isRunning = true) := by
  obtain ⟨J, ps, h1, hN, hfp, hlen, _⟩ := multi_projection_aux H hw h0.ngood
  refine ⟨J, ps, h1, hN, ?_⟩
  intro nows ht
  obtain ⟨J', os, ps', h2, hN', _, h3⟩ := multi_live_from_everywhere hN nows ht
  refine ⟨J', os, ps', h2, hN', ?_⟩
  intro hk l hl
  exact h3 (by rw [hfp, hlen]; exact hk) l (by rw [hlen]; exact hl)

/-- In a fault-free continuation with `KN` non-broadcast turns every slot's pair has had at least
`max_retry_limit + 8` fault-free visits (and nothing else). -/
theorem multi_visit_count {J : JointN} {ps : List Peripheral} {k : Nat} (hN : NGood J ps k)
    (nows : List Int) (ht : ∀ t ∈ nows, timeB t) :
    ∃ J' os, ∃ ps' : List Peripheral, J.quietTurns nows = some (J', os) ∧ NGood J' ps' k ∧
      (KN J.fp ps.length ≤ nonBroadcast os → ∀ l, l < ps.length →
        ∃ v evs, K J.fp ≤ v ∧ (pjAt J.fp ps J.ss l).quiet v = some (pjAt J.fp ps' J'.ss l, evs)) := by
  obtain ⟨J', os, ps', hq, hN', _, hlen', hlen, c, hv, hcount⟩ := quietTurnsN_progress nows ht hN
  refine ⟨J', os, ps', hq, hN', ?_⟩
  intro hk l hl
  have hpos : posOf ps.length J'.m.cycle ≤ ps.length := by
    rcases hN'.cycle with h | ⟨i, h, hi⟩
    · rw [h]; exact Nat.le_refl _
    · rw [h]; simp only [posOf]; omega
  obtain ⟨v, evs, hquiet, hvc⟩ := hv l hl
  refine ⟨v, evs, ?_, hquiet⟩
  unfold KN at hk
  rcases count_bound hcount hpos hk with h | ⟨h1, h2, h3⟩
  · unfold ind at hvc; split at hvc <;> split at hvc <;> omega
  · rw [h2, h3] at hvc
    simp only [ind, hl, if_true, Nat.not_lt_zero, if_false] at hvc
    omega

/-- **multi_offline_once** (the second half of C07 for several peripherals).  Turns under a fault plan by
address (`runF`: what happens to an exchange depends on the station addressed; the other slots may be
served, lose telegrams or get substituted replies in any way).  If every exchange addressed to slave `l`
is lost — slave `l` is silent — then, whatever the other slots do, the pair of slot `l` sees exactly `v`
lost requests and nothing else (independence), hence: no event while `v ≤ max_retry_limit + 1 - retry`,
then exactly one `Offline` event and never another one, `is_live()` false from then on (the offline
peripheral is re-probed every other visit, `offline_reported_once`). -/
theorem multi_offline_once {J : JointN} {ps : List Peripheral} {k : Nat} (hN : NGood J ps k) {l : Nat}
    (hl : l < ps.length) (hlive : (ps.getD l default).isLive = true) (F : List (Int × (UInt8 → Delivery)))
    (hok : PlanOk F) (hsil : ∀ x ∈ F, x.2 (J.ss.getD l default).cfg.address = .lossReq) :
    ∃ J' v evs, ∃ ps' : List Peripheral, J.runF F = some J' ∧ NGood J' ps' k ∧
      (pjAt J.fp ps J.ss l).run (List.replicate v (.visit false .lossReq)) = some (pjAt J.fp ps' J'.ss l, evs) ∧
      evs = (if J.fp.maxRetry + 2 - (ps.getD l default).retry ≤ v then [.offline] else []) ∧
      ((ps'.getD l default).isLive = false ↔ J.fp.maxRetry + 2 - (ps.getD l default).retry ≤ v) := by
  obtain ⟨J', ps', v, h1, hN', _, _, _, evs0, hr⟩ := silent_slot F hok hN hl hsil
  obtain ⟨j', evs, h2, h3, h4⟩ := offline_reported_once (hN.ok l hl).1 hlive v
  rw [hr] at h2
  simp only [Option.some.injEq, Prod.mk.injEq] at h2
  obtain ⟨rfl, rfl⟩ := h2
  exact ⟨J', v, evs0, ps', h1, hN', hr, h3, h4⟩

/-- **multi_online_again.**  When the slave of an offline peripheral answers again (fault-free
continuation for all slots), the events of that slot's pair are `Online`, `Configured`, then only
`DataExchanged` / `Diagnostics`, and it is running — within `KN` non-broadcast turns like every other slot. -/
theorem multi_online_again {J : JointN} {ps : List Peripheral} {k : Nat} (hN : NGood J ps k) {l : Nat}
    (hl : l < ps.length) (hoff : (ps.getD l default).isLive = false) (nows : List Int) (ht : ∀ t ∈ nows, timeB t) :
    ∃ J' os, ∃ ps' : List Peripheral, J.quietTurns nows = some (J', os) ∧ NGood J' ps' k ∧
      (KN J.fp ps.length ≤ nonBroadcast os →
        ∃ v rest, (pjAt J.fp ps J.ss l).quiet v = some (pjAt J.fp ps' J'.ss l, .online :: .configured :: rest) ∧
          (∀ e ∈ rest, e = .dataExchanged ∨ e = .diagnostics) ∧ (ps'.getD l default).isRunning = true) := by
  obtain ⟨J', os, ps', hq, hN', hcount⟩ := multi_visit_count hN nows ht
  refine ⟨J', os, ps', hq, hN', ?_⟩
  intro hk
  obtain ⟨v, evs, hv, hquiet⟩ := hcount hk l hl
  have hv8 : 8 ≤ v := by unfold K at hv; omega
  obtain ⟨j', rest, h1, h2⟩ := online_configured_again (hN.ok l hl).1 (hN.ok l hl).2 hoff hv8
  obtain ⟨j'', evs', h3, h4⟩ := live_from_everywhere (hN.ok l hl).1 (hN.ok l hl).2 (n := v) hv
  rw [hquiet] at h1 h3
  simp only [Option.some.injEq, Prod.mk.injEq] at h1 h3
  refine ⟨v, rest, by rw [hquiet, h1.2], h2, ?_⟩
  rw [← h3.1] at h4; exact h4

/-! ## Outside the scope: a configuration that does not match

`CfgMismatch j`: address, ident number and parameter length agree, the configuration bytes of the
master's `PeripheralOptions::config` differ from the slave's.  `Probing j`: the peripheral is offline
with retry count 0 and the slave will take the probe for a new request (true at start-up and after every
round). -/

/-- **mismatch_cycle.**  With other configuration bytes than the slave accepts, the fault-free run is an
endless repetition of one round of exactly four visits — probe (the diagnostics reply is accepted:
`Online`), `Set_Prm` (accepted, SC), `Chk_Cfg` (acknowledged by SC, but the slave sets `Cfg_Fault` and
returns to `Wait_Prm`), diagnostics (the master sees `Cfg_Fault`: `ConfigError`, peripheral offline again,
retry count 0) — so after `4 r` visits the events are `r` times `Online, ConfigError`, the master is
probing again (no livelock inside a round, no panic, no retry exhaustion, no `Offline` event), and the
peripheral is never in data exchange. -/
theorem mismatch_cycle {j : PJ} (hm : CfgMismatch j) (hp : Probing j) :
    (∀ r, ∃ j', j.quiet (4 * r) = some (j', (List.replicate r [PEvent.online, PEvent.configError]).flatten) ∧
        CfgMismatch j' ∧ Probing j') ∧
    (∀ n, ∃ j' evs, j.quiet n = some (j', evs) ∧ j'.p.isRunning = false) := by
  refine ⟨fun r => cfgm_rounds r hm hp, fun n => ?_⟩
  obtain ⟨j', evs, h1, _, _, h4⟩ := cfgm_never_running n hm (Or.inl hp)
  exact ⟨j', evs, h1, h4⟩

/-- The four visits of a round, one by one (states of the master: `Offline → WaitForParam → WaitForConfig →
ValidateConfig → Offline`; of the slave: any `→` same `→ Wait_Cfg / Data_Exch → Wait_Prm + Cfg_Fault →` same). -/
theorem mismatch_round {j : PJ} (hm : CfgMismatch j) (hp : Probing j) :
    ∃ j1 j2 j3 j4,
      j.visit false .ok = some (j1, some .online) ∧ j1.p.state = .waitForParam ∧
      j1.visit false .ok = some (j2, none) ∧ j2.p.state = .waitForConfig ∧ j2.s.state ≠ .waitPrm ∧
      j2.visit false .ok = some (j3, none) ∧ j3.p.state = .validateConfig ∧ j3.s.state = .waitPrm ∧ j3.s.cfgFault = true ∧
      j3.visit false .ok = some (j4, some .configError) ∧ CfgMismatch j4 ∧ Probing j4 := by
  obtain ⟨j1, v1, m1, _, a1, b1, c1⟩ := cfgm_probe hm hp
  obtain ⟨j2, v2, m2, _, a2, b2, c2, d2⟩ := cfgm_setprm m1 a1 b1 c1
  obtain ⟨j3, v3, m3, _, a3, b3, c3, d3, e3⟩ := cfgm_chkcfg m2 a2 b2 c2 d2
  obtain ⟨j4, v4, m4, _, p4⟩ := cfgm_validate m3 a3 b3 c3 d3 e3
  exact ⟨j1, j2, j3, j4, v1, a1, v2, a2, d2, v3, a3, d3, e3, v4, m4, p4⟩

/-- **mismatch_cycle_ident.**  With an ident number or a parameter length the slave does not accept
(`PrmMismatch`), the fault-free run repeats one round of `max_retry_limit + 4` visits for ever: probe
(`Online`); `Set_Prm` — rejected by the slave (`Prm_Fault`, it stays in `Wait_Prm`) yet acknowledged by SC,
so the master goes on; `Chk_Cfg` and its `max_retry_limit` retransmissions, each answered "SAP not
enabled", which the master ignores; the visit that declares the peripheral `Offline` (frame count bit
reset, so the next probe is a new request for the slave).  Events per round: `Online, Offline`;
`ParameterError` is never raised — the master looks at diagnostics only after `Chk_Cfg` was acknowledged. -/
theorem mismatch_cycle_ident {j : PJ} (hm : PrmMismatch j) (hp : Probing j) :
    ∃ j', j.quiet (j.fp.maxRetry + 4) = some (j', [.online, .offline]) ∧ PrmMismatch j' ∧ Probing j' ∧
      j'.fp = j.fp :=
  prmm_round hm hp

/-! ## Non-vacuity -/

/-- A fresh master with peripheral #7 (`Ex.p7`) and the matching slave after power-on. -/
def Ex.j0 : PJ :=
  { fp := Dp.Ex.fp, op := .operate, p := Dp.Ex.p7, s := Slave.init Witness.cfg [0xc0] }

theorem Ex.good : Good Ex.j0 where
  fp := Dp.Ex.fp_ok
  op := by decide
  pinv := pinv_new Dp.Ex.fp 7 Dp.Ex.opts [0] [0, 0] 16
      (by intro up h; simp [Dp.Ex.opts] at h; subst h; decide)
      (by intro c h; simp [Dp.Ex.opts] at h; subst h; decide) (by decide) (by decide)
  m := ⟨rfl, ⟨[1, 2, 3], rfl, rfl⟩, rfl, by decide, rfl, rfl, rfl⟩
  s := ⟨rfl, rfl, rfl, by decide⟩

theorem Ex.initial : Initial Ex.j0 := ⟨rfl, rfl, rfl, rfl, rfl⟩

/-- The hypotheses of the theorems are satisfiable; the bring-up of the example really ends in data
exchange (evaluated: 5 visits), also after a history with two losses and a power cycle. -/
example : Good Ex.j0 ∧ Initial Ex.j0 ∧ JInv Ex.j0 := ⟨Ex.good, Ex.initial, jinv_initial Ex.initial⟩
example : (Ex.j0.quiet 5).map (fun r => (r.1.p.isRunning, r.2)) =
    some (true, [.online, .configured, .dataExchanged]) := by decide +kernel
example : ((Ex.j0.run [.visit false .ok, .visit false .ok, .visit false .lossRep, .power, .visit true .lossReq]).bind
      fun r => (r.1.quiet 9).map fun r' => r'.1.p.isRunning) = some true := by decide +kernel

/-- The same at master level: `DpMaster::new` over two slots, `add`, `enter_operate`. -/
def Ex.J0 : Joint :=
  match (Master.new 2 false).add Dp.Ex.p7 with
  | .ok (m, i) => { fp := Dp.Ex.fp, m := m.enterOperate, s := Slave.init Witness.cfg [0xc0], slot := i }
  | .panic => default

theorem Ex.minitial : MInitial Ex.J0 Dp.Ex.p7 where
  good :=
    { single := ⟨⟨1, rfl⟩, rfl, Or.inl rfl⟩
      slot := rfl
      good := Ex.good
      addr := by decide
      gc := by intro t h; cases h }
  init := Ex.initial

/-- 16 fault-free master turns, 3 ms apart (the first is the global-control broadcast): the peripheral is
running at the end. -/
example : ((Ex.J0.quietTurns ((List.range 16).map fun (i : Nat) => ((1000 + 3000 * i : Nat) : Int))).map fun r =>
    (((r.1.m.peripheral? 0).map Peripheral.isRunning), nonBroadcast r.2)) = some (some true, 15) := by
  decide +kernel

/-- Two peripherals (#7 with one input byte, #9 with none) and their slaves on one master. -/
def Ex.p9 : Peripheral :=
  Peripheral.new 9 { ident := 0x1234, sync := true, freeze := false, groups := 0, userPrm := some [], config := some [0x55] }
    [] [0] 0
def Ex.cfg9 : SlaveCfg := { address := 9, ident := 0x1234, prmLen := 0, config := [0x55], inLen := 0, outLen := 1 }

def Ex.J2 : JointN :=
  { fp := Dp.Ex.fp,
    m := { slots := denseSlots [Dp.Ex.p7, Ex.p9] 1, growable := false, op := .operate, lastGc := none,
           cycle := .dx 0, lastEvents := {} },
    ss := [Slave.init Witness.cfg [0xc0], Slave.init Ex.cfg9 []] }

theorem Ex.good9 : Good ⟨Dp.Ex.fp, .operate, Ex.p9, Slave.init Ex.cfg9 []⟩ where
  fp := Dp.Ex.fp_ok
  op := by decide
  pinv := pinv_new Dp.Ex.fp 9 _ [] [0] 0
      (by intro up h; simp at h; subst h; decide)
      (by intro c h; simp at h; subst h; decide) (by decide) (by decide)
  m := ⟨rfl, ⟨[], rfl, rfl⟩, rfl, by decide, rfl, rfl, rfl⟩
  s := ⟨rfl, rfl, rfl, by decide⟩

theorem Ex.ngood2 : NGood Ex.J2 [Dp.Ex.p7, Ex.p9] 1 where
  slots := rfl
  op := rfl
  len := rfl
  n256 := by decide
  pos := by decide
  fpok := Dp.Ex.fp_ok
  cycle := Or.inr ⟨0, rfl, by decide⟩
  ok := by
    intro l hl
    match l, hl with
    | 0, _ => exact ⟨Ex.good, jinv_initial (j := Ex.j0) Ex.initial⟩
    | 1, _ => exact ⟨Ex.good9, jinv_initial (j := ⟨Dp.Ex.fp, .operate, Ex.p9, Slave.init Ex.cfg9 []⟩) ⟨rfl, rfl, rfl, rfl, rfl⟩⟩
  addr := by
    intro l hl
    match l, hl with
    | 0, _ => decide
    | 1, _ => decide
  distinct := by
    intro l l' hl hl' hne
    match l, l', hl, hl', hne with
    | 0, 1, _, _, _ => decide
    | 1, 0, _, _, _ => decide
    | 0, 0, _, _, h => exact absurd rfl h
    | 1, 1, _, _, h => exact absurd rfl h
  gc := by intro t h; cases h

/-- The two-peripheral bring-up, evaluated: 20 fault-free turns, both running. -/
example : ((Ex.J2.quietTurns ((List.range 20).map fun (i : Nat) => ((1000 + 3000 * i : Nat) : Int))).map fun r =>
    ((List.range 2).map fun l => (r.1.m.peripheral? l).map Peripheral.isRunning)) = some [some true, some true] := by
  decide +kernel

/-- A slave that expects other configuration bytes than the master sends: hypotheses satisfiable, and the
first two rounds evaluated. -/
def Ex.jBad : PJ :=
  { fp := Dp.Ex.fp, op := .operate, p := Dp.Ex.p7, s := Slave.init { Witness.cfg with config := [0x11, 0x22] } [0xc0] }

example : CfgMismatch Ex.jBad ∧ Probing Ex.jBad :=
  ⟨⟨Dp.Ex.fp_ok, by decide, Ex.good.pinv, rfl, ⟨[1, 2, 3], rfl, rfl⟩, rfl, by decide,
    ⟨[0x11, 0x21], rfl, by decide⟩, rfl⟩, ⟨rfl, rfl, rfl⟩⟩

example : (Ex.jBad.quiet 8).map (fun r => (r.1.p.isRunning, r.2)) =
    some (false, [.online, .configError, .online, .configError]) := by decide +kernel

/-- A slave with another ident number: hypotheses satisfiable, two rounds evaluated (retry limit 1: five
visits each). -/
def Ex.jId : PJ :=
  { fp := Dp.Ex.fp, op := .operate, p := Dp.Ex.p7, s := Slave.init { Witness.cfg with ident := 0x1111 } [0xc0] }

example : PrmMismatch Ex.jId ∧ Probing Ex.jId :=
  ⟨⟨Dp.Ex.fp_ok, by decide, Ex.good.pinv, rfl, by decide, ⟨[1, 2, 3], rfl, Or.inr (by decide)⟩, ⟨[0x11, 0x21], rfl⟩⟩,
   ⟨rfl, rfl, rfl⟩⟩

example : (Ex.jId.quiet 10).map (fun r => (r.1.p.isRunning, r.2)) =
    some (false, [.online, .offline, .online, .offline]) := by decide +kernel

/-- The two-peripheral example is a start-up state (`NStart`), and a history with faults on both slots, a
power cycle, a fault report and user calls is well-formed: the hypotheses of `multi_live_after_any_history`
are satisfiable; evaluated, the history followed by 40 fault-free turns has both peripherals running. -/
theorem Ex.nstart2 : NStart Ex.J2 [Dp.Ex.p7, Ex.p9] 1 where
  slots := rfl
  op := rfl
  len := rfl
  n256 := by decide
  pos := by decide
  fpok := Dp.Ex.fp_ok
  cycle := rfl
  good := by
    intro l hl
    match l, hl with
    | 0, _ => exact ⟨Ex.good, Ex.initial⟩
    | 1, _ => exact ⟨Ex.good9, ⟨rfl, rfl, rfl, rfl, rfl⟩⟩
  addr := Ex.ngood2.addr
  distinct := Ex.ngood2.distinct
  gc := rfl

def Ex.hist2 : List NEnv :=
  [.turn 1000 none .ok, .turn 4000 none .ok, .turn 7000 none .lossRep, .turn 10000 (some 1) .lossReq, .power 0,
   .fault 1 [0x42, 0x01], .diagReq 0, .turn 13000 none .ok, .turn 16000 (some 0) .lossRep, .inputs 0 [0x77]]

example : ∀ e ∈ Ex.hist2, e.WellFormed := by
  intro e he
  simp only [Ex.hist2, List.mem_cons, List.mem_nil_iff, or_false] at he
  rcases he with rfl | rfl | rfl | rfl | rfl | rfl | rfl | rfl | rfl | rfl <;>
    first
    | trivial
    | exact ⟨by unfold timeB; constructor <;> decide, by intro t h; cases h⟩

example : ((Ex.J2.mrun Ex.hist2).bind fun J =>
      (J.quietTurns ((List.range 40).map fun (i : Nat) => ((20000 + 3000 * i : Nat) : Int))).map fun r =>
        ((List.range 2).map fun l => (r.1.m.peripheral? l).map Peripheral.isRunning)) = some [some true, some true] := by
  decide +kernel

/-- A silent slave #9 next to a healthy #7 (`runF`, retry limit 1): evaluated, after 12 turns slot 1 is
offline, slot 0 running. -/
example : ((Ex.J2.runF ((List.range 16).map fun (i : Nat) =>
      (((1000 + 3000 * i : Nat) : Int), fun (a : UInt8) => if a = 9 then Delivery.lossReq else Delivery.ok))).map fun J =>
      (List.range 2).map fun l => (J.m.peripheral? l).map fun p => (p.isLive, p.isRunning)) =
    some [some (true, true), some (false, false)] := by decide +kernel

end PV.C07
