/-
C18 — Live list and DP scanner converge to the stations actually on the bus.

Property theorems only; definitions (`App`, `Op`, `Ghost`, `gstep`, `grun`) and the invariants are in
`Lemmas/Apps.lean`.  All statements are about `Model/LiveList.lean` / `Model/Scanner.lean`, which the
`apps` correspondence ties to `src/fdl/live_list.rs` and `src/dp/scan.rs`.

A *history* is a list of operations `tx | reply a t | timeout a | take` run from the initial state by
`grun`, which has the contract of the FDL station (property C15) built in: `reply a t` / `timeout a`
are only possible while a reply from `a` is outstanding (i.e. `a` is the address the application's
last `transmit_telegram` asked a reply from, and no callback has been delivered for it yet), and `t`
must be a short confirmation or a response telegram with SA = `a`, DA = own address.  Anything else
is `refused` (the theorems then say nothing); `tx` and `take` are possible at any time.  `grun`
returns the final model state together with ghost observations of the whole history (see `Ghost`).
Every theorem quantifies over *all* histories (`∀ ops`), all own addresses and all populations `R`.
-/
import ProfiVerif.Lemmas.Apps
import ProfiVerif.Lemmas.Codec

namespace PV.C18
open PV PV.Apps

variable {ε : Type}

/-! ### no_panic -/

/-- No history the contract allows makes either application panic (generic form). -/
theorem no_panic {A : App ε} (hS : A.Spec) (own : Nat) (R : Nat → Bool) (ops : List Op) :
    grun A own R Ghost.init ops ≠ .panic :=
  (inv_run hS own R ops Ghost.init (inv_init A R)).1

theorem livelist_no_panic (own : Nat) (R : Nat → Bool) (ops : List Op) :
    grun llApp own R Ghost.init ops ≠ .panic := no_panic llApp_spec own R ops

theorem scanner_no_panic (own : Nat) (R : Nat → Bool) (ops : List Op) :
    grun scApp own R Ghost.init ops ≠ .panic := no_panic scApp_spec own R ops

/-- Outside the contract: the callbacks panic exactly when the address handed in does not index the
128-bit station array (`.get(addr).unwrap()`), whatever the telegram is. -/
theorem livelist_callback_panics_iff (s : Sweep StationEvent) (hl : s.stations.length = 128) (a : Nat) (t : Telegram) :
    (LiveList.receiveReply s a t = .panic ↔ 128 ≤ a) ∧ (LiveList.handleTimeout s a = .panic ↔ 128 ≤ a) := by
  by_cases ha : a < 128
  · have : a < s.stations.length := by omega
    have hold : s.stations[a]? = some s.stations[a] := by simp [this]
    obtain ⟨e, he, _⟩ := llApp_spec.reply_ok s a t _ hold
    have h2 := timeout_ok StationEvent.lost s a _ hold
    simp only [llApp] at he
    constructor
    · rw [he]; constructor
      · intro h; cases h
      · intro h; omega
    · unfold LiveList.handleTimeout; rw [h2]; constructor
      · intro h; cases h
      · intro h; omega
  · have hn : s.stations[a]? = none := by simp; omega
    have h1 := llApp_spec.reply_panic s a t hn
    have h2 := timeout_panic StationEvent.lost s a hn
    simp only [llApp] at h1
    exact ⟨⟨fun _ => by omega, fun _ => h1⟩, ⟨fun _ => by omega, fun _ => h2⟩⟩

theorem scanner_callback_panics_iff (s : Sweep DpScanEvent) (hl : s.stations.length = 128) (a : Nat) (t : Telegram) :
    (Scanner.receiveReply s a t = .panic ↔ 128 ≤ a) ∧ (Scanner.handleTimeout s a = .panic ↔ 128 ≤ a) := by
  by_cases ha : a < 128
  · have : a < s.stations.length := by omega
    have hold : s.stations[a]? = some s.stations[a] := by simp [this]
    obtain ⟨e, he, _⟩ := scApp_spec.reply_ok s a t _ hold
    have h2 := timeout_ok DpScanEvent.lost s a _ hold
    simp only [scApp] at he
    constructor
    · rw [he]; constructor
      · intro h; cases h
      · intro h; omega
    · unfold Scanner.handleTimeout; rw [h2]; constructor
      · intro h; cases h
      · intro h; omega
  · have hn : s.stations[a]? = none := by simp; omega
    have h1 := scApp_spec.reply_panic s a t hn
    have h2 := timeout_panic DpScanEvent.lost s a hn
    simp only [scApp] at h1
    exact ⟨⟨fun _ => by omega, fun _ => h1⟩, ⟨fun _ => by omega, fun _ => h2⟩⟩

/-- The request either application builds is addressed to the cursor, comes from the own address,
serialises without panic to the PROFIBUS frame layout, and asks for a reply from its DA. -/
theorem request_serializes (own : UInt8) (s : Sweep StationEvent) (s2 : Sweep DpScanEvent) :
    (∀ s' h pdu, LiveList.transmit own s = (s', some (h, pdu)) →
      h = fdlStatusRequestHeader (UInt8.ofNat s.cursor) own ∧ pdu = [] ∧
      h.serialize pdu = .ok (frameSpec h pdu) ∧ expectsReplyOf h = some h.da) ∧
    (∀ s' h pdu, Scanner.transmit own s2 = (s', some (h, pdu)) →
      h = Scanner.diagRequestHeader (UInt8.ofNat s2.cursor) own ∧ pdu = [] ∧
      h.serialize pdu = .ok (frameSpec h pdu) ∧ expectsReplyOf h = some h.da) := by
  constructor
  · intro s' h pdu ht
    unfold LiveList.transmit Sweep.transmit at ht
    by_cases hd : s.done = true
    · simp [hd] at ht
    · simp [hd] at ht
      obtain ⟨_, rfl, rfl⟩ := ht
      refine ⟨rfl, rfl, serialize_ok _ _ (by simp [Header.lengthByte, Header.saps, fdlStatusRequestHeader]), rfl⟩
  · intro s' h pdu ht
    unfold Scanner.transmit Sweep.transmit at ht
    by_cases hd : s2.done = true
    · simp [hd] at ht
    · simp [hd] at ht
      obtain ⟨_, rfl, rfl⟩ := ht
      refine ⟨rfl, rfl, serialize_ok _ _ (by simp [Header.lengthByte, Header.saps, Scanner.diagRequestHeader, SAP_SLAVE_DIAGNOSIS, SAP_MASTER_MS0]), rfl⟩

/-! ### probe_range, one_probe_per_visit -/

/-- After any history: the address the next `transmit_telegram` probes is the cursor, is ≤ 125, the
call leaves the state unchanged, and it relates to the previous probe `p` as follows — the very
first probe is address 0; if the callback for `p` was delivered the next probe is `(p + 1) % 126`;
if it was not (the station lost the token before a reply or timeout) `p` is probed again.
No address is skipped — in particular not the own address. -/
theorem probe_range {A : App ε} (hS : A.Spec) (own : Nat) (R : Nat → Bool) (ops : List Op) (g : Ghost ε)
    (h : grun A own R Ghost.init ops = .ok g) (q : Nat) (hq : g.s.transmit.2 = some q) :
    q ≤ 125 ∧ q = g.s.cursor ∧ g.s.transmit.1 = g.s ∧
    (match g.lastProbe with
     | none => q = 0
     | some (p, answered) => p ≤ 125 ∧ q = if answered then (p + 1) % 126 else p) := by
  have hI := ((inv_run hS own R ops Ghost.init (inv_init A R)).2 g h).st
  unfold Sweep.transmit at hq ⊢
  by_cases hd : g.s.done = true
  · simp [hd] at hq
  · have hd' : g.s.done = false := by simpa using hd
    simp only [hd', Bool.false_eq_true, if_false, Option.some.injEq] at hq ⊢
    subst hq
    have hc := hI.cur
    refine ⟨hc, by trivial, by trivial, ?_⟩
    cases hl : g.lastProbe with
    | none =>
      have := hI.lp_none hl
      have := hI.cur_n hd'
      simp only; omega
    | some pa =>
      obtain ⟨p, ans⟩ := pa
      cases ans with
      | false =>
        have := (hI.lp_open p hl).1
        simp only [Bool.false_eq_true, if_false]; omega
      | true =>
        have h3 := hI.lp_ans p hl
        by_cases hid : g.idle = true
        · have := h3.2.1 hid
          simp only [if_true]; omega
        · have hid' : g.idle = false := by simpa using hid
          have := (h3.2.2 hid').2
          rw [hd'] at this; cases this

/-- One probe per visit: `transmit_telegram` declines (returns `None`, ending the visit and advancing
the cursor by one modulo 126) exactly when the callback of the last probe has been delivered and it
has not been called since; and a callback can only ever be delivered for the last probe, once
(`out` is the contract automaton: it is `some a` only directly after a probe of `a`). -/
theorem one_probe_per_visit {A : App ε} (hS : A.Spec) (own : Nat) (R : Nat → Bool) (ops : List Op) (g : Ghost ε)
    (h : grun A own R Ghost.init ops = .ok g) :
    (g.s.transmit.2 = none ↔ ∃ p, g.lastProbe = some (p, true) ∧ g.idle = false) ∧
    (g.s.transmit.2 = none → g.s.transmit.1.cursor = (g.s.cursor + 1) % 126 ∧ g.s.transmit.1.done = false ∧
      g.s.transmit.1.stations = g.s.stations ∧ g.s.transmit.1.pending = g.s.pending) ∧
    (∀ a, g.out = some a → g.lastProbe = some (a, false)) := by
  have hI := ((inv_run hS own R ops Ghost.init (inv_init A R)).2 g h).st
  refine ⟨?_, ?_, hI.out_p⟩
  · unfold Sweep.transmit
    by_cases hd : g.s.done = true
    · simp only [hd, if_true, true_iff]
      cases hl : g.lastProbe with
      | none => have := (hI.lp_none hl).2.1; rw [hd] at this; cases this
      | some pa =>
        obtain ⟨p, ans⟩ := pa
        cases ans with
        | false => have := (hI.lp_open p hl).2.1; rw [hd] at this; cases this
        | true =>
          refine ⟨p, rfl, ?_⟩
          by_cases hid : g.idle = true
          · have := ((hI.lp_ans p hl).2.1 hid).2.1; rw [hd] at this; cases this
          · simpa using hid
    · have hd' : g.s.done = false := by simpa using hd
      simp only [hd', Bool.false_eq_true, if_false, reduceCtorEq, false_iff]
      rintro ⟨p, hl, hid⟩
      have := ((hI.lp_ans p hl).2.2 hid).2
      rw [hd'] at this; cases this
  · unfold Sweep.transmit
    by_cases hd : g.s.done = true
    · have := hI.cur
      simp only [hd, if_true, true_implies]
      refine ⟨?_, by trivial, by trivial, by trivial⟩
      split <;> omega
    · simp [hd]

/-! ### list_tracks -/

theorem range128 : List.range 128 = List.range 126 ++ [126, 127] := by decide

/-- Generic convergence: `g.stable` counts how many of the most recent callbacks agreed with the
population `R` (a callback for `a` agrees iff it is an accepted reply when `R a`, and a timeout or a
non-accepted reply when `¬ R a`; a lost reply of a member of `R` therefore resets the count).  Once
the last 126 callbacks — one complete sweep, hence a fortiori "two full address sweeps" — agree, and
the bit after every reply was `accepts` of it (`noStale`; always true for both applications, see
`bit_eq_noStale`), the
station set is exactly `R` restricted to 0..125, whatever happened before. -/
theorem list_tracks {A : App ε} (hS : A.Spec) (own : Nat) (R : Nat → Bool) (ops : List Op) (g : Ghost ε)
    (h : grun A own R Ghost.init ops = .ok g) (hst : 126 ≤ g.stable) (hns : g.noStale = true) :
    g.s.stationList = (List.range 126).filter R := by
  have hI := (inv_run hS own R ops Ghost.init (inv_init A R)).2 g h
  unfold Sweep.stationList
  rw [hI.st.len, range128, List.filter_append]
  have e1 := hI.st.bits_hi 126 (by omega)
  have e2 := hI.st.bits_hi 127 (by omega)
  have h2 : List.filter (fun a => g.s.stations.getD a false) [126, 127] = [] := by
    simp only [List.filter, e1, e2]
  rw [h2, List.append_nil]
  apply List.filter_congr
  intro w hw
  have hw' : w < 126 := by simpa using hw
  have hsn := hI.tr.stable_le
  have hage := hI.tr.age_some w (by omega) (by omega)
  cases ha : g.age w with
  | none => exact absurd ha hage
  | some j =>
    have hj := hI.tr.age_form w j ha
    have hb := hI.tr.fresh w j ha (by omega)
    rw [hI.tr.bit hns w, hb]
    cases R w <;> rfl

/-- In both applications the station bit after a reply is `accepts` of that reply (live list: always
set; scanner since c0f8a92: set iff the reply is a well-formed diagnostics response), so `noStale`
holds after every history. -/
theorem bit_eq_noStale {A : App ε} (hacc : ∀ old t, A.bit old t = A.accepts t) (own : Nat) (R : Nat → Bool)
    (ops : List Op) : ∀ (g0 g : Ghost ε), g0.noStale = true → grun A own R g0 ops = .ok g → g.noStale = true := by
  induction ops with
  | nil => intro g0 g h0 h; simp only [grun] at h; cases h; exact h0
  | cons op ops ih =>
    intro g0 g h0 h
    simp only [grun] at h
    cases hs : gstep A own R g0 op with
    | ok g1 =>
      rw [hs] at h
      refine ih g1 g ?_ h
      cases op with
      | tx => simp only [gstep] at hs; split at hs <;> (cases hs; exact h0)
      | take => simp only [gstep] at hs; cases hs; exact h0
      | reply a t =>
        simp only [gstep] at hs
        split at hs
        · cases hs
        · split at hs
          · cases hs
          · cases hs; simp [Ghost.afterCallback, h0, hacc]
      | timeout a =>
        simp only [gstep] at hs
        split at hs
        · cases hs
        · split at hs
          · cases hs
          · cases hs; simp [Ghost.afterCallback, h0]
    | panic => rw [hs] at h; cases h
    | refused => rw [hs] at h; cases h

/-- Live list: for every history and every own address, once the last 126 callbacks agree with the
population `pop` of *other* stations (members answered with any reply, all other addresses — among
them the own address, which is probed like any other but cannot answer — timed out),
`iter_stations()` yields exactly `pop \ {own}` within 0..125, ascending. -/
theorem livelist_list_tracks (own : Nat) (pop : Nat → Bool) (ops : List Op) (g : Ghost StationEvent)
    (h : grun llApp own (fun a => pop a && (a != own)) Ghost.init ops = .ok g) (hst : 126 ≤ g.stable) :
    LiveList.stations g.s = (List.range 126).filter (fun a => pop a && (a != own)) :=
  list_tracks llApp_spec own _ ops g h hst
    (bit_eq_noStale (fun _ _ => rfl) own _ ops Ghost.init g rfl h)

/-- DP scanner (full statement, no extra hypothesis since the repair c0f8a92): for every history and
every own address, once the last 126 callbacks agree with `R` — the addresses in `R` answered with a
well-formed diagnostics response, every other address timed out *or answered with anything else* —
the scanner's station set is exactly `R` within 0..125. -/
theorem scanner_list_tracks_full (own : Nat) (R : Nat → Bool) (ops : List Op) (g : Ghost DpScanEvent)
    (h : grun scApp own R Ghost.init ops = .ok g) (hst : 126 ≤ g.stable) :
    Scanner.stations g.s = (List.range 126).filter R :=
  list_tracks scApp_spec own R ops g h hst
    (bit_eq_noStale (fun _ _ => rfl) own R ops Ghost.init g rfl h)

/-- Evaluate a (decidable) predicate on the outcome of a history; `false` if it panicked / was refused. -/
def holds (r : Res (Ghost ε)) (p : Ghost ε → Bool) : Bool :=
  match r with
  | .ok g => p g
  | _ => false

theorem holds_ok {r : Res (Ghost ε)} {p : Ghost ε → Bool} (h : holds r p = true) : ∃ g, r = .ok g ∧ p g = true := by
  cases r with
  | ok g => exact ⟨g, rfl, h⟩
  | panic => cases h
  | refused => cases h

/-- One visit of address `a`: probe, callback (`some t` = reply, `none` = timeout), collect, end of visit. -/
def visitOps (a : Nat) (r : Option Telegram) : List Op :=
  [.tx, (match r with | some t => .reply a t | none => .timeout a), .take, .tx]

/-- One complete sweep 0..125 over an environment. -/
def sweepOps (env : Nat → Option Telegram) : List Op :=
  (List.range 126).flatMap fun a => visitOps a (env a)

/-- A well-formed diagnostics response of address `a` to station `own` (ident 0x1234, master 2). -/
def diagReply (a own : UInt8) : Telegram :=
  .data { da := own, sa := a, dsap := SAP_MASTER_MS0, ssap := SAP_SLAVE_DIAGNOSIS, fc := .response .slave .dataLow }
    [0x02, 0x05, 0x00, 0x02, 0x12, 0x34]

/-- The history that witnessed the former finding `K_C18_scanner_stale`: address 0 is found as a DP
peripheral, every other address is silent; from the next sweep on address 0 answers with a short
confirmation (it is no DP peripheral any more, but something still answers). -/
def staleOps : List Op :=
  sweepOps (fun a => if a = 0 then some (diagReply 0 2) else none) ++ visitOps 0 (some .sc)

/-- Regression of the repaired behaviour: the scanner now reports peripheral 0 lost and forgets it. -/
theorem stale_peripheral_is_lost :
    holds (grun scApp 2 (fun _ => false) Ghost.init staleOps)
      (fun g => decide (126 ≤ g.stable) && decide (Scanner.stations g.s = []) && decide (g.evs 0 = [false, true])) = true := by
  decide +kernel

/-! ### events_alternate -/

theorem pendFor_short (A : App ε) (w : Nat) (s : Sweep ε) : pendFor A w s = [] ∨ ∃ b, pendFor A w s = [b] := by
  unfold pendFor
  split
  · split
    · exact Or.inr ⟨_, rfl⟩
    · exact Or.inl rfl
  · exact Or.inl rfl

/-- Events report exactly the changes of the station bit: if `take_last_event` was called between any
two callbacks (`collected`) and every reply was one of the stated population (`goodReplies`; for the
live list: a response telegram, not a short confirmation), then for every address `w` the sequence
of Discovered/Found (`true`) and Lost (`false`) events taken so far, plus the one still pending, *is*
the sequence of changes of the station bit of `w` (one event per change, none without a change,
`Requery` events not counted), and the current bit is the last change. -/
theorem events_track_changes {A : App ε} (hS : A.Spec) (own : Nat) (R : Nat → Bool) (ops : List Op) (g : Ghost ε)
    (h : grun A own R Ghost.init ops = .ok g) (hc : g.collected = true) (hg : g.goodReplies = true) (w : Nat) :
    pendFor A w g.s ++ g.evs w = g.chg w ∧ g.s.stations.getD w false = (g.chg w).headD false := by
  have hI := (inv_run hS own R ops Ghost.init (inv_init A R)).2 g h
  exact ⟨hI.ev.log hc hg w, hI.ev.head w⟩

/-- … and therefore, per address, Discovered/Found and Lost strictly alternate, starting with
Discovered/Found (`alt` of the newest-first list: neighbours differ, the oldest is `true`). -/
theorem events_alternate {A : App ε} (hS : A.Spec) (own : Nat) (R : Nat → Bool) (ops : List Op) (g : Ghost ε)
    (h : grun A own R Ghost.init ops = .ok g) (hc : g.collected = true) (hg : g.goodReplies = true) (w : Nat) :
    alt (g.evs w) = true ∧ alt (pendFor A w g.s ++ g.evs w) = true := by
  have hI := (inv_run hS own R ops Ghost.init (inv_init A R)).2 g h
  have h1 := hI.ev.log hc hg w
  have h2 := hI.ev.altc w
  rw [← h1] at h2
  refine ⟨?_, h2⟩
  rcases pendFor_short A w g.s with h0 | ⟨b, hb⟩
  · rw [h0] at h2; exact h2
  · rw [hb] at h2; exact alt_tail b _ h2

theorem livelist_events_alternate (own : Nat) (R : Nat → Bool) (ops : List Op) (g : Ghost StationEvent)
    (h : grun llApp own R Ghost.init ops = .ok g) (hc : g.collected = true) (hg : g.goodReplies = true) (w : Nat) :
    alt (g.evs w) = true ∧ pendFor llApp w g.s ++ g.evs w = g.chg w :=
  ⟨(events_alternate llApp_spec own R ops g h hc hg w).1, (events_track_changes llApp_spec own R ops g h hc hg w).1⟩

/-- For the scanner every reply is `good` (the hypothesis is only needed for the live list). -/
theorem good_all {A : App ε} (hgood : ∀ t, A.good t = true) (own : Nat) (R : Nat → Bool)
    (ops : List Op) : ∀ (g0 g : Ghost ε), g0.goodReplies = true → grun A own R g0 ops = .ok g → g.goodReplies = true := by
  induction ops with
  | nil => intro g0 g h0 h; simp only [grun] at h; cases h; exact h0
  | cons op ops ih =>
    intro g0 g h0 h
    simp only [grun] at h
    cases hs : gstep A own R g0 op with
    | ok g1 =>
      rw [hs] at h
      refine ih g1 g ?_ h
      cases op with
      | tx => simp only [gstep] at hs; split at hs <;> (cases hs; exact h0)
      | take => simp only [gstep] at hs; cases hs; exact h0
      | reply a t =>
        simp only [gstep] at hs
        split at hs
        · cases hs
        · split at hs
          · cases hs
          · cases hs; simp [Ghost.afterCallback, h0, hgood]
      | timeout a =>
        simp only [gstep] at hs
        split at hs
        · cases hs
        · split at hs
          · cases hs
          · cases hs; simp [Ghost.afterCallback, h0]
    | panic => rw [hs] at h; cases h
    | refused => rw [hs] at h; cases h

theorem scanner_events_alternate (own : Nat) (R : Nat → Bool) (ops : List Op) (g : Ghost DpScanEvent)
    (h : grun scApp own R Ghost.init ops = .ok g) (hc : g.collected = true) (w : Nat) :
    alt (g.evs w) = true ∧ pendFor scApp w g.s ++ g.evs w = g.chg w :=
  have hg := good_all (A := scApp) (fun _ => rfl) own R ops Ghost.init g rfl h
  ⟨(events_alternate scApp_spec own R ops g h hc hg w).1, (events_track_changes scApp_spec own R ops g h hc hg w).1⟩

/-- What a scanner event says: for a reply `t` from an address `a < 128`, the pending event is
`PeripheralFound` (address unknown) / `PeripheralRequery` (known) carrying
ident = BE16(pdu[4..6]) and the master address pdu[3] (255 = none) exactly when `t` is a data telegram
with DSAP 62, SSAP 60 and at least 6 PDU bytes; otherwise a known peripheral is forgotten with a
`PeripheralLost` event, and for an unknown address nothing happens. -/
theorem scanner_reply_event (s : Sweep DpScanEvent) (a : Nat) (t : Telegram) (known : Bool) (hk : s.stations[a]? = some known) :
    (∀ h pdu, t = .data h pdu → h.dsap = some 62 → h.ssap = some 60 → 6 ≤ pdu.length →
      let desc : DpDesc := ⟨a, (pdu.getD 4 0).toNat * 256 + (pdu.getD 5 0).toNat,
                            if pdu.getD 3 0 = 255 then none else some (pdu.getD 3 0).toNat⟩
      Scanner.receiveReply s a t =
        .ok { s with done := true, pending := some (if known then .requery desc else .found desc), stations := s.stations.set a true }) ∧
    ((∀ h pdu, t = .data h pdu → ¬ (h.dsap = some 62 ∧ h.ssap = some 60 ∧ 6 ≤ pdu.length)) →
      Scanner.receiveReply s a t =
        .ok { s with done := true, pending := if known then some (.lost a) else none, stations := s.stations.set a false }) := by
  constructor
  · intro h pdu ht hd hs hl
    subst ht
    have hp : parseDiagResponse (.data h pdu) = .ok (some ⟨(pdu.getD 4 0).toNat * 256 + (pdu.getD 5 0).toNat,
        if pdu.getD 3 0 = 255 then none else some (pdu.getD 3 0).toNat⟩) := by
      unfold parseDiagResponse
      simp only [hd, hs, SAP_MASTER_MS0, SAP_SLAVE_DIAGNOSIS, ne_eq, not_true_eq_false, if_false]
      rw [if_neg (by omega), if_neg (by omega)]
    cases known with
    | true => simp [Scanner.receiveReply, hk, hp, set_self _ _ _ hk]
    | false => simp [Scanner.receiveReply, hk, hp]
  · intro hno
    have hp : parseDiagResponse t = .ok none := by
      cases t with
      | data h pdu =>
        have := hno h pdu rfl
        unfold parseDiagResponse
        simp only [SAP_MASTER_MS0, SAP_SLAVE_DIAGNOSIS]
        by_cases h1 : h.dsap = some 62
        · by_cases h2 : h.ssap = some 60
          · have : pdu.length < 6 := by
              rcases Nat.lt_or_ge pdu.length 6 with h3 | h3
              · exact h3
              · exact absurd ⟨h1, h2, h3⟩ this
            simp [h1, h2, this]
          · simp [h1, h2]
        · simp [h1]
      | token _ _ => rfl
      | sc => rfl
    cases known with
    | true => simp [Scanner.receiveReply, hk, hp]
    | false => simp [Scanner.receiveReply, hk, hp, set_self _ _ _ hk]

/-- Why `goodReplies` is needed for the live list: a short confirmation as "reply" to the status
request sets the bit without a `Discovered` event (the history is allowed by the contract). -/
theorem livelist_sc_sets_bit_silently :
    holds (grun llApp 2 (fun _ => false) Ghost.init [.tx, .reply 0 .sc, .take]) (fun g =>
      LiveList.stations g.s = [0] ∧ g.evs 0 = [] ∧ g.chg 0 = [true] ∧ g.collected = true ∧ g.goodReplies = false) = true := by
  decide +kernel

/-! ### Non-vacuity -/

/-- A status response of `a` to `own`. -/
def statusReply (a own : UInt8) : Telegram := .data (fdlStatusResponseHeader own a .slave .ok) []

/-- Stations 3 and 125 answer during two sweeps, then 3 disappears for a sweep: the hypotheses of
`livelist_list_tracks` / `events_alternate` hold (`stable ≥ 126`, `collected`, `goodReplies`) and the
conclusions are the expected concrete values. -/
example :
    let env1 : Nat → Option Telegram := fun a => if a = 3 ∨ a = 125 then some (statusReply (UInt8.ofNat a) 7) else none
    let env2 : Nat → Option Telegram := fun a => if a = 125 then some (statusReply 125 7) else none
    holds (grun llApp 7 (fun a => (a == 125) && (a != 7)) Ghost.init (sweepOps env1 ++ sweepOps env1 ++ sweepOps env2)) (fun g =>
      126 ≤ g.stable ∧ g.collected = true ∧ g.goodReplies = true ∧
      LiveList.stations g.s = [125] ∧ g.evs 3 = [false, true] ∧ g.evs 125 = [true] ∧ g.evs 7 = []) = true := by
  decide +kernel

/-- The scanner finds peripheral 0 (ident 0x1234, master 2) and re-queries it on the next sweep. -/
example :
    let env : Nat → Option Telegram := fun a => if a = 0 then some (diagReply 0 2) else none
    holds (grun scApp 2 (fun a => a == 0) Ghost.init (sweepOps env ++ [.tx, .reply 0 (diagReply 0 2)])) (fun g =>
      126 ≤ g.stable ∧ g.noStale = true ∧ g.collected = true ∧ Scanner.stations g.s = [0] ∧
      g.s.pending = some (.requery ⟨0, 0x1234, some 2⟩) ∧ g.evs 0 = [true]) = true := by
  decide +kernel

/-- The contract is not vacuous the other way either: a reply from an address that was not probed is refused. -/
example : (match grun llApp 2 (fun _ => false) Ghost.init [.tx, .reply 5 (statusReply 5 2)] with
    | .refused => true | _ => false) = true := by decide +kernel

/-- Cursor wrap: after probing 125 the next probe is 0 (never 126). -/
example : holds (grun llApp 2 (fun _ => false) Ghost.init (sweepOps fun _ => none)) (fun g =>
    g.lastProbe = some (125, true) ∧ g.s.transmit.2 = some 0) = true := by decide +kernel

end PV.C18
