import ProfiVerif.Model.Dp.Master
namespace PV.C04
open PV PV.Dp
/-- placeholder, replaced below -/
theorem stub : Master.handleTimeout = fun m _ => m := rfl
end PV.C04
