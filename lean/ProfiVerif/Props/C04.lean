/-
C04 — Process images are transferred faithfully and never corrupted.

Property theorems only; definitions (`Op`, `G`, `gstep`, `grun`, `Inv`, `RxSpec`, `TxSpec`) are in
`Lemmas/Dp.lean`.  All statements are about `Model/Dp/{Peripheral,Master}.lean`, which the `dp`
correspondence ties to `src/dp/{peripheral,master,peripheral_set}.rs`.

A *history* is a list of operations `tx now hp | reply a t | timeout a | take | writeQ slot bytes |
diagReq slot` run by `grun` from `G.init slots growable` (a master in Operate whose slots hold freshly
constructed peripherals, `InitOk`).  `grun` has the contract of the FDL station (property C15) built
in: `reply a t` / `timeout a` are only possible while a reply from `a` is outstanding, `t` must be a
short confirmation or a response telegram with SA = `a`, DA = own address, `now` is non-decreasing;
anything else is `refused` (the theorems then say nothing).  User calls (`take_last_events`, writes to
`pi_q`, `request_diagnostics`) are possible at any point.  Every state reached this way satisfies the
invariant `Inv` (`reachable_inv`); the step theorems below are stated for *every* state satisfying
`Inv`, hence for every point of every history, all image lengths, payloads and reply kinds.
-/
import ProfiVerif.Lemmas.Dp

namespace PV.C04
open PV PV.Dp

/-- Every state a contract history reaches satisfies the invariant the step theorems assume. -/
theorem reachable_inv {fp : FdlParams} (hfp : FpOk fp) {slots : List (Option Peripheral)}
    (hinit : InitOk fp slots) (gr : Bool) (ops : List Op) {g : G}
    (h : grun fp (G.init slots gr) ops = .ok g) : Inv fp g :=
  (inv_run hfp ops _ (inv_init hinit gr)).2.2 g h

/-- No reply shape, loss pattern or user call makes the master panic (or spin). -/
theorem never_panics {fp : FdlParams} (hfp : FpOk fp) {slots : List (Option Peripheral)}
    (hinit : InitOk fp slots) (gr : Bool) (ops : List Op) :
    grun fp (G.init slots gr) ops ≠ .panic ∧ grun fp (G.init slots gr) ops ≠ .hang :=
  ⟨(inv_run hfp ops _ (inv_init hinit gr)).1, (inv_run hfp ops _ (inv_init hinit gr)).2.1⟩

/-- In Operate every Data_Exchange request carries exactly the output image of the addressed
peripheral as it is at the moment of the `transmit_telegram` call, and is addressed to it. -/
theorem dx_request_carries_pi_q {fp : FdlParams} (hfp : FpOk fp) {g g' : G} (hI : Inv fp g)
    {now : Int} {hp : Bool} (h : gstep fp g (.tx now hp) = .ok g')
    {i : Nat} {hd : Header} {pdu : Bytes} (ho : g'.o = .sent i hd pdu) (hk : reqKind hd = .dx) :
    ∃ p, g.m.slots[i]? = some (some p) ∧ pdu = p.piQ ∧ hd.da = p.address ∧ hd.sa = fp.address := by
  revert ho
  refine tx_elim hfp hI h (fun g' => g'.o = .sent i hd pdu → _) ?_ ?_ ?_ ?_
  · intro _ _ _ ho; cases ho
  · intro m' _ _ _ _ ho; cases ho
  · intro m1 j p p' h' pdu' hD hM1 hc hts _ ho
    simp only [Out.sent.injEq] at ho
    obtain ⟨rfl, rfl, rfl⟩ := ho
    have hj : m1.slots[j]? = some (some p) := by
      unfold Master.cur at hc
      cases hcy : m1.cycle with
      | completed => rw [hcy] at hc; cases hc
      | dx index => rw [hcy] at hc; exact (curSlot_spec hc).2.2.1
    obtain ⟨p0, hp0, hsame⟩ := decSlot_back (hD.slot j) hj
    refine ⟨p0, hp0, ?_, ?_, ?_⟩
    · rcases send_kind hts with ⟨hk', _⟩ | ⟨hk', _⟩ | ⟨hk', _⟩ | ⟨_, _, _, hpdu⟩
      · rw [hk'] at hk; cases hk
      · rw [hk'] at hk; cases hk
      · rw [hk'] at hk; cases hk
      · rw [hpdu, hsame]; simp [dxPdu]
    · rw [(send_header hts).2.2.1, hsame]
    · cases hts <;> rfl
  · intro m1 index j p _ _ _ _ _ _ ho; cases ho

/-- Images of every slot after a poll (`transmit_telegram`) are what they were before. -/
theorem tx_keeps_images {fp : FdlParams} (hfp : FpOk fp) {g g' : G} (hI : Inv fp g)
    {now : Int} {hp : Bool} (h : gstep fp g (.tx now hp) = .ok g') (j : Nat) :
    slotPiI g'.m j = slotPiI g.m j ∧ slotPiQ g'.m j = slotPiQ g.m j := by
  refine tx_elim hfp hI h (fun g' => slotPiI g'.m j = slotPiI g.m j ∧ slotPiQ g'.m j = slotPiQ g.m j) ?_ ?_ ?_ ?_
  · intro _ _ _; exact ⟨rfl, rfl⟩
  · intro m' hD _ _ _; exact slot_of_declined hD j
  · intro m1 i p p' hd pdu hD hM1 hc hts _
    have hi : m1.slots[i]? = some (some p) := by
      unfold Master.cur at hc
      cases hcy : m1.cycle with
      | completed => rw [hcy] at hc; cases hc
      | dx index => rw [hcy] at hc; exact (curSlot_spec hc).2.2.1
    obtain ⟨e1, e2, _⟩ := tx_images hts p' rfl
    have hs := slot_of_set (q := p') hi { m1 with slots := m1.slots.set i (some p'), lastEvents := {} } rfl j
    have hd' := slot_of_declined hD j
    exact ⟨(hs.1 e1).trans hd'.1, (hs.2.1 e2).trans hd'.2⟩
  · intro m1 index i p hD hM1 hcy hc _ _
    have hi := (curSlot_spec hc).2.2.1
    have hs := slot_of_set (q := { p with state := .offline, fcb := .first, retry := 0 }) hi
      (afterDecline m1 index i p { p with state := .offline, fcb := .first, retry := 0 } (some .offline))
      (by simp only [afterDecline]; cases nextSlot m1.slots index <;> rfl) j
    have hd' := slot_of_declined hD j
    exact ⟨(hs.1 rfl).trans hd'.1, (hs.2.1 rfl).trans hd'.2⟩

/-- The library never writes an output image: `pi_q` of every slot changes only by the user's
`pi_q_mut()` write to that slot. -/
theorem pi_q_never_written {fp : FdlParams} (hfp : FpOk fp) {g g' : G} (hI : Inv fp g) (op : Op)
    (h : gstep fp g op = .ok g') (j : Nat) (hne : slotPiQ g'.m j ≠ slotPiQ g.m j) :
    ∃ bs, op = .writeQ j bs ∧ slotPiQ g'.m j = some bs := by
  cases op with
  | tx now hp => exact absurd (tx_keeps_images hfp hI h j).2 hne
  | reply a t =>
    rcases reply_cases hI h with ⟨index, i, p, p', ev, _, _, hc, _, _, hspec, rfl⟩ | ⟨_, _, _, _, _, _, _, rfl⟩
    · have hi := (curSlot_spec hc).2.2.1
      have hs := slot_of_set (q := p') hi (afterReply g.m index i p p' ev) rfl j
      exact absurd (hs.2.1 (rx_images hspec).1) hne
    · exact absurd rfl hne
  | resetAddr slot a =>
    simp only [gstep] at h
    split at h
    · cases h
    · cases hw : g.m.resetAddress slot a with
      | none => rw [hw] at h; cases h
      | some m' =>
        rw [hw] at h
        simp only [Res3.ok.injEq] at h; subst h
        unfold Master.resetAddress Master.peripheral? at hw
        cases hs : g.m.slots.getD slot none with
        | none => rw [hs] at hw; cases hw
        | some p =>
          rw [hs] at hw
          simp only [Option.some.injEq] at hw; subst hw
          have hj : g.m.slots[slot]? = some (some p) := by
            rw [List.getD_eq_getElem?_getD] at hs
            cases hh : g.m.slots[slot]? with
            | none => rw [hh] at hs; cases hs
            | some x => rw [hh] at hs; simp only [Option.getD_some] at hs; rw [hs]
          have hss := slot_of_set (q := p.resetAddress a) hj
            { g.m with slots := g.m.slots.set slot (some (p.resetAddress a)) } rfl j
          exact absurd (hss.2.1 rfl) hne
  | timeout a =>
    simp only [gstep] at h
    split at h
    · cases h
    · simp only [Res3.ok.injEq] at h; subst h; exact absurd rfl hne
  | take =>
    simp only [gstep, Master.takeLastEvents, Res3.ok.injEq] at h
    subst h; exact absurd rfl hne
  | writeQ slot bs =>
    simp only [gstep] at h
    cases hw : g.m.writePiQ slot bs with
    | none => rw [hw] at h; cases h
    | some m' =>
      rw [hw] at h
      simp only [Res3.ok.injEq] at h; subst h
      unfold Master.writePiQ Master.peripheral? at hw
      cases hs : g.m.slots.getD slot none with
      | none => rw [hs] at hw; cases hw
      | some p =>
        rw [hs] at hw
        simp only at hw
        split at hw
        · simp only [Option.some.injEq] at hw; subst hw
          have hj : g.m.slots[slot]? = some (some p) := by
            rw [List.getD_eq_getElem?_getD] at hs
            cases hh : g.m.slots[slot]? with
            | none => rw [hh] at hs; cases hs
            | some x => rw [hh] at hs; simp only [Option.getD_some] at hs; rw [hs]
          have hss := slot_of_set (q := { p with piQ := bs }) hj
            { g.m with slots := g.m.slots.set slot (some { p with piQ := bs }) } rfl j
          by_cases hjs : j = slot
          · subst hjs; exact ⟨bs, rfl, (hss.2.2.2 rfl).2⟩
          · exfalso; apply hne
            unfold slotPiQ
            rw [getD_of_getElem?, getD_of_getElem?, hss.2.2.1 hjs]
        · cases hw
  | diagReq slot =>
    simp only [gstep] at h
    cases hw : g.m.requestDiagnostics slot with
    | none => rw [hw] at h; cases h
    | some m' =>
      rw [hw] at h
      simp only [Res3.ok.injEq] at h; subst h
      unfold Master.requestDiagnostics Master.peripheral? at hw
      cases hs : g.m.slots.getD slot none with
      | none => rw [hs] at hw; cases hw
      | some p =>
        rw [hs] at hw
        simp only [Option.some.injEq] at hw; subst hw
        have hj : g.m.slots[slot]? = some (some p) := by
          rw [List.getD_eq_getElem?_getD] at hs
          cases hh : g.m.slots[slot]? with
          | none => rw [hh] at hs; cases hs
          | some x => rw [hh] at hs; simp only [Option.getD_some] at hs; rw [hs]
        have hss := slot_of_set (q := { p with diagNeeded := true }) hj
          { g.m with slots := g.m.slots.set slot (some { p with diagNeeded := true }) } rfl j
        exact absurd (hss.2.1 rfl) hne

/-- The input image of a slot changes only when a well-formed Data_Exchange reply of exactly the
configured input length arrives from the peripheral in that slot while its Data_Exchange request is
outstanding — and then it equals the reply's payload byte for byte. -/
theorem pi_i_changes_only {fp : FdlParams} (hfp : FpOk fp) {g g' : G} (hI : Inv fp g) (op : Op)
    (h : gstep fp g op = .ok g') (j : Nat) (hne : slotPiI g'.m j ≠ slotPiI g.m j) :
    ∃ a hd pdu st ss index p, op = .reply a (.data hd pdu) ∧ g.out = some a ∧
      g.m.cycle = .dx index ∧ curSlot g.m.slots index = some (j, p) ∧ p.address = a ∧
      hd.sa = a ∧ hd.da = fp.address ∧ hd.fc = .response st ss ∧ dataOkStatus ss = true ∧
      hd.dsap = none ∧ hd.ssap = none ∧ pdu.length = p.piI.length ∧
      (p.state = .preDataExchange ∨ p.state = .dataExchange) ∧ p.diagInFlight = false ∧
      slotPiI g'.m j = some pdu := by
  cases op with
  | tx now hp => exact absurd (tx_keeps_images hfp hI h j).1 hne
  | reply a t =>
    rcases reply_cases hI h with hdel | ⟨_, _, _, _, _, _, _, rfl⟩
    · obtain ⟨index, i, p, p', ev, ho, hcy, hc, hpa, hal, hspec, rfl⟩ := hdel
      have hi := (curSlot_spec hc).2.2.1
      have hs := slot_of_set (q := p') hi (afterReply g.m index i p p' ev) rfl j
      obtain ⟨_, _, himg⟩ := rx_images hspec
      rcases himg with hsame | ⟨hd, pdu, st, ss, rfl, hst, hdf, hfc, hok, h1, h2, hlen, hpi⟩
      · exact absurd (hs.1 hsame) hne
      · by_cases hji : j = i
        · subst hji
          have hal' := hal
          simp only [replyAllowed, Bool.and_eq_true, beq_iff_eq] at hal'
          refine ⟨a, hd, pdu, st, ss, index, p, rfl, ho, hcy, hc, hpa, hal'.1.1, hal'.1.2, hfc, hok, h1, h2, hlen, hst, hdf, ?_⟩
          rw [(hs.2.2.2 rfl).1, hpi]
        · exfalso; apply hne
          unfold slotPiI
          rw [getD_of_getElem?, getD_of_getElem?, hs.2.2.1 hji]
    · exact absurd rfl hne
  | resetAddr slot a =>
    simp only [gstep] at h
    split at h
    · cases h
    · cases hw : g.m.resetAddress slot a with
      | none => rw [hw] at h; cases h
      | some m' =>
        rw [hw] at h
        simp only [Res3.ok.injEq] at h; subst h
        unfold Master.resetAddress Master.peripheral? at hw
        cases hs : g.m.slots.getD slot none with
        | none => rw [hs] at hw; cases hw
        | some p =>
          rw [hs] at hw
          simp only [Option.some.injEq] at hw; subst hw
          have hj : g.m.slots[slot]? = some (some p) := by
            rw [List.getD_eq_getElem?_getD] at hs
            cases hh : g.m.slots[slot]? with
            | none => rw [hh] at hs; cases hs
            | some x => rw [hh] at hs; simp only [Option.getD_some] at hs; rw [hs]
          have hss := slot_of_set (q := p.resetAddress a) hj
            { g.m with slots := g.m.slots.set slot (some (p.resetAddress a)) } rfl j
          exact absurd (hss.1 rfl) hne
  | timeout a =>
    simp only [gstep] at h
    split at h
    · cases h
    · simp only [Res3.ok.injEq] at h; subst h; exact absurd rfl hne
  | take =>
    simp only [gstep, Master.takeLastEvents, Res3.ok.injEq] at h
    subst h; exact absurd rfl hne
  | writeQ slot bs =>
    simp only [gstep] at h
    cases hw : g.m.writePiQ slot bs with
    | none => rw [hw] at h; cases h
    | some m' =>
      rw [hw] at h
      simp only [Res3.ok.injEq] at h; subst h
      unfold Master.writePiQ Master.peripheral? at hw
      cases hs : g.m.slots.getD slot none with
      | none => rw [hs] at hw; cases hw
      | some p =>
        rw [hs] at hw
        simp only at hw
        split at hw
        · simp only [Option.some.injEq] at hw; subst hw
          have hj : g.m.slots[slot]? = some (some p) := by
            rw [List.getD_eq_getElem?_getD] at hs
            cases hh : g.m.slots[slot]? with
            | none => rw [hh] at hs; cases hs
            | some x => rw [hh] at hs; simp only [Option.getD_some] at hs; rw [hs]
          have hss := slot_of_set (q := { p with piQ := bs }) hj
            { g.m with slots := g.m.slots.set slot (some { p with piQ := bs }) } rfl j
          exact absurd (hss.1 rfl) hne
        · cases hw
  | diagReq slot =>
    simp only [gstep] at h
    cases hw : g.m.requestDiagnostics slot with
    | none => rw [hw] at h; cases h
    | some m' =>
      rw [hw] at h
      simp only [Res3.ok.injEq] at h; subst h
      unfold Master.requestDiagnostics Master.peripheral? at hw
      cases hs : g.m.slots.getD slot none with
      | none => rw [hs] at hw; cases hw
      | some p =>
        rw [hs] at hw
        simp only [Option.some.injEq] at hw; subst hw
        have hj : g.m.slots[slot]? = some (some p) := by
          rw [List.getD_eq_getElem?_getD] at hs
          cases hh : g.m.slots[slot]? with
          | none => rw [hh] at hs; cases hs
          | some x => rw [hh] at hs; simp only [Option.getD_some] at hs; rw [hs]
        have hss := slot_of_set (q := { p with diagNeeded := true }) hj
          { g.m with slots := g.m.slots.set slot (some { p with diagNeeded := true }) } rfl j
        exact absurd (hss.1 rfl) hne

/-- (For a reply that is delivered — a stale one after `reset_address()` changes nothing.)
A `DataExchanged` event is reported if and only if an acceptable reply to the outstanding
Data_Exchange request arrived: a response without SAPs, status OK / DL / DH, of exactly the
configured input length (the update of `pi_i`), or — for a peripheral without inputs — a short
confirmation.  The event names the slot that was addressed. -/
theorem event_iff {fp : FdlParams} {g g' : G} (hI : Inv fp g) {a : UInt8} {t : Telegram}
    (h : gstep fp g (.reply a t) = .ok g') :
    -- a stale reply (`reset_address()` while the request was in flight, F14) is ignored altogether
    (g'.m = g.m ∧ g'.o = .ignored) ∨
    ∃ index i p, g.m.cycle = .dx index ∧ curSlot g.m.slots index = some (i, p) ∧ p.address = a ∧
      (g'.m.lastEvents.peripheral = some { index := i, address := a, ev := .dataExchanged } ↔
        ((p.state = .preDataExchange ∨ p.state = .dataExchange) ∧ p.diagInFlight = false ∧
          acceptable .dx p.piI.length t = true)) ∧
      (∀ he, g'.m.lastEvents.peripheral = some he → he.index = i ∧ he.address = a) := by
  rcases reply_cases hI h with hdel | ⟨_, _, _, _, _, _, _, rfl⟩
  case inr => exact Or.inl ⟨rfl, rfl⟩
  right
  obtain ⟨index, i, p, p', ev, _, hcy, hc, hpa, _, hspec, rfl⟩ := hdel
  refine ⟨index, i, p, hcy, hc, hpa, ?_, ?_⟩
  · rw [← rx_event_iff hspec]
    simp only [afterReply]
    cases ev with
    | none => simp
    | some e => simp [hpa]
  · intro he hhe
    simp only [afterReply] at hhe
    cases ev with
    | none => simp at hhe
    | some e => simp at hhe; subst hhe; exact ⟨rfl, hpa⟩

/-- Faithful transfer: an acceptable data reply to the outstanding Data_Exchange request leaves
exactly its payload in the input image of the addressed slot. -/
theorem pi_i_equals_payload {fp : FdlParams} {g g' : G} (hI : Inv fp g) {a : UInt8} {hd : Header} {pdu : Bytes}
    (h : gstep fp g (.reply a (.data hd pdu)) = .ok g')
    {index i : Nat} {p : Peripheral} (hcy : g.m.cycle = .dx index) (hc : curSlot g.m.slots index = some (i, p))
    (hadr : p.address = a)
    (hst : p.state = .preDataExchange ∨ p.state = .dataExchange) (hdf : p.diagInFlight = false)
    (hacc : acceptable .dx p.piI.length (.data hd pdu) = true) : slotPiI g'.m i = some pdu := by
  rcases reply_cases hI h with hdel | ⟨index', i', p0, _, hcy', hc', hne, _⟩
  case inr =>
    rw [hcy] at hcy'
    simp only [Cycle.dx.injEq] at hcy'
    subst hcy'
    rw [hc] at hc'
    simp only [Option.some.injEq, Prod.mk.injEq] at hc'
    obtain ⟨rfl, rfl⟩ := hc'
    exact absurd hadr hne
  obtain ⟨index', i', p0, p', ev, _, hcy', hc', _, _, hspec, rfl⟩ := hdel
  rw [hcy] at hcy'
  simp only [Cycle.dx.injEq] at hcy'
  subst hcy'
  rw [hc] at hc'
  simp only [Option.some.injEq, Prod.mk.injEq] at hc'
  obtain ⟨rfl, rfl⟩ := hc'
  have hi := (curSlot_spec hc).2.2.1
  have hs := slot_of_set (q := p') hi (afterReply g.m index i p p' ev) rfl i
  rw [(hs.2.2.2 rfl).1]
  have hev := (rx_event_iff hspec).mpr ⟨hst, hdf, hacc⟩
  subst hev
  cases hspec <;> first | rfl | simp_all

/-- No cross-talk: a reply is applied to the peripheral in the slot the cycle index points at — the
one the outstanding request was addressed to — and to nothing else. -/
theorem no_cross_talk {fp : FdlParams} {g g' : G} (hI : Inv fp g) {a : UInt8} {t : Telegram}
    (h : gstep fp g (.reply a t) = .ok g') :
    ∃ index i p, g.m.cycle = .dx index ∧ curSlot g.m.slots index = some (i, p) ∧
      (p.address = a ∨ g'.m = g.m) ∧ ∀ j, j ≠ i → g'.m.slots[j]? = g.m.slots[j]? := by
  rcases reply_cases hI h with hdel | ⟨index, i, p, _, hcy, hc, _, rfl⟩
  case inr => exact ⟨index, i, p, hcy, hc, Or.inr rfl, fun _ _ => rfl⟩
  obtain ⟨index, i, p, p', ev, _, hcy, hc, hpa, _, hspec, rfl⟩ := hdel
  refine ⟨index, i, p, hcy, hc, Or.inl hpa, ?_⟩
  intro j hj
  have hi := (curSlot_spec hc).2.2.1
  exact (slot_of_set (q := p') hi (afterReply g.m index i p p' ev) rfl j).2.2.1 hj

/-- A poll never reports `DataExchanged`: the only peripheral event of `transmit_telegram` is Offline. -/
theorem tx_event_is_offline {fp : FdlParams} (hfp : FpOk fp) {g g' : G} (hI : Inv fp g)
    {now : Int} {hp : Bool} (h : gstep fp g (.tx now hp) = .ok g') :
    ∀ he, g'.m.lastEvents.peripheral = some he → he.ev = .offline := by
  refine tx_elim hfp hI h (fun g' => ∀ he, g'.m.lastEvents.peripheral = some he → he.ev = .offline) ?_ ?_ ?_ ?_
  · intro _ _ _ he hhe; simp [G.polled] at hhe
  · intro m' _ _ hn _ he hhe; simp only [G.polled] at hhe; rw [hn] at hhe; cases hhe
  · intro m1 i p p' hd pdu _ _ _ _ _ he hhe; simp [G.polled] at hhe
  · intro m1 index i p _ _ _ _ _ _ he hhe
    have : (afterDecline m1 index i p { p with state := .offline, fcb := .first, retry := 0 } (some .offline)).lastEvents.peripheral
        = some { index := i, address := p.address, ev := .offline } := by
      unfold afterDecline; cases nextSlot m1.slots index <;> rfl
    simp only [G.polled, this, Option.some.injEq] at hhe
    subst hhe; rfl

/-- F14 (/repo 954a153): a reply for an address the peripheral at the cycle index no longer has — its
address was changed by `reset_address()` while the request was in flight — is ignored: master state
(images, cycle index, events) and the event account are untouched; nothing panics (`never_panics`
covers histories with `reset_address()` at arbitrary points). -/
theorem stale_reply_ignored {fp : FdlParams} {g g' : G} (hI : Inv fp g) {a : UInt8} {t : Telegram}
    (h : gstep fp g (.reply a t) = .ok g')
    {index i : Nat} {p : Peripheral} (hcy : g.m.cycle = .dx index) (hc : curSlot g.m.slots index = some (i, p))
    (hne : p.address ≠ a) : g'.m = g.m ∧ g'.produced = g.produced ∧ g'.o = .ignored ∧ g'.out = none := by
  rcases reply_cases hI h with ⟨index', i', p0, _, _, _, hcy', hc', hpa, _⟩ | ⟨_, _, _, _, _, _, _, rfl⟩
  · rw [hcy] at hcy'
    simp only [Cycle.dx.injEq] at hcy'
    subst hcy'
    rw [hc] at hc'
    simp only [Option.some.injEq, Prod.mk.injEq] at hc'
    obtain ⟨rfl, rfl⟩ := hc'
    exact absurd hpa hne
  · exact ⟨rfl, rfl, rfl, rfl⟩

/-- `reset_address()` keeps both process images of the slot (and touches no other slot's). -/
theorem reset_keeps_images {fp : FdlParams} (hfp : FpOk fp) {g g' : G} (hI : Inv fp g) {slot : Nat} {a : UInt8}
    (h : gstep fp g (.resetAddr slot a) = .ok g') (j : Nat) :
    slotPiI g'.m j = slotPiI g.m j ∧ slotPiQ g'.m j = slotPiQ g.m j := by
  constructor
  · cases hq : decide (slotPiI g'.m j = slotPiI g.m j) with
    | true => exact of_decide_eq_true hq
    | false =>
      obtain ⟨_, _, _, _, _, _, _, hop, _⟩ := pi_i_changes_only hfp hI _ h j (of_decide_eq_false hq)
      cases hop
  · cases hq : decide (slotPiQ g'.m j = slotPiQ g.m j) with
    | true => exact of_decide_eq_true hq
    | false =>
      obtain ⟨_, hop, _⟩ := pi_q_never_written hfp hI _ h j (of_decide_eq_false hq)
      cases hop

/-! ### Non-vacuity -/

def exFp : FdlParams := { address := 2, slotUs := 5208, maxRetry := 1, minTsdr := 11, watchdog := some (1, 10) }
def exOpts : Options := { ident := 0x80b1, sync := false, freeze := true, groups := 3, userPrm := some [1, 2, 3], config := some [0x11, 0x21] }
def exP : Peripheral := Peripheral.new 7 exOpts [0] [0, 0] 16
def exSlots : List (Option Peripheral) := [none, some exP]

theorem exFp_ok : FpOk exFp := ⟨by decide, by decide, by decide, by decide⟩

theorem exInit : InitOk exFp exSlots where
  len := by decide
  fresh := by
    intro i p hi
    have hp : p = exP := by
      match i, hi with
      | 1, hi => simpa [exSlots] using hi.symm
    subst hp
    exact ⟨pinv_new exFp 7 exOpts [0] [0, 0] 16 (by intro up h; simp [exOpts] at h; subst h; decide)
      (by intro c h; simp [exOpts] at h; subst h; decide) (by decide) (by decide), rfl, rfl, rfl, rfl, rfl⟩

/-- Bring-up of the example peripheral, one data exchange with a user write in between. -/
def exHistory : List Op :=
  [.tx 1000 false, .tx 2000 false,
   .reply 7 (.data ⟨2, 7, some 62, some 60, .response .slave .dataLow⟩ [0x02, 0x05, 0, 2, 0x80, 0xb1]), .take,
   .tx 3000 false, .tx 4000 false, .reply 7 .sc, .tx 5000 false, .tx 6000 false, .reply 7 .sc,
   .tx 7000 false, .tx 8000 false,
   .reply 7 (.data ⟨2, 7, some 62, some 60, .response .slave .dataLow⟩ [0x00, 0x04, 0, 2, 0x80, 0xb1]), .take,
   .tx 9000 false, .writeQ 1 [0xde, 0xad], .tx 10000 false,
   .reply 7 (.data ⟨2, 7, none, none, .response .slave .dataLow⟩ [0xa5])]

/-- The history is inside the contract, ends with `pi_i = [a5]` and a pending `DataExchanged`, and
its last request carried the freshly written `pi_q = [de, ad]`. -/
def exCheck : Bool :=
  match grun exFp (G.init exSlots false) exHistory with
  | .ok g => slotPiI g.m 1 == some [0xa5] && slotPiQ g.m 1 == some [0xde, 0xad] &&
      g.m.lastEvents.peripheral == some { index := 1, address := 7, ev := .dataExchanged } &&
      (match g.o with | .replied 1 (some .dataExchanged) => true | _ => false)
  | _ => false

example : exCheck = true := by decide +kernel

/-- The F14 witness (corpus/dp/07): the address is changed while the Data_Exchange request is in flight;
the reply of the old address is ignored (`pi_i` stays, no event), the history is inside the contract and
— the new address being another one than the outstanding — not `tainted`. -/
def f14Check : Bool :=
  match grun exFp (G.init exSlots false) (exHistory.dropLast ++ [.resetAddr 1 9]) with
  | .ok g =>
    (match gstep exFp g (.reply 7 (.data ⟨2, 7, none, none, .response .slave .dataLow⟩ [0xa5])) with
     | .ok g' => g'.o == .ignored && slotPiI g'.m 1 == some [0] && g'.m.lastEvents == g.m.lastEvents && !g.tainted
     | _ => false)
  | _ => false

example : f14Check = true := by decide +kernel

end PV.C04
