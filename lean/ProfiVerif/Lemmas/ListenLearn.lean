/-
Cold start / late joiner, phase (b) at station level: a station in `ListenToken` that overhears the traffic of a
lone token holder `aL` (self-addressed tokens, GAP requests to other addresses), delivered in arbitrary chunks
at arbitrary poll times, never transmits, stays in `ListenToken` and witnesses every token — after three tokens
its LAS is valid and it is ready for the ring.  Helper lemmas (C02).
-/
import ProfiVerif.Lemmas.ColdStartSolo

namespace PV
open StationGap TokenRing

/-- A telegram of the lone holder `aL` that does not concern the listener `me`. -/
def LoneTel (aL me : Nat) (t : Telegram) : Prop :=
  t = .token (UInt8.ofNat aL) (UInt8.ofNat aL) ∨ ∃ g, g < 128 ∧ g ≠ me ∧ t = reqTel g aL

theorem LoneTel.valid {aL me : Nat} {t : Telegram} (h : LoneTel aL me t) (haL : aL < 128) : t.Valid := by
  rcases h with rfl | ⟨g, hg, -, rfl⟩
  · trivial
  · exact reqTel_valid g aL hg haL

def isTok : Telegram → Bool
  | .token .. => true
  | _ => false

/-- `k` witnessed passes `aL → aL`. -/
def witnessK (aL : Nat) : Nat → TokenRing → TokenRing
  | 0, r => r
  | k + 1, r => witnessK aL k (r.witness aL aL)

/-- One overheard telegram of the lone holder in `ListenToken`. -/
theorem listenTelegram_lone (now : Int) (c : Ctx) (t : Telegram) (isLast : Bool) (aL coll : Nat) (l : Int)
    (hon : c.s.online = true) (hst : c.s.st = .listenToken none coll) (hl : c.s.lastBusActivity = some l) (hle : l ≤ now)
    (haL : aL < 128) (hne : aL ≠ c.s.p.address) (ht : LoneTel aL c.s.p.address t) :
    listenTelegram now c t isLast = .ok { c with s := { c.s with
      pendingBytes := 0, lastBusActivity := some now,
      ring := if isTok t then c.s.ring.witness aL aL else c.s.ring } } := by
  unfold listenTelegram
  have hm : (upd c fun s => markRx s now) =
      { c with s := { c.s with pendingBytes := 0, lastBusActivity := some now } } := by
    simp only [upd]; rw [markRx_at c.s now l hl hle]
  rw [hm]
  unfold listenTelegramCore
  simp only [hon, Bool.not_true, Bool.false_eq_true, if_false, hst, upd]
  rcases ht with rfl | ⟨g, hg, hgm, rfl⟩
  · have hs : ¬ (Telegram.sourceAddress (.token (UInt8.ofNat aL) (UInt8.ofNat aL))).map UInt8.toNat = some c.s.p.address := by
      simp only [Telegram.sourceAddress, Option.map_some, Option.some.injEq]
      rw [u8n aL (by omega)]; exact hne
    rw [if_neg hs]
    simp only [isTok, if_true, u8n aL (by omega : aL < 256)]
  · have hs : ¬ (Telegram.sourceAddress (reqTel g aL)).map UInt8.toNat = some c.s.p.address := by
      simp only [reqTel, Telegram.sourceAddress, fdlStatusRequestHeader, Option.map_some, Option.some.injEq]
      rw [u8n aL (by omega)]; exact hne
    rw [if_neg hs]
    simp only [reqTel, fdlStatusRequestHeader, isTok, Bool.false_eq_true, if_false]
    rw [if_neg (by rw [u8n g (by omega)]; intro h; exact hgm h.1)]

/-- The ring view after overhearing the telegrams `ts` of the lone holder. -/
def hearAll (aL : Nat) : List Telegram → TokenRing → TokenRing
  | [], r => r
  | t :: ts, r => hearAll aL ts (if isTok t then r.witness aL aL else r)

def countTok (ts : List Telegram) : Nat := (ts.filter isTok).length

theorem hearAll_count (aL : Nat) : ∀ (ts : List Telegram) (r : TokenRing), hearAll aL ts r = witnessK aL (countTok ts) r := by
  intro ts
  induction ts with
  | nil => intro r; rfl
  | cons t rest ih =>
    intro r
    unfold hearAll countTok
    by_cases ht : isTok t = true
    · simp only [ht, if_true, List.filter_cons, List.length_cons]
      rw [ih]; rfl
    · simp only [ht, Bool.false_eq_true, if_false, List.filter_cons]
      rw [ih]; rfl

theorem hearAll_append (aL : Nat) : ∀ (a b : List Telegram) (r : TokenRing),
    hearAll aL (a ++ b) r = hearAll aL b (hearAll aL a r) := by
  intro a
  induction a with
  | nil => intro b r; rfl
  | cons t rest ih => intro b r; simp only [List.cons_append, hearAll]; exact ih b _

/-- Station after a non-empty batch of overheard telegrams. -/
def heardS (aL : Nat) (s : Station) (now : Int) (ts : List Telegram) : Station :=
  { s with pendingBytes := 0, lastBusActivity := some now, ring := hearAll aL ts s.ring }

/-- A batch of overheard telegrams of the lone holder in `ListenToken`. -/
theorem foldListen_lone (now : Int) (aL coll : Nat) (haL : aL < 128) : ∀ (calls : List (Telegram × Bool)) (c : Ctx) (l : Int),
    calls ≠ [] → c.s.online = true → c.s.st = .listenToken none coll → c.s.lastBusActivity = some l → l ≤ now →
    aL ≠ c.s.p.address → (∀ x ∈ calls, LoneTel aL c.s.p.address x.1) →
    foldTelegrams (listenTelegram now) c calls = .ok { c with s := heardS aL c.s now (calls.map Prod.fst) } := by
  intro calls
  induction calls with
  | nil => intro c l h; exact absurd rfl h
  | cons x rest ih =>
    intro c l _ hon hst hl hle hne hall
    obtain ⟨t, fl⟩ := x
    simp only [foldTelegrams]
    rw [listenTelegram_lone now c t fl aL coll l hon hst hl hle haL hne (hall (t, fl) (List.mem_cons_self ..))]
    simp only [Res.bind]
    by_cases hr : rest = []
    · subst hr
      simp only [foldTelegrams, List.map_cons, List.map_nil, heardS, hearAll]
    · rw [ih ⟨{ c.s with pendingBytes := 0, lastBusActivity := some now, ring := if isTok t then c.s.ring.witness aL aL else c.s.ring }, c.apps, c.rx, c.tx, c.calls⟩
        now hr hon hst rfl (Int.le_refl _) hne (fun y hy => hall y (List.mem_cons_of_mem _ hy))]
      simp only [heardS, List.map_cons, hearAll]

/-- **One poll of a listening station with any batch** (token-lost time-out not run out): the telegrams of the
batch are handed to the `ListenToken` callback one after the other. -/
theorem listen_poll_batch (s : Station) (apps : Apps) (now : Int) (rx rx' : Bytes) (calls : List (Telegram × Bool)) (ret : Bool)
    (coll : Nat) (l : Int) (hon : s.online = true) (hst : s.st = .listenToken none coll) (hl : s.lastBusActivity = some l)
    (hlt : l < now) (hne : s.pendingBytes < rx.length ∨ now < l + (s.p.tokenLostTimeout : Nat)) (hto : 0 < s.p.tokenLostTimeout)
    (hrx : receiveAll rx = .done rx' calls ret) :
    s.poll apps now false rx =
      foldTelegrams (listenTelegram now) { s := checkBusActivity s now rx.length, apps := apps, rx := rx' } calls := by
  have hlate : ∀ l', s.lastBusActivity = some l' → l' < now := by
    intro l' hl'; rw [hl] at hl'; cases hl'; exact hlt
  obtain ⟨hf1, hf2, -⟩ := checkBA_fields s now rx.length
  obtain ⟨l1, hl1, hle1, hcase⟩ := checkBA_stamp s now rx.length hlate (.inr ⟨l, hl⟩)
  rw [poll_dispatch s apps now rx hon (by rw [hst]; simp) (by rw [hst]; simp) hlate]
  unfold dispatch
  simp only [hf1, hst]
  have hq : ¬ (now - l1).natAbs ≥ (checkBusActivity s now rx.length).p.tokenLostTimeout := by
    rw [hf2]
    rcases hcase with ⟨_, rfl⟩ | ⟨hn, hl'⟩
    · simp; omega
    · rcases hne with h' | h'
      · exact absurd h' hn
      · rw [hl] at hl'; cases hl'; omega
  unfold doListenToken
  simp only [hf1, hst]
  rw [handleLost_quiet { s := checkBusActivity s now rx.length, apps := apps, rx := rx } now l1 hl1 hq]
  simp only [hf1, hst]
  simp only [hrx]

/-! ## Arbitrary chunking -/

/-- Run of a listening station over a sequence of polls `(time, newly arrived bytes)` with an idle PHY; `none` if a
poll fails or transmits. -/
def listenRun (apps : Apps) : Station → Bytes → List (Int × Bytes) → Option (Station × Bytes)
  | s, rx, [] => some (s, rx)
  | s, rx, (now, ch) :: rest =>
    match s.poll apps now false (rx ++ ch) with
    | .ok c => if c.tx = none then listenRun apps c.s c.rx rest else none
    | .panic _ => none

/-- Poll times increase and no poll comes `Tto` or more after the last one that brought new bytes (or after the
initial stamp `l`). -/
def FeedOk (Tto : Nat) : Int → Int → List (Int × Bytes) → Prop
  | _, _, [] => True
  | l, tp, (now, ch) :: rest => tp < now ∧ now < l + (Tto : Int) ∧ FeedOk Tto (if ch = [] then l else now) now rest

theorem checkBA_pending_le (s : Station) (now : Int) (n : Nat) (h : s.pendingBytes ≤ n) :
    (checkBusActivity s now n).pendingBytes ≤ n := by
  unfold checkBusActivity
  split
  · exact Nat.le_refl _
  · exact h

theorem streamOf_cons' (t : Telegram) (ts : List Telegram) : streamOf (t :: ts) = t.wire ++ streamOf ts := by
  unfold streamOf; simp

theorem streamOf_append' (a b : List Telegram) : streamOf (a ++ b) = streamOf a ++ streamOf b := by
  unfold streamOf; simp

theorem LoneTel.wire_pos {aL me : Nat} {t : Telegram} (h : LoneTel aL me t) : 0 < t.wire.length := by
  rcases h with rfl | ⟨g, -, -, rfl⟩
  · show 0 < 3; omega
  · rw [reqTel_wire, statusRequestBytes_length]; omega

/-- **LAS learning in `ListenToken` under arbitrary chunking**: the traffic `rem` of a lone token holder `aL`
reaches the listener in arbitrary chunks at arbitrary poll times (`FeedOk`: increasing, never `Tto` after the last
poll that brought new bytes); every poll returns regularly and transmits nothing, the station stays in
`ListenToken`, its buffer is empty at the end and it has witnessed exactly the telegrams of the stream
(`hearAll`). -/
theorem listen_learns (apps : Apps) (aL coll : Nat) (haL : aL < 128) : ∀ (ins : List (Int × Bytes)) (s : Station) (rx : Bytes)
    (rem : List Telegram) (l ltr tp : Int),
    s.online = true → s.st = .listenToken none coll → s.lastBusActivity = some l → ltr ≤ l → l ≤ tp →
    s.pendingBytes ≤ rx.length → aL ≠ s.p.address → 0 < s.p.tokenLostTimeout →
    rx ++ (ins.map Prod.snd).flatten = streamOf rem → (∀ t ∈ rem, LoneTel aL s.p.address t) →
    (∀ t, rem.head? = some t → rx.length < t.wire.length) →
    FeedOk s.p.tokenLostTimeout ltr tp ins →
    ∃ s', listenRun apps s rx ins = some (s', []) ∧ s'.st = .listenToken none coll ∧ s'.online = true ∧
      s'.p = s.p ∧ s'.ring = hearAll aL rem s.ring := by
  intro ins
  induction ins with
  | nil =>
    intro s rx rem l ltr tp hon hst hl _ _ _ _ _ hstream _ hhead _
    simp only [List.map_nil, List.flatten_nil, List.append_nil] at hstream
    cases rem with
    | nil =>
      have : rx = [] := by rw [hstream]; rfl
      subst this
      exact ⟨s, rfl, hst, hon, rfl, rfl⟩
    | cons t r =>
      exfalso
      have := hhead t rfl
      rw [hstream, streamOf_cons', List.length_append] at this
      omega
  | cons x rest ih =>
    intro s rx rem l ltr tp hon hst hl hltr hltp hpend hne hto hstream hlone hhead hfeed
    obtain ⟨now, ch⟩ := x
    obtain ⟨htp, hnow, hfeed'⟩ := hfeed
    simp only [List.map_cons, List.flatten_cons] at hstream
    rw [← List.append_assoc] at hstream
    obtain ⟨d, ts', b', ret, hrec, hsplit, hb', hhead', -, -⟩ := PV.C16.receiveAll_stream rem (rx ++ ch) (rest.map Prod.snd).flatten hstream
      (fun t ht => (hlone t ht).valid haL)
    have hlt : l < now := by omega
    have hpoll := listen_poll_batch s apps now (rx ++ ch) b' d ret coll l hon hst hl hlt (.inr (by omega)) hto hrec
    obtain ⟨f1, f2, f3, f4, -⟩ := checkBA_fields s now (rx ++ ch).length
    obtain ⟨l1, hl1, hle1, hcase⟩ := checkBA_stamp s now (rx ++ ch).length
      (by intro l' hl'; rw [hl] at hl'; cases hl'; exact hlt) (.inr ⟨l, hl⟩)
    have hltr' : (if ch = [] then ltr else now) ≤ (if d = [] then l1 else now) ∧ (d = [] → ltr ≤ l1) := by
      have hl1ge : (if ch = [] then ltr else now) ≤ l1 := by
        rcases hcase with ⟨-, rfl⟩ | ⟨hn, hl'⟩
        · split <;> omega
        · rw [hl] at hl'; cases hl'
          by_cases hch : ch = []
          · rw [if_pos hch]; exact hltr
          · exfalso
            have : 0 < ch.length := List.length_pos_iff.2 hch
            rw [List.length_append] at hn
            omega
      constructor
      · by_cases hd0 : d = []
        · rw [if_pos hd0]; exact hl1ge
        · rw [if_neg hd0]; split <;> omega
      · intro _
        rcases hcase with ⟨-, rfl⟩ | ⟨-, hl'⟩
        · omega
        · rw [hl] at hl'; cases hl'; exact hltr
    have hlone' : ∀ t ∈ ts', LoneTel aL s.p.address t := fun t ht => hlone t (by rw [hsplit]; exact List.mem_append_right _ ht)
    simp only [listenRun]
    by_cases hd : d = []
    · subst hd
      simp only [List.map_nil, List.nil_append] at hsplit
      subst hsplit
      have hbeq : b' = rx ++ ch := List.append_cancel_right (hb'.trans hstream.symm)
      rw [hpoll]
      simp only [foldTelegrams, if_true]
      obtain ⟨s', hrun, a1, a2, a3, a4⟩ := ih (checkBusActivity s now (rx ++ ch).length) b' rem l1 (if ch = [] then ltr else now) now
        (by rw [f4]; exact hon) (by rw [f1]; exact hst) hl1 (by have := hltr'.1; simpa using this) hle1
        (by rw [hbeq]; exact checkBA_pending_le s now _ (by rw [List.length_append]; omega))
        (by rw [f2]; exact hne) (by rw [f2]; exact hto) hb' (by rw [f2]; exact hlone') hhead' (by rw [f2]; exact hfeed')
      exact ⟨s', hrun, a1, a2, a3.trans f2, by rw [a4, f3]⟩
    · have hall : ∀ x ∈ d, LoneTel aL (checkBusActivity s now (rx ++ ch).length).p.address x.1 := by
        intro x hx
        rw [f2]
        exact hlone x.1 (by rw [hsplit]; exact List.mem_append_left _ (List.mem_map_of_mem hx))
      have hfold := foldListen_lone now aL coll haL d { s := checkBusActivity s now (rx ++ ch).length, apps := apps, rx := b' } l1 hd
        (by rw [f4]; exact hon) (by rw [f1]; exact hst) hl1 hle1 (by rw [f2]; exact hne) hall
      rw [hpoll, hfold]
      simp only [if_true]
      obtain ⟨s', hrun, a1, a2, a3, a4⟩ := ih (heardS aL (checkBusActivity s now (rx ++ ch).length) now (d.map Prod.fst)) b' ts' now
        (if ch = [] then ltr else now) now
        (by show (checkBusActivity s now (rx ++ ch).length).online = true; rw [f4]; exact hon)
        (by show (checkBusActivity s now (rx ++ ch).length).st = _; rw [f1]; exact hst) rfl
        (by split <;> omega) (Int.le_refl _) (Nat.zero_le _)
        (by show aL ≠ (checkBusActivity s now (rx ++ ch).length).p.address; rw [f2]; exact hne)
        (by show 0 < (checkBusActivity s now (rx ++ ch).length).p.tokenLostTimeout; rw [f2]; exact hto) hb'
        (by show ∀ t ∈ ts', LoneTel aL (checkBusActivity s now (rx ++ ch).length).p.address t; rw [f2]; exact hlone') hhead'
        (by show FeedOk (checkBusActivity s now (rx ++ ch).length).p.tokenLostTimeout _ _ _; rw [f2]; exact hfeed')
      refine ⟨s', hrun, a1, a2, ?_, ?_⟩
      · rw [a3]; exact f2
      · rw [a4, hsplit, hearAll_append]
        show hearAll aL ts' (hearAll aL (d.map Prod.fst) (checkBusActivity s now (rx ++ ch).length).ring) = _
        rw [f3]

end PV
