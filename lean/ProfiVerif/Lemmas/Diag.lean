/-
Helper lemmas for C17 (`Props/C17.lean`): the six header bytes as numbers, byte tables for the block
header / channel bytes, the iterator against the recursive specification, tiling, identifier bits.
-/
import ProfiVerif.Model.Diag
import ProfiVerif.Lemmas.Bytes
namespace PV.Diag
open PV

theorem le16_toNat (b0 b1 : UInt8) : (le16 b0 b1).toNat = b0.toNat + 256 * b1.toNat := by
  unfold le16
  have h0 := b0.toNat_lt
  have h1 := b1.toNat_lt
  simp only [UInt16.toNat_or, UInt16.toNat_shiftLeft, UInt8.toNat_toUInt16]
  have : b1.toNat <<< ((8 : UInt16).toNat % 16) % 2 ^ 16 = b1.toNat <<< 8 := by
    show b1.toNat <<< 8 % 65536 = _
    rw [Nat.shiftLeft_eq]; omega
  rw [this, Nat.or_comm, ← Nat.shiftLeft_add_eq_or_of_lt (by omega), Nat.shiftLeft_eq]
  omega

theorem be16_toNat (b0 b1 : UInt8) : (be16 b0 b1).toNat = 256 * b0.toNat + b1.toNat := by
  have : be16 b0 b1 = le16 b1 b0 := by
    unfold be16 le16; exact UInt16.or_comm _ _
  rw [this, le16_toNat]; omega

/-- Bitwise AND of two 16-bit values splits into the ANDs of their bytes. -/
theorem and_split (x y k m : Nat) (hx : x < 256) (hk : k < 256) :
    (x + 256 * y) &&& (k + 256 * m) = (x &&& k) + 256 * (y &&& m) := by
  have hxk : x &&& k < 2 ^ 8 := Nat.and_lt_two_pow _ (by simpa using hk)
  apply Nat.eq_of_testBit_eq
  intro j
  have e1 : x + 256 * y = 2 ^ 8 * y + x := by omega
  have e2 : k + 256 * m = 2 ^ 8 * m + k := by omega
  have e3 : (x &&& k) + 256 * (y &&& m) = 2 ^ 8 * (y &&& m) + (x &&& k) := by omega
  rw [Nat.testBit_and, e1, e2, e3,
    Nat.testBit_two_pow_mul_add _ (by simpa using hx), Nat.testBit_two_pow_mul_add _ (by simpa using hk),
    Nat.testBit_two_pow_mul_add _ hxk]
  by_cases hj : j < 8 <;> simp [hj, Nat.testBit_and]


/-! ### Byte tables (each a `decide +kernel` over all 256 bytes, lifted by `forall_u8`) -/

theorem clear_bit2 (b : UInt8) :
    (b &&& 0xFB).toNat = if b.toNat / 4 % 2 = 1 then b.toNat - 4 else b.toNat := by
  have := forall_u8 (fun b => decide ((b &&& 0xFB).toNat = if b.toNat / 4 % 2 = 1 then b.toNat - 4 else b.toNat))
    (by decide +kernel) b
  simpa using this

theorem bit3_iff (b : UInt8) : (b.toNat &&& 8 = 0) ↔ ¬ (b.toNat / 8 % 2 = 1) := by
  have := forall_u8 (fun b => decide ((b.toNat &&& 8 = 0) ↔ ¬ (b.toNat / 8 % 2 = 1))) (by decide +kernel) b
  simpa using this

/-- The flag word after `remove(PERMANENT_BIT)`, as a number. -/
theorem flags_toNat (b0 b1 : UInt8) :
    (le16 b0 b1 &&& ~~~PERMANENT_BIT).toNat =
      let raw := b0.toNat + 256 * b1.toNat
      if raw / 1024 % 2 = 1 then raw - 1024 else raw := by
  have h0 := b0.toNat_lt
  have h1 := b1.toNat_lt
  rw [UInt16.toNat_and, le16_toNat]
  have hm : (~~~PERMANENT_BIT).toNat = 255 + 256 * 251 := by decide
  rw [hm, and_split _ _ _ _ h0 (by omega)]
  have ha : b0.toNat &&& 255 = b0.toNat := by
    have := Nat.and_two_pow_sub_one_of_lt_two_pow (x := b0.toNat) (n := 8) (by simpa using h0)
    simpa using this
  have hb : b1.toNat &&& 251 = (b1 &&& 0xFB).toNat := by rw [UInt8.toNat_and]; rfl
  rw [ha, hb, clear_bit2]
  simp only
  split <;> split <;> omega

/-- `flags.contains(EXT_DIAG)` looks at bit 3 of the first byte only. -/
theorem ext_flag_iff (b0 b1 : UInt8) :
    ((le16 b0 b1 &&& ~~~PERMANENT_BIT) &&& EXT_DIAG ≠ 0) ↔ b0.toNat / 8 % 2 = 1 := by
  have h0 := b0.toNat_lt
  rw [Ne, ← UInt16.toNat_inj, UInt16.toNat_and, UInt16.toNat_and, le16_toNat]
  have hm : (~~~PERMANENT_BIT).toNat = 255 + 256 * 251 := by decide
  have he : EXT_DIAG.toNat = 8 + 256 * 0 := by decide
  have hxk : b0.toNat &&& 255 < 256 := Nat.and_lt_two_pow _ (n := 8) (by decide)
  rw [hm, he, and_split _ _ _ _ h0 (by omega), and_split _ _ _ _ hxk (by omega)]
  have ha : b0.toNat &&& 255 = b0.toNat := by
    have := Nat.and_two_pow_sub_one_of_lt_two_pow (x := b0.toNat) (n := 8) (by simpa using h0)
    simpa using this
  rw [ha]
  have := bit3_iff b0
  simp only [Nat.and_zero, Nat.mul_zero, Nat.add_zero]
  show ¬ (b0.toNat &&& 8 = (0 : UInt16).toNat) ↔ _
  simp only [UInt16.toNat_zero]
  rw [this]; simp

/-! ### Block header / channel bytes -/

theorem shr6_cases (h : UInt8) :
    (h >>> 6 = 0 ∧ h.toNat / 64 = 0) ∨ (h >>> 6 = 1 ∧ h.toNat / 64 = 1) ∨
    (h >>> 6 = 2 ∧ h.toNat / 64 = 2) ∨ (h >>> 6 = 3 ∧ h.toNat / 64 = 3) := by
  have := forall_u8 (fun h => decide ((h >>> 6 = 0 ∧ h.toNat / 64 = 0) ∨ (h >>> 6 = 1 ∧ h.toNat / 64 = 1) ∨
    (h >>> 6 = 2 ∧ h.toNat / 64 = 2) ∨ (h >>> 6 = 3 ∧ h.toNat / 64 = 3))) (by decide +kernel) h
  simpa using this

theorem len6 (h : UInt8) : (h &&& 0x3f).toNat = h.toNat % 64 := by
  have := forall_u8 (fun h => decide ((h &&& 0x3f).toNat = h.toNat % 64)) (by decide +kernel) h
  simpa using this

theorem low6 (h : UInt8) : h &&& 0x3f = UInt8.ofNat (h.toNat % 64) := by
  have := forall_u8 (fun h => decide (h &&& 0x3f = UInt8.ofNat (h.toNat % 64))) (by decide +kernel) h
  simpa using this

theorem bit6 (b : UInt8) : (b &&& 0x40 ≠ 0) ↔ (b.toNat / 64 % 2 = 1) := by
  have := forall_u8 (fun b => decide ((b &&& 0x40 ≠ 0) ↔ (b.toNat / 64 % 2 = 1))) (by decide +kernel) b
  simp only [decide_eq_true_eq] at this
  exact this

theorem bit7 (b : UInt8) : (b &&& 0x80 ≠ 0) ↔ (b.toNat / 128 = 1) := by
  have := forall_u8 (fun b => decide ((b &&& 0x80 ≠ 0) ↔ (b.toNat / 128 = 1))) (by decide +kernel) b
  simp only [decide_eq_true_eq] at this
  exact this

theorem dtype_table (b : UInt8) :
    DataType.fromByte2 b = Spec.dataTypeTable.getD (b.toNat / 32) .invalid := by
  have := forall_u8 (fun b => decide (DataType.fromByte2 b = Spec.dataTypeTable.getD (b.toNat / 32) .invalid))
    (by decide +kernel) b
  simpa using this

theorem error_table (b : UInt8) : ChanError.fromByte2 b = Spec.errorOf (b.toNat % 32) := by
  have := forall_u8 (fun b => decide (ChanError.fromByte2 b = Spec.errorOf (b.toNat % 32))) (by decide +kernel) b
  simpa using this

/-! ### The specification's recursion -/

theorem blockLen_pos {bs : Bytes} {n : Nat} (h : Spec.blockLen bs = some n) : 0 < n ∧ n ≤ bs.length := by
  unfold Spec.blockLen at h
  cases bs with
  | nil => simp at h
  | cons b tl =>
    simp only at h
    split at h
    · cases h
    · split at h
      · split at h
        · cases h; omega
        · cases h
      · split at h
        · cases h
        · split at h
          · cases h; omega
          · cases h

theorem parseAux_fuel : ∀ (f1 f2 : Nat) (bs : Bytes), bs.length ≤ f1 → bs.length ≤ f2 →
    Spec.parseAux f1 bs = Spec.parseAux f2 bs := by
  intro f1
  induction f1 with
  | zero =>
    intro f2 bs h1 _
    have : bs = [] := List.eq_nil_of_length_eq_zero (by omega)
    subst this
    cases f2 <;> simp [Spec.parseAux, Spec.blockLen]
  | succ f1 ih =>
    intro f2 bs h1 h2
    cases f2 with
    | zero =>
      have : bs = [] := List.eq_nil_of_length_eq_zero (by omega)
      subst this
      simp [Spec.parseAux, Spec.blockLen]
    | succ f2 =>
      simp only [Spec.parseAux]
      cases hb : Spec.blockLen bs with
      | none => rfl
      | some n =>
        have ⟨hp, hl⟩ := blockLen_pos hb
        simp only
        rw [ih f2 (bs.drop n) (by simp; omega) (by simp; omega)]

/-- Fuel-free recursion equation of the specification. -/
theorem parse_unfold (bs : Bytes) :
    Spec.parse bs =
      match Spec.blockLen bs with
      | none => []
      | some n => Spec.decode (bs.take n) :: Spec.parse (bs.drop n) := by
  unfold Spec.parse
  cases hl : bs.length with
  | zero =>
    have : bs = [] := List.eq_nil_of_length_eq_zero hl
    subst this
    simp [Spec.parseAux, Spec.blockLen]
  | succ k =>
    simp only [Spec.parseAux]
    cases hb : Spec.blockLen bs with
    | none => rfl
    | some n =>
      have ⟨hp, hl'⟩ := blockLen_pos hb
      simp only
      rw [parseAux_fuel k (bs.drop n).length (bs.drop n) (by simp; omega) (Nat.le_refl _)]

theorem parse_nil : Spec.parse [] = [] := by simp [Spec.parse, Spec.parseAux]

/-! ### One `next` call against the specification -/

theorem decode_device (h : UInt8) (r : Bytes) (d : h.toNat / 64 = 0) :
    Spec.decode (h :: r) = .device r := by
  simp [Spec.decode, d]

theorem decode_identifier (h : UInt8) (r : Bytes) (d : h.toNat / 64 = 1) :
    Spec.decode (h :: r) = .identifier r := by
  simp [Spec.decode, d]

theorem decode_channel (h b1 b2 : UInt8) (r : Bytes) (d : h.toNat / 64 = 2) :
    Spec.decode (h :: b1 :: b2 :: r) = .channel {
      module := h &&& 0x3f, channel := b1 &&& 0x3f,
      input := b1 &&& 0x40 ≠ 0, output := b1 &&& 0x80 ≠ 0,
      dtype := DataType.fromByte2 b2, error := ChanError.fromByte2 b2 } := by
  have i6 : decide (b1 &&& 0x40 ≠ 0) = decide (b1.toNat / 64 % 2 = 1) := by
    simp only [bit6 b1]
  have i7 : decide (b1 &&& 0x80 ≠ 0) = decide (b1.toNat / 128 = 1) := by
    simp only [bit7 b1]
  simp only [Spec.decode, List.getD_cons_zero, List.getD_cons_succ, d]
  rw [low6 h, low6 b1, dtype_table, error_table, i6, i7]
  simp

theorem next_spec (rb : Bytes) (c : Nat) (hc : c < rb.length) :
    next (.some rb) c =
      match Spec.blockLen (rb.drop c) with
      | none => .done rb.length
      | some n => .yield (Spec.decode ((rb.drop c).take n)) (c + n) := by
  unfold next
  simp only [ge_iff_le, Nat.not_le.mpr hc, if_false]
  obtain ⟨rem, hrem⟩ : ∃ rem, rb.drop c = rem := ⟨_, rfl⟩
  have hlen : rem.length = rb.length - c := by rw [← hrem, List.length_drop]
  rw [hrem]
  cases rem with
  | nil => simp at hlen; omega
  | cons h tl =>
    have hl := len6 h
    rcases shr6_cases h with ⟨e, d⟩ | ⟨e, d⟩ | ⟨e, d⟩ | ⟨e, d⟩
    · -- device
      simp only [List.length_cons, List.getD_cons_zero, e, hl, Spec.blockLen, d]
      by_cases hz : h.toNat % 64 = 0
      · simp [hz]
      · obtain ⟨k, hk⟩ : ∃ k, h.toNat % 64 = k + 1 := ⟨h.toNat % 64 - 1, by omega⟩
        rw [hk]
        by_cases hcut : tl.length + 1 < k + 1
        · simp [hcut, Nat.not_le.mpr hcut]
        · simp [hcut, Nat.not_lt.mp hcut, decode_device _ _ d]
    · -- identifier
      simp only [List.length_cons, List.getD_cons_zero, e, hl, Spec.blockLen, d]
      by_cases hz : h.toNat % 64 = 0
      · simp [hz]
      · obtain ⟨k, hk⟩ : ∃ k, h.toNat % 64 = k + 1 := ⟨h.toNat % 64 - 1, by omega⟩
        rw [hk]
        by_cases hcut : tl.length + 1 < k + 1
        · simp [hcut, Nat.not_le.mpr hcut]
        · simp [hcut, Nat.not_lt.mp hcut, decode_identifier _ _ d]
    · -- channel
      simp only [List.length_cons, List.getD_cons_zero, e, Spec.blockLen, d]
      by_cases hcut : tl.length + 1 < 3
      · simp [hcut, Nat.not_le.mpr hcut]
      · match tl, hcut with
        | b1 :: b2 :: r, _ =>
          simp [decode_channel _ _ _ _ d]
        | [], hcut => simp at hcut
        | [_], hcut => simp at hcut
    · simp [e, d, Spec.blockLen]

theorem next_done (rb : Bytes) (c : Nat) (hc : rb.length ≤ c) : next (.some rb) c = .done c := by
  unfold next
  simp [hc]

/-! ### The iterator run to exhaustion -/

theorem collect_spec : ∀ (fuel : Nat) (rb : Bytes) (c : Nat), c ≤ rb.length → rb.length - c < fuel →
    collect fuel (.some rb) c = .ok (Spec.parse (rb.drop c)) := by
  intro fuel
  induction fuel with
  | zero => intro rb c _ h; omega
  | succ fuel ih =>
    intro rb c hc hf
    unfold collect
    by_cases hlt : c < rb.length
    · rw [next_spec rb c hlt, parse_unfold (rb.drop c)]
      cases hb : Spec.blockLen (rb.drop c) with
      | none => rfl
      | some n =>
        have ⟨hp, hl⟩ := blockLen_pos hb
        rw [List.length_drop] at hl
        simp only
        rw [ih rb (c + n) (by omega) (by omega), List.drop_drop]
    · have : c = rb.length := by omega
      subst this
      rw [next_done rb _ (Nat.le_refl _)]
      simp [parse_nil]

theorem iterBlocks_spec (rb : Bytes) : iterBlocks (.some rb) = .ok (Spec.parse rb) := by
  unfold iterBlocks
  have := collect_spec (rawLen (.some rb) + 1) rb 0 (Nat.zero_le _) (by simp [rawLen])
  simpa using this

/-- Any fuel above the buffer length gives the same result: the iterator needs at most `length + 1`
calls of `next`. -/
theorem collect_fuel (fuel : Nat) (rb : Bytes) (h : rb.length < fuel) :
    collect fuel (.some rb) 0 = iterBlocks (.some rb) := by
  rw [iterBlocks_spec, collect_spec fuel rb 0 (Nat.zero_le _) (by omega)]
  simp

theorem parse_length_le : ∀ (n : Nat) (bs : Bytes), bs.length ≤ n → (Spec.parse bs).length ≤ bs.length := by
  intro n
  induction n with
  | zero =>
    intro bs h
    have : bs = [] := List.eq_nil_of_length_eq_zero (by omega)
    subst this; simp [parse_nil]
  | succ n ih =>
    intro bs h
    rw [parse_unfold]
    cases hb : Spec.blockLen bs with
    | none => simp
    | some k =>
      have ⟨hp, hl⟩ := blockLen_pos hb
      have := ih (bs.drop k) (by simp; omega)
      simp only [List.length_cons]
      rw [List.length_drop] at this
      omega

/-! ### Tiling: well-formed and malformed blocks, stated without reference to `blockLen` -/

/-- `s` is exactly one well-formed block: a 3-byte channel block, or an identifier / device block
whose six length bits equal its (non-zero) size. -/
def WellFormed (s : Bytes) : Prop :=
  ∃ h tl, s = h :: tl ∧
    ((h.toNat / 64 = 2 ∧ s.length = 3) ∨ (h.toNat / 64 ≤ 1 ∧ s.length = h.toNat % 64))

/-- The block at the head of `r` is malformed. -/
def Malformed (r : Bytes) : Prop :=
  ∃ h tl, r = h :: tl ∧
    (h.toNat / 64 = 3                                   -- reserved block type
     ∨ (h.toNat / 64 = 2 ∧ r.length < 3)                -- channel block cut off
     ∨ (h.toNat / 64 ≤ 1 ∧ h.toNat % 64 = 0)            -- zero length
     ∨ (h.toNat / 64 ≤ 1 ∧ r.length < h.toNat % 64))    -- identifier / device block cut off

theorem blockLen_some {bs : Bytes} {n : Nat} (hb : Spec.blockLen bs = some n) : WellFormed (bs.take n) := by
  have ⟨hp, hl⟩ := blockLen_pos hb
  cases bs with
  | nil => simp [Spec.blockLen] at hb
  | cons h tl =>
    obtain ⟨k, rfl⟩ : ∃ k, n = k + 1 := ⟨n - 1, by omega⟩
    refine ⟨h, tl.take k, by simp, ?_⟩
    have hlen : (List.take (k + 1) (h :: tl)).length = k + 1 := by
      rw [List.length_take]; omega
    rw [hlen]
    simp only [Spec.blockLen] at hb
    have hd : h.toNat / 64 < 4 := by have := h.toNat_lt; omega
    split at hb
    · cases hb
    · split at hb
      · split at hb
        · have := Option.some.inj hb; left; omega
        · cases hb
      · split at hb
        · cases hb
        · split at hb
          · have := Option.some.inj hb; right; omega
          · cases hb

theorem blockLen_none {bs : Bytes} (hne : bs ≠ []) (hb : Spec.blockLen bs = none) : Malformed bs := by
  cases bs with
  | nil => exact absurd rfl hne
  | cons h tl =>
    refine ⟨h, tl, rfl, ?_⟩
    simp only [Spec.blockLen] at hb
    have hd : h.toNat / 64 < 4 := by have := h.toNat_lt; omega
    split at hb
    · left; assumption
    · split at hb
      · split at hb
        · cases hb
        · right; left; omega
      · split at hb
        · right; right; left; omega
        · split at hb
          · cases hb
          · right; right; right; omega

theorem wellFormed_blockLen {s : Bytes} (rest : Bytes) (hw : WellFormed s) :
    Spec.blockLen (s ++ rest) = some s.length := by
  obtain ⟨h, tl, rfl, hc⟩ := hw
  simp only [List.cons_append, Spec.blockLen, List.length_cons, List.length_append] at hc ⊢
  rcases hc with ⟨h2, hl⟩ | ⟨h01, hl⟩
  · simp [h2]; omega
  · have h3 : ¬ h.toNat / 64 = 3 := by omega
    have h2 : ¬ h.toNat / 64 = 2 := by omega
    have hz : ¬ h.toNat % 64 = 0 := by omega
    simp [h3, h2, hz]; omega

theorem malformed_blockLen {r : Bytes} (hm : Malformed r) : Spec.blockLen r = none := by
  obtain ⟨h, tl, rfl, hc⟩ := hm
  simp only [Spec.blockLen, List.length_cons] at hc ⊢
  rcases hc with h3 | ⟨h2, hl⟩ | ⟨h01, hz⟩ | ⟨h01, hl⟩
  · simp [h3]
  · simp [h2]; omega
  · have h3 : ¬ h.toNat / 64 = 3 := by omega
    have h2 : ¬ h.toNat / 64 = 2 := by omega
    simp [h3, h2, hz]
  · have h3 : ¬ h.toNat / 64 = 3 := by omega
    have h2 : ¬ h.toNat / 64 = 2 := by omega
    simp [h3, h2]; omega

/-- "First malformed block": no prefix of a malformed remainder is a well-formed block. -/
theorem malformed_no_prefix {r s rest : Bytes} (hm : Malformed r) (e : r = s ++ rest) : ¬ WellFormed s := by
  intro hw
  have := wellFormed_blockLen rest hw
  rw [← e, malformed_blockLen hm] at this
  cases this

/-- The specification tiles the string: consecutive well-formed blocks from offset 0, then nothing
or a malformed block. -/
theorem parse_tiling : ∀ (n : Nat) (bs : Bytes), bs.length ≤ n →
    ∃ (spans : List Bytes) (rest : Bytes), bs = spans.flatten ++ rest ∧ (∀ s ∈ spans, WellFormed s) ∧
      (rest = [] ∨ Malformed rest) ∧ Spec.parse bs = spans.map Spec.decode := by
  intro n
  induction n with
  | zero =>
    intro bs h
    have : bs = [] := List.eq_nil_of_length_eq_zero (by omega)
    subst this
    exact ⟨[], [], by simp, by simp, Or.inl rfl, by simp [parse_nil]⟩
  | succ n ih =>
    intro bs h
    by_cases hne : bs = []
    · subst hne
      exact ⟨[], [], by simp, by simp, Or.inl rfl, by simp [parse_nil]⟩
    · rw [parse_unfold]
      cases hb : Spec.blockLen bs with
      | none => exact ⟨[], bs, by simp, by simp, Or.inr (blockLen_none hne hb), by simp⟩
      | some k =>
        have ⟨hp, hl⟩ := blockLen_pos hb
        obtain ⟨spans, rest, e, hw, hr, hpar⟩ := ih (bs.drop k) (by simp; omega)
        refine ⟨bs.take k :: spans, rest, ?_, ?_, hr, ?_⟩
        · rw [List.flatten_cons, List.append_assoc, ← e, List.take_append_drop]
        · intro s hs
          rcases List.mem_cons.mp hs with rfl | hs
          · exact blockLen_some hb
          · exact hw s hs
        · simp [hpar]

/-- Any tiling of that shape yields the specification's blocks (the tiling is unique). -/
theorem tiling_unique : ∀ (spans : List Bytes) (rest : Bytes), (∀ s ∈ spans, WellFormed s) →
    (rest = [] ∨ Malformed rest) → Spec.parse (spans.flatten ++ rest) = spans.map Spec.decode := by
  intro spans
  induction spans with
  | nil =>
    intro rest _ hr
    rcases hr with rfl | hm
    · simp [parse_nil]
    · rw [List.flatten_nil, List.nil_append, parse_unfold, malformed_blockLen hm]; rfl
  | cons s spans ih =>
    intro rest hw hr
    have hs := hw s (List.mem_cons_self ..)
    rw [List.flatten_cons, List.append_assoc, parse_unfold, wellFormed_blockLen _ hs]
    simp only [List.take_left', List.drop_left', List.map_cons]
    rw [ih rest (fun t ht => hw t (List.mem_cons_of_mem _ ht)) hr]

/-! ### Identifier bits -/

theorem bit_k (b : UInt8) (k : Nat) (hk : k < 8) :
    ((b >>> UInt8.ofNat k) &&& 1 = 1) ↔ b.toNat / 2 ^ k % 2 = 1 := by
  have := forall_u8 (fun b => (List.range 8).all fun k =>
      decide (((b >>> UInt8.ofNat k) &&& 1 = 1) ↔ b.toNat / 2 ^ k % 2 = 1)) (by decide +kernel) b
  rw [List.all_eq_true] at this
  have := this k (by simp [List.mem_range]; exact hk)
  simp only [decide_eq_true_eq] at this
  exact this

theorem byteOnes_spec (b : UInt8) (base : Nat) :
    byteOnes b base = ((List.range 8).filter fun k => b.toNat / 2 ^ k % 2 = 1).map (base + ·) := by
  unfold byteOnes
  congr 1
  apply List.filter_congr
  intro k hk
  have hk : k < 8 := by simpa [List.mem_range] using hk
  have := bit_k b k hk
  by_cases h : b.toNat / 2 ^ k % 2 = 1 <;> simp_all

theorem onesFrom_spec : ∀ (bs : Bytes) (base : Nat), onesFrom bs base = (Spec.ones bs).map (base + ·) := by
  intro bs
  induction bs with
  | nil => intro base; simp [onesFrom, Spec.ones]
  | cons b bs ih =>
    intro base
    rw [onesFrom, ih, byteOnes_spec]
    unfold Spec.ones
    have e : 8 * (b :: bs).length = 8 + 8 * bs.length := by simp; omega
    rw [e, List.range_add, List.filter_append, List.map_append, List.filter_map, List.map_map]
    have p1 : List.filter (fun i => decide (((b :: bs).getD (i / 8) 0).toNat / 2 ^ (i % 8) % 2 = 1)) (List.range 8)
        = List.filter (fun k => decide (b.toNat / 2 ^ k % 2 = 1)) (List.range 8) := by
      apply List.filter_congr
      intro k hk
      have hk : k < 8 := by simpa [List.mem_range] using hk
      have h1 : k / 8 = 0 := by omega
      have h2 : k % 8 = k := by omega
      simp [h1, h2]
    have hf : (fun i => decide (((b :: bs).getD (i / 8) 0).toNat / 2 ^ (i % 8) % 2 = 1)) ∘ (fun x => 8 + x)
        = fun i => decide ((bs.getD (i / 8) 0).toNat / 2 ^ (i % 8) % 2 = 1) := by
      funext i
      have h1 : (8 + i) / 8 = i / 8 + 1 := by omega
      have h2 : (8 + i) % 8 = i % 8 := by omega
      simp [h1, h2]
    have hg : ((fun x => base + x) ∘ fun x => 8 + x) = (fun x => base + 8 + x) := by
      funext x; simp; omega
    rw [p1, hf, hg]

theorem ones_spec (bs : Bytes) : ones bs = Spec.ones bs := by
  unfold ones
  rw [onesFrom_spec]
  simp

/-! ### `ExtendedDiagnostics` invariant and the reply handler -/

/-- Representation invariant of `ExtendedDiagnostics`: `length ≤ buffer.len()`. -/
def ExtDiag.Valid (e : ExtDiag) : Prop := e.length ≤ e.buf.length

theorem valid_ofSize (n : Nat) : (ExtDiag.ofSize n).Valid := by simp [ExtDiag.Valid, ExtDiag.ofSize]

theorem raw_of_valid {e : ExtDiag} (hv : e.Valid) :
    e.raw = if e.buf.length = 0 then .none else .some (e.buf.take e.length) := by
  unfold ExtDiag.raw ExtDiag.isAvailable ExtDiag.Valid at *
  by_cases h0 : e.buf.length = 0
  · simp [h0]
  · have : ¬ e.length > e.buf.length := by omega
    simp [h0, this]

theorem fill_spec (e : ExtDiag) (src : Bytes) :
    e.fill src =
      if 0 < e.buf.length ∧ src.length ≤ e.buf.length
      then ({ buf := src ++ e.buf.drop src.length, length := src.length }, true) else (e, false) := by
  unfold ExtDiag.fill
  by_cases h0 : e.buf.length = 0
  · simp [h0]
  · by_cases h1 : e.buf.length < src.length
    · have : ¬ src.length ≤ e.buf.length := by omega
      simp [h0, h1, this]
    · have : src.length ≤ e.buf.length := by omega
      simp [h0, h1, this]

theorem fill_valid {e : ExtDiag} (hv : e.Valid) (src : Bytes) :
    (e.fill src).1.Valid ∧ (e.fill src).1.buf.length = e.buf.length := by
  rw [fill_spec]
  split
  · next h => simp [ExtDiag.Valid]; omega
  · exact ⟨hv, rfl⟩

theorem fill_raw {e : ExtDiag} (src : Bytes) (h : (e.fill src).2 = true) :
    (e.fill src).1.raw = .some src := by
  rw [fill_spec] at h ⊢
  split at h
  · next hc =>
    simp only [hc, and_self, if_true]
    unfold ExtDiag.raw ExtDiag.isAvailable
    simp
    have h1 : ¬ (src = [] ∧ e.buf.length - src.length = 0) := by
      intro ⟨hs, hz⟩
      have : src.length = 0 := by rw [hs]; rfl
      omega
    have h2 : ¬ (src.length + (e.buf.length - src.length) < src.length) := by omega
    simp [h1, h2]
  · cases h

theorem debugFails_of_valid {e : ExtDiag} (hv : e.Valid) : e.debugFails = false := by
  unfold ExtDiag.debugFails ExtDiag.blocks
  by_cases ha : e.isAvailable = true
  · have h0 : ¬ e.buf.length = 0 := by
      unfold ExtDiag.isAvailable at ha; simp at ha; omega
    simp [ha, raw_of_valid hv, h0, iterBlocks_spec]
  · simp [ha]

theorem decodeInfo_spec (pdu : Bytes) :
    decodeInfo pdu =
      if pdu.length < 6 then .reject
      else .accept {
        flags := le16 (pdu.getD 0 0) (pdu.getD 1 0) &&& ~~~PERMANENT_BIT,
        ident := be16 (pdu.getD 4 0) (pdu.getD 5 0),
        master := if pdu.getD 3 0 = 255 then none else some (pdu.getD 3 0) } := by
  unfold decodeInfo
  by_cases h : pdu.length < 6
  · simp [h]
  · have h3 : ¬ pdu.length ≤ 3 := by omega
    have h2 : ¬ pdu.length < 2 := by omega
    simp [h, h3, h2]

/-- The decoded header of a PDU with at least six bytes. -/
def infoOf (pdu : Bytes) : DiagInfo :=
  { flags := le16 (pdu.getD 0 0) (pdu.getD 1 0) &&& ~~~PERMANENT_BIT,
    ident := be16 (pdu.getD 4 0) (pdu.getD 5 0),
    master := if pdu.getD 3 0 = 255 then none else some (pdu.getD 3 0) }

/-- `handle_diagnostics_response` in closed form (for a peripheral whose `ext_diag` is valid). -/
theorem handle_spec (s : PState) (hv : s.ext.Valid) (t : Telegram) :
    handle s t =
      if Spec.accepts t then
        match t with
        | .data _ pdu =>
          .accepted { info := some (infoOf pdu),
                      ext := if Spec.extFlag pdu then (s.ext.fill (pdu.drop 6)).1 else s.ext }
        | _ => .rejected
      else .rejected := by
  cases t with
  | token da sa => simp [handle, Spec.accepts]
  | sc => simp [handle, Spec.accepts]
  | data h pdu =>
    unfold handle
    simp only [Spec.accepts, SAP_MASTER_MS0, SAP_SLAVE_DIAGNOSIS]
    by_cases hd : h.dsap = some 62
    · by_cases hs : h.ssap = some 60
      · rw [decodeInfo_spec]
        by_cases hl : pdu.length < 6
        · have : ¬ 6 ≤ pdu.length := by omega
          simp [hd, hs, hl, this]
        · have hl' : 6 ≤ pdu.length := by omega
          have hf := ext_flag_iff (pdu.getD 0 0) (pdu.getD 1 0)
          have hdbg := debugFails_of_valid (fill_valid hv (pdu.drop 6)).1
          simp only [hd, hs, hl, hl', ne_eq, not_true_eq_false, if_false, and_self, decide_true, if_true]
          by_cases he : (pdu.getD 0 0).toNat / 8 % 2 = 1
          · have := hf.mpr he
            rw [if_pos this]
            have he' := he
            rw [List.getD_eq_getElem?_getD] at he'
            simp [hdbg, Spec.extFlag, he', infoOf]
          · have : ¬ ((le16 (pdu.getD 0 0) (pdu.getD 1 0) &&& ~~~PERMANENT_BIT) &&& EXT_DIAG ≠ 0) :=
              fun h => he (hf.mp h)
            rw [if_neg this]
            have he' := he
            rw [List.getD_eq_getElem?_getD] at he'
            simp [Spec.extFlag, he', infoOf]
      · simp [hd, hs]
    · simp [hd]

end PV.Diag
