/-
The PEG on canonical text, token level (depends on the concrete generated grammar: these lemmas say
what gsd.pest does on identifiers, numbers, string literals and at places without white space).

Conventions: `mk rest pos out` is the parser state; a token lemma reads
`Ev … (mk (token ++ tail) p o) (.ok (mk tail (p + token.length) …))` under a condition on the first
character of `tail` that stops the token.
-/
import ProfiVerif.Lemmas.PegEv

namespace PV.Gsd.Peg

abbrev mk (rest : Str) (pos : Nat) (out : List Pair) : PS := ⟨rest, pos, out⟩

/-- The first character, if any, satisfies `P` ("the text stops here for anything that needs `¬P`"). -/
def Head (P : Char → Prop) : Str → Prop
  | [] => True
  | c :: _ => P c

theorem Head.mono {P Q : Char → Prop} (h : ∀ c, P c → Q c) : ∀ {t : Str}, Head P t → Head Q t
  | [], _ => trivial
  | c :: _, hp => h c hp

theorem matchStr_single_none {c : Char} : ∀ {t : Str}, Head (· ≠ c) t → matchStr [c] t = none
  | [], _ => rfl
  | d :: _, h => by
    have : ¬ c = d := fun e => h e.symm
    simp [matchStr, this]

theorem matchStr_single_some {c : Char} {t : Str} : matchStr [c] (c :: t) = some t := by simp [matchStr]

theorem matchStr_append (l t : Str) : matchStr l (l ++ t) = some t := by
  induction l with
  | nil => rfl
  | cons a l ih => simp [matchStr, ih]

/-! ### No implicit skipping where no white space / comment starts -/

def NoSkipChar (c : Char) : Prop := c ≠ ' ' ∧ c ≠ '\t' ∧ c ≠ '\\' ∧ c ≠ ';'

theorem ws_fail {rest : Str} {p : Nat} {o : List Pair} (h : Head NoSkipChar rest) :
    Ev true (.call .WHITESPACE) (mk rest p o) .fail := by
  refine Ev.call_silent rfl ?_
  show Ev true (.choice (.str [' ']) (.choice (.str ['\t']) (.seq (.str ['\\']) .newline))) _ _
  refine Ev.choice_r (Ev.str_fail (matchStr_single_none (h.mono fun c hc => hc.1))) ?_
  refine Ev.choice_r (Ev.str_fail (matchStr_single_none (h.mono fun c hc => hc.2.1))) ?_
  exact Ev.seq_fail (Ev.str_fail (matchStr_single_none (h.mono fun c hc => hc.2.2.1)))

theorem comment_fail {rest : Str} {p : Nat} {o : List Pair} (h : Head NoSkipChar rest) :
    Ev true (.call .COMMENT) (mk rest p o) .fail := by
  refine Ev.call_silent rfl ?_
  show Ev true (.seq (.str [';']) _) _ _
  exact Ev.seq_fail (Ev.str_fail (matchStr_single_none (h.mono fun c hc => hc.2.2.2)))

/-- Nothing is skipped in front of a character that starts neither white space nor a comment. -/
theorem sk_none {rest : Str} {p : Nat} {o : List Pair} (h : Head NoSkipChar rest) :
    Sk false (mk rest p o) (.ok (mk rest p o)) := by
  refine Sk.of_ev ?_
  show Ev true (.seq (.star (.call .WHITESPACE)) (.star (.seq (.call .COMMENT) (.star (.call .WHITESPACE))))) _ _
  exact Ev.seq (Ev.star_nil (ws_fail h)) Sk.atomic (Ev.star_nil (Ev.seq_fail (comment_fail h)))

/-- One blank is skipped (canonical separator between two tokens that would otherwise merge). -/
theorem sk_blank {rest : Str} {p : Nat} {o : List Pair} (h : Head NoSkipChar rest) :
    Sk false (mk (' ' :: rest) p o) (.ok (mk rest (p + 1) o)) := by
  refine Sk.of_ev ?_
  show Ev true (.seq (.star (.call .WHITESPACE)) (.star (.seq (.call .COMMENT) (.star (.call .WHITESPACE))))) _ _
  have hws : Ev true (.call .WHITESPACE) (mk (' ' :: rest) p o) (.ok (mk rest (p + 1) o)) := by
    refine Ev.call_silent rfl ?_
    show Ev true (.choice (.str [' ']) _) _ _
    exact Ev.choice_l (Ev.str_ok (l := [' ']) matchStr_single_some)
  exact Ev.seq (Ev.star_cons hws (Lp.stop Sk.atomic (ws_fail h))) Sk.atomic
    (Ev.star_nil (Ev.seq_fail (comment_fail h)))

/-! ### Character loops in atomic mode -/

section chars
variable {x : Expr} {P : Char → Prop} {Stop : Str → Prop}
  (hok : ∀ c rest p o, P c → Ev true x (mk (c :: rest) p o) (.ok (mk rest (p + 1) o)))
  (hfail : ∀ rest p o, Stop rest → Ev true x (mk rest p o) .fail)
include hok hfail

theorem lp_chars : ∀ (w tail : Str) (p : Nat) (o : List Pair), (∀ c ∈ w, P c) → Stop tail →
    Lp true x (mk (w ++ tail) p o) (.ok (mk tail (p + w.length) o))
  | [], tail, p, o, _, hs => Lp.stop Sk.atomic (hfail tail p o hs)
  | c :: w, tail, p, o, hw, hs => by
    have ih := lp_chars w tail (p + 1) o (fun d hd => hw d (List.mem_cons_of_mem _ hd)) hs
    have e : p + 1 + w.length = p + (c :: w).length := by simp only [List.length_cons]; omega
    rw [e] at ih
    exact Lp.step Sk.atomic (hok c (w ++ tail) p o (hw c (List.mem_cons_self ..))) ih

theorem star_chars (w tail : Str) (p : Nat) (o : List Pair) (hw : ∀ c ∈ w, P c) (hs : Stop tail) :
    Ev true (.star x) (mk (w ++ tail) p o) (.ok (mk tail (p + w.length) o)) := by
  cases w with
  | nil => exact Ev.star_nil (hfail tail p o hs)
  | cons c w =>
    have ih := lp_chars hok hfail w tail (p + 1) o (fun d hd => hw d (List.mem_cons_of_mem _ hd)) hs
    have e : p + 1 + w.length = p + (c :: w).length := by simp only [List.length_cons]; omega
    rw [e] at ih
    exact Ev.star_cons (hok c (w ++ tail) p o (hw c (List.mem_cons_self ..))) ih

theorem plus_chars (c : Char) (w tail : Str) (p : Nat) (o : List Pair) (hw : ∀ d ∈ c :: w, P d) (hs : Stop tail) :
    Ev true (.plus x) (mk (c :: w ++ tail) p o) (.ok (mk tail (p + (c :: w).length) o)) := by
  have h1 := hok c (w ++ tail) p o (hw c (List.mem_cons_self ..))
  cases w with
  | nil => exact Ev.plus_one h1 Sk.atomic (hfail tail (p + 1) o hs)
  | cons d w =>
    have hd := hok d (w ++ tail) (p + 1) o (hw d (by simp))
    have ih := lp_chars hok hfail w tail (p + 1 + 1) o (fun e he => hw e (by simp [he])) hs
    have e : p + 1 + 1 + w.length = p + (c :: d :: w).length := by simp only [List.length_cons]; omega
    rw [e] at ih
    exact Ev.plus_more h1 Sk.atomic hd ih

end chars

/-! ### Identifiers -/

def IsIdChar (c : Char) : Prop :=
  ('0'.val ≤ c.val ∧ c.val ≤ '9'.val) ∨ ('a'.val ≤ c.val ∧ c.val ≤ 'z'.val) ∨ ('A'.val ≤ c.val ∧ c.val ≤ 'Z'.val) ∨
    c = '_' ∨ c = '.'

instance (c : Char) : Decidable (IsIdChar c) := by unfold IsIdChar; infer_instance

def partE : Expr := .call .identifier_part

theorem part_ok (c : Char) (rest : Str) (p : Nat) (o : List Pair) (h : IsIdChar c) :
    Ev true partE (mk (c :: rest) p o) (.ok (mk rest (p + 1) o)) := by
  refine Ev.call_silent rfl ?_
  show Ev true (.choice (.choice (.range '0' '9') (.choice (.range 'a' 'z') (.range 'A' 'Z')))
    (.choice (.str ['_']) (.str ['.']))) _ _
  by_cases h0 : '0'.val ≤ c.val ∧ c.val ≤ '9'.val
  · exact Ev.choice_l (Ev.choice_l (Ev.range_ok rfl h0))
  have f0 : Ev true (.range '0' '9') (mk (c :: rest) p o) .fail :=
    Ev.range_fail (by intro ch r' e; cases e; exact h0)
  by_cases h1 : 'a'.val ≤ c.val ∧ c.val ≤ 'z'.val
  · exact Ev.choice_l (Ev.choice_r f0 (Ev.choice_l (Ev.range_ok rfl h1)))
  have f1 : Ev true (.range 'a' 'z') (mk (c :: rest) p o) .fail :=
    Ev.range_fail (by intro ch r' e; cases e; exact h1)
  by_cases h2 : 'A'.val ≤ c.val ∧ c.val ≤ 'Z'.val
  · exact Ev.choice_l (Ev.choice_r f0 (Ev.choice_r f1 (Ev.range_ok rfl h2)))
  have f2 : Ev true (.range 'A' 'Z') (mk (c :: rest) p o) .fail :=
    Ev.range_fail (by intro ch r' e; cases e; exact h2)
  refine Ev.choice_r (Ev.choice_r f0 (Ev.choice_r f1 f2)) ?_
  by_cases h3 : c = '_'
  · subst h3; exact Ev.choice_l (Ev.str_ok (l := ['_']) matchStr_single_some)
  have h4 : c = '.' := by
    rcases h with h | h | h | h | h
    · exact (h0 h).elim
    · exact (h1 h).elim
    · exact (h2 h).elim
    · exact (h3 h).elim
    · exact h
  subst h4
  exact Ev.choice_r (Ev.str_fail (matchStr_single_none (t := '.' :: rest) (show ('.' : Char) ≠ '_' by decide))) (Ev.str_ok (l := ['.']) matchStr_single_some)

theorem part_fail (rest : Str) (p : Nat) (o : List Pair) (h : Head (¬ IsIdChar ·) rest) :
    Ev true partE (mk rest p o) .fail := by
  refine Ev.call_silent rfl ?_
  show Ev true (.choice (.choice (.range '0' '9') (.choice (.range 'a' 'z') (.range 'A' 'Z')))
    (.choice (.str ['_']) (.str ['.']))) _ _
  have hr : ∀ lo hi : Char, (∀ c, lo.val ≤ c.val ∧ c.val ≤ hi.val → IsIdChar c) →
      Ev true (.range lo hi) (mk rest p o) .fail := by
    intro lo hi hsub
    refine Ev.range_fail ?_
    intro ch r' e hc
    have e' : rest = ch :: r' := e
    subst e'
    exact h (hsub ch hc)
  refine Ev.choice_r (Ev.choice_r (hr _ _ fun c hc => .inl hc)
    (Ev.choice_r (hr _ _ fun c hc => .inr (.inl hc)) (hr _ _ fun c hc => .inr (.inr (.inl hc))))) ?_
  refine Ev.choice_r (Ev.str_fail (matchStr_single_none (h.mono ?_))) (Ev.str_fail (matchStr_single_none (h.mono ?_)))
  · intro c hc e; exact hc (.inr (.inr (.inr (.inl e))))
  · intro c hc e; exact hc (.inr (.inr (.inr (.inr e))))

theorem take_token (tok tail : Str) (p : Nat) : List.take (p + tok.length - p) (tok ++ tail) = tok := by
  rw [Nat.add_sub_cancel_left]; exact List.take_left' rfl

/-- `identifier` on `key ++ tail`. -/
theorem identifier_ok (c : Char) (w tail : Str) (p : Nat) (o : List Pair) (hw : ∀ d ∈ c :: w, IsIdChar d)
    (hs : Head (¬ IsIdChar ·) tail) :
    Ev false (.call .identifier) (mk (c :: w ++ tail) p o)
      (.ok (mk tail (p + (c :: w).length) (.node .identifier (c :: w) [] :: o))) := by
  have hb := plus_chars part_ok part_fail c w tail p [] hw hs
  have := Ev.call_node (q := .identifier) (ty := .atomic) (st := mk (c :: w ++ tail) p o) rfl (by decide) hb
  simpa only [mk, take_token (c :: w) tail p, List.reverse_nil] using this

theorem identifier_fail (rest : Str) (p : Nat) (o : List Pair) (h : Head (¬ IsIdChar ·) rest) :
    Ev false (.call .identifier) (mk rest p o) .fail :=
  Ev.call_fail (by decide) (Ev.plus_fail (part_fail rest p [] h))

/-! ### Decimal numbers -/

def IsDigit (c : Char) : Prop := '0'.val ≤ c.val ∧ c.val ≤ '9'.val

instance (c : Char) : Decidable (IsDigit c) := by unfold IsDigit; infer_instance

/-- Text of a `dec_number` without fraction: digits, optionally after a minus sign. -/
def DecText (t : Str) : Prop :=
  ∃ d ds, (t = d :: ds ∨ t = '-' :: d :: ds) ∧ ∀ c ∈ d :: ds, IsDigit c

/-- What may follow a number token. -/
def NumStop (c : Char) : Prop := ¬ IsDigit c ∧ c ≠ '.' ∧ c ≠ 'x'

theorem digit_ok (c : Char) (rest : Str) (p : Nat) (o : List Pair) (h : IsDigit c) :
    Ev true (.range '0' '9') (mk (c :: rest) p o) (.ok (mk rest (p + 1) o)) := Ev.range_ok rfl h

theorem digit_fail (rest : Str) (p : Nat) (o : List Pair) (h : Head (¬ IsDigit ·) rest) :
    Ev true (.range '0' '9') (mk rest p o) .fail := by
  refine Ev.range_fail ?_
  intro ch r' e hc
  have e' : rest = ch :: r' := e
  subst e'
  exact h hc

theorem no0x {t tail : Str} (ht : DecText t) (hs : Head NumStop tail) : matchStr ['0', 'x'] (t ++ tail) = none := by
  obtain ⟨d, ds, ht, hd⟩ := ht
  rcases ht with rfl | rfl
  · simp only [List.cons_append, matchStr]
    split
    · cases ds with
      | nil => exact matchStr_single_none (hs.mono fun c hc => hc.2.2)
      | cons e ds =>
        have he : IsDigit e := hd e (by simp)
        have : ¬ 'x' = e := by intro h; subst h; revert he; decide
        simp [matchStr, this]
    · rfl
  · simp [matchStr]

theorem decBody_ok {t tail : Str} (ht : DecText t) (hs : Head NumStop tail) (p : Nat) :
    Ev true (ruleDef .dec_number).2 (mk (t ++ tail) p []) (.ok (mk tail (p + t.length) [])) := by
  show Ev true (.seq (.opt (.str ['-'])) (.seq (.plus (.range '0' '9'))
    (.opt (.seq (.str ['.']) (.plus (.range '0' '9')))))) _ _
  obtain ⟨d, ds, ht, hd⟩ := ht
  have hstop : Head (¬ IsDigit ·) tail := hs.mono fun c hc => hc.1
  have hfrac : ∀ q, Ev true (.opt (.seq (.str ['.']) (.plus (.range '0' '9')))) (mk tail q []) (.ok (mk tail q [])) :=
    fun q => Ev.opt_none (Ev.seq_fail (Ev.str_fail (matchStr_single_none (hs.mono fun c hc => hc.2.1))))
  rcases ht with rfl | rfl
  · have hminus : Ev true (.opt (.str ['-'])) (mk (d :: ds ++ tail) p []) (.ok (mk (d :: ds ++ tail) p [])) := by
      refine Ev.opt_none (Ev.str_fail (matchStr_single_none (t := d :: ds ++ tail) ?_))
      show d ≠ '-'
      intro h; subst h; have := hd '-' (by simp); revert this; decide
    exact Ev.seq hminus Sk.atomic (Ev.seq (plus_chars digit_ok digit_fail d ds tail p [] hd hstop) Sk.atomic (hfrac _))
  · have hminus : Ev true (.opt (.str ['-'])) (mk ('-' :: d :: ds ++ tail) p []) (.ok (mk (d :: ds ++ tail) (p + 1) [])) :=
      Ev.opt_some (Ev.str_ok (l := ['-']) matchStr_single_some)
    have hp := plus_chars digit_ok digit_fail d ds tail (p + 1) [] hd hstop
    have e : p + 1 + (d :: ds).length = p + ('-' :: d :: ds).length := by simp only [List.length_cons]; omega
    rw [e] at hp
    exact Ev.seq hminus Sk.atomic (Ev.seq hp Sk.atomic (hfrac _))

/-- `number` (silent: `hex_number | dec_number`) on a decimal token, outside atomic rules. -/
theorem number_ok {t tail : Str} (ht : DecText t) (hs : Head NumStop tail) (p : Nat) (o : List Pair) :
    Ev false (.call .number) (mk (t ++ tail) p o)
      (.ok (mk tail (p + t.length) (.node .dec_number t [] :: o))) := by
  refine Ev.call_silent rfl ?_
  show Ev false (.choice (.call .hex_number) (.call .dec_number)) _ _
  have hhex : Ev false (.call .hex_number) (mk (t ++ tail) p o) .fail := by
    refine Ev.call_fail (by decide) ?_
    show Ev true (.seq (.str ['0', 'x']) _) _ _
    exact Ev.seq_fail (Ev.str_fail (no0x ht hs))
  refine Ev.choice_r hhex ?_
  have := Ev.call_node (q := .dec_number) (ty := .atomic) (st := mk (t ++ tail) p o) rfl (by decide) (decBody_ok ht hs p)
  simpa only [mk, take_token t tail p, List.reverse_nil] using this

/-- `number` fails in front of anything that is neither a digit nor a minus sign. -/
theorem number_fail (rest : Str) (p : Nat) (o : List Pair) (h : Head (fun c => ¬ IsDigit c ∧ c ≠ '-') rest) :
    Ev false (.call .number) (mk rest p o) .fail := by
  refine Ev.call_silent rfl ?_
  show Ev false (.choice (.call .hex_number) (.call .dec_number)) _ _
  have h0 : matchStr ['0', 'x'] rest = none := by
    cases rest with
    | nil => rfl
    | cons c r =>
      have : ¬ '0' = c := by intro e; subst e; exact h.1 (by decide)
      simp [matchStr, this]
  refine Ev.choice_r (Ev.call_fail (by decide) (Ev.seq_fail (Ev.str_fail h0))) ?_
  refine Ev.call_fail (by decide) ?_
  show Ev true (.seq (.opt (.str ['-'])) (.seq (.plus (.range '0' '9')) _)) _ _
  refine Ev.seq (Ev.opt_none (Ev.str_fail (matchStr_single_none (h.mono fun c hc => hc.2)))) Sk.atomic ?_
  exact Ev.seq_fail (Ev.plus_fail (digit_fail rest p [] (h.mono fun c hc => hc.1)))

/-! ### String literals -/

theorem strBody_ok (s tail : Str) (hs : ∀ c ∈ s, c ≠ '"') (p : Nat) :
    Ev true (ruleDef .string_literal).2 (mk ('"' :: (s ++ '"' :: tail)) p [])
      (.ok (mk tail (p + (s.length + 2)) [])) := by
  show Ev true (.seq (.str ['"']) (.seq (.star (.seq (.npred (.str ['"'])) .any)) (.str ['"']))) _ _
  have hok : ∀ c rest p o, c ≠ '"' →
      Ev true (.seq (.npred (.str ['"'])) .any) (mk (c :: rest) p o) (.ok (mk rest (p + 1) o)) := by
    intro c rest p o hc
    exact Ev.seq (Ev.npred_ok (Ev.str_fail (matchStr_single_none (t := c :: rest) hc))) Sk.atomic (Ev.any_ok rfl)
  have hfail : ∀ rest p o, (∃ r, rest = '"' :: r) →
      Ev true (.seq (.npred (.str ['"'])) .any) (mk rest p o) .fail := by
    rintro rest p o ⟨r, rfl⟩
    exact Ev.seq_fail (Ev.npred_fail (Ev.str_ok (l := ['"']) matchStr_single_some))
  have h1 : Ev true (.str ['"']) (mk ('"' :: (s ++ '"' :: tail)) p []) (.ok (mk (s ++ '"' :: tail) (p + 1) [])) :=
    Ev.str_ok (l := ['"']) matchStr_single_some
  have h2 := star_chars hok hfail s ('"' :: tail) (p + 1) [] hs ⟨tail, rfl⟩
  have h3 : Ev true (.str ['"']) (mk ('"' :: tail) (p + 1 + s.length) []) (.ok (mk tail (p + 1 + s.length + 1) [])) :=
    Ev.str_ok (l := ['"']) matchStr_single_some
  have e : p + 1 + s.length + 1 = p + (s.length + 2) := by omega
  rw [e] at h3
  exact Ev.seq h1 Sk.atomic (Ev.seq h2 Sk.atomic h3)

/-- `string_literal` on `"…"` (no quotation mark inside). -/
theorem string_ok (s tail : Str) (hs : ∀ c ∈ s, c ≠ '"') (p : Nat) (o : List Pair) :
    Ev false (.call .string_literal) (mk ('"' :: (s ++ '"' :: tail)) p o)
      (.ok (mk tail (p + (s.length + 2)) (.node .string_literal ('"' :: (s ++ ['"'])) [] :: o))) := by
  have := Ev.call_node (q := .string_literal) (ty := .atomic) (st := mk ('"' :: (s ++ '"' :: tail)) p o) rfl (by decide)
    (strBody_ok s tail hs p)
  have ht : List.take (p + (s.length + 2) - p) ('"' :: (s ++ '"' :: tail)) = '"' :: (s ++ ['"']) := by
    have := take_token ('"' :: (s ++ ['"'])) tail p
    simpa [Nat.add_assoc] using this
  simpa only [mk, ht, List.reverse_nil] using this

theorem string_fail (rest : Str) (p : Nat) (o : List Pair) (h : Head (· ≠ '"') rest) :
    Ev false (.call .string_literal) (mk rest p o) .fail :=
  Ev.call_fail (by decide) (Ev.seq_fail (Ev.str_fail (matchStr_single_none h)))

end PV.Gsd.Peg
