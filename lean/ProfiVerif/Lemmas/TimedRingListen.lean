/-
Timed ring, N stations, layer 2: a station that merely listens (ActiveIdle, or still supervising its own
pass) is polled with a batch of complete telegrams of other stations — token passes between other
members, GAP requests to unoccupied addresses — possibly ending with the token addressed to itself:
it transmits nothing, witnesses the passes (ring view unchanged as a `RingView`), answers nothing and
accepts the token only as the last telegram of the batch.  Helper lemmas.
-/
import ProfiVerif.Lemmas.TimedRing2

namespace PV
open StationGap TokenRing

/-- The per-telegram callback of `do_active_idle` / `do_check_token_pass`. -/
def idleF (now : Int) : Ctx → Telegram → Bool → Res :=
  fun c t isLast => handleTelegram (upd c fun s => markRx s now) now t isLast

/-- The token pass of member `a` to its cyclic successor, as a telegram. -/
def tokTel (M : List Nat) (a : Nat) : Telegram := .token (UInt8.ofNat (cycSucc a M)) (UInt8.ofNat a)
/-- The GAP request of `a` to `g`, as a telegram. -/
def reqTel (g a : Nat) : Telegram := .data (fdlStatusRequestHeader (UInt8.ofNat g) (UInt8.ofNat a)) []

theorem tokTel_wire (M : List Nat) (a : Nat) : (tokTel M a).wire = tokenBytes (cycSucc a M) a := rfl
theorem reqTel_wire (g a : Nat) : (reqTel g a).wire = statusRequestBytes g a := by
  unfold reqTel Telegram.wire; exact (statusRequest_frame g a).symm

theorem u8n (a : Nat) (h : a < 256) : (UInt8.ofNat a).toNat = a := by simp [Nat.mod_eq_of_lt h]

theorem tokTel_valid (M : List Nat) (a : Nat) : (tokTel M a).Valid := trivial
theorem reqTel_valid (g a : Nat) (hg : g < 128) (ha : a < 128) : (reqTel g a).Valid := by
  unfold reqTel Telegram.Valid
  refine ⟨?_, ?_, by simp [Header.lengthByte, Header.saps, fdlStatusRequestHeader]⟩
  · simp [fdlStatusRequestHeader, UInt8.lt_iff_toNat_lt]; omega
  · simp [fdlStatusRequestHeader, UInt8.lt_iff_toNat_lt]; omega

/-- Telegrams the listener `me` merely overhears: a pass between other members that does not end at `me`,
a GAP request to an address that is not `me`, or an application data telegram (anything but an FDL status
request). -/
def Foreign (M : List Nat) (me : Nat) (t : Telegram) : Prop :=
  (∃ a, a ∈ M ∧ a ≠ me ∧ cycSucc a M ≠ me ∧ t = tokTel M a) ∨
  (∃ g a, g < 126 ∧ a < 126 ∧ g ≠ me ∧ t = reqTel g a) ∨
  (∃ h pdu, t = .data h pdu ∧ ∀ fcb, h.fc ≠ .request fcb .fdlStatus)

/-- `handle_telegram` ignores every data telegram that is not an FDL status request. -/
theorem handleTelegram_app_data (c : Ctx) (now : Int) (sr np : Option Nat) (coll : Nat) (h : Header) (pdu : Bytes)
    (l : Bool) (hst : c.s.st = .activeIdle sr np coll) (hfc : ∀ fcb, h.fc ≠ .request fcb .fdlStatus) :
    handleTelegram c now (.data h pdu) l = .ok c := by
  unfold handleTelegram
  rw [hst]
  simp only

/-- Witnessing any member's pass to its cyclic successor leaves the ring view as it is. -/
theorem RingView.witness_member {M : List Nat} {x : Nat} {r : TokenRing} (v : RingView M x r) (h : Nat) (hh : h ∈ M) :
    RingView M x (r.witness h (cycSucc h M)) := by
  have hn := cycSucc_mem h M hh
  rw [TokenRing.witness_valid r h _ v.valid (v.ring.bound h hh) (v.ring.bound _ hn)]
  exact ⟨v.ring, v.mem, (TokenRing.updateLas_las r _ _).2.trans v.ts, (TokenRing.updateLas_las r _ _).1.trans v.valid,
    TokenRing.updateLas_succ_stable r M h v.las hh, TokenRing.updateLas_nbr r _ _⟩

theorem foldTelegrams_append (f : Ctx → Telegram → Bool → Res) : ∀ (l1 l2 : List (Telegram × Bool)) (c : Ctx),
    foldTelegrams f c (l1 ++ l2) = (foldTelegrams f c l1).bind fun c' => foldTelegrams f c' l2 := by
  intro l1
  induction l1 with
  | nil => intro l2 c; rfl
  | cons x xs ih =>
    intro l2 c
    obtain ⟨t, l⟩ := x
    simp only [List.cons_append, foldTelegrams]
    cases h : f c t l with
    | panic s => rfl
    | ok c1 => simp only [Res.bind]; exact ih l2 c1

/-- What overhearing leaves of a listening context. -/
structure Heard (M : List Nat) (me : Nat) (c c' : Ctx) : Prop where
  tx : c'.tx = c.tx
  rx : c'.rx = c.rx
  apps : c'.apps = c.apps
  calls : c'.calls = c.calls
  p : c'.s.p = c.s.p
  online : c'.s.online = c.s.online
  st : ∃ np coll, c'.s.st = .activeIdle none np coll
  view : RingView M me c'.s.ring

theorem idleF_foreign (M : List Nat) (me : Nat) (now l0 : Int) (c : Ctx) (t : Telegram) (isLast : Bool)
    (hf : Foreign M me t) (hme : c.s.p.address = me) (hst : ∃ np coll, c.s.st = .activeIdle none np coll)
    (hv : RingView M me c.s.ring) (hl : c.s.lastBusActivity = some l0) (hle : l0 ≤ now) :
    ∃ c', idleF now c t isLast = .ok c' ∧ Heard M me c c' ∧ c'.s.lastBusActivity = some now ∧ c'.s.pendingBytes = 0 := by
  obtain ⟨np, coll, hst⟩ := hst
  unfold idleF
  simp only [upd]
  rw [markRx_at _ _ _ hl hle]
  rcases hf with ⟨a, haM, hane, hsne, rfl⟩ | ⟨g, a, hg, ha, hgne, rfl⟩ | ⟨h, pdu, rfl, hfc⟩
  · have ha125 := hv.ring.bound a haM
    have hs125 := hv.ring.bound _ (cycSucc_mem a M haM)
    unfold tokTel handleTelegram
    simp only [hst]
    rw [if_neg (by rw [u8n a (by omega), hme]; exact hane)]
    simp only [upd]
    rw [if_pos (.inl (by rw [u8n _ (by omega), hme]; exact hsne))]
    refine ⟨_, rfl, ⟨rfl, rfl, rfl, rfl, rfl, rfl, ⟨np, 0, rfl⟩, ?_⟩, rfl, rfl⟩
    simp only
    rw [u8n a (by omega), u8n _ (by omega)]
    exact hv.witness_member a haM
  · unfold reqTel
    have e := handleTelegram_foreign_request
      { c with s := { c.s with pendingBytes := 0, lastBusActivity := some now } } now none np coll
      (fdlStatusRequestHeader (UInt8.ofNat g) (UInt8.ofNat a)) [] .inactive isLast hst rfl
      (by show (UInt8.ofNat g).toNat ≠ _; rw [u8n g (by omega)]; simp only; rw [hme]; exact hgne)
    rw [e]
    exact ⟨_, rfl, ⟨rfl, rfl, rfl, rfl, rfl, rfl, ⟨np, coll, hst⟩, hv⟩, rfl, rfl⟩
  · have e := handleTelegram_app_data
      { c with s := { c.s with pendingBytes := 0, lastBusActivity := some now } } now none np coll h pdu isLast hst hfc
    rw [e]
    exact ⟨_, rfl, ⟨rfl, rfl, rfl, rfl, rfl, rfl, ⟨np, coll, hst⟩, hv⟩, rfl, rfl⟩

/-- A batch of overheard telegrams: nothing is transmitted, the station stays idle with an unchanged ring
view; the stamp is the poll time if the batch is not empty. -/
theorem fold_foreign (M : List Nat) (me : Nat) (now : Int) : ∀ (calls : List (Telegram × Bool)) (c : Ctx) (l0 : Int),
    (∀ x ∈ calls, Foreign M me x.1) → c.s.p.address = me → (∃ np coll, c.s.st = .activeIdle none np coll) →
    RingView M me c.s.ring → c.s.lastBusActivity = some l0 → l0 ≤ now →
    ∃ c', foldTelegrams (idleF now) c calls = .ok c' ∧ Heard M me c c' ∧
      (calls ≠ [] → c'.s.lastBusActivity = some now ∧ c'.s.pendingBytes = 0) ∧ (calls = [] → c' = c) := by
  intro calls
  induction calls with
  | nil =>
    intro c l0 _ _ hst hv _ _
    exact ⟨c, rfl, ⟨rfl, rfl, rfl, rfl, rfl, rfl, hst, hv⟩, fun h => absurd rfl h, fun _ => rfl⟩
  | cons x rest ih =>
    intro c l0 hf hme hst hv hl hle
    obtain ⟨t, l⟩ := x
    obtain ⟨c1, h1, hh1, hl1, hp1⟩ := idleF_foreign M me now l0 c t l (hf _ (List.mem_cons_self ..)) hme hst hv hl hle
    obtain ⟨c2, h2, hh2, hne2, -⟩ := ih c1 now (fun y hy => hf y (List.mem_cons_of_mem _ hy)) (by rw [hh1.p]; exact hme)
      hh1.st hh1.view hl1 (Int.le_refl _)
    refine ⟨c2, ?_, ⟨hh2.tx.trans hh1.tx, hh2.rx.trans hh1.rx, hh2.apps.trans hh1.apps, hh2.calls.trans hh1.calls,
      hh2.p.trans hh1.p, hh2.online.trans hh1.online, hh2.st, hh2.view⟩, fun _ => ?_, fun h => by cases h⟩
    · simp only [foldTelegrams, h1, Res.bind]; exact h2
    · cases rest with
      | nil =>
        simp only [foldTelegrams] at h2
        cases h2
        exact ⟨hl1, hp1⟩
      | cons y ys => exact hne2 (by simp)

/-- A batch of overheard telegrams followed, as its last telegram, by the token from the predecessor
addressed to this station: the token is accepted. -/
theorem fold_accept (M : List Nat) (me : Nat) (now : Int) (pre : List (Telegram × Bool)) (c : Ctx) (l0 : Int)
    (hf : ∀ x ∈ pre, Foreign M me x.1) (hme : c.s.p.address = me) (hst : ∃ np coll, c.s.st = .activeIdle none np coll)
    (hv : RingView M me c.s.ring) (hl : c.s.lastBusActivity = some l0) (hle : l0 ≤ now)
    (hne : cycPred me M ≠ me) (hlt : me < 126) (hlp : cycPred me M < 126) :
    ∃ c', foldTelegrams (idleF now) c
        (pre ++ [(Telegram.token (UInt8.ofNat me) (UInt8.ofNat (cycPred me M)), true)]) = .ok c' ∧
      c'.tx = c.tx ∧ c'.rx = c.rx ∧ c'.apps = c.apps ∧ c'.calls = c.calls ∧ c'.s.p = c.s.p ∧ c'.s.online = c.s.online ∧
      c'.s.st = .useToken ⟨now, none⟩ false ∧ RingView M me c'.s.ring ∧ c'.s.lastBusActivity = some now ∧
      c'.s.pendingBytes = 0 := by
  obtain ⟨c1, h1, hh1, hne1, heq1⟩ := fold_foreign M me now pre c l0 hf hme hst hv hl hle
  rw [foldTelegrams_append, h1]
  simp only [Res.bind, foldTelegrams]
  have hl1 : ∃ l1, c1.s.lastBusActivity = some l1 ∧ l1 ≤ now := by
    cases pre with
    | nil => rw [heq1 rfl]; exact ⟨l0, hl, hle⟩
    | cons y ys => exact ⟨now, (hne1 (by simp)).1, Int.le_refl _⟩
  obtain ⟨l1, hl1, hle1⟩ := hl1
  obtain ⟨np, coll, hst1⟩ := hh1.st
  have hme1 : c1.s.p.address = me := by rw [hh1.p]; exact hme
  unfold idleF
  simp only [upd]
  rw [markRx_at _ _ _ hl1 hle1]
  have hps := hh1.view.ns.2
  have e := handleTelegram_accepts
    { c1 with s := { c1.s with pendingBytes := 0, lastBusActivity := some now } } now np coll
    (UInt8.ofNat me) (UInt8.ofNat (cycPred me M)) hst1
    (by rw [u8n me (by omega)]; exact hme1.symm)
    (by rw [u8n _ (by omega)]; simp only; rw [hme1]; exact hne)
    (.inl (by rw [u8n _ (by omega)]; exact hps.symm))
  rw [e]
  simp only [Res.bind]
  have hacc : acceptRing c1.s.ring (UInt8.ofNat (cycPred me M)).toNat (UInt8.ofNat me).toNat = c1.s.ring := by
    unfold acceptRing
    rw [if_pos (by rw [u8n _ (by omega)]; exact hps.symm)]
  refine ⟨_, rfl, hh1.tx, hh1.rx, hh1.apps, hh1.calls, hh1.p, hh1.online, rfl, ?_, rfl, rfl⟩
  simp only
  rw [hacc]
  exact hh1.view

/-- **One poll of an idle station with any batch**: the telegrams of the batch are handed to
`handle_telegram` one after the other (token-lost time-out not run out). -/
theorem idle_poll_batch (s : Station) (now : Int) (rx rx' : Bytes) (calls : List (Telegram × Bool)) (ret : Bool)
    (np : Option Nat) (coll : Nat) (l : Int)
    (hon : s.online = true) (hst : s.st = .activeIdle none np coll) (hl : s.lastBusActivity = some l) (hlt : l < now)
    (hne : s.pendingBytes < rx.length ∨ now < l + (s.p.tokenLostTimeout : Nat)) (hto : 0 < s.p.tokenLostTimeout)
    (hrx : receiveAll rx = .done rx' calls ret) :
    s.poll [] now false rx =
      foldTelegrams (idleF now) { s := checkBusActivity s now rx.length, apps := [], rx := rx' } calls := by
  have hlate : ∀ l', s.lastBusActivity = some l' → l' < now := by
    intro l' hl'; rw [hl] at hl'; cases hl'; exact hlt
  obtain ⟨hf1, hf2, -⟩ := checkBA_fields s now rx.length
  obtain ⟨l1, hl1, hle1, hcase⟩ := checkBA_stamp s now rx.length hlate (.inr ⟨l, hl⟩)
  rw [poll_dispatch s [] now rx hon (by rw [hst]; simp) (by rw [hst]; simp) hlate]
  unfold dispatch
  simp only [hf1, hst]
  have hq : ¬ (now - l1).natAbs ≥ (checkBusActivity s now rx.length).p.tokenLostTimeout := by
    rw [hf2]
    rcases hcase with ⟨_, rfl⟩ | ⟨hn, hl'⟩
    · simp; omega
    · rcases hne with h' | h'
      · exact absurd h' hn
      · rw [hl] at hl'; cases hl'; omega
  unfold doActiveIdle
  simp only [hf1, hst]
  rw [handleLost_quiet { s := checkBusActivity s now rx.length, apps := [], rx := rx } now l1 hl1 hq]
  simp only [hf1, hst]
  simp only [hrx]
  rfl

/-- **One poll of a supervising station that hears at least one complete telegram** (slot not expired):
supervision ends; the batch is handled as by an idle station. -/
theorem check_poll_batch (s : Station) (now : Int) (rx rx' : Bytes) (x : Telegram × Bool) (rest : List (Telegram × Bool))
    (ret : Bool) (att : Attempt) (l : Int)
    (hon : s.online = true) (hst : s.st = .checkTokenPass att) (hl : s.lastBusActivity = some l) (hlt : l < now)
    (hne : s.pendingBytes < rx.length ∨ now ≤ l + (s.p.slotTime : Nat))
    (hrx : receiveAll rx = .done rx' (x :: rest) ret) :
    s.poll [] now false rx =
      foldTelegrams (idleF now)
        { s := { (checkBusActivity s now rx.length) with st := .activeIdle none none 0 }, apps := [], rx := rx' }
        (x :: rest) := by
  have hlate : ∀ l', s.lastBusActivity = some l' → l' < now := by
    intro l' hl'; rw [hl] at hl'; cases hl'; exact hlt
  obtain ⟨hf1, hf2, -⟩ := checkBA_fields s now rx.length
  obtain ⟨l1, hl1, hle1, hcase⟩ := checkBA_stamp s now rx.length hlate (.inr ⟨l, hl⟩)
  rw [poll_dispatch s [] now rx hon (by rw [hst]; simp) (by rw [hst]; simp) hlate]
  unfold dispatch
  simp only [hf1, hst]
  have hq : ¬ now > l1 + ((checkBusActivity s now rx.length).p.slotTime : Nat) := by
    rw [hf2]
    rcases hcase with ⟨_, rfl⟩ | ⟨hn, hl'⟩
    · omega
    · rcases hne with h' | h'
      · exact absurd h' hn
      · rw [hl] at hl'; cases hl'; omega
  obtain ⟨t, fl⟩ := x
  unfold doCheckTokenPass
  simp only [hf1, hst]
  rw [checkSlot_some _ _ _ hl1]
  simp only [decide_eq_true_eq]
  rw [if_neg hq]
  simp only [hrx, tr, toActiveIdle, Res.bind, foldTelegrams, idleF, upd]
  simp only [markRx_st, hf1, hst]
  rfl

end PV
