/-
The fuel of the PEG interpreter suffices: a generic termination argument for `eval`/`loop`/`skip`
(for an arbitrary grammar) plus a decidable check of the generated grammar.

* `eval` never lengthens the remaining input, and an expression that is statically non-nullable
  (`nnE`) strictly shortens it (`lenAt`);
* if the rule call graph is well-founded to depth `n` (`depthN n` is defined), every repetition body is
  statically non-nullable (what pest's own validator demands: no `e*` with nullable `e`, no left
  recursion), then `eval fuel a e st` does not answer `fuel` whenever
  `fuel ≥ depth e + length of the remaining input` (`noFuelAt`): every level of recursion either
  descends in the expression / rule nesting (bounded by the static `depth`) or is a loop iteration,
  and every iteration consumes at least one character.
Nothing here unfolds the generated grammar; `Props/C19.lean` evaluates the check by `decide +kernel`.
-/
import ProfiVerif.Model.Gsd.Peg

namespace PV.Gsd.Peg

/-! ### Static non-nullability -/

/-- `true`: a successful match of the expression consumes at least one character (conservative). -/
def nnE (nnT : Rule → Bool) : Expr → Bool
  | .str l => !l.isEmpty
  | .insens l => !l.isEmpty
  | .range _ _ => true
  | .any => true
  | .soi => false
  | .newline => true
  | .call r => nnT r
  | .seq x y => nnE nnT x || nnE nnT y
  | .choice x y => nnE nnT x && nnE nnT y
  | .opt _ => false
  | .star _ => false
  | .plus x => nnE nnT x
  | .npred _ => false
  | .ppred _ => false

/-- Rules, to call nesting depth `n`. -/
def nnN : Nat → Rule → Bool
  | 0, _ => false
  | n + 1, r => nnE (nnN n) (ruleDef r).2

theorem matchStr_len : ∀ {l rest rest' : Str}, matchStr l rest = some rest' → rest'.length + l.length = rest.length
  | [], _, _, h => by simp [matchStr] at h; simp [h]
  | _ :: _, [], _, h => by simp [matchStr] at h
  | a :: as, b :: bs, rest', h => by
    simp only [matchStr] at h
    split at h
    · have := matchStr_len h; simp only [List.length_cons]; omega
    · cases h

theorem matchInsens_len : ∀ {l rest rest' : Str}, matchInsens l rest = some rest' → rest'.length + l.length = rest.length
  | [], _, _, h => by simp [matchInsens] at h; simp [h]
  | _ :: _, [], _, h => by simp [matchInsens] at h
  | a :: as, b :: bs, rest', h => by
    simp only [matchInsens] at h
    split at h
    · have := matchInsens_len h; simp only [List.length_cons]; omega
    · cases h

/-- What `eval`/`loop`/`skip` guarantee about the remaining input, for one fuel value. -/
structure LenAt (fuel : Nat) : Prop where
  eval : ∀ a e st st', eval fuel a e st = .ok st' →
    st'.rest.length ≤ st.rest.length ∧ ∀ n, nnE (nnN n) e = true → st'.rest.length < st.rest.length
  loop : ∀ a e st st', loop fuel a e st = .ok st' → st'.rest.length ≤ st.rest.length
  skip : ∀ a st st', skip fuel a st = .ok st' → st'.rest.length ≤ st.rest.length

theorem lenAt_zero : LenAt 0 where
  eval := by intro a e st st' h; simp [Peg.eval] at h
  loop := by intro a e st st' h; simp [Peg.loop] at h
  skip := by intro a st st' h; simp [Peg.skip] at h

theorem lenAt_succ (k : Nat) (ih : LenAt k) : LenAt (k + 1) where
  eval := by
    intro a e st st' h
    cases e with
    | str l =>
      simp only [Peg.eval] at h
      split at h
      · next rest' hm =>
        cases h
        have := matchStr_len hm
        refine ⟨by simp only; omega, ?_⟩
        intro n hn
        simp only [nnE, Bool.not_eq_true', List.isEmpty_eq_false_iff] at hn
        have : l.length ≠ 0 := by simpa using hn
        simp only; omega
      · cases h
    | insens l =>
      simp only [Peg.eval] at h
      split at h
      · next rest' hm =>
        cases h
        have := matchInsens_len hm
        refine ⟨by simp only; omega, ?_⟩
        intro n hn
        simp only [nnE, Bool.not_eq_true', List.isEmpty_eq_false_iff] at hn
        have : l.length ≠ 0 := by simpa using hn
        simp only; omega
      · cases h
    | range lo hi =>
      simp only [Peg.eval] at h
      split at h
      · next ch rest' hr =>
        split at h
        · cases h; rw [hr]; simp
        · cases h
      · cases h
    | any =>
      simp only [Peg.eval] at h
      split at h
      · next ch rest' hr => cases h; rw [hr]; simp
      · cases h
    | soi =>
      simp only [Peg.eval] at h
      split at h
      · cases h; exact ⟨Nat.le_refl _, by intro n hn; simp [nnE] at hn⟩
      · cases h
    | newline =>
      simp only [Peg.eval] at h
      split at h
      · next rest' hr => cases h; rw [hr]; simp
      · next rest' hr => cases h; rw [hr]; simp only [List.length_cons]; exact ⟨by omega, fun _ _ => by omega⟩
      · next rest' _ hr => cases h; rw [hr]; simp
      · cases h
    | call r =>
      simp only [Peg.eval] at h
      have node :
          (match Peg.eval k (a || (ruleDef r).fst == RuleTy.atomic) (ruleDef r).snd
              { rest := st.rest, pos := st.pos, out := [] } with
            | R.ok st' =>
              if a = true then R.ok { rest := st'.rest, pos := st'.pos, out := st.out }
              else R.ok { rest := st'.rest, pos := st'.pos,
                          out := Pair.node r (List.take (st'.pos - st.pos) st.rest) st'.out.reverse :: st.out }
            | R.fail => R.fail
            | R.fuel => R.fuel) = R.ok st' →
          st'.rest.length ≤ st.rest.length ∧
            ∀ n, nnE (nnN n) (.call r) = true → st'.rest.length < st.rest.length := by
        intro h
        split at h
        · next st1 h1 =>
          obtain ⟨hle, hlt⟩ := ih.eval _ _ _ _ h1
          have hst' : st'.rest = st1.rest := by split at h <;> (cases h; rfl)
          rw [hst']
          refine ⟨hle, ?_⟩
          intro n hn
          cases n with
          | zero => simp [nnE, nnN] at hn
          | succ m => exact hlt m (by simpa [nnE, nnN] using hn)
        · cases h
        · cases h
      split at h
      · obtain ⟨hle, hlt⟩ := ih.eval _ _ _ _ h
        refine ⟨hle, ?_⟩
        intro n hn
        cases n with
        | zero => simp [nnE, nnN] at hn
        | succ m => exact hlt m (by simpa [nnE, nnN] using hn)
      · exact node h
      · exact node h
    | seq x y =>
      simp only [Peg.eval] at h
      split at h
      · next st1 h1 =>
        split at h
        · next st2 h2 =>
          obtain ⟨l1, s1⟩ := ih.eval _ _ _ _ h1
          have l2 := ih.skip _ _ _ h2
          obtain ⟨l3, s3⟩ := ih.eval _ _ _ _ h
          refine ⟨by omega, ?_⟩
          intro n hn
          simp only [nnE, Bool.or_eq_true] at hn
          rcases hn with hn | hn
          · have := s1 n hn; omega
          · have := s3 n hn; omega
        · next hr => exact (hr _ h).elim
      · next hr => exact (hr _ h).elim
    | choice x y =>
      simp only [Peg.eval] at h
      split at h
      · obtain ⟨l1, s1⟩ := ih.eval _ _ _ _ h
        refine ⟨l1, ?_⟩
        intro n hn
        simp only [nnE, Bool.and_eq_true] at hn
        exact s1 n hn.2
      · obtain ⟨l1, s1⟩ := ih.eval _ _ _ _ h
        refine ⟨l1, ?_⟩
        intro n hn
        simp only [nnE, Bool.and_eq_true] at hn
        exact s1 n hn.1
    | opt x =>
      simp only [Peg.eval] at h
      split at h
      · cases h; exact ⟨Nat.le_refl _, by intro n hn; simp [nnE] at hn⟩
      · exact ⟨(ih.eval _ _ _ _ h).1, by intro n hn; simp [nnE] at hn⟩
    | star x =>
      simp only [Peg.eval] at h
      refine ⟨?_, by intro n hn; simp [nnE] at hn⟩
      split at h
      · next st1 h1 =>
        have l1 := (ih.eval _ _ _ _ h1).1
        have l2 := ih.loop _ _ _ _ h
        omega
      · cases h; exact Nat.le_refl _
      · cases h
    | plus x =>
      simp only [Peg.eval] at h
      split at h
      · next st1 h1 =>
        obtain ⟨l1, s1⟩ := ih.eval _ _ _ _ h1
        split at h
        · next st2 h2 =>
          have l2 := ih.skip _ _ _ h2
          have key : st'.rest.length ≤ st2.rest.length := by
            split at h
            · next st3 h3 =>
              have l3 := (ih.eval _ _ _ _ h3).1
              have l4 := ih.loop _ _ _ _ h
              omega
            · cases h; exact Nat.le_refl _
            · cases h
          refine ⟨by omega, ?_⟩
          intro n hn
          have := s1 n (by simpa [nnE] using hn)
          omega
        · next hr => exact (hr _ h).elim
      · next hr => exact (hr _ h).elim
    | npred x =>
      simp only [Peg.eval] at h
      split at h
      · cases h
      · cases h; exact ⟨Nat.le_refl _, by intro n hn; simp [nnE] at hn⟩
      · cases h
    | ppred x =>
      simp only [Peg.eval] at h
      split at h
      · cases h; exact ⟨Nat.le_refl _, by intro n hn; simp [nnE] at hn⟩
      · next hr => exact (hr _ h).elim
  loop := by
    intro a e st st' h
    simp only [Peg.loop] at h
    split at h
    · next st1 h1 =>
      have l1 := ih.skip _ _ _ h1
      split at h
      · next st2 h2 =>
        have l2 := (ih.eval _ _ _ _ h2).1
        have l3 := ih.loop _ _ _ _ h
        omega
      · cases h; exact Nat.le_refl _
      · cases h
    · cases h; exact Nat.le_refl _
    · cases h
  skip := by
    intro a st st' h
    simp only [Peg.skip] at h
    split at h
    · cases h; exact Nat.le_refl _
    · exact (ih.eval _ _ _ _ h).1

theorem lenAt (fuel : Nat) : LenAt fuel := by
  induction fuel with
  | zero => exact lenAt_zero
  | succ n ih => exact lenAt_succ n ih

/-! ### Static recursion depth -/

/-- Cost of one implicit `skip`: immediate in an atomic context, `dsk` otherwise. -/
def skipCost (dsk : Nat) (a : Bool) : Nat := if a then 1 else dsk

/-- The mode in which the body of a called rule runs. -/
def bodyMode (a : Bool) (ty : RuleTy) : Bool :=
  match ty with
  | .silent => a
  | ty => a || ty == .atomic

/-- Recursion depth `eval` needs for `e` beyond one level per consumed character; `none` if a
repetition body may match the empty string or a called rule has no depth (`dT`). -/
def depthE (nnT : Rule → Bool) (dT : Bool → Rule → Option Nat) (dsk : Nat) (a : Bool) : Expr → Option Nat
  | .str _ => some 1
  | .insens _ => some 1
  | .range _ _ => some 1
  | .any => some 1
  | .soi => some 1
  | .newline => some 1
  | .call r =>
    match dT (bodyMode a (ruleDef r).1) r with
    | some d => some (d + 1)
    | none => none
  | .seq x y =>
    match depthE nnT dT dsk a x, depthE nnT dT dsk a y with
    | some dx, some dy => some (1 + max dx (max (skipCost dsk a) dy))
    | _, _ => none
  | .choice x y =>
    match depthE nnT dT dsk a x, depthE nnT dT dsk a y with
    | some dx, some dy => some (1 + max dx dy)
    | _, _ => none
  | .opt x =>
    match depthE nnT dT dsk a x with
    | some dx => some (1 + dx)
    | none => none
  | .star x =>
    if nnE nnT x then
      match depthE nnT dT dsk a x with
      | some dx => some (1 + max dx (skipCost dsk a))
      | none => none
    else none
  | .plus x =>
    if nnE nnT x then
      match depthE nnT dT dsk a x with
      | some dx => some (1 + max dx (skipCost dsk a))
      | none => none
    else none
  | .npred x =>
    match depthE nnT dT dsk a x with
    | some dx => some (1 + dx)
    | none => none
  | .ppred x =>
    match depthE nnT dT dsk a x with
    | some dx => some (1 + dx)
    | none => none

/-- Depth of the body of a rule, to call nesting depth `n` (`none`: deeper or recursive). -/
def depthN (dsk : Nat) : Nat → Bool → Rule → Option Nat
  | 0, _, _ => none
  | n + 1, a, r => depthE (nnN n) (depthN dsk n) dsk a (ruleDef r).2

/-- `dsk` bounds the depth of one `skip`. -/
def SkipBound (dsk : Nat) : Prop :=
  ∃ n d0, depthE (nnN n) (depthN dsk n) dsk true skipExpr = some d0 ∧ d0 + 1 ≤ dsk

structure NoFuelAt (dsk fuel : Nat) : Prop where
  eval : ∀ a e st n d, depthE (nnN n) (depthN dsk n) dsk a e = some d → d + st.rest.length ≤ fuel →
    eval fuel a e st ≠ .fuel
  loop : ∀ a e st n d, depthE (nnN n) (depthN dsk n) dsk a e = some d → nnE (nnN n) e = true →
    max d (skipCost dsk a) + 1 + st.rest.length ≤ fuel → loop fuel a e st ≠ .fuel
  skip : ∀ a st, skipCost dsk a + st.rest.length ≤ fuel → skip fuel a st ≠ .fuel

theorem depthE_pos {nnT : Rule → Bool} {dT : Bool → Rule → Option Nat} {dsk : Nat} {a : Bool} :
    ∀ {e : Expr} {d : Nat}, depthE nnT dT dsk a e = some d → 1 ≤ d := by
  intro e d h
  cases e <;> simp only [depthE] at h <;> (repeat' split at h) <;> first | (cases h; omega) | cases h

theorem noFuelAt_zero (dsk : Nat) (hdsk : 1 ≤ dsk) : NoFuelAt dsk 0 where
  eval := by intro a e st n d hd hf; have := depthE_pos hd; omega
  loop := by intro a e st n d _ _ hf; omega
  skip := by
    intro a st hf
    unfold skipCost at hf
    split at hf <;> omega

theorem noFuelAt_succ (dsk : Nat) (hsk : SkipBound dsk) (k : Nat) (ih : NoFuelAt dsk k) : NoFuelAt dsk (k + 1) where
  eval := by
    intro a e st n d hd hf
    cases e with
    | str l => simp only [Peg.eval]; split <;> simp
    | insens l => simp only [Peg.eval]; split <;> simp
    | range lo hi => simp only [Peg.eval]; split <;> (try split) <;> simp
    | any => simp only [Peg.eval]; split <;> simp
    | soi => simp only [Peg.eval]; split <;> simp
    | newline => simp only [Peg.eval]; split <;> simp
    | call r =>
      simp only [depthE] at hd
      split at hd
      · next db hdb =>
        cases hd
        cases n with
        | zero => simp [depthN] at hdb
        | succ m =>
          simp only [depthN] at hdb
          simp only [Peg.eval]
          split
          · next hs =>
            rw [hs] at hdb
            exact ih.eval _ _ _ m db hdb (by omega)
          · next hs =>
            rw [hs] at hdb
            have := ih.eval (bodyMode a .normal) (ruleDef r).2 { rest := st.rest, pos := st.pos, out := [] } m db hdb
              (by simp only; omega)
            simp only [bodyMode, hs] at this ⊢
            split
            · split <;> simp
            · simp
            · next hev => exact (this hev).elim
          · next hs =>
            rw [hs] at hdb
            have := ih.eval (bodyMode a .atomic) (ruleDef r).2 { rest := st.rest, pos := st.pos, out := [] } m db hdb
              (by simp only; omega)
            simp only [bodyMode, hs] at this ⊢
            split
            · split <;> simp
            · simp
            · next hev => exact (this hev).elim
      · cases hd
    | seq x y =>
      simp only [depthE] at hd
      split at hd
      · next dx dy hx hy =>
        cases hd
        simp only [Peg.eval]
        split
        · next st1 h1 =>
          have l1 := ((lenAt k).eval _ _ _ _ h1).1
          split
          · next st2 h2 =>
            have l2 := (lenAt k).skip _ _ _ h2
            exact ih.eval _ _ _ n dy hy (by omega)
          · exact ih.skip _ _ (by omega)
        · exact ih.eval _ _ _ n dx hx (by omega)
      · cases hd
    | choice x y =>
      simp only [depthE] at hd
      split at hd
      · next dx dy hx hy =>
        cases hd
        simp only [Peg.eval]
        split
        · exact ih.eval _ _ _ n dy hy (by omega)
        · exact ih.eval _ _ _ n dx hx (by omega)
      · cases hd
    | opt x =>
      simp only [depthE] at hd
      split at hd
      · next dx hx =>
        cases hd
        simp only [Peg.eval]
        split
        · simp
        · exact ih.eval _ _ _ n dx hx (by omega)
      · cases hd
    | star x =>
      simp only [depthE] at hd
      split at hd
      · next hnn =>
        split at hd
        · next dx hx =>
          cases hd
          simp only [Peg.eval]
          split
          · next st1 h1 =>
            have l1 := ((lenAt k).eval _ _ _ _ h1).2 n hnn
            exact ih.loop _ _ _ n dx hx hnn (by omega)
          · simp
          · next hev => exact (ih.eval _ _ _ n dx hx (by omega) hev).elim
        · cases hd
      · cases hd
    | plus x =>
      simp only [depthE] at hd
      split at hd
      · next hnn =>
        split at hd
        · next dx hx =>
          cases hd
          simp only [Peg.eval]
          split
          · next st1 h1 =>
            have l1 := ((lenAt k).eval _ _ _ _ h1).2 n hnn
            split
            · next st2 h2 =>
              have l2 := (lenAt k).skip _ _ _ h2
              split
              · next st3 h3 =>
                have l3 := ((lenAt k).eval _ _ _ _ h3).1
                exact ih.loop _ _ _ n dx hx hnn (by omega)
              · simp
              · next hev => exact (ih.eval _ _ _ n dx hx (by omega) hev).elim
            · exact ih.skip _ _ (by omega)
          · exact ih.eval _ _ _ n dx hx (by omega)
        · cases hd
      · cases hd
    | npred x =>
      simp only [depthE] at hd
      split at hd
      · next dx hx =>
        cases hd
        simp only [Peg.eval]
        split
        · simp
        · simp
        · next hev => exact (ih.eval _ _ _ n dx hx (by omega) hev).elim
      · cases hd
    | ppred x =>
      simp only [depthE] at hd
      split at hd
      · next dx hx =>
        cases hd
        simp only [Peg.eval]
        split
        · simp
        · exact ih.eval _ _ _ n dx hx (by omega)
      · cases hd
  loop := by
    intro a e st n d hd hnn hf
    simp only [Peg.loop]
    split
    · next st1 h1 =>
      have l1 := (lenAt k).skip _ _ _ h1
      split
      · next st2 h2 =>
        have l2 := ((lenAt k).eval _ _ _ _ h2).2 n hnn
        exact ih.loop _ _ _ n d hd hnn (by omega)
      · simp
      · next hev => exact (ih.eval _ _ _ n d hd (by omega) hev).elim
    · simp
    · next hev => exact (ih.skip _ _ (by omega) hev).elim
  skip := by
    intro a st hf
    simp only [Peg.skip]
    split
    · simp
    · next ha =>
      obtain ⟨n, d0, hd0, hle⟩ := hsk
      have ha : a = false := by simpa using ha
      subst ha
      simp only [skipCost, Bool.false_eq_true, if_false] at hf
      exact ih.eval _ _ _ n d0 hd0 (by omega)

theorem noFuelAt (dsk : Nat) (hsk : SkipBound dsk) (fuel : Nat) : NoFuelAt dsk fuel := by
  induction fuel with
  | zero =>
    obtain ⟨n, d0, _, h⟩ := hsk
    exact noFuelAt_zero dsk (by omega)
  | succ n ih => exact noFuelAt_succ dsk hsk n ih

/-! ### The check for the generated grammar -/

/-- Depth of one `skip` of the generated grammar (0 if it cannot be bounded). -/
def skipDepth : Nat :=
  match depthE (nnN callDepth) (depthN 0 callDepth) 0 true skipExpr with
  | some d0 => d0 + 1
  | none => 0

/-- The static depth of `gsd` (incl. implicit skipping) is defined and at most `bound`. -/
def fuelCheck (bound : Nat) : Bool :=
  (match depthE (nnN callDepth) (depthN skipDepth callDepth) skipDepth true skipExpr with
   | some d0 => decide (d0 + 1 ≤ skipDepth)
   | none => false) &&
  (match depthE (nnN callDepth) (depthN skipDepth callDepth) skipDepth false (.call .gsd) with
   | some d => decide (d ≤ bound)
   | none => false)

/-- **The fuel bound of `parseGsd` suffices** for every text, for any grammar passing `fuelCheck 1000`. -/
theorem eval_gsd_fuel (h : fuelCheck 1000 = true) (text : Str) :
    eval (3 * text.length + 1000) false (.call .gsd) { rest := text, pos := 0, out := [] } ≠ .fuel := by
  unfold fuelCheck at h
  simp only [Bool.and_eq_true] at h
  obtain ⟨h1, h2⟩ := h
  split at h1
  · next d0 hd0 =>
    split at h2
    · next d hd =>
      have hsk : SkipBound skipDepth := ⟨callDepth, d0, hd0, by simpa using h1⟩
      have hd1000 : d ≤ 1000 := by simpa using h2
      exact (noFuelAt skipDepth hsk (3 * text.length + 1000)).eval false (.call .gsd)
        { rest := text, pos := 0, out := [] } callDepth d hd (by simp only; omega)
    · cases h2
  · cases h1

theorem parseGsd_fuel (h : fuelCheck 1000 = true) (text : Str) : parseGsd text ≠ none := by
  have := eval_gsd_fuel h text
  unfold parseGsd
  simp only [c]
  split
  · split <;> simp
  · simp
  · next hev => exact (this hev).elim

end PV.Gsd.Peg
