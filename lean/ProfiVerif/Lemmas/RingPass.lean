/-
One token pass against a ring view whose LAS is a known set: which passes leave the LAS alone, which
enter a new member; cyclic-interval facts connecting `cycSucc`/`cycPred` with the GAP (`Between`).
Used by the abstract-ring proofs (C02).
-/
import ProfiVerif.Lemmas.Neighbours

namespace PV
namespace TokenRing

/-- A ring as a list: non-empty, strictly ascending, valid addresses (same as `C02.Ring`). -/
structure IsRing (S : List Nat) : Prop where
  ne : S ≠ []
  asc : Asc S
  bound : ∀ z ∈ S, z ≤ 125

/-- `x` lies strictly inside the cyclic interval that starts behind `h` and ends before `n`
(every address but `h` when `n = h`): the GAP of a station `h` with successor `n`, without the HSA bound. -/
def Between (h n x : Nat) : Prop :=
  x ≠ h ∧ (if h < n then h < x ∧ x < n else if n < h then h < x ∨ x < n else True)

instance (h n x : Nat) : Decidable (Between h n x) := by unfold Between; infer_instance

/-- No member lies strictly between a member and its cyclic successor. -/
theorem no_member_between (h n : Nat) (M : List Nat) (hs : IsCycSucc h M n) (hh : h ∈ M) :
    ∀ b ∈ M, ¬ Between h n b := by
  intro b hb hbt
  unfold Between at hbt
  obtain ⟨hne, hc⟩ := hbt
  by_cases h1 : ∃ a ∈ M, h < a
  · have a := hs.above h1
    have hlt : h < n := a.2.1
    rw [if_pos hlt] at hc
    have := a.2.2 b hb hc.1
    omega
  · have hall : ∀ a ∈ M, a ≤ h := fun a ha => by
      have : ¬ h < a := fun hlt => h1 ⟨a, ha, hlt⟩
      omega
    have w := hs.wrap hall ⟨h, hh⟩
    have hnb := w.2 b hb
    have hbh := hall b hb
    have hnh := hall n w.1
    have : ¬ h < n := by omega
    rw [if_neg this] at hc
    by_cases h2 : n < h
    · rw [if_pos h2] at hc; omega
    · omega

theorem cycSucc_mem (h : Nat) (M : List Nat) (hh : h ∈ M) : cycSucc h M ∈ M := by
  have hs := cycSucc_spec h M
  by_cases h1 : ∃ a ∈ M, h < a
  · exact (hs.above h1).1
  · have hall : ∀ a ∈ M, a ≤ h := fun a ha => by
      have : ¬ h < a := fun hlt => h1 ⟨a, ha, hlt⟩
      omega
    exact (hs.wrap hall ⟨h, hh⟩).1

theorem between_arith (h n x : Nat) :
    Between h n x ↔ x ≠ h ∧ ((h < n ∧ h < x ∧ x < n) ∨ (n < h ∧ (h < x ∨ x < n)) ∨ n = h) := by
  unfold Between
  by_cases c1 : h < n
  · rw [if_pos c1]; constructor <;> intro hh <;> omega
  · rw [if_neg c1]
    by_cases c2 : n < h
    · rw [if_pos c2]; constructor <;> intro hh <;> omega
    · rw [if_neg c2]; constructor <;> intro hh
      · exact ⟨hh.1, by omega⟩
      · exact ⟨hh.1, trivial⟩

/-- An address strictly between `h` and its successor has `h` as its cyclic predecessor … -/
theorem cycPred_of_between (h a : Nat) (M : List Nat) (hh : h ∈ M) (hb : Between h (cycSucc h M) a) :
    cycPred a M = h := by
  symm
  rw [← isCycPred_iff]
  have nm := no_member_between h _ M (cycSucc_spec h M) hh
  generalize cycSucc h M = n at hb nm
  rw [between_arith] at hb
  have key : ∀ b ∈ M, ¬ (b ≠ h ∧ ((h < n ∧ h < b ∧ b < n) ∨ (n < h ∧ (h < b ∨ b < n)) ∨ n = h)) :=
    fun b hbm hc => nm b hbm ((between_arith h n b).mpr hc)
  refine ⟨fun hex => ?_, fun hall _ => ⟨hh, fun c hcm => ?_⟩, fun hno => absurd hh (hno h)⟩
  · obtain ⟨b, hbm, hlt⟩ := hex
    have kb := key b hbm
    refine ⟨hh, by omega, fun c hcm hca => ?_⟩
    have kc := key c hcm
    omega
  · have kc := key c hcm
    have := hall h hh
    omega

/-- … and the successor of `h` as its cyclic successor. -/
theorem cycSucc_of_between (h a : Nat) (M : List Nat) (hh : h ∈ M) (hb : Between h (cycSucc h M) a) :
    cycSucc a M = cycSucc h M := by
  symm
  rw [← isCycSucc_iff]
  have nm := no_member_between h _ M (cycSucc_spec h M) hh
  have hn := cycSucc_mem h M hh
  generalize cycSucc h M = n at hb nm hn
  rw [between_arith] at hb
  have key : ∀ b ∈ M, ¬ (b ≠ h ∧ ((h < n ∧ h < b ∧ b < n) ∨ (n < h ∧ (h < b ∨ b < n)) ∨ n = h)) :=
    fun b hbm hc => nm b hbm ((between_arith h n b).mpr hc)
  refine ⟨fun hex => ?_, fun hall _ => ⟨hn, fun c hcm => ?_⟩, fun hno => absurd hh (hno h)⟩
  · obtain ⟨b, hbm, hlt⟩ := hex
    have kb := key b hbm
    refine ⟨hn, by omega, fun c hcm hca => ?_⟩
    have kc := key c hcm
    omega
  · have kc := key c hcm
    have h1 := hall h hh
    have h2 := hall n hn
    omega

/-- In a ring, the predecessor of the successor is the station itself. -/
theorem cycPred_cycSucc (h : Nat) (M : List Nat) (hasc : Asc M) (hh : h ∈ M) : cycPred (cycSucc h M) M = h := by
  obtain ⟨i, hi, rfl⟩ := List.mem_iff_getElem.mp hh
  have hmod : (i + 1) % M.length < M.length := Nat.mod_lt _ (by omega)
  rw [cycSucc_index M hasc i hi, cycPred_index M hasc _ hmod]
  congr 1
  by_cases hl : i + 1 < M.length
  · rw [Nat.mod_eq_of_lt hl]
    have : i + 1 + M.length - 1 = i + M.length := by omega
    rw [this, Nat.add_mod_right]; exact Nat.mod_eq_of_lt hi
  · have e : i + 1 = M.length := by omega
    rw [e, Nat.mod_self, Nat.zero_add]
    exact Nat.mod_eq_of_lt (by omega) |>.trans (by omega)

/-! ### Effect of one pass on a LAS that equals a known set -/

/-- A pass `SA → DA` whose swept range `[SA, DA)` contains no member other than SA enters SA and
changes nothing else. -/
theorem updateLas_lasIs (r : TokenRing) (M M' : List Nat) (sa da : Nat) (hl : LasIs r M)
    (hfree : ∀ b ∈ M, inPassGap sa da b = true → b = sa) (hM' : ∀ x, x ∈ M' ↔ x = sa ∨ x ∈ M) :
    LasIs (r.updateLas sa da) M' := by
  intro a ha
  rw [updateLas_active r sa da a ha, hl a ha]
  unfold passBit
  by_cases h1 : a = sa
  · rw [if_pos h1]; symm; simp [hM', h1]
  · rw [if_neg h1]
    by_cases h2 : inPassGap sa da a = true
    · rw [if_pos h2]
      have : a ∉ M := fun hm => h1 (hfree a hm h2)
      symm; simp [hM', h1, this]
    · rw [if_neg h2]
      simp [hM', h1]

theorem inPassGap_arith (sa da b : Nat) :
    inPassGap sa da b = true ↔ ((sa < da ∧ sa ≤ b ∧ b < da) ∨ (da ≤ sa ∧ (sa ≤ b ∨ b < da))) := by
  unfold inPassGap
  by_cases c : da > sa
  · rw [if_pos c]; simp only [decide_eq_true_eq]; omega
  · rw [if_neg c]; simp only [decide_eq_true_eq]; omega

theorem inPassGap_sub1 (h n a b : Nat) (hb : Between h n a) (hg : inPassGap h a b = true) (hne : b ≠ h) :
    Between h n b := by
  rw [between_arith] at hb ⊢
  rw [inPassGap_arith] at hg
  omega

theorem inPassGap_sub2 (h n a b : Nat) (hb : Between h n a) (hg : inPassGap a n b = true) :
    b = a ∨ Between h n b := by
  rw [between_arith] at hb ⊢
  rw [inPassGap_arith] at hg
  omega

/-- The swept range of a pass `h → n` minus `h` is exactly `Between h n`. -/
theorem inPassGap_between (h n b : Nat) (hg : inPassGap h n b = true) (hne : b ≠ h) : Between h n b := by
  unfold Between
  unfold inPassGap at hg
  refine ⟨hne, ?_⟩
  by_cases c0 : n > h
  · rw [if_pos c0] at hg
    have hg' : h ≤ b ∧ b < n := by simpa using hg
    rw [if_pos c0]; omega
  · rw [if_neg c0] at hg
    have hg' : h ≤ b ∨ b < n := by simpa using hg
    rw [if_neg (by omega)]
    by_cases c2 : n < h
    · rw [if_pos c2]; omega
    · rw [if_neg c2]; trivial

theorem between_inPassGap (h n b : Nat) (hb : Between h n b) : inPassGap h n b = true := by
  unfold Between at hb
  unfold inPassGap
  obtain ⟨hne, hc⟩ := hb
  by_cases c0 : n > h
  · rw [if_pos c0]; rw [if_pos c0] at hc; simp; omega
  · rw [if_neg c0]; rw [if_neg (by omega)] at hc
    by_cases c2 : n < h
    · rw [if_pos c2] at hc; simp; omega
    · simp; omega

/-- The holder's pass to its cyclic successor leaves every view with LAS = `M` unchanged. -/
theorem updateLas_succ_stable (r : TokenRing) (M : List Nat) (h : Nat) (hl : LasIs r M) (hh : h ∈ M) :
    LasIs (r.updateLas h (cycSucc h M)) M := by
  apply updateLas_lasIs r M M h _ hl
  · intro b hb hg
    by_cases e : b = h
    · exact e
    · exact absurd (inPassGap_between h _ b hg e) (no_member_between h _ M (cycSucc_spec h M) hh b hb)
  · intro x
    exact ⟨Or.inr, fun hx => hx.elim (fun e => e ▸ hh) id⟩

/-- If `a` is in the LAS and nothing strictly between TS and `a` is, then NS = `a`. -/
theorem nbr_ns_of_gapfree (r : TokenRing) (a : Nat) (hn : Nbr r) (ha : r.isActive a = true) (hne : a ≠ r.ts)
    (hfree : ∀ x, Between r.ts a x → r.isActive x = false) : r.ns = a := by
  rw [hn.1]
  symm
  rw [← isCycSucc_iff]
  have m := mem_activeList r
  have haL := (m a).mpr ha
  have key : ∀ b ∈ r.activeList, ¬ Between r.ts a b := fun b hb hbt => by
    have := (m b).mp hb; rw [hfree b hbt] at this; cases this
  generalize r.activeList = L at haL key
  generalize r.ts = ts at hne key
  refine ⟨fun ⟨b, hb, hlt⟩ => ?_, fun hall _ => ?_, fun hno => absurd haL (hno a)⟩
  · have kb := key b hb
    unfold Between at kb
    by_cases c1 : ts < a
    · refine ⟨haL, c1, fun c hc hlt' => ?_⟩
      have kc := key c hc
      unfold Between at kc
      rw [if_pos c1] at kc
      by_cases hca : a ≤ c
      · exact hca
      · exact absurd ⟨by omega, by omega, by omega⟩ kc
    · rw [if_neg c1] at kb
      have c2 : a < ts := by omega
      rw [if_pos c2] at kb
      exact absurd ⟨by omega, Or.inl hlt⟩ kb
  · have hle := hall a haL
    have c1 : ¬ ts < a := by omega
    have c2 : a < ts := by omega
    refine ⟨haL, fun c hc => ?_⟩
    have kc := key c hc
    unfold Between at kc
    rw [if_neg c1, if_pos c2] at kc
    have := hall c hc
    by_cases hca : a ≤ c
    · exact hca
    · exact absurd ⟨by omega, Or.inr (by omega)⟩ kc

/-- `set_next_station(a)` makes `a` the successor (for every previous LAS content). -/
theorem setNextStation_ns (r r' : TokenRing) (a : Nat) (h : r.setNextStation a = some r') (hne : a ≠ r.ts) :
    r'.ns = a := by
  have hnb := setNextStation_nbr r r' a h
  have hts := setNextStation_ts r r' a h
  unfold setNextStation at h
  split at h
  · cases h
  · rename_i hlt
    have ha : a < 128 := by omega
    injection h with h
    subst h
    have hact : ∀ x, x < 128 → (updateLas { r with active := Vector.ofFn fun i => if i.val = a then true else r.active[i] } r.ts a).isActive x
        = passBit r.ts a x (if x = a then true else r.isActive x) := by
      intro x hx
      rw [updateLas_active _ _ _ _ hx]
      congr 1
      simp [isActive, hx]
    apply nbr_ns_of_gapfree _ a hnb
    · rw [hact a ha]
      unfold passBit
      rw [if_neg hne]
      have : inPassGap r.ts a a = false := by
        unfold inPassGap
        by_cases c : a > r.ts
        · rw [if_pos c]; simp
        · rw [if_neg c]; simp; omega
      simp [this]
    · rw [hts]; exact hne
    · intro x hx
      rw [hts] at hx
      by_cases hx128 : x < 128
      · rw [hact x hx128]
        unfold passBit
        rw [if_neg hx.1, if_pos (between_inPassGap _ _ _ hx)]
      · unfold isActive; rw [dif_neg hx128]


/-! ### The three passes around an admission: `h → a`, `a → n` (with `a` in the GAP of `h`, `n` = old NS of `h`) -/

theorem free_ha (M : List Nat) (h a : Nat) (hh : h ∈ M) (hbt : Between h (cycSucc h M) a) :
    ∀ b ∈ M, inPassGap h a b = true → b = h := by
  intro b hb hg
  by_cases c : b = h
  · exact c
  · exact absurd (inPassGap_sub1 h _ a b hbt hg c) (no_member_between h _ M (cycSucc_spec h M) hh b hb)

theorem free_ha' (M M' : List Nat) (h a : Nat) (hh : h ∈ M) (hbt : Between h (cycSucc h M) a)
    (hM' : ∀ y, y ∈ M' ↔ y = a ∨ y ∈ M) : ∀ b ∈ M', inPassGap h a b = true → b = h := by
  intro b hb hg
  rcases (hM' b).mp hb with rfl | hb
  · rw [inPassGap_arith] at hg; have := hbt.1; omega
  · exact free_ha M h a hh hbt b hb hg

theorem free_an (M : List Nat) (h a : Nat) (hh : h ∈ M) (hbt : Between h (cycSucc h M) a) :
    ∀ b ∈ M, inPassGap a (cycSucc h M) b = true → b = a := by
  intro b hb hg
  rcases inPassGap_sub2 h _ a b hbt hg with e | e
  · exact e
  · exact absurd e (no_member_between h _ M (cycSucc_spec h M) hh b hb)

theorem free_an' (M M' : List Nat) (h a : Nat) (hh : h ∈ M) (hbt : Between h (cycSucc h M) a)
    (hM' : ∀ y, y ∈ M' ↔ y = a ∨ y ∈ M) : ∀ b ∈ M', inPassGap a (cycSucc h M) b = true → b = a := by
  intro b hb hg
  rcases (hM' b).mp hb with rfl | hb
  · rfl
  · exact free_an M h a hh hbt b hb hg

/-- The successor of the admitted station in the enlarged ring is the old successor of `h`. -/
theorem cycSucc_enlarged (M M' : List Nat) (h a : Nat) (hh : h ∈ M) (hbt : Between h (cycSucc h M) a)
    (hM' : ∀ y, y ∈ M' ↔ y = a ∨ y ∈ M) : cycSucc a M' = cycSucc h M := by
  rw [cycSucc_congr a M' (a :: M) (fun y => by rw [hM', List.mem_cons]), cycSucc_cons_self]
  exact cycSucc_of_between h a M hh hbt

/-! ### The ring as a cycle: `nth M j` = the `j mod |M|`-th member -/

def nth (M : List Nat) (j : Nat) : Nat := M.getD (j % M.length) 0

theorem getD_eq (l : List Nat) (i : Nat) (h : i < l.length) : l.getD i 0 = l[i] := by
  simp [List.getD_eq_getElem?_getD, h]

theorem nth_eq (M : List Nat) (hne : M ≠ []) (j : Nat) :
    nth M j = M[j % M.length]'(Nat.mod_lt _ (List.length_pos_iff.mpr hne)) :=
  getD_eq M _ (Nat.mod_lt _ (List.length_pos_iff.mpr hne))

theorem nth_mem (M : List Nat) (hne : M ≠ []) (j : Nat) : nth M j ∈ M := by
  rw [nth_eq M hne]; exact List.getElem_mem _

theorem mem_nth (M : List Nat) (x : Nat) (hx : x ∈ M) : ∃ i, i < M.length ∧ nth M i = x := by
  obtain ⟨i, hi, e⟩ := List.mem_iff_getElem.mp hx
  refine ⟨i, hi, ?_⟩
  unfold nth
  rw [Nat.mod_eq_of_lt hi, getD_eq M i hi]; exact e

/-- The cyclic successor of the `j`-th member is the `j+1`-st member. -/
theorem cycSucc_nth (M : List Nat) (hM : IsRing M) (j : Nat) : cycSucc (nth M j) M = nth M (j + 1) := by
  have hpos : 0 < M.length := List.length_pos_iff.mpr hM.ne
  rw [nth_eq M hM.ne, nth_eq M hM.ne, cycSucc_index M hM.asc _ (Nat.mod_lt _ hpos)]
  congr 1
  exact Nat.mod_add_mod j M.length 1

theorem rotGo_eq_map (first : Nat) (l : List Nat) :
    rotGo first l = (List.range l.length).map
      (fun j => (l.getD j 0, if j + 1 < l.length then l.getD (j + 1) 0 else first)) := by
  induction l with
  | nil => rfl
  | cons x t ih =>
    cases t with
    | nil => rfl
    | cons y t' =>
      have e : (x :: y :: t').length = (y :: t').length + 1 := rfl
      rw [rotGo, ih, e, List.range_succ_eq_map, List.map_cons, List.map_map]
      congr 1
      apply List.map_congr_left
      intro j _
      simp only [Function.comp, Nat.succ_eq_add_one, List.getD_cons_succ]
      congr 1
      by_cases c : j + 1 < (y :: t').length
      · rw [if_pos c, if_pos (by omega)]
      · rw [if_neg c, if_neg (by omega)]

/-- One full rotation of the ring, as the sequence of passes from each member to the next. -/
theorem rotation_eq_map (M : List Nat) (hne : M ≠ []) :
    rotation M = (List.range M.length).map (fun j => (nth M j, nth M (j + 1))) := by
  cases M with
  | nil => exact absurd rfl hne
  | cons s0 t =>
    show rotGo s0 (s0 :: t) = _
    rw [rotGo_eq_map]
    apply List.map_congr_left
    intro j hj
    have hj' : j < (s0 :: t).length := by simpa using hj
    unfold nth
    rw [Nat.mod_eq_of_lt hj']
    congr 1
    by_cases c : j + 1 < (s0 :: t).length
    · rw [if_pos c, Nat.mod_eq_of_lt c]
    · have e : j + 1 = (s0 :: t).length := by omega
      rw [if_neg c, e, Nat.mod_self]; rfl

end TokenRing
end PV
