/-
Helper definitions and lemmas for C18 (live list / DP scanner).  Property theorems: `Props/C18.lean`.

* `App ε`     — the part in which `LiveList` and `DpScanner` differ (their `receive_reply`, the
                "lost" event constructor, which events count as appearance / disappearance),
                with `App.Spec`, the facts about `receive_reply` the proofs need.
* `Op`, `Ghost`, `gstep`, `grun` — histories of callbacks as the FDL station may deliver them (the C15
                contract is built into `gstep`: an operation the contract forbids is `refused`),
                instrumented with ghost observations (last probe, per-address bit changes, taken
                events, how long the population has been stable …).
* invariants  — `Struct`, `Track`, `Ev` with `init` / `step` lemmas, lifted over histories.
-/
import ProfiVerif.Model.Scanner

namespace PV.Apps

/-! ## List helpers -/

theorem getD_set (l : List Bool) (a w : Nat) (v : Bool) :
    (l.set a v).getD w false = if a = w ∧ a < l.length then v else l.getD w false := by
  simp only [List.getD_eq_getElem?_getD, List.getElem?_set]
  by_cases h : a = w
  · subst h
    by_cases h2 : a < l.length
    · simp [h2]
    · simp [h2]
  · simp [h]

theorem set_self (l : List Bool) (a : Nat) (v : Bool) (h : l[a]? = some v) : l.set a v = l := by
  apply List.ext_getElem?
  intro i
  rw [List.getElem?_set]
  by_cases hi : a = i
  · subst hi
    have : a < l.length := by
      rcases Nat.lt_or_ge a l.length with h1 | h1
      · exact h1
      · rw [List.getElem?_eq_none h1] at h; cases h
    rw [h]; simp [this]
  · simp [hi]

theorem getD_of_getElem? (l : List Bool) (a : Nat) (v : Bool) (h : l[a]? = some v) : l.getD a false = v := by
  simp [List.getD_eq_getElem?_getD, h]

theorem lt_of_getElem? {l : List Bool} {a : Nat} {v : Bool} (h : l[a]? = some v) : a < l.length := by
  rcases Nat.lt_or_ge a l.length with h1 | h1
  · exact h1
  · rw [List.getElem?_eq_none h1] at h; cases h

/-- Alternation of a newest-first list of Booleans whose *oldest* element is `true`
(`true` = appeared, `false` = disappeared). -/
def alt : List Bool → Bool
  | [] => true
  | [b] => b
  | b :: c :: r => (b != c) && alt (c :: r)

theorem alt_tail (b : Bool) (l : List Bool) (h : alt (b :: l) = true) : alt l = true := by
  cases l with
  | nil => rfl
  | cons c r => simp [alt] at h; exact h.2

theorem alt_push (v : Bool) (l : List Bool) (h : alt l = true) (hv : v ≠ l.headD false) : alt (v :: l) = true := by
  cases l with
  | nil => cases v <;> simp_all [alt]
  | cons c r => simp_all [alt]

/-! ## The application abstraction -/

/-- What distinguishes the two applications. -/
structure App (ε : Type) where
  /-- `receive_reply` -/
  reply : Sweep ε → Nat → Telegram → Outcome (Sweep ε)
  /-- constructor of the event `handle_timeout` emits -/
  lost : Nat → ε
  /-- events that report a change: `(address, appeared?)`; `none` for `PeripheralRequery` -/
  kind : ε → Option (Nat × Bool)
  /-- replies that make an unknown station known -/
  accepts : Telegram → Bool
  /-- the station bit after a reply, given the bit before -/
  bit : Bool → Telegram → Bool
  /-- replies of the stated population (environment hypothesis of `events_alternate`) -/
  good : Telegram → Bool

/-- The facts about `receive_reply` the generic proofs use. -/
structure App.Spec {ε : Type} (A : App ε) : Prop where
  kind_lost : ∀ a, A.kind (A.lost a) = some (a, false)
  reply_ok : ∀ (s : Sweep ε) (a : Nat) (t : Telegram) (old : Bool), s.stations[a]? = some old →
    ∃ e, A.reply s a t = .ok { s with done := true, pending := e, stations := s.stations.set a (A.bit old t) }
      ∧ (A.good t = true → e.bind A.kind = if A.bit old t ≠ old then some (a, A.bit old t) else none)
  bit_of_accepts : ∀ (old : Bool) (t : Telegram), A.accepts t = true → A.bit old t = true
  reply_panic : ∀ (s : Sweep ε) (a : Nat) (t : Telegram), s.stations[a]? = none → A.reply s a t = .panic

theorem timeout_ok {ε : Type} (lost : Nat → ε) (s : Sweep ε) (a : Nat) (old : Bool) (h : s.stations[a]? = some old) :
    s.handleTimeout lost a =
      .ok { s with done := true, pending := if old then some (lost a) else s.pending, stations := s.stations.set a false } := by
  unfold Sweep.handleTimeout
  cases old with
  | true => simp [h]
  | false => simp [h, set_self _ _ _ h]

theorem timeout_panic {ε : Type} (lost : Nat → ε) (s : Sweep ε) (a : Nat) (h : s.stations[a]? = none) :
    s.handleTimeout lost a = .panic := by
  unfold Sweep.handleTimeout; simp [h]

/-! ## Histories under the C15 contract, with ghost observations -/

inductive Op
  | tx
  | reply (a : Nat) (t : Telegram)
  | timeout (a : Nat)
  | take

inductive Res (α : Type)
  | ok (a : α)
  | panic
  | refused

/-- What the FDL station may hand to `receive_reply(addr = a, …)`: a short confirmation, or a data
telegram with a *response* function code, SA = `a` and DA = own address (`do_await_data_response`). -/
def replyAllowed (own a : Nat) : Telegram → Bool
  | .sc => true
  | .data h _ => h.sa.toNat == a && h.da.toNat == own &&
      (match h.fc with | .response _ _ => true | .request _ _ => false)
  | .token _ _ => false

/-- The change (if any) the pending event reports for address `w`. -/
def pendFor {ε : Type} (A : App ε) (w : Nat) (s : Sweep ε) : List Bool :=
  match s.pending.bind A.kind with
  | some (a, b) => if a = w then [b] else []
  | none => []

/-- Model state plus ghost observations.  `R` (a parameter of `gstep`) is the population the
history is compared with; the per-address observations are functions of the address. -/
structure Ghost (ε : Type) where
  s : Sweep ε
  /-- address a reply is outstanding from (the contract automaton) -/
  out : Option Nat
  /-- callbacks (`receive_reply` / `handle_timeout`) delivered so far -/
  n : Nat
  /-- last probed address, and whether its callback has been delivered -/
  lastProbe : Option (Nat × Bool)
  /-- the last `transmit_telegram` returned `None` (or none was made yet) -/
  idle : Bool
  /-- a callback was delivered and `take_last_event` has not been called since -/
  dirty : Bool
  /-- sticky: `take_last_event` was called between any two callbacks -/
  collected : Bool
  /-- sticky: every reply so far was `A.good` -/
  goodReplies : Bool
  /-- sticky: after every reply so far the station bit was `A.accepts` of that reply -/
  noStale : Bool
  /-- number of most recent callbacks that agree with the population `R` -/
  stable : Nat
  /-- per address: callbacks delivered since the last callback for it -/
  age : Nat → Option Nat
  /-- per address: did its last callback report an accepted reply? -/
  beh : Nat → Option Bool
  /-- per address: changes reported by the events taken so far, newest first -/
  evs : Nat → List Bool
  /-- per address: actual changes of its station bit, newest first -/
  chg : Nat → List Bool

def Ghost.init {ε : Type} : Ghost ε :=
  { s := Sweep.init, out := none, n := 0, lastProbe := none, idle := true, dirty := false,
    collected := true, goodReplies := true, noStale := true, stable := 0,
    age := fun _ => none, beh := fun _ => none, evs := fun _ => [], chg := fun _ => [] }

/-- Ghost update of a delivered callback for address `a`: `s'` new model state, `c` = it was an
accepted reply, `gd` = the telegram was `good`, `ns` = it was not a non-accepted reply of a known station. -/
def Ghost.afterCallback {ε : Type} (g : Ghost ε) (R : Nat → Bool) (a : Nat) (s' : Sweep ε) (c gd ns : Bool) : Ghost ε :=
  { s := s', out := none, n := g.n + 1,
    lastProbe := g.lastProbe.map fun p => (p.1, true),
    idle := g.idle,
    dirty := true,
    collected := g.collected && !g.dirty,
    goodReplies := g.goodReplies && gd,
    noStale := g.noStale && ns,
    stable := if c = R a then g.stable + 1 else 0,
    age := fun w => if a = w then some 0 else (g.age w).map (· + 1),
    beh := fun w => if a = w then some c else g.beh w,
    evs := g.evs,
    chg := fun w => if g.s.stations.getD w false = s'.stations.getD w false then g.chg w
           else s'.stations.getD w false :: g.chg w }

def gstep {ε : Type} (A : App ε) (own : Nat) (R : Nat → Bool) (g : Ghost ε) : Op → Res (Ghost ε)
  | .tx =>
    match g.s.transmit with
    | (s', some q) => .ok { g with s := s', out := some q, lastProbe := some (q, false), idle := false }
    | (s', none) => .ok { g with s := s', out := none, idle := true }
  | .take =>
    .ok { g with s := g.s.takeLastEvent.1, dirty := false, evs := fun w => pendFor A w g.s ++ g.evs w }
  | .reply a t =>
    if g.out ≠ some a ∨ replyAllowed own a t = false then .refused else
    match A.reply g.s a t with
    | .panic => .panic
    | .ok s' =>
      .ok (g.afterCallback R a s' (A.accepts t) (A.good t) (A.bit (g.s.stations.getD a false) t == A.accepts t))
  | .timeout a =>
    if g.out ≠ some a then .refused else
    match g.s.handleTimeout A.lost a with
    | .panic => .panic
    | .ok s' => .ok (g.afterCallback R a s' false true true)

def grun {ε : Type} (A : App ε) (own : Nat) (R : Nat → Bool) (g : Ghost ε) : List Op → Res (Ghost ε)
  | [] => .ok g
  | op :: ops =>
    match gstep A own R g op with
    | .ok g' => grun A own R g' ops
    | .panic => .panic
    | .refused => .refused

/-! ## Structural invariant -/

structure Struct {ε : Type} (g : Ghost ε) : Prop where
  len : g.s.stations.length = 128
  cur : g.s.cursor ≤ 125
  cur_n : g.s.done = false → g.s.cursor = g.n % 126
  cur_d : g.s.done = true → 1 ≤ g.n ∧ (g.s.cursor + 1) % 126 = g.n % 126
  out_p : ∀ a, g.out = some a → g.lastProbe = some (a, false)
  lp_none : g.lastProbe = none → g.n = 0 ∧ g.s.done = false ∧ g.idle = true
  lp_open : ∀ p, g.lastProbe = some (p, false) → g.s.cursor = p ∧ g.s.done = false ∧ g.idle = false
  lp_ans : ∀ p, g.lastProbe = some (p, true) → g.out = none ∧
    (g.idle = true → g.s.cursor = (p + 1) % 126 ∧ g.s.done = false ∧ p ≤ 125) ∧
    (g.idle = false → g.s.cursor = p ∧ g.s.done = true)
  clean : g.dirty = false → g.s.pending = none
  bits_hi : ∀ a, 126 ≤ a → g.s.stations.getD a false = false

theorem struct_init {ε : Type} : Struct (Ghost.init : Ghost ε) where
  len := by simp [Ghost.init, Sweep.init]
  cur := by simp [Ghost.init, Sweep.init]
  cur_n := by simp [Ghost.init, Sweep.init]
  cur_d := by simp [Ghost.init, Sweep.init]
  out_p := by simp [Ghost.init]
  lp_none := by simp [Ghost.init, Sweep.init]
  lp_open := by simp [Ghost.init]
  lp_ans := by simp [Ghost.init]
  clean := by simp [Ghost.init, Sweep.init]
  bits_hi := by
    intro a _
    show (List.replicate 128 false).getD a false = false
    rw [List.getD_eq_getElem?_getD, List.getElem?_replicate]
    split <;> rfl

/-- Under the structural invariant the outstanding address indexes the bit array. -/
theorem Struct.out_bit {ε : Type} {g : Ghost ε} (h : Struct g) {a : Nat} (ho : g.out = some a) :
    a = g.s.cursor ∧ g.s.done = false ∧ a ≤ 125 ∧ ∃ old, g.s.stations[a]? = some old := by
  have h1 := h.lp_open a (h.out_p a ho)
  have h2 := h.cur
  refine ⟨h1.1.symm, h1.2.1, by omega, ?_⟩
  have : a < g.s.stations.length := by rw [h.len]; omega
  exact ⟨g.s.stations[a], by simp [this]⟩

/-- Case analysis of one step, done once: to establish `P` of the successor state it suffices to
treat the two `transmit_telegram` branches, `take_last_event`, and one *generic* callback. -/
theorem gstep_elim {ε : Type} {A : App ε} (hS : A.Spec) {own : Nat} {R : Nat → Bool} {g : Ghost ε}
    (hI : Struct g) (P : Ghost ε → Prop)
    (htx1 : g.s.done = false →
      P { g with out := some g.s.cursor, lastProbe := some (g.s.cursor, false), idle := false })
    (htx2 : g.s.done = true →
      P { g with s := { g.s with done := false, cursor := if g.s.cursor < 125 then g.s.cursor + 1 else 0 },
                 out := none, idle := true })
    (htake : P { g with s := { g.s with pending := none }, dirty := false,
                        evs := fun w => pendFor A w g.s ++ g.evs w })
    (hcb : ∀ (a : Nat) (old nb c gd ns : Bool) (e : Option ε), g.out = some a → g.s.stations[a]? = some old →
      (ns = true → nb = c) → (c = true → nb = true) →
      (gd = true → g.s.pending = none → e.bind A.kind = if nb ≠ old then some (a, nb) else none) →
      P (g.afterCallback R a { g.s with done := true, pending := e, stations := g.s.stations.set a nb } c gd ns))
    (op : Op) (g' : Ghost ε) (h : gstep A own R g op = .ok g') : P g' := by
  cases op with
  | tx =>
    by_cases hd : g.s.done = true
    · simp [gstep, Sweep.transmit, hd] at h; subst h; exact htx2 hd
    · have hd' : g.s.done = false := by simpa using hd
      simp [gstep, Sweep.transmit, hd'] at h; subst h
      exact htx1 hd'
  | take =>
    simp [gstep, Sweep.takeLastEvent] at h; subst h; exact htake
  | reply a t =>
    simp only [gstep] at h
    by_cases hc : g.out ≠ some a ∨ replyAllowed own a t = false
    · simp [hc] at h
    · rw [if_neg hc] at h
      have ho : g.out = some a := by
        by_cases h' : g.out = some a
        · exact h'
        · exact absurd (Or.inl h') hc
      obtain ⟨_, _, _, old, hold⟩ := hI.out_bit ho
      obtain ⟨e, he, hk⟩ := hS.reply_ok g.s a t old hold
      rw [he] at h
      simp only [Res.ok.injEq] at h
      subst h
      rw [getD_of_getElem? _ _ _ hold]
      apply hcb a old (A.bit old t) (A.accepts t) (A.good t) (A.bit old t == A.accepts t) e ho hold
      · intro h; simpa using h
      · exact hS.bit_of_accepts old t
      · intro hg _
        exact hk hg
  | timeout a =>
    simp only [gstep] at h
    by_cases hc : g.out ≠ some a
    · simp [hc] at h
    · rw [if_neg hc] at h
      have ho : g.out = some a := by simpa using hc
      obtain ⟨_, _, _, old, hold⟩ := hI.out_bit ho
      rw [timeout_ok _ _ _ _ hold] at h
      simp only [Res.ok.injEq] at h
      subst h
      apply hcb a old false false true true _ ho hold
      · intro _; rfl
      · intro hc; cases hc
      · intro _ hp
        cases old with
        | true => simp [hS.kind_lost]
        | false => simp [hp]

theorem gstep_no_panic {ε : Type} {A : App ε} (hS : A.Spec) {own : Nat} {R : Nat → Bool} {g : Ghost ε}
    (hI : Struct g) (op : Op) : gstep A own R g op ≠ .panic := by
  cases op with
  | tx =>
    simp only [gstep]
    split <;> simp
  | take => simp [gstep]
  | reply a t =>
    simp only [gstep]
    by_cases hc : g.out ≠ some a ∨ replyAllowed own a t = false
    · simp [hc]
    · rw [if_neg hc]
      have ho : g.out = some a := by
        by_cases h' : g.out = some a
        · exact h'
        · exact absurd (Or.inl h') hc
      obtain ⟨_, _, _, old, hold⟩ := hI.out_bit ho
      obtain ⟨e, he, _⟩ := hS.reply_ok g.s a t old hold
      rw [he]; simp
  | timeout a =>
    simp only [gstep]
    by_cases hc : g.out ≠ some a
    · simp [hc]
    · rw [if_neg hc]
      have ho : g.out = some a := by simpa using hc
      obtain ⟨_, _, _, old, hold⟩ := hI.out_bit ho
      rw [timeout_ok _ _ _ _ hold]; simp

theorem struct_step {ε : Type} {A : App ε} (hS : A.Spec) {own : Nat} {R : Nat → Bool} {g : Ghost ε}
    (hI : Struct g) (op : Op) (g' : Ghost ε) (h : gstep A own R g op = .ok g') : Struct g' := by
  refine gstep_elim hS hI Struct ?_ ?_ ?_ ?_ op g' h
  · intro hd
    have hn := hI.cur_n hd
    exact {
      len := hI.len, cur := hI.cur, cur_n := hI.cur_n, cur_d := hI.cur_d
      out_p := by intro a h; simp only [Option.some.injEq] at h; subst h; rfl
      lp_none := by intro h; cases h
      lp_open := by
        intro p h
        simp only [Option.some.injEq, Prod.mk.injEq, and_true] at h
        exact ⟨h, hd, rfl⟩
      lp_ans := by intro p h; simp at h
      clean := hI.clean, bits_hi := hI.bits_hi }
  · intro hd
    have hc := hI.cur
    have hn := hI.cur_d hd
    exact {
      len := hI.len
      cur := by show (if g.s.cursor < 125 then g.s.cursor + 1 else 0) ≤ 125; split <;> omega
      cur_n := by
        intro _
        show (if g.s.cursor < 125 then g.s.cursor + 1 else 0) = g.n % 126
        split <;> omega
      cur_d := by intro h; cases h
      out_p := by intro a h; cases h
      lp_none := by
        intro hl
        have := (hI.lp_none hl).2.1
        rw [hd] at this; cases this
      lp_open := by
        intro p hl
        have := (hI.lp_open p hl).2.1
        rw [hd] at this; cases this
      lp_ans := by
        intro p hl
        have h3 := hI.lp_ans p hl
        refine ⟨rfl, ?_, ?_⟩
        · intro _
          by_cases hid : g.idle = true
          · have := (h3.2.1 hid).2.1
            rw [hd] at this; cases this
          · have hid' : g.idle = false := by simpa using hid
            have h4 := (h3.2.2 hid').1
            refine ⟨?_, rfl, ?_⟩
            · show (if g.s.cursor < 125 then g.s.cursor + 1 else 0) = (p + 1) % 126
              split <;> omega
            · omega
        · intro h; cases h
      clean := hI.clean, bits_hi := hI.bits_hi }
  · exact {
      len := hI.len, cur := hI.cur, cur_n := hI.cur_n, cur_d := hI.cur_d, out_p := hI.out_p
      lp_none := hI.lp_none, lp_open := hI.lp_open, lp_ans := hI.lp_ans
      clean := by intro _; rfl
      bits_hi := hI.bits_hi }
  · intro a old nb c gd ns e ho hold _ _ _
    obtain ⟨hac, hd, ha, _⟩ := hI.out_bit ho
    have hn := hI.cur_n hd
    have hlp := hI.out_p a ho
    have hidle := (hI.lp_open a hlp).2.2
    exact {
      len := by simp [Ghost.afterCallback, hI.len]
      cur := hI.cur
      cur_n := by intro h; cases h
      cur_d := by
        intro _
        show 1 ≤ g.n + 1 ∧ (g.s.cursor + 1) % 126 = (g.n + 1) % 126
        omega
      out_p := by intro a h; cases h
      lp_none := by
        simp only [Ghost.afterCallback, hlp]; intro h; cases h
      lp_open := by
        simp only [Ghost.afterCallback, hlp]; intro p h; simp at h
      lp_ans := by
        simp only [Ghost.afterCallback, hlp]
        intro p h
        simp only [Option.map_some, Option.some.injEq, Prod.mk.injEq, and_true] at h
        subst h
        refine ⟨trivial, ?_, ?_⟩
        · intro h; rw [hidle] at h; cases h
        · intro _; exact ⟨hac.symm, trivial⟩
      clean := by intro h; cases h
      bits_hi := by
        intro b hb
        show (g.s.stations.set a nb).getD b false = false
        rw [getD_set]
        have : ¬ (a = b ∧ a < g.s.stations.length) := by omega
        rw [if_neg this]
        exact hI.bits_hi b hb }

/-! ## The station bits track the callbacks; coverage of a sweep -/

structure Track {ε : Type} (R : Nat → Bool) (g : Ghost ε) : Prop where
  bit : g.noStale = true → ∀ w, g.s.stations.getD w false = (g.beh w == some true)
  age_form : ∀ w j, g.age w = some j → j < 126 ∧ j < g.n ∧ (w + j + 1) % 126 = g.n % 126 ∧ w ≤ 125
  age_some : ∀ w, w ≤ 125 → w < g.n → g.age w ≠ none
  fresh : ∀ w j, g.age w = some j → j < g.stable → g.beh w = some (R w)
  stable_le : g.stable ≤ g.n

theorem track_init {ε : Type} (R : Nat → Bool) : Track R (Ghost.init : Ghost ε) where
  bit := by
    intro _ w
    show (List.replicate 128 false).getD w false = _
    rw [List.getD_eq_getElem?_getD, List.getElem?_replicate]
    simp [Ghost.init]
    split <;> rfl
  age_form := by simp [Ghost.init]
  age_some := by simp [Ghost.init]
  fresh := by simp [Ghost.init]
  stable_le := by simp [Ghost.init]

theorem track_step {ε : Type} {A : App ε} (hS : A.Spec) {own : Nat} {R : Nat → Bool} {g : Ghost ε}
    (hI : Struct g) (hT : Track R g) (op : Op) (g' : Ghost ε) (h : gstep A own R g op = .ok g') : Track R g' := by
  refine gstep_elim hS hI (Track R) ?_ ?_ ?_ ?_ op g' h
  · intro _
    exact { bit := hT.bit, age_form := hT.age_form, age_some := hT.age_some, fresh := hT.fresh, stable_le := hT.stable_le }
  · intro _
    exact { bit := hT.bit, age_form := hT.age_form, age_some := hT.age_some, fresh := hT.fresh, stable_le := hT.stable_le }
  · exact { bit := hT.bit, age_form := hT.age_form, age_some := hT.age_some, fresh := hT.fresh, stable_le := hT.stable_le }
  · intro a old nb c gd ns e ho hold hns _ _
    obtain ⟨hac, hd, ha, _⟩ := hI.out_bit ho
    have hn := hI.cur_n hd
    have hlen : a < g.s.stations.length := lt_of_getElem? hold
    exact {
      bit := by
        intro hst w
        simp only [Ghost.afterCallback, Bool.and_eq_true] at hst
        show (g.s.stations.set a nb).getD w false = ((if a = w then some c else g.beh w) == some true)
        rw [getD_set]
        by_cases hw : a = w
        · subst hw
          rw [if_pos ⟨rfl, hlen⟩, if_pos rfl, hns hst.2]
          cases c <;> rfl
        · rw [if_neg (by intro h; exact hw h.1), if_neg hw]
          exact hT.bit hst.1 w
      age_form := by
        intro w j hj
        simp only [Ghost.afterCallback] at hj ⊢
        by_cases hw : a = w
        · rw [if_pos hw] at hj
          simp only [Option.some.injEq] at hj
          subst hj; subst hw
          omega
        · rw [if_neg hw] at hj
          cases hage : g.age w with
          | none => rw [hage] at hj; simp at hj
          | some j0 =>
            rw [hage] at hj
            simp only [Option.map_some, Option.some.injEq] at hj
            have := hT.age_form w j0 hage
            omega
      age_some := by
        intro w hw1 hw2
        simp only [Ghost.afterCallback] at hw2 ⊢
        by_cases hw : a = w
        · rw [if_pos hw]; simp
        · rw [if_neg hw]
          have : w < g.n := by omega
          have := hT.age_some w hw1 this
          cases hage : g.age w with
          | none => exact absurd hage this
          | some j0 => simp
      fresh := by
        intro w j hj hjs
        simp only [Ghost.afterCallback] at hj hjs ⊢
        by_cases hw : a = w
        · rw [if_pos hw] at hj ⊢
          simp only [Option.some.injEq] at hj
          subst hj
          by_cases hc : c = R a
          · rw [hc, hw]
          · rw [if_neg hc] at hjs; omega
        · rw [if_neg hw] at hj ⊢
          cases hage : g.age w with
          | none => rw [hage] at hj; simp at hj
          | some j0 =>
            rw [hage] at hj
            simp only [Option.map_some, Option.some.injEq] at hj
            by_cases hc : c = R a
            · rw [if_pos hc] at hjs
              exact hT.fresh w j0 hage (by omega)
            · rw [if_neg hc] at hjs; omega
      stable_le := by
        show (if c = R a then g.stable + 1 else 0) ≤ g.n + 1
        have := hT.stable_le
        split <;> omega }

/-! ## Events report exactly the changes of the station bits -/

structure Ev {ε : Type} (A : App ε) (g : Ghost ε) : Prop where
  log : g.collected = true → g.goodReplies = true → ∀ w, pendFor A w g.s ++ g.evs w = g.chg w
  head : ∀ w, g.s.stations.getD w false = (g.chg w).headD false
  altc : ∀ w, alt (g.chg w) = true

theorem ev_init {ε : Type} (A : App ε) : Ev A (Ghost.init : Ghost ε) where
  log := by intro _ _ w; simp [Ghost.init, Sweep.init, pendFor]
  head := by
    intro w
    show (List.replicate 128 false).getD w false = _
    rw [List.getD_eq_getElem?_getD, List.getElem?_replicate]
    simp [Ghost.init]
    split <;> rfl
  altc := by intro w; simp [Ghost.init, alt]

theorem ev_step {ε : Type} {A : App ε} (hS : A.Spec) {own : Nat} {R : Nat → Bool} {g : Ghost ε}
    (hI : Struct g) (hE : Ev A g) (op : Op) (g' : Ghost ε) (h : gstep A own R g op = .ok g') : Ev A g' := by
  refine gstep_elim hS hI (Ev A) ?_ ?_ ?_ ?_ op g' h
  · intro _
    exact { log := hE.log, head := hE.head, altc := hE.altc }
  · intro _
    exact { log := hE.log, head := hE.head, altc := hE.altc }
  · exact {
      log := by
        intro hc hg w
        have := hE.log hc hg w
        simpa [pendFor] using this
      head := hE.head, altc := hE.altc }
  · intro a old nb c gd ns e ho hold _ _ hev
    have hlen : a < g.s.stations.length := lt_of_getElem? hold
    have hbit : g.s.stations.getD a false = old := getD_of_getElem? _ _ _ hold
    exact {
      log := by
        intro hc hg w
        simp only [Ghost.afterCallback, Bool.and_eq_true, Bool.not_eq_true'] at hc hg
        have hp : g.s.pending = none := hI.clean hc.2
        have h0 := hE.log hc.1 hg.1 w
        have hev' := hev hg.2 hp
        simp only [pendFor, hp, Option.bind_none, List.nil_append] at h0
        show pendFor A w { g.s with done := true, pending := e, stations := g.s.stations.set a nb } ++ g.evs w =
          if g.s.stations.getD w false = (g.s.stations.set a nb).getD w false then g.chg w
          else (g.s.stations.set a nb).getD w false :: g.chg w
        by_cases hw : a = w
        · subst hw
          have hb1 : (g.s.stations.set a nb).getD a false = nb := by rw [getD_set]; simp [hlen]
          rw [hb1, hbit]
          by_cases hnb : nb = old
          · subst hnb; simp [pendFor, hev', h0]
          · have h2 : ¬ old = nb := fun h => hnb h.symm
            simp [pendFor, hev', hnb, h2, h0]
        · have hb1 : (g.s.stations.set a nb).getD w false = g.s.stations.getD w false := by
            rw [getD_set]; simp [hw]
          rw [hb1]
          by_cases hnb : nb = old
          · subst hnb; simp [pendFor, hev', h0]
          · simp [pendFor, hev', hnb, hw, h0]
      head := by
        intro w
        show (g.s.stations.set a nb).getD w false =
          (if g.s.stations.getD w false = (g.s.stations.set a nb).getD w false then g.chg w
           else (g.s.stations.set a nb).getD w false :: g.chg w).headD false
        split
        · rename_i heq; rw [← heq]; exact hE.head w
        · rfl
      altc := by
        intro w
        show alt (if g.s.stations.getD w false = (g.s.stations.set a nb).getD w false then g.chg w
           else (g.s.stations.set a nb).getD w false :: g.chg w) = true
        split
        · exact hE.altc w
        · rename_i hne
          apply alt_push _ _ (hE.altc w)
          rw [← hE.head w]
          exact fun h => hne h.symm }

/-! ## Lifting over histories -/

structure Inv {ε : Type} (A : App ε) (R : Nat → Bool) (g : Ghost ε) : Prop where
  st : Struct g
  tr : Track R g
  ev : Ev A g

theorem inv_init {ε : Type} (A : App ε) (R : Nat → Bool) : Inv A R (Ghost.init : Ghost ε) :=
  ⟨struct_init, track_init R, ev_init A⟩

theorem inv_run {ε : Type} {A : App ε} (hS : A.Spec) (own : Nat) (R : Nat → Bool) (ops : List Op) :
    ∀ (g : Ghost ε), Inv A R g →
      grun A own R g ops ≠ .panic ∧ ∀ g', grun A own R g ops = .ok g' → Inv A R g' := by
  induction ops with
  | nil =>
    intro g hI
    simp only [grun]
    exact ⟨(by intro h; cases h), (by intro g' h; cases h; exact hI)⟩
  | cons op ops ih =>
    intro g hI
    simp only [grun]
    cases hs : gstep A own R g op with
    | ok g1 =>
      have hI1 : Inv A R g1 :=
        ⟨struct_step hS hI.st op g1 hs, track_step hS hI.st hI.tr op g1 hs, ev_step hS hI.st hI.ev op g1 hs⟩
      exact ih g1 hI1
    | panic => exact absurd hs (gstep_no_panic hS hI.st op)
    | refused => exact ⟨(by intro h; cases h), (by intro g' h; cases h)⟩

/-! ## The two applications as instances -/

/-- A reply of the stated population to an FDL status request: a data telegram with a response
function code (in particular *not* a short confirmation). -/
def isResponse : Telegram → Bool
  | .data h _ => (match h.fc with | .response _ _ => true | .request _ _ => false)
  | .token _ _ => false
  | .sc => false

def llApp : App StationEvent where
  reply := LiveList.receiveReply
  lost := .lost
  kind := fun e => match e with
    | .discovered a _ => some (a, true)
    | .lost a => some (a, false)
  accepts := fun _ => true
  bit := fun _ _ => true
  good := isResponse

theorem llApp_spec : llApp.Spec where
  kind_lost := by intro a; rfl
  bit_of_accepts := by intro _ _ _; rfl
  reply_ok := by
    intro s a t old hold
    cases old with
    | false =>
      refine ⟨_, by simp only [llApp, LiveList.receiveReply, hold]; rfl, ?_⟩
      intro hg
      cases t with
      | data h pdu =>
        cases hfc : h.fc with
        | response st stat => simp [llApp, hfc]
        | request _ _ => simp [llApp, isResponse, hfc] at hg
      | token _ _ => simp [llApp, isResponse] at hg
      | sc => simp [llApp, isResponse] at hg
    | true =>
      refine ⟨none, ?_, by simp [llApp]⟩
      simp only [llApp, LiveList.receiveReply, hold, set_self _ _ _ hold]
  reply_panic := by
    intro s a t h
    simp [llApp, LiveList.receiveReply, h]

theorem parse_no_panic (t : Telegram) : parseDiagResponse t ≠ .panic := by
  cases t with
  | data h pdu =>
    unfold parseDiagResponse
    simp only
    split
    · simp
    · split
      · simp
      · split
        · simp
        · rename_i h6
          rw [if_neg (by omega)]
          simp
  | token _ _ => simp [parseDiagResponse]
  | sc => simp [parseDiagResponse]

def scAccepts (t : Telegram) : Bool :=
  match parseDiagResponse t with
  | .ok (some _) => true
  | _ => false

def scApp : App DpScanEvent where
  reply := Scanner.receiveReply
  lost := .lost
  kind := fun e => match e with
    | .found d => some (d.address, true)
    | .requery _ => none
    | .lost a => some (a, false)
  accepts := scAccepts
  bit := fun _ t => scAccepts t
  good := fun _ => true

theorem scApp_spec : scApp.Spec where
  kind_lost := by intro a; rfl
  bit_of_accepts := by intro _ _ h; exact h
  reply_ok := by
    intro s a t old hold
    cases hp : parseDiagResponse t with
    | panic => exact absurd hp (parse_no_panic t)
    | ok r =>
      cases r with
      | none =>
        have hacc : scAccepts t = false := by simp [scAccepts, hp]
        cases old with
        | true =>
          refine ⟨some (.lost a), ?_, by simp [scApp, hacc]⟩
          simp only [scApp, Scanner.receiveReply, hold, hp, hacc]
          rfl
        | false =>
          refine ⟨none, ?_, by simp [scApp, hacc]⟩
          simp only [scApp, Scanner.receiveReply, hold, hp, hacc, set_self _ _ _ hold]
          rfl
      | some d =>
        have hacc : scAccepts t = true := by simp [scAccepts, hp]
        cases old with
        | true =>
          refine ⟨some (.requery ⟨a, d.ident, d.master⟩), ?_, by simp [scApp, hacc]⟩
          simp only [scApp, Scanner.receiveReply, hold, hp, hacc, set_self _ _ _ hold]
          rfl
        | false =>
          refine ⟨some (.found ⟨a, d.ident, d.master⟩), ?_, by simp [scApp, hacc]⟩
          simp only [scApp, Scanner.receiveReply, hold, hp, hacc]
          rfl
  reply_panic := by
    intro s a t h
    simp [scApp, Scanner.receiveReply, h]

end PV.Apps
