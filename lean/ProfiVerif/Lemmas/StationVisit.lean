/-
Helper lemmas for C13 `visit_bounded`: the `first_cycle_done` flag as an invariant of one token
visit (`UseToken` / `AwaitDataResponse` polls between a token receipt and the token pass).
Independent of `Lemmas/StationInv.lean`.
-/
import ProfiVerif.Model.Station
import ProfiVerif.Lemmas.StationGap

namespace PV
namespace StationVisit
open StationGap

/-- The `first_cycle_done` flag of the running visit; outside `UseToken` no further message cycle can
be started without passing through `UseToken … true` first, so it counts as set. -/
def flag : FState → Bool
  | .useToken _ fcd => fcd
  | _ => true

/-- The station holds the token for application traffic. -/
def inVisit : FState → Bool
  | .useToken .. | .awaitData .. => true
  | _ => false

/-- The hold-time deadline `do_use_token` compares `now` with in a poll that starts in state `s`:
`end_token_hold_time` after the bookkeeping for a new token receipt (`holdUpdate`). -/
def deadline (s : Station) : Int :=
  match s.st with
  | .useToken d _ => (holdUpdate s d).endTokenHoldTime
  | .awaitData _ d => (holdUpdate s d).endTokenHoldTime
  | _ => s.endTokenHoldTime

/-- `holdUpdate` looks only at the token times, the parameters and the GAP state. -/
theorem holdUpdate_end_congr (s s' : Station) (d : UseData) (h1 : s'.lastTokenTime = s.lastTokenTime)
    (h2 : s'.endTokenHoldTime = s.endTokenHoldTime) (h3 : s'.p = s.p) (h4 : s'.gap = s.gap) :
    (holdUpdate s' d).endTokenHoldTime = (holdUpdate s d).endTokenHoldTime := by
  unfold holdUpdate
  rw [h1, h3, h4]
  split
  · cases s.gap <;> simp
  · exact h2

theorem holdUpdate_st (s : Station) (d : UseData) : (holdUpdate s d).st = s.st := by
  unfold holdUpdate; split <;> simp

/-! ## Asking the applications -/

/-- Asking one application (state `UseToken d true`): a decline leaves station and PHY alone; a
transmission keeps the flag set (`UseToken d true` or `AwaitDataResponse`). -/
theorem appTransmit_visit (c c' : Ctx) (now : Int) (hp b : Bool) (d : UseData)
    (hst : c.s.st = .useToken d true) (h : appTransmit c now hp = (.ok c', b)) :
    (b = false → c'.tx = c.tx ∧ c'.s = c.s) ∧ (b = true → flag c'.s.st = true) := by
  unfold appTransmit at h
  simp only at h
  cases hget : c.apps[c.s.nextApp]? with
  | none => rw [hget] at h; simp at h
  | some script =>
    rw [hget] at h
    simp only at h
    cases hans : script.headD .decline with
    | decline =>
      rw [hans] at h
      simp only [Prod.mk.injEq, Res.ok.injEq] at h
      obtain ⟨rfl, rfl⟩ := h
      exact ⟨fun _ => ⟨rfl, rfl⟩, fun hb => by cases hb⟩
    | send h0 pdu =>
      rw [hans] at h
      simp only at h
      cases hser : h0.serialize pdu with
      | panic => rw [hser] at h; simp at h
      | ok bytes =>
        rw [hser] at h
        simp only at h
        cases hexp : expectsReplyOf h0 with
        | none =>
          rw [hexp] at h
          simp only [transmit] at h
          split at h
          · simp at h
          · simp only [Prod.mk.injEq, Res.ok.injEq] at h
            obtain ⟨rfl, rfl⟩ := h
            exact ⟨fun hb => (by cases hb), fun _ => by simp [markTx, hst, flag]⟩
        | some addr =>
          rw [hexp] at h
          simp only [hst, toAwaitData, transmit] at h
          split at h
          · simp at h
          · simp only [Prod.mk.injEq, Res.ok.injEq] at h
            obtain ⟨rfl, rfl⟩ := h
            exact ⟨fun hb => (by cases hb), fun _ => by simp [markTx, flag]⟩

/-- The application loop: the flag stays set; if nobody transmits the PHY is not touched. -/
theorem appsTransmit_visit (now : Int) (hp : Bool) : ∀ (k : Nat) (c c' : Ctx) (b : Bool) (d : UseData),
    c.s.st = .useToken d true → appsTransmit now hp k c = (.ok c', b) →
    flag c'.s.st = true ∧ (b = false → c'.tx = c.tx ∧ ∃ d', c'.s.st = .useToken d' true) := by
  intro k
  induction k with
  | zero =>
    intro c c' b d hst h
    simp only [appsTransmit, Prod.mk.injEq, Res.ok.injEq] at h
    obtain ⟨rfl, rfl⟩ := h
    exact ⟨by simp [hst, flag], fun _ => ⟨rfl, d, hst⟩⟩
  | succ k ih =>
    intro c c' b d hst h
    simp only [appsTransmit] at h
    cases hA : appTransmit c now hp with
    | mk r b1 =>
      rw [hA] at h
      cases r with
      | panic m => simp at h
      | ok c1 =>
        have hv := appTransmit_visit c c1 now hp b1 d hst hA
        cases b1 with
        | true =>
          simp only [Prod.mk.injEq, Res.ok.injEq] at h
          obtain ⟨rfl, rfl⟩ := h
          exact ⟨hv.2 rfl, fun hb => (by cases hb)⟩
        | false =>
          obtain ⟨htx1, hs1⟩ := hv.1 rfl
          have hst1 : c1.s.st = .useToken d true := by rw [hs1]; exact hst
          simp only [hst1] at h
          split at h
          · simp only [Prod.mk.injEq, Res.ok.injEq] at h
            obtain ⟨rfl, rfl⟩ := h
            exact ⟨by simp [upd, flag], fun _ => ⟨by simpa [upd] using htx1, _, rfl⟩⟩
          · obtain ⟨hf, hb⟩ := ih _ c' b { d with firstApp := some (d.firstApp.getD c1.s.nextApp) } rfl h
            refine ⟨hf, fun hbf => ?_⟩
            obtain ⟨ht, hd⟩ := hb hbf
            exact ⟨by rw [ht]; simpa [upd] using htx1, hd⟩

/-- One message-cycle attempt: afterwards the flag is set, whatever happened (somebody transmitted:
`UseToken _ true` or `AwaitDataResponse`; nobody did: `PassToken`). -/
theorem useTokenGo_visit (c c' : Ctx) (now : Int) (d : UseData) (hp : Bool)
    (h : useTokenGo c now d hp = .ok c') : flag c'.s.st = true := by
  unfold useTokenGo at h
  simp only at h
  cases hA : appsTransmit now hp (upd c fun s => { s with st := .useToken d true }).apps.length
      (upd c fun s => { s with st := .useToken d true }) with
  | mk r b =>
    rw [hA] at h
    cases r with
    | panic m => simp at h
    | ok c1 =>
      have hv := appsTransmit_visit now hp _ _ c1 b d (by simp [upd]) hA
      cases b with
      | true =>
        simp only [Res.ok.injEq] at h
        subst h
        exact hv.1
      | false =>
        obtain ⟨_, d', hd'⟩ := hv.2 rfl
        simp only [tr, toPassToken, hd', Res.ok.injEq] at h
        subst h
        simp [flag]

/-! ## The two handlers of a visit -/

theorem ite_ok {p : Prop} [Decidable p] {a b c' : Ctx} (h : (if p then Res.ok a else Res.ok b) = .ok c') :
    c' = a ∨ c' = b := by
  split at h
  · exact Or.inl (Res.ok.inj h).symm
  · exact Or.inr (Res.ok.inj h).symm

/-- `do_use_token`: the flag never goes back, and a poll that hands something to the PHY sets it —
and is not a poll "after the deadline with the flag already set". -/
theorem doUseToken_visit (c c' : Ctx) (now : Int) (d : UseData) (fcd : Bool)
    (hst : c.s.st = .useToken d fcd) (htx : c.tx = none) (h : doUseToken c now = .ok c') :
    (fcd = true → flag c'.s.st = true) ∧
    (c'.tx ≠ none → flag c'.s.st = true ∧ ¬ (deadline c.s ≤ now ∧ fcd = true)) := by
  have hdl : deadline c.s = (holdUpdate c.s d).endTokenHoldTime := by simp [deadline, hst]
  unfold doUseToken at h
  rw [hst] at h
  simp only [sync_stamped, stamped_endTokenHoldTime] at h
  split at h
  · -- waiting for the synchronisation pause
    simp only [Res.ok.injEq] at h
    subst h
    refine ⟨fun hf => by simp [holdUpdate_st, hst, flag, hf], fun hne => absurd htx hne⟩
  · split at h
    · rename_i hlt
      have := useTokenGo_visit _ c' now d false h
      exact ⟨fun _ => this, fun _ => ⟨this, fun hh => by rw [hdl] at hh; omega⟩⟩
    · split at h
      · rename_i hf
        have := useTokenGo_visit _ c' now d true h
        refine ⟨fun _ => this, fun _ => ⟨this, fun hh => ?_⟩⟩
        rw [hh.2] at hf
        simp at hf
      · simp only [tr, toPassToken, stamped_st, holdUpdate_st, hst, Res.ok.injEq] at h
        subst h
        exact ⟨fun _ => by simp [flag], fun hne => absurd htx hne⟩

/-- `do_await_data_response`: the flag is set afterwards, and a poll that hands something to the PHY
(time-out, then the next cycle in the same poll) does so before the deadline. -/
theorem doAwaitData_visit (c c' : Ctx) (now : Int) (addr : Nat) (d : UseData)
    (hst : c.s.st = .awaitData addr d) (htx : c.tx = none) (h : doAwaitDataResponse c now = .ok c') :
    flag c'.s.st = true ∧ (c'.tx ≠ none → ¬ deadline c.s ≤ now) := by
  have hdl : deadline c.s = (holdUpdate c.s d).endTokenHoldTime := by simp [deadline, hst]
  unfold doAwaitDataResponse at h
  rw [hst] at h
  simp only at h
  split at h
  · cases h
  · cases hrx : receiveTelegram c.rx with
    | panic => rw [hrx] at h; cases h
    | hang => rw [hrx] at h; cases h
    | done rx' calls ret =>
      rw [hrx] at h
      cases calls with
      | cons tl rest =>
        have hs1 : (markRx c.s now).st = .awaitData addr d := by simpa [markRx, markBusActivity] using hst
        simp only [tr, toUseToken, toActiveIdle, hs1, Res.bind, upd] at h
        repeat' split at h
        all_goals first
          | (have h' := Res.ok.inj h
             subst h'
             exact ⟨by simp [flag], fun hne => absurd htx hne⟩)
          | (rcases ite_ok h with h' | h' <;>
              (subst h'
               exact ⟨by simp [flag], fun hne => absurd htx hne⟩))
      | nil =>
        simp only [slot_stamped] at h
        split at h
        · -- time-out: back to UseToken (flag set) and on with `do_use_token` in the same poll
          simp only [tr, toUseToken, stamped_st, hst, Res.bind, upd] at h
          obtain ⟨c2, hc2⟩ : ∃ c2 : Ctx, c2 = { c with
              rx := rx',
              calls := c.calls ++ [.timeout c.s.nextApp addr],
              s := { (stamped c.s now) with st := .useToken d true } } := ⟨_, rfl⟩
          have h' : doUseToken c2 now = .ok c' := by rw [hc2]; exact h
          have hv := doUseToken_visit c2 c' now d true (by rw [hc2]) (by rw [hc2]; exact htx) h'
          have hdl2 : deadline c2.s = deadline c.s := by
            rw [hdl, hc2]
            simp only [deadline]
            exact holdUpdate_end_congr c.s _ d rfl rfl rfl rfl
          refine ⟨hv.1 rfl, fun hne hle => ?_⟩
          exact (hv.2 hne).2 ⟨by rw [hdl2]; exact hle, rfl⟩
        · simp only [Res.ok.injEq] at h
          subst h
          exact ⟨by simp [hst, flag], fun hne => absurd htx hne⟩

/-! ## One whole poll inside a visit -/

theorem checkBusActivity_core (s : Station) (now : Int) (n : Nat) :
    (checkBusActivity s now n).st = s.st ∧ (checkBusActivity s now n).lastTokenTime = s.lastTokenTime ∧
    (checkBusActivity s now n).endTokenHoldTime = s.endTokenHoldTime ∧ (checkBusActivity s now n).p = s.p ∧
    (checkBusActivity s now n).gap = s.gap := by
  unfold checkBusActivity
  split <;> simp [markBusActivity]

theorem deadline_congr (s s' : Station) (h0 : s'.st = s.st) (h1 : s'.lastTokenTime = s.lastTokenTime)
    (h2 : s'.endTokenHoldTime = s.endTokenHoldTime) (h3 : s'.p = s.p) (h4 : s'.gap = s.gap) :
    deadline s' = deadline s := by
  unfold deadline
  rw [h0]
  split
  · exact holdUpdate_end_congr s s' _ h1 h2 h3 h4
  · exact holdUpdate_end_congr s s' _ h1 h2 h3 h4
  · exact h2

/-- **One poll of a visit** (`Station.poll` in `UseToken` / `AwaitDataResponse`): the
`first_cycle_done` flag never goes back; a poll that hands a telegram to the PHY sets it, and is not
a poll at or after the deadline with the flag already set. -/
theorem poll_visit (s : Station) (apps : Apps) (now : Int) (phyTx : Bool) (rx : Bytes) (c' : Ctx)
    (hin : inVisit s.st = true) (h : s.poll apps now phyTx rx = .ok c') :
    (flag s.st = true → flag c'.s.st = true) ∧
    (c'.tx ≠ none → flag c'.s.st = true ∧ ¬ (deadline s ≤ now ∧ flag s.st = true)) := by
  unfold Station.poll pollInner at h
  simp only at h
  split at h
  · -- connectivity Offline: the state would have to be Offline
    split at h
    · rename_i hoff
      rw [hoff] at hin
      simp [inVisit] at hin
    · cases h
  · have hps : pollStart { s := s, apps := apps, rx := rx } = .ok { s := s, apps := apps, rx := rx } := by
      unfold pollStart
      cases hst : s.st <;> simp_all [inVisit]
    rw [hps] at h
    simp only [Res.bind] at h
    split at h
    · -- own transmission still running: only the activity time-stamp moves
      have h' := Res.ok.inj h
      subst h'
      exact ⟨fun hf => by simpa [upd, markBusActivity] using hf, fun hne => absurd rfl hne⟩
    · have hc := checkBusActivity_core s now rx.length
      obtain ⟨s1, hs1⟩ : ∃ s1, checkBusActivity s now rx.length = s1 := ⟨_, rfl⟩
      simp only [upd, hs1] at h
      rw [hs1] at hc
      have hdl : deadline s1 = deadline s := deadline_congr s s1 hc.1 hc.2.1 hc.2.2.1 hc.2.2.2.1 hc.2.2.2.2
      unfold dispatch at h
      cases hst : s.st with
      | useToken d fcd =>
        have hst1 : s1.st = .useToken d fcd := by rw [hc.1]; exact hst
        simp only [hst1] at h
        have hv := doUseToken_visit { s := s1, apps := apps, rx := rx } c' now d fcd hst1 rfl h
        simp only [flag, hdl] at hv ⊢
        exact hv
      | awaitData a d =>
        have hst1 : s1.st = .awaitData a d := by rw [hc.1]; exact hst
        simp only [hst1] at h
        have hv := doAwaitData_visit { s := s1, apps := apps, rx := rx } c' now a d hst1 rfl h
        simp only [hdl] at hv
        exact ⟨fun _ => hv.1, fun hne => ⟨hv.1, fun hh => hv.2 hne hh.1⟩⟩
      | _ => rw [hst] at hin; simp [inVisit] at hin

/-! ## A whole visit -/

/-- Number of message cycles started at or after the hold-time deadline during the polls of ONE token
visit: `ins` lists the successive `poll` calls (time, PHY-still-transmitting flag, receive buffer);
counting stops as soon as the station has left `UseToken` / `AwaitDataResponse` (the visit is over).
A poll starts a message cycle iff it hands a telegram to the PHY (`tx`), which in these two states
only an application's `transmit_telegram` does.  `none` = a poll panicked. -/
def lateCycles (s : Station) (apps : Apps) : List (Int × Bool × Bytes) → Option Nat
  | [] => some 0
  | (now, phyTx, rx) :: rest =>
    if inVisit s.st = false then some 0 else
    match s.poll apps now phyTx rx with
    | .panic _ => none
    | .ok c' =>
      (lateCycles c'.s c'.apps rest).map
        (· + (if deadline s ≤ now ∧ c'.tx ≠ none then 1 else 0))

theorem lateCycles_flag : ∀ (ins : List (Int × Bool × Bytes)) (s : Station) (apps : Apps) (n : Nat),
    lateCycles s apps ins = some n → n + (flag s.st).toNat ≤ 1 := by
  intro ins
  induction ins with
  | nil =>
    intro s apps n h
    simp only [lateCycles, Option.some.injEq] at h
    subst h
    cases flag s.st <;> simp
  | cons x rest ih =>
    intro s apps n h
    obtain ⟨now, phyTx, rx⟩ := x
    simp only [lateCycles] at h
    split at h
    · simp only [Option.some.injEq] at h
      subst h
      cases flag s.st <;> simp
    · rename_i hin
      have hin' : inVisit s.st = true := by simpa using hin
      cases hp : s.poll apps now phyTx rx with
      | panic m => rw [hp] at h; cases h
      | ok c' =>
        rw [hp] at h
        simp only [Option.map_eq_some_iff] at h
        obtain ⟨m, hm, rfl⟩ := h
        have hrec := ih c'.s c'.apps m hm
        have hv := poll_visit s apps now phyTx rx c' hin' hp
        split
        · rename_i hlate
          have := hv.2 hlate.2
          have hf : flag s.st = false := by
            cases hfs : flag s.st with
            | false => rfl
            | true => exact absurd ⟨hlate.1, hfs⟩ this.2
          rw [this.1] at hrec
          rw [hf]
          simp at hrec ⊢
          omega
        · cases hfs : flag s.st with
          | false => simp; cases hfc : flag c'.s.st <;> simp [hfc] at hrec <;> omega
          | true =>
            rw [hv.1 hfs] at hrec
            simp at hrec ⊢
            omega

end StationVisit
end PV
