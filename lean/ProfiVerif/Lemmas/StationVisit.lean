/-
Helper lemmas for C13 `visit_bounded`: the `first_cycle_done` flag as an invariant of one token
visit (`UseToken` / `AwaitDataResponse` polls between a token receipt and the token pass).
Independent of `Lemmas/StationInv.lean`.
-/
import ProfiVerif.Model.Station
import ProfiVerif.Lemmas.StationGap
import ProfiVerif.Lemmas.StationMark

namespace PV
namespace StationVisit
open StationGap

/-- The `first_cycle_done` flag of the running visit; outside `UseToken` no further message cycle can
be started without passing through `UseToken … true` first, so it counts as set. -/
def flag : FState → Bool
  | .useToken _ fcd => fcd
  | _ => true

/-- The station holds the token for application traffic. -/
def inVisit : FState → Bool
  | .useToken .. | .awaitData .. => true
  | _ => false

/-- The hold-time deadline `do_use_token` compares `now` with in a poll that starts in state `s`:
`end_token_hold_time` after the bookkeeping for a new token receipt (`holdUpdate`). -/
def deadline (s : Station) : Int :=
  match s.st with
  | .useToken d _ => (holdUpdate s d).endTokenHoldTime
  | .awaitData _ d => (holdUpdate s d).endTokenHoldTime
  | _ => s.endTokenHoldTime

/-- `holdUpdate` looks only at the token times, the parameters and the GAP state. -/
theorem holdUpdate_end_congr (s s' : Station) (d : UseData) (h1 : s'.lastTokenTime = s.lastTokenTime)
    (h2 : s'.endTokenHoldTime = s.endTokenHoldTime) (h3 : s'.p = s.p) (h4 : s'.gap = s.gap) :
    (holdUpdate s' d).endTokenHoldTime = (holdUpdate s d).endTokenHoldTime := by
  unfold holdUpdate
  rw [h1, h3, h4]
  split
  · cases s.gap <;> simp
  · exact h2

theorem holdUpdate_st (s : Station) (d : UseData) : (holdUpdate s d).st = s.st := by
  unfold holdUpdate; split <;> simp

/-! ## Message cycles are recognised by the application callbacks -/

/-- An application answered `transmit_telegram` with a telegram: a message cycle starts. -/
def isSend : AppCall → Bool
  | .transmit _ _ (.send ..) => true
  | _ => false

/-- The callbacks of this poll contain a `transmit_telegram` that returned a telegram. -/
def hasSend (l : List AppCall) : Bool := l.any isSend

theorem hasSend_append (l m : List AppCall) : hasSend (l ++ m) = (hasSend l || hasSend m) := by
  simp [hasSend]

theorem hasSend_snoc (l : List AppCall) (x : AppCall) (hx : isSend x = false) (h : hasSend l = false) :
    hasSend (l ++ [x]) = false := by
  rw [hasSend_append, h]
  simp [hasSend, hx]

/-! ## Asking the applications -/

/-- Asking one application (state `UseToken d true`): a decline leaves station and PHY alone and is no
cycle; a transmission keeps the flag set (`UseToken d true` or `AwaitDataResponse`). -/
theorem appTransmit_visit (c c' : Ctx) (now : Int) (hp b : Bool) (d : UseData)
    (hst : c.s.st = .useToken d true) (hns : hasSend c.calls = false) (h : appTransmit c now hp = (.ok c', b)) :
    (b = false → c'.tx = c.tx ∧ c'.s = c.s ∧ hasSend c'.calls = false) ∧
    (b = true → flag c'.s.st = true ∧ inVisit c'.s.st = true ∧ hasSend c'.calls = true) := by
  unfold appTransmit at h
  simp only at h
  cases hget : c.apps[c.s.nextApp]? with
  | none => rw [hget] at h; simp at h
  | some script =>
    rw [hget] at h
    simp only at h
    cases hans : script.headD .decline with
    | decline =>
      rw [hans] at h
      simp only [Prod.mk.injEq, Res.ok.injEq] at h
      obtain ⟨rfl, rfl⟩ := h
      exact ⟨fun _ => ⟨rfl, rfl, hasSend_snoc _ _ rfl hns⟩, fun hb => (by cases hb)⟩
    | send h0 pdu =>
      rw [hans] at h
      simp only at h
      cases hser : h0.serialize pdu with
      | panic => rw [hser] at h; simp at h
      | ok bytes =>
        rw [hser] at h
        simp only at h
        cases hexp : expectsReplyOf h0 with
        | none =>
          rw [hexp] at h
          simp only [transmit] at h
          split at h
          · simp at h
          · simp only [Prod.mk.injEq, Res.ok.injEq] at h
            obtain ⟨rfl, rfl⟩ := h
            exact ⟨fun hb => (by cases hb), fun _ => by simp [markTx, hst, flag, inVisit, hasSend_append, hasSend, isSend, hans]⟩
        | some addr =>
          rw [hexp] at h
          simp only [hst, toAwaitData, transmit] at h
          split at h
          · simp at h
          · simp only [Prod.mk.injEq, Res.ok.injEq] at h
            obtain ⟨rfl, rfl⟩ := h
            exact ⟨fun hb => (by cases hb), fun _ => by simp [markTx, flag, inVisit, hasSend_append, hasSend, isSend, hans]⟩

/-- The application loop: if nobody transmits, PHY and flag are as before and there was no cycle; if
somebody does, the flag is set and the station stays in the visit. -/
theorem appsTransmit_visit (now : Int) (hp : Bool) : ∀ (k : Nat) (c c' : Ctx) (b : Bool) (d : UseData),
    c.s.st = .useToken d true → hasSend c.calls = false → appsTransmit now hp k c = (.ok c', b) →
    (b = false → c'.tx = c.tx ∧ (∃ d', c'.s.st = .useToken d' true) ∧ hasSend c'.calls = false) ∧
    (b = true → flag c'.s.st = true ∧ inVisit c'.s.st = true ∧ hasSend c'.calls = true) := by
  intro k
  induction k with
  | zero =>
    intro c c' b d hst hns h
    simp only [appsTransmit, Prod.mk.injEq, Res.ok.injEq] at h
    obtain ⟨rfl, rfl⟩ := h
    exact ⟨fun _ => ⟨rfl, ⟨d, hst⟩, hns⟩, fun hb => (by cases hb)⟩
  | succ k ih =>
    intro c c' b d hst hns h
    simp only [appsTransmit] at h
    cases hA : appTransmit c now hp with
    | mk r b1 =>
      rw [hA] at h
      cases r with
      | panic m => simp at h
      | ok c1 =>
        have hv := appTransmit_visit c c1 now hp b1 d hst hns hA
        cases b1 with
        | true =>
          simp only [Prod.mk.injEq, Res.ok.injEq] at h
          obtain ⟨rfl, rfl⟩ := h
          exact ⟨fun hb => (by cases hb), fun _ => hv.2 rfl⟩
        | false =>
          obtain ⟨htx1, hs1, hns1⟩ := hv.1 rfl
          have hst1 : c1.s.st = .useToken d true := by rw [hs1]; exact hst
          simp only [hst1] at h
          split at h
          · simp only [Prod.mk.injEq, Res.ok.injEq] at h
            obtain ⟨rfl, rfl⟩ := h
            exact ⟨fun _ => ⟨by simpa [upd] using htx1, ⟨_, rfl⟩, by simpa [upd] using hns1⟩, fun hb => (by cases hb)⟩
          · obtain ⟨hf, hb⟩ := ih _ c' b { d with firstApp := some (d.firstApp.getD c1.s.nextApp) } rfl
              (by simpa [upd] using hns1) h
            refine ⟨fun hbf => ?_, hb⟩
            obtain ⟨ht, hd, hn⟩ := hf hbf
            exact ⟨by rw [ht]; simpa [upd] using htx1, hd, hn⟩

/-! ## End of the token hold -/

/-- `do_pass_token` leads back into `UseToken` with a fresh flag only by handing the token to the
station itself — and then the token telegram was transmitted. -/
theorem doPassToken_fresh (c c' : Ctx) (now : Int) (htx : c.tx = none) (h : doPassToken c now = .ok c')
    (hf : flag c'.s.st = false) : c'.tx ≠ none := by
  unfold doPassToken at h
  split at h
  · rename_i doGap att hst
    simp only [sync_stamped] at h
    split at h
    · have h' := Res.ok.inj h
      subst h'
      simp [hst, flag] at hf
    · have hpass : ∀ c2 : Ctx, c2.tx = none → (∃ g a0, c2.s.st = .passToken g a0) →
          passTokenOn c2 now att = .ok c' → c'.tx ≠ none := by
        intro c2 h2 ⟨g, a0, hs2⟩ hp
        rw [passTokenOn_eq c2 now att g a0 hs2 h2] at hp
        have h' := Res.ok.inj hp
        subst h'
        simp
      cases doGap with
      | false =>
        simp only [Bool.false_eq_true, if_false] at h
        exact hpass { c with s := stamped c.s now } htx ⟨false, att, by simpa using hst⟩ h
      | true =>
        simp only [if_true] at h
        cases hga : gapAdvance (stamped c.s now) with
        | none => rw [hga] at h; cases h
        | some g =>
          rw [hga] at h
          simp only [upd] at h
          cases g with
          | waiting r =>
            rw [transmitGapPoll_waiting { c with s := { (stamped c.s now) with gap := .waiting r } } now r rfl] at h
            exact hpass { c with s := { (stamped c.s now) with gap := .waiting r } } htx ⟨true, att, by simpa using hst⟩ h
          | doPoll a =>
            by_cases hne : a = c.s.p.address
            · rw [transmitGapPoll_self { c with s := { (stamped c.s now) with gap := .doPoll a } } now (by simp [hne])] at h
              cases h
            · rw [transmitGapPoll_poll { c with s := { (stamped c.s now) with gap := .doPoll a } } now a rfl hne htx] at h
              simp only [tr, toAwaitStatus, markTx, stamped_st, hst] at h
              have h' := Res.ok.inj h
              subst h'
              simp [flag] at hf
  · cases h

/-- `passNow` (end of the token hold, token passed in the same poll) asks no application; if it ends
in `UseToken` with a fresh flag the token went to the station itself. -/
theorem passNow_visit (c c' : Ctx) (now : Int) (htx : c.tx = none) (h : passNow c now = .ok c') :
    c'.calls = c.calls ∧ (flag c'.s.st = false → c'.tx ≠ none) := by
  unfold passNow at h
  cases htr : tr c (fun s => toPassToken s true .first) "transition_pass_token" with
  | panic m => rw [htr] at h; cases h
  | ok c1 =>
    rw [htr] at h
    simp only [Res.bind] at h
    obtain ⟨s', _, rfl⟩ := tr_cases _ _ _ _ htr
    exact ⟨doPassToken_calls { c with s := s' } now c' h, doPassToken_fresh { c with s := s' } c' now htx h⟩

/-- One message-cycle attempt: a cycle (some application sent) sets the flag and keeps the station
in the visit; otherwise the token hold ends in this poll. -/
theorem useTokenGo_visit (c c' : Ctx) (now : Int) (d : UseData) (hp : Bool) (htx : c.tx = none)
    (hns : hasSend c.calls = false) (h : useTokenGo c now d hp = .ok c') :
    (hasSend c'.calls = true → flag c'.s.st = true ∧ inVisit c'.s.st = true) ∧
    (flag c'.s.st = false → c'.tx ≠ none) := by
  unfold useTokenGo at h
  simp only at h
  cases hA : appsTransmit now hp (upd c fun s => { s with st := .useToken d true }).apps.length
      (upd c fun s => { s with st := .useToken d true }) with
  | mk r b =>
    rw [hA] at h
    cases r with
    | panic m => simp at h
    | ok c1 =>
      have hv := appsTransmit_visit now hp _ _ c1 b d (by simp [upd]) (by simpa [upd] using hns) hA
      cases b with
      | true =>
        simp only [Res.ok.injEq] at h
        subst h
        have := hv.2 rfl
        exact ⟨fun _ => ⟨this.1, this.2.1⟩, fun hf => (by rw [this.1] at hf; cases hf)⟩
      | false =>
        obtain ⟨ht1, _, hn1⟩ := hv.1 rfl
        simp only at h
        have hp1 := passNow_visit c1 c' now (by rw [ht1]; simpa [upd] using htx) h
        exact ⟨fun hs => (by rw [hp1.1, hn1] at hs; cases hs), hp1.2⟩

/-- … or, put as a dichotomy: a message cycle, or the end of the token hold (`passNow`). -/
theorem useTokenGo_cases (c c' : Ctx) (now : Int) (d : UseData) (hp : Bool) (htx : c.tx = none)
    (hns : hasSend c.calls = false) (h : useTokenGo c now d hp = .ok c') :
    (hasSend c'.calls = true ∧ inVisit c'.s.st = true) ∨
    (∃ c1 : Ctx, c1.tx = none ∧ c1.s.p = c.s.p ∧ passNow c1 now = .ok c') := by
  unfold useTokenGo at h
  simp only at h
  cases hA : appsTransmit now hp (upd c fun s => { s with st := .useToken d true }).apps.length
      (upd c fun s => { s with st := .useToken d true }) with
  | mk r b =>
    rw [hA] at h
    cases r with
    | panic m => simp at h
    | ok c1 =>
      have hv := appsTransmit_visit now hp _ _ c1 b d (by simp [upd]) (by simpa [upd] using hns) hA
      have hp1 : c1.s.p = c.s.p := appsTransmit_p now hp _ (upd c fun s => { s with st := .useToken d true }) c1 b hA
      cases b with
      | true =>
        simp only [Res.ok.injEq] at h
        subst h
        have := hv.2 rfl
        exact Or.inl ⟨this.2.2, this.2.1⟩
      | false =>
        obtain ⟨ht1, _, _⟩ := hv.1 rfl
        simp only at h
        exact Or.inr ⟨c1, by rw [ht1]; simpa [upd] using htx, hp1, h⟩

/-! ## The two handlers of a visit -/

theorem ite_ok {p : Prop} [Decidable p] {a b c' : Ctx} (h : (if p then Res.ok a else Res.ok b) = .ok c') :
    c' = a ∨ c' = b := by
  split at h
  · exact Or.inl (Res.ok.inj h).symm
  · exact Or.inr (Res.ok.inj h).symm

/-- `do_use_token`: a message cycle sets the flag and is not a cycle "at or after the deadline with
the flag already set"; with the flag set, the flag is fresh afterwards only if the token was handed
on to the station itself in this poll. -/
theorem doUseToken_visit (c c' : Ctx) (now : Int) (d : UseData) (fcd : Bool)
    (hst : c.s.st = .useToken d fcd) (htx : c.tx = none) (hns : hasSend c.calls = false)
    (h : doUseToken c now = .ok c') :
    (hasSend c'.calls = true → flag c'.s.st = true ∧ inVisit c'.s.st = true ∧ ¬ (deadline c.s ≤ now ∧ fcd = true)) ∧
    (fcd = true → flag c'.s.st = false → c'.tx ≠ none) := by
  have hdl : deadline c.s = (holdUpdate c.s d).endTokenHoldTime := by simp [deadline, hst]
  unfold doUseToken at h
  rw [hst] at h
  simp only [sync_stamped, stamped_endTokenHoldTime] at h
  split at h
  · -- waiting for the synchronisation pause
    simp only [Res.ok.injEq] at h
    subst h
    exact ⟨fun hs => (by rw [hns] at hs; cases hs),
      fun hf hff => (by simp [holdUpdate_st, hst, flag, hf] at hff)⟩
  · split at h
    · rename_i hlt
      have := useTokenGo_visit { c with s := stamped (holdUpdate c.s d) now } c' now d false htx hns h
      exact ⟨fun hs => ⟨(this.1 hs).1, (this.1 hs).2, fun hh => (by rw [hdl] at hh; omega)⟩, fun _ => this.2⟩
    · split at h
      · rename_i hf
        have := useTokenGo_visit { c with s := stamped (holdUpdate c.s d) now } c' now d true htx hns h
        refine ⟨fun hs => ⟨(this.1 hs).1, (this.1 hs).2, fun hh => ?_⟩, fun _ => this.2⟩
        rw [hh.2] at hf
        simp at hf
      · have := passNow_visit { c with s := stamped (holdUpdate c.s d) now } c' now htx h
        exact ⟨fun hs => (by rw [this.1] at hs; simp [hns] at hs), fun _ => this.2⟩

theorem doUseToken_cases (c c' : Ctx) (now : Int) (d : UseData) (fcd : Bool)
    (hst : c.s.st = .useToken d fcd) (htx : c.tx = none) (hns : hasSend c.calls = false)
    (h : doUseToken c now = .ok c') :
    c'.tx = none ∨ (hasSend c'.calls = true ∧ inVisit c'.s.st = true) ∨
    (∃ c1 : Ctx, c1.tx = none ∧ c1.s.p = c.s.p ∧ passNow c1 now = .ok c') := by
  have hp0 : (stamped (holdUpdate c.s d) now).p = c.s.p := (holdUpdate_keeps c.s d).2
  unfold doUseToken at h
  rw [hst] at h
  simp only [sync_stamped, stamped_endTokenHoldTime] at h
  split at h
  · simp only [Res.ok.injEq] at h
    subst h
    exact Or.inl htx
  · split at h
    · rcases useTokenGo_cases { c with s := stamped (holdUpdate c.s d) now } c' now d false htx hns h with h1 | ⟨c1, h1, h2, h3⟩
      · exact Or.inr (Or.inl h1)
      · exact Or.inr (Or.inr ⟨c1, h1, h2.trans hp0, h3⟩)
    · split at h
      · rcases useTokenGo_cases { c with s := stamped (holdUpdate c.s d) now } c' now d true htx hns h with h1 | ⟨c1, h1, h2, h3⟩
        · exact Or.inr (Or.inl h1)
        · exact Or.inr (Or.inr ⟨c1, h1, h2.trans hp0, h3⟩)
      · exact Or.inr (Or.inr ⟨{ c with s := stamped (holdUpdate c.s d) now }, htx, hp0, h⟩)

/-- `do_await_data_response`: the same (the flag is set while a reply is awaited). -/
theorem doAwaitData_visit (c c' : Ctx) (now : Int) (addr : Nat) (d : UseData)
    (hst : c.s.st = .awaitData addr d) (htx : c.tx = none) (hns : hasSend c.calls = false)
    (h : doAwaitDataResponse c now = .ok c') :
    (hasSend c'.calls = true → flag c'.s.st = true ∧ inVisit c'.s.st = true ∧ ¬ deadline c.s ≤ now) ∧
    (flag c'.s.st = false → c'.tx ≠ none) := by
  have hdl : deadline c.s = (holdUpdate c.s d).endTokenHoldTime := by simp [deadline, hst]
  unfold doAwaitDataResponse at h
  rw [hst] at h
  simp only at h
  split at h
  · cases h
  · cases hrx : receiveTelegram c.rx with
    | panic => rw [hrx] at h; cases h
    | hang => rw [hrx] at h; cases h
    | done rx' calls ret =>
      rw [hrx] at h
      cases calls with
      | cons tl rest =>
        have hs1 : (markRx c.s now).st = .awaitData addr d := by simpa [markRx, markBusActivity] using hst
        have e1 : hasSend (c.calls ++ [AppCall.reply c.s.nextApp addr tl.1]) = false := hasSend_snoc _ _ rfl hns
        simp only [tr, toUseToken, toActiveIdle, hs1, Res.bind, upd] at h
        repeat' split at h
        all_goals first
          | (have h' := Res.ok.inj h
             subst h'
             exact ⟨fun hs => (by simp [e1, hns] at hs), fun hf => (by simp [flag] at hf)⟩)
          | (rcases ite_ok h with h' | h' <;>
              (subst h'
               exact ⟨fun hs => (by simp [e1, hns] at hs), fun hf => (by simp [flag] at hf)⟩))
      | nil =>
        simp only [slot_stamped] at h
        split at h
        · -- time-out: back to UseToken (flag set) and on with `do_use_token` in the same poll
          simp only [tr, toUseToken, stamped_st, hst, Res.bind, upd] at h
          obtain ⟨c2, hc2⟩ : ∃ c2 : Ctx, c2 = { c with
              rx := rx',
              calls := c.calls ++ [.timeout c.s.nextApp addr],
              s := { (stamped c.s now) with st := .useToken d true } } := ⟨_, rfl⟩
          have h' : doUseToken c2 now = .ok c' := by rw [hc2]; exact h
          have hv := doUseToken_visit c2 c' now d true (by rw [hc2]) (by rw [hc2]; exact htx)
            (by rw [hc2]; exact hasSend_snoc _ _ rfl hns) h'
          have hdl2 : deadline c2.s = deadline c.s := by
            rw [hdl, hc2]
            simp only [deadline]
            exact holdUpdate_end_congr c.s _ d rfl rfl rfl rfl
          refine ⟨fun hs => ⟨(hv.1 hs).1, (hv.1 hs).2.1, fun hle => ?_⟩, hv.2 rfl⟩
          exact (hv.1 hs).2.2 ⟨by rw [hdl2]; exact hle, rfl⟩
        · simp only [Res.ok.injEq] at h
          subst h
          exact ⟨fun hs => (by rw [hns] at hs; cases hs), fun hf => (by simp [hst, flag] at hf)⟩

theorem doAwaitData_cases (c c' : Ctx) (now : Int) (addr : Nat) (d : UseData)
    (hst : c.s.st = .awaitData addr d) (htx : c.tx = none) (hns : hasSend c.calls = false)
    (h : doAwaitDataResponse c now = .ok c') :
    c'.tx = none ∨ (hasSend c'.calls = true ∧ inVisit c'.s.st = true) ∨
    (∃ c1 : Ctx, c1.tx = none ∧ c1.s.p = c.s.p ∧ passNow c1 now = .ok c') := by
  unfold doAwaitDataResponse at h
  rw [hst] at h
  simp only at h
  split at h
  · cases h
  · cases hrx : receiveTelegram c.rx with
    | panic => rw [hrx] at h; cases h
    | hang => rw [hrx] at h; cases h
    | done rx' calls ret =>
      rw [hrx] at h
      cases calls with
      | cons tl rest =>
        have hs1 : (markRx c.s now).st = .awaitData addr d := by simpa [markRx, markBusActivity] using hst
        simp only [tr, toUseToken, toActiveIdle, hs1, Res.bind, upd] at h
        repeat' split at h
        all_goals first
          | (have h' := Res.ok.inj h
             subst h'
             exact Or.inl htx)
          | (rcases ite_ok h with h' | h' <;>
              (subst h'
               exact Or.inl htx))
      | nil =>
        simp only [slot_stamped] at h
        split at h
        · simp only [tr, toUseToken, stamped_st, hst, Res.bind, upd] at h
          obtain ⟨c2, hc2⟩ : ∃ c2 : Ctx, c2 = { c with
              rx := rx',
              calls := c.calls ++ [.timeout c.s.nextApp addr],
              s := { (stamped c.s now) with st := .useToken d true } } := ⟨_, rfl⟩
          have h' : doUseToken c2 now = .ok c' := by rw [hc2]; exact h
          have hp2 : c2.s.p = c.s.p := by rw [hc2]; rfl
          rcases doUseToken_cases c2 c' now d true (by rw [hc2]) (by rw [hc2]; exact htx)
            (by rw [hc2]; exact hasSend_snoc _ _ rfl hns) h' with h1 | h1 | ⟨c1, h1, h2, h3⟩
          · exact Or.inl h1
          · exact Or.inr (Or.inl h1)
          · exact Or.inr (Or.inr ⟨c1, h1, h2.trans hp2, h3⟩)
        · simp only [Res.ok.injEq] at h
          subst h
          exact Or.inl htx

/-! ## One whole poll inside a visit -/

theorem checkBusActivity_core (s : Station) (now : Int) (n : Nat) :
    (checkBusActivity s now n).st = s.st ∧ (checkBusActivity s now n).lastTokenTime = s.lastTokenTime ∧
    (checkBusActivity s now n).endTokenHoldTime = s.endTokenHoldTime ∧ (checkBusActivity s now n).p = s.p ∧
    (checkBusActivity s now n).gap = s.gap := by
  unfold checkBusActivity
  split <;> simp [markBusActivity]

theorem deadline_congr (s s' : Station) (h0 : s'.st = s.st) (h1 : s'.lastTokenTime = s.lastTokenTime)
    (h2 : s'.endTokenHoldTime = s.endTokenHoldTime) (h3 : s'.p = s.p) (h4 : s'.gap = s.gap) :
    deadline s' = deadline s := by
  unfold deadline
  rw [h0]
  split
  · exact holdUpdate_end_congr s s' _ h1 h2 h3 h4
  · exact holdUpdate_end_congr s s' _ h1 h2 h3 h4
  · exact h2

/-- **One poll of a visit** (`Station.poll` in `UseToken` / `AwaitDataResponse`): a poll that starts
a message cycle sets the `first_cycle_done` flag, keeps the station in the visit, and is not a poll
at or after the deadline with the flag already set; and once set, the flag is fresh again only after
a poll that handed the token on (to the station itself). -/
theorem poll_visit (s : Station) (apps : Apps) (now : Int) (phyTx : Bool) (rx : Bytes) (c' : Ctx)
    (hin : inVisit s.st = true) (h : s.poll apps now phyTx rx = .ok c') :
    (hasSend c'.calls = true →
      flag c'.s.st = true ∧ inVisit c'.s.st = true ∧ ¬ (deadline s ≤ now ∧ flag s.st = true)) ∧
    (flag s.st = true → flag c'.s.st = false → c'.tx ≠ none) := by
  have h1 : s.st ≠ .offline := by intro hh; rw [hh] at hin; simp [inVisit] at hin
  have h2 : s.st ≠ .passiveIdle := by intro hh; rw [hh] at hin; simp [inVisit] at hin
  rcases poll_cases s apps now phyTx rx c' h1 h2 h with rfl | hd
  · exact ⟨fun hs => (by simp [hasSend] at hs), fun hf hff => (by simp [markBusActivity, hf] at hff)⟩
  · have hc := checkBusActivity_core s now rx.length
    obtain ⟨s1, hs1⟩ : ∃ s1, checkBusActivity s now rx.length = s1 := ⟨_, rfl⟩
    rw [hs1] at hd hc
    have hdl : deadline s1 = deadline s := deadline_congr s s1 hc.1 hc.2.1 hc.2.2.1 hc.2.2.2.1 hc.2.2.2.2
    unfold dispatch at hd
    cases hst : s.st with
    | useToken d fcd =>
      have hst1 : s1.st = .useToken d fcd := by rw [hc.1]; exact hst
      simp only [hst1] at hd
      have hv := doUseToken_visit { s := s1, apps := apps, rx := rx } c' now d fcd hst1 rfl rfl hd
      simp only [flag, hdl] at hv ⊢
      exact hv
    | awaitData a d =>
      have hst1 : s1.st = .awaitData a d := by rw [hc.1]; exact hst
      simp only [hst1] at hd
      have hv := doAwaitData_visit { s := s1, apps := apps, rx := rx } c' now a d hst1 rfl rfl hd
      simp only [hdl] at hv
      exact ⟨fun hs => ⟨(hv.1 hs).1, (hv.1 hs).2.1, fun hh => (hv.1 hs).2.2 hh.1⟩, fun _ => hv.2⟩
    | _ => rw [hst] at hin; simp [inVisit] at hin

/-- What a poll of a visit does on the bus: nothing; a message cycle of an application; or the end of
the token hold (`passNow`: GAP maintenance and/or the token pass, in the same poll). -/
theorem poll_visit_cases (s : Station) (apps : Apps) (now : Int) (phyTx : Bool) (rx : Bytes) (c' : Ctx)
    (hin : inVisit s.st = true) (h : s.poll apps now phyTx rx = .ok c') :
    c'.tx = none ∨ (hasSend c'.calls = true ∧ inVisit c'.s.st = true) ∨
    (∃ c1 : Ctx, c1.tx = none ∧ c1.s.p = s.p ∧ passNow c1 now = .ok c') := by
  have h1 : s.st ≠ .offline := by intro hh; rw [hh] at hin; simp [inVisit] at hin
  have h2 : s.st ≠ .passiveIdle := by intro hh; rw [hh] at hin; simp [inVisit] at hin
  rcases poll_cases s apps now phyTx rx c' h1 h2 h with rfl | hd
  · exact Or.inl rfl
  · have hc := checkBusActivity_core s now rx.length
    obtain ⟨s1, hs1⟩ : ∃ s1, checkBusActivity s now rx.length = s1 := ⟨_, rfl⟩
    rw [hs1] at hd hc
    unfold dispatch at hd
    cases hst : s.st with
    | useToken d fcd =>
      have hst1 : s1.st = .useToken d fcd := by rw [hc.1]; exact hst
      simp only [hst1] at hd
      rcases doUseToken_cases { s := s1, apps := apps, rx := rx } c' now d fcd hst1 rfl rfl hd with h1 | h1 | ⟨c1, h1, h2, h3⟩
      · exact Or.inl h1
      · exact Or.inr (Or.inl h1)
      · exact Or.inr (Or.inr ⟨c1, h1, h2.trans hc.2.2.2.1, h3⟩)
    | awaitData a d =>
      have hst1 : s1.st = .awaitData a d := by rw [hc.1]; exact hst
      simp only [hst1] at hd
      rcases doAwaitData_cases { s := s1, apps := apps, rx := rx } c' now a d hst1 rfl rfl hd with h1 | h1 | ⟨c1, h1, h2, h3⟩
      · exact Or.inl h1
      · exact Or.inr (Or.inl h1)
      · exact Or.inr (Or.inr ⟨c1, h1, h2.trans hc.2.2.2.1, h3⟩)
    | _ => rw [hst] at hin; simp [inVisit] at hin

/-! ## A whole visit -/

/-- Number of message cycles started at or after the hold-time deadline during the polls of ONE token
visit: `ins` lists the successive `poll` calls (time, PHY-still-transmitting flag, receive buffer).
A poll starts a message cycle iff an application's `transmit_telegram` returns a telegram in it
(`hasSend`).  Counting ends with the poll in which the visit ends: the station leaves `UseToken` /
`AwaitDataResponse`, or — alone in the ring — hands the token to itself (then it is in `UseToken`
again with a fresh flag, and the telegram of that poll was the token).  `none` = a poll panicked. -/
def lateCycles (s : Station) (apps : Apps) : List (Int × Bool × Bytes) → Option Nat
  | [] => some 0
  | (now, phyTx, rx) :: rest =>
    if inVisit s.st = false then some 0 else
    match s.poll apps now phyTx rx with
    | .panic _ => none
    | .ok c' =>
      let k := if deadline s ≤ now ∧ hasSend c'.calls = true then 1 else 0
      if inVisit c'.s.st = false ∨ (flag c'.s.st = false ∧ c'.tx ≠ none) then some k
      else (lateCycles c'.s c'.apps rest).map (· + k)

theorem lateCycles_flag : ∀ (ins : List (Int × Bool × Bytes)) (s : Station) (apps : Apps) (n : Nat),
    lateCycles s apps ins = some n → n + (flag s.st).toNat ≤ 1 := by
  intro ins
  induction ins with
  | nil =>
    intro s apps n h
    simp only [lateCycles, Option.some.injEq] at h
    subst h
    cases flag s.st <;> simp
  | cons x rest ih =>
    intro s apps n h
    obtain ⟨now, phyTx, rx⟩ := x
    simp only [lateCycles] at h
    split at h
    · simp only [Option.some.injEq] at h
      subst h
      cases flag s.st <;> simp
    · rename_i hin
      have hin' : inVisit s.st = true := by simpa using hin
      cases hp : s.poll apps now phyTx rx with
      | panic m => rw [hp] at h; cases h
      | ok c' =>
        rw [hp] at h
        simp only at h
        have hv := poll_visit s apps now phyTx rx c' hin' hp
        -- a late cycle needs the flag to be fresh
        have hk : (if deadline s ≤ now ∧ hasSend c'.calls = true then 1 else 0) + (flag s.st).toNat ≤ 1 := by
          split
          · rename_i hlate
            have := (hv.1 hlate.2).2.2
            cases hfs : flag s.st with
            | false => simp
            | true => exact absurd ⟨hlate.1, hfs⟩ this
          · cases flag s.st <;> simp
        split at h
        · simp only [Option.some.injEq] at h
          subst h
          exact hk
        · rename_i hcont
          simp only [Option.map_eq_some_iff] at h
          obtain ⟨m, hm, rfl⟩ := h
          have hrec := ih c'.s c'.apps m hm
          split
          · rename_i hlate
            have hfc := (hv.1 hlate.2).1
            have hfs : flag s.st = false := by
              cases hfs : flag s.st with
              | false => rfl
              | true => exact absurd ⟨hlate.1, hfs⟩ (hv.1 hlate.2).2.2
            rw [hfc] at hrec
            rw [hfs]
            simp at hrec ⊢
            omega
          · cases hfs : flag s.st with
            | false => simp; cases hfc : flag c'.s.st <;> simp [hfc] at hrec <;> omega
            | true =>
              have hfc : flag c'.s.st = true := by
                cases hfc : flag c'.s.st with
                | true => rfl
                | false => exact absurd (Or.inr ⟨hfc, hv.2 hfs hfc⟩) hcont
              rw [hfc] at hrec
              simp at hrec ⊢
              omega

end StationVisit
end PV
