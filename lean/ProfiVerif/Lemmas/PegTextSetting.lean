/-
The PEG on canonical text, `setting` level: number lists, setting values, settings (unindexed and
indexed), and what `setting?` makes of the resulting pair.
-/
import ProfiVerif.Lemmas.PegText

namespace PV.Gsd.Peg

theorem mk_pos {r : Str} {p q : Nat} {o : List Pair} (h : p = q) : mk r p o = mk r q o := by rw [h]

/-! ### Canonical tokens -/

def numText : NumTok → Str
  | .dec t => t
  | .hex t => t

/-- Canonical number tokens: decimal, no fraction. -/
def NumCanon : NumTok → Prop
  | .dec t => DecText t
  | .hex _ => False

def numPair (n : NumTok) : Pair := .node .dec_number (numText n) []

theorem numTok_numPair {n : NumTok} (h : NumCanon n) : numTok? (numPair n) = some n := by
  cases n with
  | dec t => rfl
  | hex t => exact h.elim

theorem DecText.head {t : Str} (h : DecText t) : ∃ c r, t = c :: r ∧ (IsDigit c ∨ c = '-') := by
  obtain ⟨d, ds, ht, hd⟩ := h
  rcases ht with rfl | rfl
  · exact ⟨d, ds, rfl, .inl (hd d (List.mem_cons_self ..))⟩
  · exact ⟨'-', d :: ds, rfl, .inr rfl⟩

theorem digit_cases {c : Char} (h : IsDigit c ∨ c = '-') :
    NoSkipChar c ∧ c ≠ '"' ∧ c ≠ ',' ∧ c ≠ '(' ∧ c ≠ '=' ∧ c ≠ '\n' ∧ c ≠ '\r' := by
  rcases h with h | rfl
  · unfold IsDigit at h
    refine ⟨⟨?_, ?_, ?_, ?_⟩, ?_, ?_, ?_, ?_, ?_, ?_⟩ <;> (intro e; subst e; revert h; decide)
  · unfold NoSkipChar; decide

theorem head_of_dec {P : Char → Prop} {t tail : Str} (h : DecText t) (hp : ∀ c, IsDigit c ∨ c = '-' → P c) :
    Head P (t ++ tail) := by
  obtain ⟨c, r, rfl, hc⟩ := h.head
  exact hp c hc

/-! ### `number_list` -/

/-- `,t1,t2…` -/
def commaNums : List NumTok → Str
  | [] => []
  | n :: ns => ',' :: (numText n ++ commaNums ns)

def listItemE : Expr :=
  .choice (.seq (.str [',']) (.call .number))
    (.choice (.seq (.str ['\\']) .newline)
      (.seq (.str [',']) (.seq (.str ['\\']) (.seq .newline (.call .number)))))

/-- What may follow a value (number, list) of a setting. -/
def ValStop (c : Char) : Prop := NumStop c ∧ c ≠ ',' ∧ c ≠ '@' ∧ NoSkipChar c

theorem listItem_fail {tail : Str} (hs : Head ValStop tail) (p : Nat) (o : List Pair) :
    Ev false listItemE (mk tail p o) .fail := by
  have hc : matchStr [','] tail = none := matchStr_single_none (hs.mono fun c hc => hc.2.1)
  have hb : matchStr ['\\'] tail = none := matchStr_single_none (hs.mono fun c hc => hc.2.2.2.2.2.1)
  exact Ev.choice_r (Ev.seq_fail (Ev.str_fail hc)) (Ev.choice_r (Ev.seq_fail (Ev.str_fail hb)) (Ev.seq_fail (Ev.str_fail hc)))

instance (c : Char) : Decidable (NumStop c) := by unfold NumStop; infer_instance
instance (c : Char) : Decidable (NoSkipChar c) := by unfold NoSkipChar; infer_instance
instance (c : Char) : Decidable (ValStop c) := by unfold ValStop; infer_instance

theorem numStop_comma : NumStop ',' := by decide
theorem noSkip_comma : NoSkipChar ',' := by decide

/-- One `,t` item followed by `rest` (which starts with `,` or stops the list). -/
theorem listItem_ok {n : NumTok} (hn : NumCanon n) {rest : Str} (hr : Head NumStop rest) (p : Nat) (o : List Pair) :
    Ev false listItemE (mk (',' :: (numText n ++ rest)) p o)
      (.ok (mk rest (p + ((numText n).length + 1)) (numPair n :: o))) := by
  cases n with
  | hex t => exact hn.elim
  | dec t =>
    have hn : DecText t := hn
    refine Ev.choice_l (Ev.seq (Ev.str_ok (l := [',']) matchStr_single_some)
      (sk_none (head_of_dec hn fun c hc => (digit_cases hc).1)) ?_)
    have := number_ok hn hr (p + 1) o
    rw [mk_pos (show p + 1 + t.length = p + (t.length + 1) by omega)] at this
    simpa only [numText, numPair, mk, List.length_singleton] using this

theorem head_commaNums_or {P : Char → Prop} (ns : List NumTok) {tail : Str} (hc : P ',') (ht : Head P tail) :
    Head P (commaNums ns ++ tail) := by
  cases ns with
  | nil => exact ht
  | cons n ns => exact hc

theorem lp_list : ∀ (ns : List NumTok) (tail : Str) (p : Nat) (o : List Pair), (∀ n ∈ ns, NumCanon n) →
    Head ValStop tail →
    Lp false listItemE (mk (commaNums ns ++ tail) p o)
      (.ok (mk tail (p + (commaNums ns).length) ((ns.map numPair).reverse ++ o)))
  | [], tail, p, o, _, hs => Lp.stop (sk_none (hs.mono fun c hc => hc.2.2.2)) (listItem_fail hs p o)
  | n :: ns, tail, p, o, hn, hs => by
    have hrest : Head NumStop (commaNums ns ++ tail) := head_commaNums_or ns numStop_comma (hs.mono fun c hc => hc.1)
    have h1 := listItem_ok (hn n (List.mem_cons_self ..)) hrest p o
    have ih := lp_list ns tail (p + ((numText n).length + 1)) (numPair n :: o)
      (fun m hm => hn m (List.mem_cons_of_mem _ hm)) hs
    have e : p + ((numText n).length + 1) + (commaNums ns).length = p + (commaNums (n :: ns)).length := by
      simp only [commaNums, List.length_cons, List.length_append]; omega
    rw [mk_pos e] at ih
    have eo : (ns.map numPair).reverse ++ numPair n :: o = ((n :: ns).map numPair).reverse ++ o := by simp
    rw [eo] at ih
    refine Lp.step (sk_none noSkip_comma) ?_ ih
    simpa only [commaNums, List.cons_append, List.append_assoc] using h1

/-- Text of a number list with at least one element. -/
def listText (n : NumTok) (ns : List NumTok) : Str := numText n ++ commaNums ns

theorem listBody_ok (n : NumTok) (ns : List NumTok) (tail : Str) (p : Nat) (hn : ∀ m ∈ n :: ns, NumCanon m)
    (hs : Head ValStop tail) :
    Ev false (ruleDef .number_list).2 (mk (listText n ns ++ tail) p [])
      (.ok (mk tail (p + (listText n ns).length) ((n :: ns).map numPair).reverse)) := by
  show Ev false (.seq (.call .number) (.star listItemE)) _ _
  have hn0 := hn n (List.mem_cons_self ..)
  cases n with
  | hex t => exact hn0.elim
  | dec t =>
    have hrest : Head NumStop (commaNums ns ++ tail) := head_commaNums_or ns numStop_comma (hs.mono fun c hc => hc.1)
    have h1 := number_ok (t := t) hn0 hrest p []
    have hsk : Sk false (mk (commaNums ns ++ tail) (p + t.length) [numPair (.dec t)]) (.ok (mk (commaNums ns ++ tail) (p + t.length) [numPair (.dec t)])) :=
      sk_none (head_commaNums_or ns noSkip_comma (hs.mono fun c hc => hc.2.2.2))
    have hstar : Ev false (.star listItemE) (mk (commaNums ns ++ tail) (p + t.length) [numPair (.dec t)])
        (.ok (mk tail (p + (listText (.dec t) ns).length) ((NumTok.dec t :: ns).map numPair).reverse)) := by
      cases ns with
      | nil =>
        have := Ev.star_nil (listItem_fail hs (p + t.length) [numPair (.dec t)])
        simpa [listText, commaNums, numText] using this
      | cons m ms =>
        have hm := hn m (by simp)
        have hrest2 : Head NumStop (commaNums ms ++ tail) := head_commaNums_or ms numStop_comma (hs.mono fun c hc => hc.1)
        have h2 := listItem_ok hm hrest2 (p + t.length) [numPair (.dec t)]
        have h3 := lp_list ms tail (p + t.length + ((numText m).length + 1)) (numPair m :: [numPair (.dec t)])
          (fun k hk => hn k (by simp [hk])) hs
        have e : p + t.length + ((numText m).length + 1) + (commaNums ms).length = p + (listText (.dec t) (m :: ms)).length := by
          simp only [listText, commaNums, numText, List.length_cons, List.length_append]; omega
        rw [mk_pos e] at h3
        have eo : (ms.map numPair).reverse ++ [numPair m, numPair (.dec t)] = ((NumTok.dec t :: m :: ms).map numPair).reverse := by simp
        rw [eo] at h3
        refine Ev.star_cons ?_ h3
        simpa only [commaNums, List.cons_append, List.append_assoc] using h2
    refine Ev.seq ?_ hsk hstar
    simpa only [listText, numText, numPair, List.append_assoc] using h1

def listPair (n : NumTok) (ns : List NumTok) : Pair := .node .number_list (listText n ns) ((n :: ns).map numPair)

theorem numberList_ok (n : NumTok) (ns : List NumTok) (tail : Str) (p : Nat) (o : List Pair)
    (hn : ∀ m ∈ n :: ns, NumCanon m) (hs : Head ValStop tail) :
    Ev false (.call .number_list) (mk (listText n ns ++ tail) p o)
      (.ok (mk tail (p + (listText n ns).length) (listPair n ns :: o))) := by
  have := Ev.call_node (q := .number_list) (ty := .normal) (st := mk (listText n ns ++ tail) p o) rfl (by decide)
    (listBody_ok n ns tail p hn hs)
  simpa only [mk, take_token (listText n ns) tail p, List.reverse_reverse, listPair] using this

/-! ### Setting values -/

def StrCanon (raw : Str) : Prop := ∃ s, raw = '"' :: (s ++ ['"']) ∧ ∀ c ∈ s, c ≠ '"'

/-- Canonical values: a string literal, a decimal number, a list of at least two decimal numbers
(a one-element list is written — and read back — as a number). -/
def ValueCanon : Value → Prop
  | .str raw => StrCanon raw
  | .num n => NumCanon n
  | .list ns => 2 ≤ ns.length ∧ ∀ n ∈ ns, NumCanon n
  | .family _ => False

def valueText : Value → Str
  | .str raw => raw
  | .num n => numText n
  | .list [] => []
  | .list (n :: ns) => listText n ns
  | .family raw => raw

def valuePair : Value → Pair
  | .str raw => .node .string_literal raw []
  | .num n => numPair n
  | .list [] => .node .number_list [] []
  | .list (n :: ns) => listPair n ns
  | .family raw => .node .family_ident raw []

theorem numToks_numPairs : ∀ {ns : List NumTok}, (∀ n ∈ ns, NumCanon n) → numToks? (ns.map numPair) = some ns
  | [], _ => rfl
  | n :: ns, h => by
    simp [numToks?, numTok_numPair (h n (List.mem_cons_self ..)),
      numToks_numPairs (ns := ns) (fun m hm => h m (List.mem_cons_of_mem _ hm))]

theorem value_valuePair {v : Value} (hv : ValueCanon v) : value? (valuePair v) = some v := by
  cases v with
  | str raw => rfl
  | num n =>
    cases n with
    | dec t => rfl
    | hex t => exact hv.elim
  | list ns =>
    cases ns with
    | nil => exact absurd hv.1 (by simp)
    | cons n ns =>
      have := numToks_numPairs hv.2
      simp only [List.map_cons] at this
      simp [valuePair, listPair, value?, Pair.rule, Pair.children, this]
  | family raw => exact hv.elim

def valueE : Expr := .call .setting_value

theorem valStop_numStop {tail : Str} (h : Head ValStop tail) : Head NumStop tail := h.mono fun _ hc => hc.1
theorem valStop_noSkip {tail : Str} (h : Head ValStop tail) : Head NoSkipChar tail := h.mono fun _ hc => hc.2.2.2

theorem value_ok (v : Value) (hv : ValueCanon v) (tail : Str) (hs : Head ValStop tail) (p : Nat) (o : List Pair) :
    Ev false valueE (mk (valueText v ++ tail) p o) (.ok (mk tail (p + (valueText v).length) (valuePair v :: o))) := by
  refine Ev.call_silent rfl ?_
  show Ev false (.choice (.call .string_literal)
    (.choice (.seq (.ppred (.seq (.call .number) (.str [',']))) (.call .number_list))
      (.choice (.seq (.ppred (.seq (.call .number) (.str ['@']))) (.call .family_ident)) (.call .number)))) _ _
  cases v with
  | family raw => exact hv.elim
  | str raw =>
    obtain ⟨s, rfl, hs'⟩ := hv
    have := string_ok s tail hs' p o
    refine Ev.choice_l ?_
    simpa [valueText, valuePair, Nat.add_assoc] using this
  | num n =>
    cases n with
    | hex t => exact hv.elim
    | dec t =>
      have ht : DecText t := hv
      have hnum := number_ok ht (valStop_numStop hs) p o
      have hsk : Sk false (mk tail (p + t.length) (.node .dec_number t [] :: o)) (.ok (mk tail (p + t.length) (.node .dec_number t [] :: o))) :=
        sk_none (valStop_noSkip hs)
      refine Ev.choice_r (string_fail _ p o (head_of_dec ht fun c hc => (digit_cases hc).2.1)) ?_
      refine Ev.choice_r (Ev.seq_fail (Ev.ppred_fail (Ev.seq hnum hsk
        (Ev.str_fail (matchStr_single_none (hs.mono fun c hc => hc.2.1)))))) ?_
      refine Ev.choice_r (Ev.seq_fail (Ev.ppred_fail (Ev.seq hnum hsk
        (Ev.str_fail (matchStr_single_none (hs.mono fun c hc => hc.2.2.1)))))) ?_
      exact hnum
  | list ns =>
    obtain ⟨hlen, hns⟩ := hv
    match ns, hlen, hns with
    | n :: m :: ms, _, hns =>
      have hn := hns n (by simp)
      cases n with
      | hex t => exact hn.elim
      | dec t =>
        have ht : DecText t := hn
        have hhead : Head NoSkipChar (listText (.dec t) (m :: ms) ++ tail) := by
          simpa only [listText, numText, List.append_assoc] using
            head_of_dec (tail := commaNums (m :: ms) ++ tail) ht fun c hc => (digit_cases hc).1
        refine Ev.choice_r (string_fail _ p o ?_) ?_
        · simpa only [valueText, listText, numText, List.append_assoc] using
            head_of_dec (tail := commaNums (m :: ms) ++ tail) ht fun c hc => (digit_cases hc).2.1
        refine Ev.choice_l ?_
        have hnum := number_ok (t := t) (tail := commaNums (m :: ms) ++ tail) ht numStop_comma p o
        have hpp : Ev false (.ppred (.seq (.call .number) (.str [',']))) (mk (listText (.dec t) (m :: ms) ++ tail) p o)
            (.ok (mk (listText (.dec t) (m :: ms) ++ tail) p o)) := by
          have hsk : Sk false (mk (commaNums (m :: ms) ++ tail) (p + t.length) (.node .dec_number t [] :: o))
              (.ok (mk (commaNums (m :: ms) ++ tail) (p + t.length) (.node .dec_number t [] :: o))) :=
            sk_none (show Head NoSkipChar (',' :: _) from noSkip_comma)
          have hcomma : Ev false (.str [',']) (mk (commaNums (m :: ms) ++ tail) (p + t.length) (.node .dec_number t [] :: o))
              (.ok (mk (numText m ++ commaNums ms ++ tail) (p + t.length + 1) (.node .dec_number t [] :: o))) :=
            Ev.str_ok (l := [',']) (show matchStr [','] (',' :: _) = _ from matchStr_single_some)
          refine Ev.ppred_ok (Ev.seq ?_ hsk hcomma)
          simpa only [listText, numText, List.append_assoc] using hnum
        exact Ev.seq hpp (sk_none hhead) (numberList_ok (.dec t) (m :: ms) tail p o hns hs)

/-! ### Settings -/

def idxText : Option NumTok → Str
  | none => []
  | some n => '(' :: (numText n ++ [')'])

def idxPairs : Option NumTok → List Pair
  | none => []
  | some n => [numPair n]

/-- `key`, `key(idx)` followed by `=value`. -/
def settingText (s : Setting) : Str := s.key ++ (idxText s.index ++ '=' :: valueText s.value)

def settingPair (s : Setting) : Pair :=
  .node .setting (settingText s) (.node .identifier s.key [] :: (idxPairs s.index ++ [valuePair s.value]))

def KeyChars (key : Str) : Prop := ∃ c w, key = c :: w ∧ ∀ d ∈ c :: w, IsIdChar d

def SettingCanon (s : Setting) : Prop :=
  KeyChars s.key ∧ (∀ n, s.index = some n → NumCanon n) ∧ ValueCanon s.value

theorem setting_settingPair {s : Setting} (hs : SettingCanon s) : setting? (settingPair s) = some s := by
  obtain ⟨_, hi, hv⟩ := hs
  obtain ⟨key, index, value⟩ := s
  cases index with
  | none => simp [settingPair, setting?, idxPairs, Pair.children, Pair.rule, Pair.text, value_valuePair hv]
  | some n =>
    have hn := hi n rfl
    simp [settingPair, setting?, idxPairs, Pair.children, Pair.rule, Pair.text, value_valuePair hv, numTok_numPair hn]

theorem setting_ok (s : Setting) (hs : SettingCanon s) (tail : Str) (ht : Head ValStop tail) (p : Nat) (o : List Pair) :
    Ev false (.call .setting) (mk (settingText s ++ tail) p o)
      (.ok (mk tail (p + (settingText s).length) (settingPair s :: o))) := by
  obtain ⟨⟨c, w, hkey, hw⟩, hi, hv⟩ := hs
  obtain ⟨key, index, value⟩ := s
  simp only at hkey hi hv
  subst hkey
  -- the body, from an empty output
  have body : Ev false (ruleDef .setting).2 (mk (settingText ⟨c :: w, index, value⟩ ++ tail) p [])
      (.ok (mk tail (p + (settingText ⟨c :: w, index, value⟩).length)
        ((.node .identifier (c :: w) [] :: (idxPairs index ++ [valuePair value])).reverse))) := by
    show Ev false (.seq (.call .identifier) (.seq (.opt (.seq (.str ['(']) (.seq (.call .number) (.str [')']))))
      (.seq (.str ['=']) (.call .setting_value)))) _ _
    have hval : ∀ q o', Ev false (.seq (.str ['=']) (.call .setting_value)) (mk ('=' :: (valueText value ++ tail)) q o')
        (.ok (mk tail (q + ((valueText value).length + 1)) (valuePair value :: o'))) := by
      intro q o'
      have hv' := value_ok value hv tail ht (q + 1) o'
      rw [mk_pos (show q + 1 + (valueText value).length = q + ((valueText value).length + 1) by omega)] at hv'
      have hhead : Head NoSkipChar (valueText value ++ tail) := by
        cases value with
        | family raw => exact hv.elim
        | str raw => obtain ⟨s, rfl, _⟩ := hv; unfold NoSkipChar; simp only [valueText, List.cons_append, Head]; decide
        | num n =>
          cases n with
          | hex t => exact hv.elim
          | dec t => exact head_of_dec (show DecText t from hv) fun c hc => (digit_cases hc).1
        | list ns =>
          match ns, hv with
          | n :: ns, hv =>
            have hn := hv.2 n (by simp)
            cases n with
            | hex t => exact hn.elim
            | dec t =>
              simpa only [valueText, listText, numText, List.append_assoc] using
                head_of_dec (tail := commaNums ns ++ tail) (show DecText t from hn) fun c hc => (digit_cases hc).1
      exact Ev.seq (Ev.str_ok (l := ['=']) matchStr_single_some) (sk_none hhead) hv'
    cases index with
    | none =>
      have hid := identifier_ok c w ('=' :: (valueText value ++ tail)) p [] hw (by show ¬ IsIdChar '='; decide)
      have hopt : Ev false (.opt (.seq (.str ['(']) (.seq (.call .number) (.str [')']))))
          (mk ('=' :: (valueText value ++ tail)) (p + (c :: w).length) [.node .identifier (c :: w) []])
          (.ok (mk ('=' :: (valueText value ++ tail)) (p + (c :: w).length) [.node .identifier (c :: w) []])) :=
        Ev.opt_none (Ev.seq_fail (Ev.str_fail (matchStr_single_none (t := '=' :: _) (show ('=' : Char) ≠ '(' by decide))))
      have hnosk : ∀ q o', Sk false (mk ('=' :: (valueText value ++ tail)) q o') (.ok (mk ('=' :: (valueText value ++ tail)) q o')) :=
        fun q o' => sk_none (by show NoSkipChar '='; decide)
      have := Ev.seq hid (hnosk _ _) (Ev.seq hopt (hnosk _ _) (hval _ _))
      rw [mk_pos (show p + (c :: w).length + ((valueText value).length + 1) =
        p + (settingText ⟨c :: w, none, value⟩).length by
          simp only [settingText, idxText, List.length_append, List.length_cons, List.nil_append]; omega)] at this
      simpa only [settingText, idxText, idxPairs, List.nil_append, List.append_assoc, List.cons_append,
        List.reverse_cons, List.reverse_nil] using this
    | some n =>
      have hn := hi n rfl
      cases n with
      | hex t => exact hn.elim
      | dec t =>
        have htd : DecText t := hn
        have hid := identifier_ok c w ('(' :: (t ++ ')' :: '=' :: (valueText value ++ tail))) p []
          hw (by show ¬ IsIdChar '('; decide)
        have hnum := number_ok (t := t) (tail := ')' :: '=' :: (valueText value ++ tail)) htd
          (by show NumStop ')'; decide) (p + (c :: w).length + 1) [.node .identifier (c :: w) []]
        have hopt : Ev false (.opt (.seq (.str ['(']) (.seq (.call .number) (.str [')']))))
            (mk ('(' :: (t ++ ')' :: '=' :: (valueText value ++ tail))) (p + (c :: w).length) [.node .identifier (c :: w) []])
            (.ok (mk ('=' :: (valueText value ++ tail)) (p + (c :: w).length + 1 + t.length + 1)
              [.node .dec_number t [], .node .identifier (c :: w) []])) := by
          refine Ev.opt_some (Ev.seq (Ev.str_ok (l := ['(']) matchStr_single_some)
            (sk_none (head_of_dec htd fun c hc => (digit_cases hc).1))
            (Ev.seq hnum (sk_none (by show NoSkipChar ')'; decide)) (Ev.str_ok (l := [')']) matchStr_single_some)))
        have := Ev.seq hid (sk_none (by show NoSkipChar '('; decide))
          (Ev.seq hopt (sk_none (by show NoSkipChar '='; decide)) (hval _ _))
        rw [mk_pos (show p + (c :: w).length + 1 + t.length + 1 + ((valueText value).length + 1) =
          p + (settingText ⟨c :: w, some (.dec t), value⟩).length by
            simp only [settingText, idxText, numText, List.length_append, List.length_cons, List.length_nil]; omega)] at this
        simpa only [settingText, idxText, idxPairs, numText, numPair, List.nil_append, List.append_assoc, List.cons_append,
          List.reverse_cons, List.reverse_nil, List.singleton_append] using this
  have := Ev.call_node (q := .setting) (ty := .normal) (st := mk (settingText ⟨c :: w, index, value⟩ ++ tail) p o) rfl
    (by decide) body
  simpa only [mk, take_token (settingText ⟨c :: w, index, value⟩) tail p, List.reverse_reverse, settingPair] using this

end PV.Gsd.Peg
