/-
Application scheduling order (C15 deepening): the index `next_application` walks along the callback
log.  `walk n j log = some j'` says: starting with `next_application = j`, every callback of `log`
goes to the application whose turn it is, where the turn
  * moves to the cyclic successor `(i+1) % n` after application `i` DECLINED,
  * STAYS at `i` after application `i` sent a telegram (it is asked again after its reply/time-out,
    or at once if the telegram expected no reply),
  * stays at `i` over the reply / time-out delivered to `i`,
and ends with `next_application = j'`.
-/
import ProfiVerif.Lemmas.StationTrace

namespace PV

/-- The application a callback goes to. -/
def AppCall.app : AppCall → Nat
  | .transmit i _ _ => i
  | .reply i _ _ => i
  | .timeout i _ => i

/-- Whose turn it is after callback `r` (with `n` applications). -/
def nextIdx (n : Nat) : AppCall → Nat
  | .transmit i _ .decline => (i + 1) % n
  | .transmit i _ (.send ..) => i
  | .reply i _ _ => i
  | .timeout i _ => i

/-- Follow the turn along a callback log; `none` if some callback goes to the wrong application. -/
def walk (n : Nat) : Nat → List AppCall → Option Nat
  | j, [] => some j
  | j, r :: rest => if r.app = j then walk n (nextIdx n r) rest else none

theorem walk_append (n : Nat) : ∀ (l1 l2 : List AppCall) (j k : Nat), walk n j l1 = some k →
    walk n j (l1 ++ l2) = walk n k l2 := by
  intro l1
  induction l1 with
  | nil => intro l2 j k h; simp only [walk, Option.some.injEq] at h; subst h; rfl
  | cons r rest ih =>
    intro l2 j k h
    simp only [walk, List.cons_append] at h ⊢
    by_cases hr : r.app = j
    · rw [if_pos hr] at h ⊢; exact ih l2 _ k h
    · rw [if_neg hr] at h; cases h

theorem walk_append_inv (n : Nat) : ∀ (l1 l2 : List AppCall) (j m : Nat), walk n j (l1 ++ l2) = some m →
    ∃ k, walk n j l1 = some k ∧ walk n k l2 = some m := by
  intro l1
  induction l1 with
  | nil => intro l2 j m h; exact ⟨j, rfl, h⟩
  | cons r rest ih =>
    intro l2 j m h
    simp only [walk, List.cons_append] at h ⊢
    by_cases hr : r.app = j
    · rw [if_pos hr] at h ⊢; exact ih l2 _ m h
    · rw [if_neg hr] at h; cases h

/-- All records are `transmit_telegram` callbacks that were declined. -/
def Declines (hp : Bool) (new : List AppCall) : Prop := ∀ r ∈ new, ∃ i, r = AppCall.transmit i hp .decline

theorem declines_nil (hp : Bool) : Declines hp [] := fun r hr => by cases hr

theorem declines_cons {hp : Bool} {i : Nat} {l : List AppCall} (h : Declines hp l) :
    Declines hp (.transmit i hp .decline :: l) := by
  intro x hx
  rcases List.mem_cons.mp hx with rfl | hx
  · exact ⟨i, rfl⟩
  · exact h x hx

/-! ## `do_pass_token` does not touch the turn -/

theorem ws_nextApp (s : Station) (now : Int) : (waitSyncPause s now).1.nextApp = s.nextApp := by
  rw [waitSync_fst]; exact gol_nextApp s now

theorem cs_nextApp (s : Station) (now : Int) : (checkSlotExpired s now).1.nextApp = s.nextApp := by
  rw [checkSlot_fst]; exact gol_nextApp s now

theorem passTokenOn_next (c c' : Ctx) (now : Int) (att : Attempt) (h : passTokenOn c now att = .ok c') :
    c'.s.nextApp = c.s.nextApp := by
  unfold passTokenOn at h
  simp only at h
  obtain ⟨c2, ht, h⟩ := bind_ok_inv h
  have := transmit_inv ht
  subst this
  simp only [upd] at h
  rcases ite_inv h with ⟨_, h⟩ | ⟨_, h⟩
  · obtain ⟨s', hs', hc'⟩ := tr_inv h
    have := toUseToken_inv hs'
    subst this; subst hc'
    simp [markTx]
  · obtain ⟨s', hs', hc'⟩ := tr_inv h
    have := toCheckTokenPass_inv hs'
    subst this; subst hc'
    simp [markTx]

theorem doPassToken_next (c c' : Ctx) (now : Int) (g : Bool) (att : Attempt)
    (hst : c.s.st = .passToken g att) (h : doPassToken c now = .ok c') : c'.s.nextApp = c.s.nextApp := by
  unfold doPassToken at h
  rw [hst] at h
  simp only at h
  split at h
  · cases h
    simp [ws_nextApp, cs_nextApp]
  · split at h
    · split at h
      · cases h
      · simp only [upd] at h
        split at h
        · cases h
        · rename_i c2 addr htg
          rcases transmitGapPoll_eff _ _ _ _ htg with ⟨h1, h2⟩ | ⟨b, a, h1, h2⟩
          · cases h2
          · subst h1
            obtain ⟨s', hs', hc'⟩ := tr_inv h
            have := toAwaitStatus_inv hs'
            subst this; subst hc'
            simp [markTx, ws_nextApp, cs_nextApp]
        · rename_i c2 htg
          rcases transmitGapPoll_eff _ _ _ _ htg with ⟨h1, h2⟩ | ⟨b, a, h1, h2⟩
          · subst h1
            have := passTokenOn_next _ c' now att h
            simpa [ws_nextApp, cs_nextApp] using this
          · cases h2
    · have := passTokenOn_next _ c' now att h
      simpa [ws_nextApp, cs_nextApp] using this

theorem passNow_next (c c' : Ctx) (now : Int) (h : passNow c now = .ok c') : c'.s.nextApp = c.s.nextApp := by
  unfold passNow at h
  obtain ⟨c1, ht, h⟩ := bind_ok_inv h
  obtain ⟨s', hs', hc'⟩ := tr_inv ht
  have := toPassToken_inv hs'
  subst this; subst hc'
  have := doPassToken_next { c with s := { c.s with st := .passToken true .first } } c' now true .first rfl h
  simpa using this

/-! ## The application loop -/

/-- `apps_transmit_telegram`: the new callbacks follow the turn from `next_application` before to
`next_application` after; they are a run of declines, closed — iff something was transmitted — by the one
telegram that was sent. -/
theorem appsTransmit_walk (now : Int) (hp : Bool) : ∀ (k : Nat) (c c1 : Ctx) (b : Bool) (d : UseData) (fcd : Bool),
    c.s.st = .useToken d fcd → appsTransmit now hp k c = (.ok c1, b) →
    ∃ new, c1.calls = c.calls ++ new ∧ walk c.apps.length c.s.nextApp new = some c1.s.nextApp ∧
      c1.apps.length = c.apps.length ∧
      (b = false → Declines hp new) ∧
      (b = true → ∃ pre i hd pdu, new = pre ++ [.transmit i hp (.send hd pdu)] ∧ Declines hp pre) := by
  intro k
  induction k with
  | zero =>
    intro c c1 b d fcd hst h
    simp only [appsTransmit, Prod.mk.injEq, Res.ok.injEq] at h
    obtain ⟨h1, h2⟩ := h
    subst h1; subst h2
    exact ⟨[], by simp, rfl, rfl, fun _ => declines_nil hp, by intro hb; cases hb⟩
  | succ k ih =>
    intro c c1 b d fcd hst h
    simp only [appsTransmit] at h
    rcases hat : appTransmit c now hp with ⟨r, b1⟩
    rw [hat] at h
    cases r with
    | panic site => cases h
    | ok c2 =>
      obtain ⟨ans, hc, -, -, -, hn, hl, hbf, hbt⟩ := appTransmit_eff c c2 now hp b1 d fcd hst hat
      cases b1 with
      | true =>
        simp only [Prod.mk.injEq, Res.ok.injEq] at h
        obtain ⟨h1, h2⟩ := h
        subst h1; subst h2
        obtain ⟨hd, pdu, hans, -⟩ := hbt rfl
        subst hans
        refine ⟨[.transmit c.s.nextApp hp (.send hd pdu)], hc, ?_, hl, (by intro hb; cases hb),
          fun _ => ⟨[], c.s.nextApp, hd, pdu, rfl, declines_nil hp⟩⟩
        simp [walk, AppCall.app, nextIdx, hn]
      | false =>
        obtain ⟨hans, hs2⟩ := hbf rfl
        subst hans
        simp only at h
        rw [hs2] at h
        simp only [upd] at h
        rcases ite_inv h with ⟨_, h⟩ | ⟨_, h⟩
        · simp only [Prod.mk.injEq, Res.ok.injEq] at h
          obtain ⟨h1, h2⟩ := h
          subst h1; subst h2
          refine ⟨[.transmit c.s.nextApp hp .decline], hc, ?_, hl, fun _ => declines_cons (declines_nil hp),
            by intro hb; cases hb⟩
          simp [walk, AppCall.app, nextIdx, hn, hl]
        · obtain ⟨new, hc3, hw3, hl3, hbf3, hbt3⟩ := ih _ c1 b _ fcd rfl h
          refine ⟨.transmit c.s.nextApp hp .decline :: new, ?_, ?_, hl3.trans hl, ?_, ?_⟩
          · rw [hc3]; simp only [hc, List.append_assoc, List.singleton_append]
          · simp only [walk, AppCall.app, nextIdx, if_true]
            simp only [hl, hn] at hw3
            exact hw3
          · intro hb; exact declines_cons (hbf3 hb)
          · intro hb
            obtain ⟨pre, i, hd, pdu, e, hdc⟩ := hbt3 hb
            exact ⟨.transmit c.s.nextApp hp .decline :: pre, i, hd, pdu, by rw [e]; rfl, declines_cons hdc⟩

/-- Frame + walk of a token-visit step. -/
def WalkPost (c c' : Ctx) : Prop :=
  ∃ new, c'.calls = c.calls ++ new ∧ walk c.apps.length c.s.nextApp new = some c'.s.nextApp ∧
    c'.apps.length = c.apps.length

theorem useTokenGo_walk (c c' : Ctx) (now : Int) (d : UseData) (hp : Bool) (h : useTokenGo c now d hp = .ok c') :
    WalkPost c c' := by
  unfold useTokenGo at h
  simp only [upd] at h
  rcases hat : appsTransmit now hp c.apps.length { c with s := { c.s with st := .useToken d true } } with ⟨r, b⟩
  rw [hat] at h
  cases r with
  | panic site => cases h
  | ok c2 =>
    obtain ⟨new, hc, hw, hl, -, -⟩ := appsTransmit_walk now hp _ _ c2 b d true rfl hat
    cases b with
    | true => cases h; exact ⟨new, hc, hw, hl⟩
    | false =>
      simp only at h
      obtain ⟨hq, -, -⟩ := passNow_eff c2 c' now new h
      refine ⟨new, hq.calls.trans hc, ?_, by rw [hq.apps]; exact hl⟩
      rw [passNow_next c2 c' now h]; exact hw

theorem doUseToken_walk (c c' : Ctx) (now : Int) (d : UseData) (fcd : Bool) (hst : c.s.st = .useToken d fcd)
    (h : doUseToken c now = .ok c') : WalkPost c c' := by
  unfold doUseToken at h
  rw [hst] at h
  simp only at h
  have lift : ∀ c0 : Ctx, c0.calls = c.calls → c0.apps = c.apps → c0.s.nextApp = c.s.nextApp →
      WalkPost c0 c' → WalkPost c c' := by
    intro c0 e1 e2 e3 hp
    obtain ⟨new, hc, hw, hl⟩ := hp
    exact ⟨new, by rw [hc, e1], by rw [← e2, ← e3]; exact hw, by rw [hl, e2]⟩
  rcases ite_inv h with ⟨_, h⟩ | ⟨_, h⟩
  · cases h
    exact ⟨[], by simp, by simp [walk, ws_nextApp, cs_nextApp, hold_nextApp], rfl⟩
  · rcases ite_inv h with ⟨_, h⟩ | ⟨_, h⟩
    · exact lift { c with s := (waitSyncPause (holdUpdate c.s d) now).1 } rfl rfl
        (by simp [ws_nextApp, cs_nextApp, hold_nextApp]) (useTokenGo_walk _ c' now d false h)
    · rcases ite_inv h with ⟨_, h⟩ | ⟨_, h⟩
      · exact lift { c with s := (waitSyncPause (holdUpdate c.s d) now).1 } rfl rfl
          (by simp [ws_nextApp, cs_nextApp, hold_nextApp]) (useTokenGo_walk _ c' now d true h)
      · obtain ⟨hq, -, -⟩ := passNow_eff _ c' now [] h
        refine ⟨[], by simpa using hq.calls, ?_, by rw [hq.apps]⟩
        rw [passNow_next _ c' now h]
        simp [walk, ws_nextApp, cs_nextApp, hold_nextApp]

theorem doAwaitDataResponse_walk (c c' : Ctx) (now : Int) (a : Nat) (d : UseData) (hst : c.s.st = .awaitData a d)
    (h : doAwaitDataResponse c now = .ok c') : WalkPost c c' := by
  unfold doAwaitDataResponse at h
  rcases hrx : receiveTelegram c.rx with ⟨rx', calls, ret⟩ | _ | _ <;> rw [hrx, hst] at h <;> simp only at h
  · rcases ite_inv h with ⟨_, h⟩ | ⟨_, h⟩
    · cases h
    cases calls with
    | nil =>
      simp only at h
      rcases ite_inv h with ⟨_, h⟩ | ⟨_, h⟩
      · obtain ⟨c2, ht, h⟩ := bind_ok_inv h
        obtain ⟨c3, ht3, ht⟩ := bind_ok_inv ht
        obtain ⟨s', hs', hc'⟩ := tr_inv ht3
        have := toUseToken_inv hs'
        subst this; subst hc'
        simp only [upd, Res.ok.injEq] at ht
        subst ht
        obtain ⟨new, hc, hw, hl⟩ := doUseToken_walk _ c' now d true rfl h
        refine ⟨.timeout c.s.nextApp a :: new, by simpa using hc, ?_, by simpa using hl⟩
        simp only [walk, AppCall.app, nextIdx, if_true]
        simpa [ws_nextApp, cs_nextApp] using hw
      · cases h
        exact ⟨[], by simp, by simp [walk, ws_nextApp, cs_nextApp], rfl⟩
    | cons x rest =>
      obtain ⟨t, fl⟩ := x
      simp only at h
      rcases ite_inv h with ⟨hv, h⟩ | ⟨_, h⟩
      · obtain ⟨c3, ht3, ht⟩ := bind_ok_inv h
        obtain ⟨s', hs', hc'⟩ := tr_inv ht3
        have := toUseToken_inv hs'
        subst this; subst hc'
        simp only [upd, Res.ok.injEq] at ht
        subst ht
        exact ⟨[.reply c.s.nextApp a t], rfl, by simp [walk, AppCall.app, nextIdx, markRx_nextApp], rfl⟩
      · obtain ⟨s', hs', hc'⟩ := tr_inv h
        have := toActiveIdle_inv hs'
        subst this; subst hc'
        exact ⟨[], by simp, by simp [walk, markRx_nextApp], rfl⟩
  · rcases ite_inv h with ⟨_, h⟩ | ⟨_, h⟩ <;> cases h
  · rcases ite_inv h with ⟨_, h⟩ | ⟨_, h⟩ <;> cases h

/-! ## One whole poll while the station holds the token -/

/-- The station holds the token and is in a message cycle: `UseToken` or `AwaitDataResponse`. -/
def AppHolding (s : Station) : Prop := (∃ d fcd, s.st = .useToken d fcd) ∨ (∃ a d, s.st = .awaitData a d)

theorem holding_wake (s : Station) (h : AppHolding s) : s.wake = s := by
  unfold Station.wake
  rcases h with ⟨d, fcd, h⟩ | ⟨a, d, h⟩ <;> rw [h]

/-- One whole poll that starts in `UseToken` / `AwaitDataResponse` (any bytes, any time, any scripts):
its callbacks follow the turn from `next_application` before the poll to `next_application` after it. -/
theorem poll_walk (s : Station) (apps : Apps) (now : Int) (phy : Bool) (rx : Bytes) (c' : Ctx)
    (hh : AppHolding s) (h : s.poll apps now phy rx = .ok c') :
    walk apps.length s.nextApp c'.calls = some c'.s.nextApp ∧ c'.apps.length = apps.length := by
  unfold Station.poll pollInner at h
  cases hon : s.online with
  | false =>
    simp only [hon] at h
    cases hst : s.st <;> simp only [hst] at h <;> cases h
    exact ⟨rfl, rfl⟩
  | true =>
    simp only [hon] at h
    obtain ⟨c1, hs, h⟩ := bind_ok_inv h
    have := pollStart_inv _ _ hs
    subst this
    simp only [holding_wake s hh] at h
    rcases ite_inv h with ⟨_, h⟩ | ⟨_, h⟩
    · cases h; exact ⟨by simp [walk, upd, markBA_nextApp], rfl⟩
    · unfold dispatch at h
      simp only [upd] at h
      rcases hh with ⟨d, fcd, hst⟩ | ⟨a, d, hst⟩
      · have hst' : (checkBusActivity s now rx.length).st = .useToken d fcd := by rw [checkBA_st]; exact hst
        rw [hst'] at h
        simp only at h
        obtain ⟨new, hc, hw, hl⟩ := doUseToken_walk _ c' now d fcd hst' h
        simp only [List.nil_append, checkBA_nextApp] at hc hw hl
        rw [hc]; exact ⟨hw, hl⟩
      · have hst' : (checkBusActivity s now rx.length).st = .awaitData a d := by rw [checkBA_st]; exact hst
        rw [hst'] at h
        simp only at h
        obtain ⟨new, hc, hw, hl⟩ := doAwaitDataResponse_walk _ c' now a d hst' h
        simp only [List.nil_append, checkBA_nextApp] at hc hw hl
        rw [hc]; exact ⟨hw, hl⟩

end PV
