/-
Runs of the joint model of property C07 with their events, on control (`crunN` of
`Lemmas/DpLiveEvents.lean`): the fault-free continuation and the silent slave.
-/
import ProfiVerif.Lemmas.DpLive
import ProfiVerif.Lemmas.DpLiveEvents

namespace PV.Live
open PV PV.Dp

theorem crun_replicate (mr : Nat) (iz : Bool) (ilen : Nat) (e : PEnv) : ∀ (n : Nat) (c : Ctl),
    crun mr iz ilen c (List.replicate n e) = crunN mr iz (absEnv ilen e) n c := by
  intro n
  induction n with
  | zero => intro c; rfl
  | succ n ih => intro c; simp only [List.replicate, crun, crunN, ih]

/-- The fault-free continuation with its events. -/
theorem quiet_sim_ev : ∀ (n : Nat) {j : PJ}, Good j →
    ∃ j' evs, j.quiet n = some (j', evs) ∧ Good j' ∧ j'.fp = j.fp ∧ j'.s.cfg = j.s.cfg ∧
      (ctl j', evs) = crunN j.fp.maxRetry (j.s.cfg.inLen == 0) (.visit false .ok) n (ctl j) := by
  intro n
  induction n with
  | zero => intro j hg; exact ⟨j, [], rfl, hg, rfl, rfl, rfl⟩
  | succ n ih =>
    intro j hg
    obtain ⟨j1, ev, h1, hg1, a1, _, a3, hc1⟩ := visit_sim hg false (d := .ok) (by intro t ht; cases ht)
    obtain ⟨j2, evs, h2, hg2, b1, b3, hc2⟩ := ih hg1
    refine ⟨j2, ev.toList ++ evs, ?_, hg2, by rw [b1, a1], by rw [b3, a3], ?_⟩
    · simp only [PJ.quiet, h1, h2]
    · rw [a1, a3] at hc2
      rw [Prod.mk.injEq] at hc1 hc2
      simp only [crunN, absD] at hc1 ⊢
      rw [← hc1.1, ← hc1.2, ← hc2.1, ← hc2.2]

/-- `n` visits in which every request is lost (the slave sees and says nothing). -/
theorem lost_sim (n : Nat) {j : PJ} (hg : Good j) :
    ∃ j' evs, j.run (List.replicate n (.visit false .lossReq)) = some (j', evs) ∧ Good j' ∧ j'.fp = j.fp ∧
      j'.s.cfg = j.s.cfg ∧ (ctl j', evs) = crunN j.fp.maxRetry (j.s.cfg.inLen == 0) lost n (ctl j) := by
  obtain ⟨j', evs, h1, h2, h3, _, h5, h6⟩ := run_sim (List.replicate n (.visit false .lossReq)) hg
    (by intro e he; rw [List.eq_of_mem_replicate he]; trivial)
  refine ⟨j', evs, h1, h2, h3, h5, ?_⟩
  rw [h6, crun_replicate]
  rfl

end PV.Live
