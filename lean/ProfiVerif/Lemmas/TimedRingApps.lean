/-
Timed ring with application traffic, station level: properties of the application scripts that survive
polls; single-poll results for arbitrary application lists.  Helper lemmas.
-/
import ProfiVerif.Lemmas.TimedRingListen

namespace PV
open StationGap TokenRing

/-! ## Properties of script answers survive every poll -/

/-- Every telegram any script will ever hand over satisfies `P`. -/
def AnsOk (P : Header → Bytes → Prop) (apps : Apps) : Prop :=
  ∀ script ∈ apps, ∀ ans ∈ script, ∀ h pdu, ans = AppAnswer.send h pdu → P h pdu

theorem ansOk_set (P : Header → Bytes → Prop) (apps : Apps) (i : Nat) (script : List AppAnswer) (h : AnsOk P apps)
    (hs : apps[i]? = some script) : AnsOk P (apps.set i script.tail) := by
  intro sc hsc ans hans hh pdu he
  rcases List.mem_or_eq_of_mem_set hsc with hm | rfl
  · exact h sc hm ans hans hh pdu he
  · exact h script (List.mem_of_getElem? hs) ans (List.mem_of_mem_tail hans) hh pdu he

theorem appTransmit_ansOk (P : Header → Bytes → Prop) (c c1 : Ctx) (now : Int) (hp b : Bool)
    (h : appTransmit c now hp = (.ok c1, b)) (ha : AnsOk P c.apps) : AnsOk P c1.apps := by
  unfold appTransmit at h
  simp only at h
  rcases hs : c.apps[c.s.nextApp]? with _ | script <;> rw [hs] at h <;> simp only at h
  · cases h
  have hset := ansOk_set P c.apps c.s.nextApp script ha hs
  rcases hans : script.headD .decline with _ | ⟨hd, pdu⟩ <;> rw [hans] at h <;> simp only at h
  · simp only [Prod.mk.injEq, Res.ok.injEq] at h
    rw [← h.1]; exact hset
  rcases hser : hd.serialize pdu with bytes | _ <;> rw [hser] at h <;> simp only at h
  · rcases hexp : expectsReplyOf hd with _ | a8 <;> rw [hexp] at h <;> simp only at h
    · simp only [Prod.mk.injEq] at h
      have := transmit_inv h.1
      rw [this]; exact hset
    · split at h
      · split at h
        · simp only [Prod.mk.injEq] at h
          have := transmit_inv h.1
          rw [this]; exact hset
        · cases h
      · cases h
  · cases h

theorem appsTransmit_ansOk (P : Header → Bytes → Prop) (now : Int) (hp : Bool) : ∀ (k : Nat) (c c1 : Ctx) (b : Bool),
    appsTransmit now hp k c = (.ok c1, b) → AnsOk P c.apps → AnsOk P c1.apps := by
  intro k
  induction k with
  | zero => intro c c1 b h ha; simp only [appsTransmit, Prod.mk.injEq, Res.ok.injEq] at h; rw [← h.1]; exact ha
  | succ k ih =>
    intro c c1 b h ha
    simp only [appsTransmit] at h
    rcases hat : appTransmit c now hp with ⟨r, b1⟩
    rw [hat] at h
    cases r with
    | panic site => cases h
    | ok c2 =>
      have h2 := appTransmit_ansOk P c c2 now hp b1 hat ha
      cases b1 with
      | true => simp only [Prod.mk.injEq, Res.ok.injEq] at h; rw [← h.1]; exact h2
      | false =>
        simp only at h
        split at h
        · simp only [upd] at h
          rcases ite_inv h with ⟨_, h⟩ | ⟨_, h⟩
          · simp only [Prod.mk.injEq, Res.ok.injEq] at h; rw [← h.1]; exact h2
          · exact ih _ c1 b h h2
        · cases h

/-- What every application telegram must satisfy: valid addresses, and not an FDL status request (those are
the FDL layer's own business). -/
def AppP (h : Header) (_pdu : Bytes) : Prop := h.da < 128 ∧ h.sa < 128 ∧ ∀ fcb, h.fc ≠ .request fcb .fdlStatus

/-! ## What asking the applications does -/

/-- An application telegram was handed to the PHY at `now`: header and PDU come from a script (so they have
every property all script answers have), the stamp is the predicted end, and the station keeps using the
token or awaits the reply. -/
def AppSent (apps : Apps) (p : Params) (c1 : Ctx) (now : Int) : Prop :=
  ∃ hd pdu bytes, (∀ P : Header → Bytes → Prop, AnsOk P apps → P hd pdu) ∧ hd.serialize pdu = .ok bytes ∧
    c1.tx = some bytes ∧ c1.s.lastBusActivity = some (now + (p.bits (11 * bytes.length) : Nat)) ∧
    ((expectsReplyOf hd = none ∧ ∃ d' f', c1.s.st = .useToken d' f') ∨
     (∃ a8, expectsReplyOf hd = some a8 ∧ ∃ d', c1.s.st = .awaitData a8.toNat d'))

/-- Fields no application call touches. -/
structure AppFrame (c c1 : Ctx) : Prop where
  rx : c1.rx = c.rx
  p : c1.s.p = c.s.p
  ring : c1.s.ring = c.s.ring
  online : c1.s.online = c.s.online
  pending : c1.s.pendingBytes = c.s.pendingBytes
  gap : c1.s.gap = c.s.gap

theorem AppFrame.trans {a b c : Ctx} (h1 : AppFrame a b) (h2 : AppFrame b c) : AppFrame a c :=
  ⟨h2.rx.trans h1.rx, h2.p.trans h1.p, h2.ring.trans h1.ring, h2.online.trans h1.online, h2.pending.trans h1.pending,
    h2.gap.trans h1.gap⟩

theorem appTransmit_out (c c1 : Ctx) (now : Int) (hp b : Bool) (d : UseData) (fcd : Bool)
    (hst : c.s.st = .useToken d fcd) (htx : c.tx = none) (h : appTransmit c now hp = (.ok c1, b)) :
    AppFrame c c1 ∧
    (b = false → c1.tx = none ∧ c1.s.lastBusActivity = c.s.lastBusActivity ∧ c1.s.st = c.s.st) ∧
    (b = true → AppSent c.apps c.s.p c1 now) := by
  unfold appTransmit at h
  simp only at h
  rcases hs : c.apps[c.s.nextApp]? with _ | script <;> rw [hs] at h <;> simp only at h
  · cases h
  rcases hans : script.headD .decline with _ | ⟨hd, pdu⟩ <;> rw [hans] at h <;> simp only at h
  · simp only [Prod.mk.injEq, Res.ok.injEq] at h
    obtain ⟨h1, h2⟩ := h
    subst h1; subst h2
    exact ⟨⟨rfl, rfl, rfl, rfl, rfl, rfl⟩, fun _ => ⟨htx, rfl, rfl⟩, (fun hb => by cases hb)⟩
  have hmem : AppAnswer.send hd pdu ∈ script := by
    cases script with
    | nil => simp at hans
    | cons a r => simp only [List.headD_cons] at hans; rw [hans]; exact List.mem_cons_self ..
  have hP : ∀ P : Header → Bytes → Prop, AnsOk P c.apps → P hd pdu :=
    fun P ha => ha script (List.mem_of_getElem? hs) _ hmem hd pdu rfl
  rcases hser : hd.serialize pdu with bytes | _ <;> rw [hser] at h <;> simp only at h
  · rcases hexp : expectsReplyOf hd with _ | a8 <;> rw [hexp] at h <;> simp only at h
    · simp only [Prod.mk.injEq] at h
      obtain ⟨h1, h2⟩ := h
      have := transmit_inv h1
      subst this; subst h2
      refine ⟨⟨rfl, rfl, rfl, rfl, rfl, rfl⟩, (fun hb => by cases hb), fun _ => ⟨hd, pdu, bytes, hP, hser, rfl, rfl,
        .inl ⟨hexp, d, fcd, by simpa [markTx] using hst⟩⟩⟩
    · rw [hst] at h
      simp only [toAwaitData, hst] at h
      simp only [Prod.mk.injEq] at h
      obtain ⟨h1, h2⟩ := h
      have := transmit_inv h1
      subst this; subst h2
      refine ⟨⟨rfl, rfl, rfl, rfl, rfl, rfl⟩, (fun hb => by cases hb), fun _ => ⟨hd, pdu, bytes, hP, hser, rfl, rfl,
        .inr ⟨a8, hexp, d, rfl⟩⟩⟩
  · cases h

theorem appsTransmit_out (now : Int) (hp : Bool) : ∀ (k : Nat) (c c1 : Ctx) (b : Bool) (d : UseData) (fcd : Bool),
    c.s.st = .useToken d fcd → c.tx = none → appsTransmit now hp k c = (.ok c1, b) →
    AppFrame c c1 ∧
    (b = false → c1.tx = none ∧ c1.s.lastBusActivity = c.s.lastBusActivity ∧ ∃ d', c1.s.st = .useToken d' fcd) ∧
    (b = true → AppSent c.apps c.s.p c1 now) := by
  intro k
  induction k with
  | zero =>
    intro c c1 b d fcd hst htx h
    simp only [appsTransmit, Prod.mk.injEq, Res.ok.injEq] at h
    obtain ⟨h1, h2⟩ := h
    subst h1; subst h2
    exact ⟨⟨rfl, rfl, rfl, rfl, rfl, rfl⟩, fun _ => ⟨htx, rfl, d, hst⟩, (fun hb => by cases hb)⟩
  | succ k ih =>
    intro c c1 b d fcd hst htx h
    simp only [appsTransmit] at h
    rcases hat : appTransmit c now hp with ⟨r, b1⟩
    rw [hat] at h
    cases r with
    | panic site => cases h
    | ok c2 =>
      obtain ⟨hf, hbf, hbt⟩ := appTransmit_out c c2 now hp b1 d fcd hst htx hat
      cases b1 with
      | true =>
        simp only [Prod.mk.injEq, Res.ok.injEq] at h
        obtain ⟨h1, h2⟩ := h
        subst h1; subst h2
        exact ⟨hf, (fun hb => by cases hb), fun _ => hbt rfl⟩
      | false =>
        obtain ⟨htx2, hl2, hs2⟩ := hbf rfl
        simp only at h
        rw [hs2, hst] at h
        simp only [upd] at h
        rcases ite_inv h with ⟨_, h⟩ | ⟨_, h⟩
        · simp only [Prod.mk.injEq, Res.ok.injEq] at h
          obtain ⟨h1, h2⟩ := h
          subst h1; subst h2
          exact ⟨⟨hf.rx, hf.p, hf.ring, hf.online, hf.pending, hf.gap⟩, fun _ => ⟨htx2, hl2, _, rfl⟩, (fun hb => by cases hb)⟩
        · obtain ⟨hf3, hbf3, hbt3⟩ := (fun hc ht => ih _ c1 b _ fcd hc ht h) rfl htx2
          have hf' : AppFrame c c1 := ⟨hf3.rx.trans hf.rx, hf3.p.trans hf.p, hf3.ring.trans hf.ring,
            hf3.online.trans hf.online, hf3.pending.trans hf.pending, hf3.gap.trans hf.gap⟩
          refine ⟨hf', fun hb => ?_, fun hb => ?_⟩
          · obtain ⟨a1, a2, a3⟩ := hbf3 hb
            exact ⟨a1, a2.trans hl2, a3⟩
          · obtain ⟨hd, pdu, bytes, e1, e2, e3, e4, e5⟩ := hbt3 hb
            refine ⟨hd, pdu, bytes, fun P ha => e1 P (appTransmit_ansOk P c c2 now hp false hat ha), e2, e3, ?_, e5⟩
            simp only at e4
            rw [e4, hf.p]

/-- What the transmitting poll of a token holder does (any applications): an application telegram, a GAP
request, or the token. -/
def UseOut (s : Station) (apps : Apps) (c' : Ctx) (now : Int) : Prop :=
  c'.rx = [] ∧ c'.s.p = s.p ∧ c'.s.online = s.online ∧ c'.s.pendingBytes = s.pendingBytes ∧
  (∀ P : Header → Bytes → Prop, AnsOk P apps → AnsOk P c'.apps) ∧
  ((AppSent apps s.p c' now ∧ c'.s.ring = s.ring) ∨
   (∃ a cur, nextGapPoll s.p.address s.ring.ns s.p.hsa cur = .poll a ∧ a ≠ s.p.address ∧
      c'.tx = some (statusRequestBytes a s.p.address) ∧ c'.s.st = .awaitStatus a ∧ c'.s.ring = s.ring ∧
      c'.s.lastBusActivity = some (now + (s.p.bits (11 * 6) : Nat))) ∨
   (c'.tx = some (tokenBytes s.ring.ns s.p.address) ∧
      c'.s.ring = s.ring.witness s.p.address s.ring.ns ∧
      c'.s.st = (if (s.ring.witness s.p.address s.ring.ns).ns = s.p.address
                then FState.useToken ⟨now, none⟩ false else FState.checkTokenPass .first) ∧
      c'.s.lastBusActivity = some (now + (s.p.bits (11 * 3) : Nat))))

/-- `do_use_token` once the synchronisation pause is over, for any applications. -/
theorem doUseToken_out (c c' : Ctx) (now l : Int) (d : UseData) (fcd : Bool) (hst : c.s.st = .useToken d fcd)
    (htx : c.tx = none) (hrx : c.rx = []) (hl : c.s.lastBusActivity = some l) (hsy : l + (c.s.p.bits 33 : Nat) < now)
    (h : doUseToken c now = .ok c') : UseOut c.s c.apps c' now := by
  unfold doUseToken at h
  simp only [hst] at h
  have hk := holdUpdate_keeps c.s d
  have hce := coreEq_holdUpdate c.s d
  have hpb : (holdUpdate c.s d).pendingBytes = c.s.pendingBytes := by unfold holdUpdate; split <;> rfl
  rw [waitSync_some _ _ l (by rw [hk.1]; exact hl)] at h
  simp only [hk.2] at h
  rw [if_neg (by simp; omega)] at h
  -- ending the hold from a context that agrees with `c` on everything that matters
  have fin : ∀ (c0 : Ctx) (d0 : UseData) (f0 : Bool), c0.s.st = .useToken d0 f0 → c0.tx = none → c0.rx = [] →
      (∀ P : Header → Bytes → Prop, AnsOk P c.apps → AnsOk P c0.apps) →
      c0.s.p = c.s.p → c0.s.online = c.s.online → c0.s.pendingBytes = c.s.pendingBytes → c0.s.ring = c.s.ring →
      c0.s.lastBusActivity = some l → passNow c0 now = .ok c' → UseOut c.s c.apps c' now := by
    intro c0 d0 f0 e1 e2 e3 e4 e6 e7 e8 e9 e10 hp
    obtain ⟨a1, a2, a3, a4, a5, a6, a7⟩ := passNow_exact c0 c' now l d0 f0 e1 e2 e10 (by rw [e6]; exact hsy) hp
    refine ⟨a1.trans e3, a4.trans e6, a5.trans e7, a6.trans e8, fun P hP => by rw [a2]; exact e4 P hP, ?_⟩
    rw [e6, e9] at a7
    rcases a7 with ⟨a, cur, -, b1, b2, b3, b4, b5, b6⟩ | ⟨b1, b2, b3, b4⟩
    · exact .inr (.inl ⟨a, cur, b1, b2, b3, b4, b5, b6⟩)
    · exact .inr (.inr ⟨b1, b2, b3, b4⟩)
  -- asking the applications first
  have go : ∀ hp : Bool, useTokenGo { c with s := holdUpdate c.s d } now d hp = .ok c' → UseOut c.s c.apps c' now := by
    intro hp hg
    unfold useTokenGo at hg
    simp only at hg
    rcases hat : appsTransmit now hp (upd { c with s := holdUpdate c.s d } fun s => { s with st := .useToken d true }).apps.length
      (upd { c with s := holdUpdate c.s d } fun s => { s with st := .useToken d true }) with ⟨r, b⟩
    rw [hat] at hg
    cases r with
    | panic m => simp only at hg; cases hg
    | ok c1 =>
      obtain ⟨hf, hbf, hbt⟩ := (fun hc ht => appsTransmit_out now hp _ _ c1 b d true hc ht hat) rfl htx
      have hans : ∀ P : Header → Bytes → Prop, AnsOk P c.apps → AnsOk P c1.apps :=
        fun P hP => appsTransmit_ansOk P now hp _ _ c1 b hat hP
      cases b with
      | true =>
        simp only at hg
        cases hg
        have hs := hbt rfl
        refine ⟨hf.rx.trans hrx, hf.p.trans hk.2, hf.online.trans hce.2.2.1, hf.pending.trans hpb, hans, .inl ⟨?_, hf.ring.trans hce.2.1⟩⟩
        obtain ⟨hd, pdu, bytes, e1, e2, e3, e4, e5⟩ := hs
        refine ⟨hd, pdu, bytes, e1, e2, e3, ?_, e5⟩
        simp only [upd] at e4
        rw [e4, hk.2]
      | false =>
        simp only at hg
        obtain ⟨a1, a2, d', a3⟩ := hbf rfl
        exact fin c1 d' true a3 a1 (hf.rx.trans hrx) hans (hf.p.trans hk.2) (hf.online.trans hce.2.2.1)
          (hf.pending.trans hpb) (hf.ring.trans hce.2.1) (by rw [a2]; exact hk.1.trans hl) hg
  rcases ite_inv h with ⟨_, h⟩ | ⟨_, h⟩
  · exact go false h
  · rcases ite_inv h with ⟨_, h⟩ | ⟨_, h⟩
    · exact go true h
    · exact fin { c with s := holdUpdate c.s d } d fcd (hce.2.2.2.2.1.trans hst) htx hrx (fun P hP => hP) hk.2 hce.2.2.1 hpb hce.2.1 (hk.1.trans hl) h

/-! ## Single-poll results for arbitrary application lists (copies of the `apps = []` lemmas) -/

/-- A poll of a station in `AwaitStatusResponse` before the slot time has expired, nothing received: a
complete no-op. -/
theorem await_poll_waitsA (s : Station) (apps : Apps) (now te : Int) (a : Nat) (hinv : Inv s apps) (hon : s.online = true)
    (hst : s.st = .awaitStatus a) (hl : s.lastBusActivity = some te) (hlt : te < now)
    (hw : now ≤ te + (s.p.slotTime : Nat)) :
    s.poll apps now false [] = .ok { s := s, apps := apps, rx := [] } := by
  obtain ⟨c', hc', -, -⟩ := pollInner_good { s := s, apps := apps, rx := [] } now false hinv rfl
  have hc'' : s.poll apps now false [] = .ok c' := hc'
  obtain ⟨-, -, h3⟩ := requester_poll_waits s apps now [] c' te hon (.inl ⟨a, hst⟩) hl hlt (.inr hw) hc''
  have := h3 [] false receiveTelegram_nil
  rw [hc'', this]
  simp only [List.length_nil, checkBus_nil]

/-- **The poll that gives up on an unanswered GAP request** (first poll later than stamp + slot time,
nothing received): the token goes to NS in the same poll. -/
theorem await_poll_timeoutA (s : Station) (apps : Apps) (now te : Int) (a : Nat) (hinv : Inv s apps) (hon : s.online = true)
    (hst : s.st = .awaitStatus a) (hl : s.lastBusActivity = some te) (hexp : te + (s.p.slotTime : Nat) < now)
    (h33 : s.p.bits 33 ≤ s.p.slotTime) :
    ∃ c', s.poll apps now false [] = .ok c' ∧ Inv c'.s c'.apps ∧ c'.rx = [] ∧ c'.apps = apps ∧ c'.s.p = s.p ∧
      c'.s.online = s.online ∧ c'.s.pendingBytes = s.pendingBytes ∧
      c'.tx = some (tokenBytes s.ring.ns s.p.address) ∧
      c'.s.ring = s.ring.witness s.p.address s.ring.ns ∧
      c'.s.st = (if (s.ring.witness s.p.address s.ring.ns).ns = s.p.address
                then FState.useToken ⟨now, none⟩ false else FState.checkTokenPass .first) ∧
      c'.s.lastBusActivity = some (now + (s.p.bits (11 * 3) : Nat)) := by
  obtain ⟨c', hc', hinv', hlen⟩ := pollInner_good { s := s, apps := apps, rx := [] } now false hinv rfl
  have hc'' : s.poll apps now false [] = .ok c' := hc'
  rw [poll_dispatch s apps now [] hon (by rw [hst]; simp) (by rw [hst]; simp)
    (by intro l' hl'; rw [hl] at hl'; cases hl'; omega)] at hc''
  simp only [List.length_nil, checkBus_nil] at hc''
  unfold dispatch at hc''
  simp only [hst] at hc''
  unfold doAwaitStatusResponse at hc''
  simp only [hst] at hc''
  rcases hg : awaitGapPollResponse { s := s, apps := apps, rx := [] } now a with ⟨r, g⟩
  rw [hg] at hc''
  cases r with
  | panic m => cases hc''
  | ok c1 =>
    obtain ⟨rfl, -, rfl⟩ := _root_.PV.awaitGap_silent { s := s, apps := apps, rx := [] } now te a ⟨hon, rfl, rfl, hl⟩ c1 g hg
    rw [if_pos (by simp only; omega)] at hc''
    simp only [tr, toPassToken, hst, Res.bind] at hc''
    obtain ⟨a1, a2, -, a4, a5, a6, a7⟩ := doPassToken_exact
      { s := { s with st := .passToken false .first }, apps := apps, rx := [] } c' now te false .first rfl rfl hl
      (by simp only; omega) hc''
    rcases a7 with ⟨_, _, hf, -⟩ | ⟨b1, b2, b3, b4⟩
    · cases hf
    · exact ⟨c', hc', hinv', a1, a2, a4, a5, a6, b1, b2, b3, b4⟩

/-- A supervising station polled with an incomplete telegram in its buffer (slot not expired): nothing
happens except that the new bytes are registered. -/
theorem check_poll_partialA (s : Station) (apps : Apps) (now : Int) (rx : Bytes) (att : Attempt) (l : Int) (hinv : Inv s apps)
    (hon : s.online = true) (hst : s.st = .checkTokenPass att) (hl : s.lastBusActivity = some l) (hlt : l < now)
    (hne : s.pendingBytes < rx.length ∨ now ≤ l + (s.p.slotTime : Nat))
    (hpart : receiveAll rx = .done rx [] false) :
    ∃ c', s.poll apps now false rx = .ok c' ∧ c'.tx = none ∧ c'.s = checkBusActivity s now rx.length ∧
      c'.apps = apps ∧ c'.rx = rx := by
  obtain ⟨c', hc', -, -⟩ := pollInner_good { s := s, apps := apps, rx := rx } now false hinv rfl
  have hc'' : s.poll apps now false rx = .ok c' := hc'
  obtain ⟨h1, -, h3, -, -, h6⟩ := check_poll_waits s apps now rx c' att l hon hst hl hlt hne hc''
  refine ⟨c', hc'', h1, ?_, h3, ?_⟩
  · rcases h6 with ⟨hs, -⟩ | ⟨-, -, rx', x, rest, ret, hr⟩
    · exact hs
    · rw [hpart] at hr; cases hr
  · rcases h6 with ⟨-, rx', ret, hr, hrx⟩ | ⟨-, -, rx', x, rest, ret, hr⟩
    · rw [hpart] at hr; cases hr; exact hrx
    · rw [hpart] at hr; cases hr

/-- An idle station polled with nothing or an incomplete telegram in its buffer (token-lost time-out
not run out): nothing happens except that new bytes are registered. -/
theorem idle_poll_partialA (s : Station) (apps : Apps) (now : Int) (rx rx' : Bytes) (ret : Bool) (np : Option Nat) (coll : Nat) (l : Int)
    (hon : s.online = true) (hst : s.st = .activeIdle none np coll) (hl : s.lastBusActivity = some l) (hlt : l < now)
    (hto : 0 < s.p.tokenLostTimeout)
    (hne : s.pendingBytes < rx.length ∨ now < l + (s.p.tokenLostTimeout : Nat))
    (hpart : receiveAll rx = .done rx' [] ret) :
    s.poll apps now false rx = .ok { s := checkBusActivity s now rx.length, apps := apps, rx := rx' } := by
  have hlate : ∀ l', s.lastBusActivity = some l' → l' < now := by
    intro l' hl'; rw [hl] at hl'; cases hl'; exact hlt
  obtain ⟨hf1, hf2, -⟩ := checkBA_fields s now rx.length
  obtain ⟨l1, hl1, hle1, hcase⟩ := checkBA_stamp s now rx.length hlate (.inr ⟨l, hl⟩)
  rw [poll_dispatch s apps now rx hon (by rw [hst]; simp) (by rw [hst]; simp) hlate]
  unfold dispatch
  simp only [hf1, hst]
  have hq : ¬ (now - l1).natAbs ≥ (checkBusActivity s now rx.length).p.tokenLostTimeout := by
    rw [hf2]
    rcases hcase with ⟨_, rfl⟩ | ⟨hn, hl'⟩
    · simp; omega
    · rcases hne with h' | h'
      · exact absurd h' hn
      · rw [hl] at hl'; cases hl'; omega
  unfold doActiveIdle
  simp only [hf1, hst]
  rw [handleLost_quiet { s := checkBusActivity s now rx.length, apps := apps, rx := rx } now l1 hl1 hq]
  simp only [hf1, hst]
  simp only [hpart]
  rfl

/-- **One poll of an idle station with any batch**: the telegrams of the batch are handed to
`handle_telegram` one after the other (token-lost time-out not run out). -/
theorem idle_poll_batchA (s : Station) (apps : Apps) (now : Int) (rx rx' : Bytes) (calls : List (Telegram × Bool)) (ret : Bool)
    (np : Option Nat) (coll : Nat) (l : Int)
    (hon : s.online = true) (hst : s.st = .activeIdle none np coll) (hl : s.lastBusActivity = some l) (hlt : l < now)
    (hne : s.pendingBytes < rx.length ∨ now < l + (s.p.tokenLostTimeout : Nat)) (hto : 0 < s.p.tokenLostTimeout)
    (hrx : receiveAll rx = .done rx' calls ret) :
    s.poll apps now false rx =
      foldTelegrams (idleF now) { s := checkBusActivity s now rx.length, apps := apps, rx := rx' } calls := by
  have hlate : ∀ l', s.lastBusActivity = some l' → l' < now := by
    intro l' hl'; rw [hl] at hl'; cases hl'; exact hlt
  obtain ⟨hf1, hf2, -⟩ := checkBA_fields s now rx.length
  obtain ⟨l1, hl1, hle1, hcase⟩ := checkBA_stamp s now rx.length hlate (.inr ⟨l, hl⟩)
  rw [poll_dispatch s apps now rx hon (by rw [hst]; simp) (by rw [hst]; simp) hlate]
  unfold dispatch
  simp only [hf1, hst]
  have hq : ¬ (now - l1).natAbs ≥ (checkBusActivity s now rx.length).p.tokenLostTimeout := by
    rw [hf2]
    rcases hcase with ⟨_, rfl⟩ | ⟨hn, hl'⟩
    · simp; omega
    · rcases hne with h' | h'
      · exact absurd h' hn
      · rw [hl] at hl'; cases hl'; omega
  unfold doActiveIdle
  simp only [hf1, hst]
  rw [handleLost_quiet { s := checkBusActivity s now rx.length, apps := apps, rx := rx } now l1 hl1 hq]
  simp only [hf1, hst]
  simp only [hrx]
  rfl

/-- **One poll of a supervising station that hears at least one complete telegram** (slot not expired):
supervision ends; the batch is handled as by an idle station. -/
theorem check_poll_batchA (s : Station) (apps : Apps) (now : Int) (rx rx' : Bytes) (x : Telegram × Bool) (rest : List (Telegram × Bool))
    (ret : Bool) (att : Attempt) (l : Int)
    (hon : s.online = true) (hst : s.st = .checkTokenPass att) (hl : s.lastBusActivity = some l) (hlt : l < now)
    (hne : s.pendingBytes < rx.length ∨ now ≤ l + (s.p.slotTime : Nat))
    (hrx : receiveAll rx = .done rx' (x :: rest) ret) :
    s.poll apps now false rx =
      foldTelegrams (idleF now)
        { s := { (checkBusActivity s now rx.length) with st := .activeIdle none none 0 }, apps := apps, rx := rx' }
        (x :: rest) := by
  have hlate : ∀ l', s.lastBusActivity = some l' → l' < now := by
    intro l' hl'; rw [hl] at hl'; cases hl'; exact hlt
  obtain ⟨hf1, hf2, -⟩ := checkBA_fields s now rx.length
  obtain ⟨l1, hl1, hle1, hcase⟩ := checkBA_stamp s now rx.length hlate (.inr ⟨l, hl⟩)
  rw [poll_dispatch s apps now rx hon (by rw [hst]; simp) (by rw [hst]; simp) hlate]
  unfold dispatch
  simp only [hf1, hst]
  have hq : ¬ now > l1 + ((checkBusActivity s now rx.length).p.slotTime : Nat) := by
    rw [hf2]
    rcases hcase with ⟨_, rfl⟩ | ⟨hn, hl'⟩
    · omega
    · rcases hne with h' | h'
      · exact absurd h' hn
      · rw [hl] at hl'; cases hl'; omega
  obtain ⟨t, fl⟩ := x
  unfold doCheckTokenPass
  simp only [hf1, hst]
  rw [checkSlot_some _ _ _ hl1]
  simp only [decide_eq_true_eq]
  rw [if_neg hq]
  simp only [hrx, tr, toActiveIdle, Res.bind, foldTelegrams, idleF, upd]
  simp only [markRx_st, hf1, hst]
  rfl

/-- **The transmitting poll of a token holder with arbitrary applications** (first poll later than 33 bit
after its stamp, silent bus). -/
theorem holder_poll_outA (s : Station) (apps : Apps) (now l : Int) (d : UseData) (fcd : Bool) (hinv : Inv s apps)
    (hon : s.online = true) (hst : s.st = .useToken d fcd) (hl : s.lastBusActivity = some l)
    (hsy : l + (s.p.bits 33 : Nat) < now) :
    ∃ c', s.poll apps now false [] = .ok c' ∧ Inv c'.s c'.apps ∧ c'.apps.length = apps.length ∧ UseOut s apps c' now := by
  obtain ⟨c', hc', hinv', hlen⟩ := pollInner_good { s := s, apps := apps, rx := [] } now false hinv rfl
  refine ⟨c', hc', hinv', hlen, ?_⟩
  have hc'' : s.poll apps now false [] = .ok c' := hc'
  rw [poll_dispatch s apps now [] hon (by rw [hst]; simp) (by rw [hst]; simp)
    (by intro l' hl'; rw [hl] at hl'; cases hl'; omega)] at hc''
  simp only [List.length_nil, checkBus_nil] at hc''
  unfold dispatch at hc''
  simp only [hst] at hc''
  exact doUseToken_out { s := s, apps := apps, rx := [] } c' now l d fcd hst rfl rfl hl hsy hc''

/-- A poll of a station waiting for a data reply before the slot time has expired, nothing received. -/
theorem awaitD_poll_waitsA (s : Station) (apps : Apps) (now te : Int) (a : Nat) (d : UseData) (hinv : Inv s apps)
    (hon : s.online = true) (hst : s.st = .awaitData a d) (hl : s.lastBusActivity = some te) (hlt : te < now)
    (hw : now ≤ te + (s.p.slotTime : Nat)) :
    s.poll apps now false [] = .ok { s := s, apps := apps, rx := [] } := by
  obtain ⟨c', hc', -, -⟩ := pollInner_good { s := s, apps := apps, rx := [] } now false hinv rfl
  have hc'' : s.poll apps now false [] = .ok c' := hc'
  obtain ⟨-, -, h3⟩ := requester_poll_waits s apps now [] c' te hon (.inr (.inr ⟨a, d, hst⟩)) hl hlt (.inr hw) hc''
  have := h3 [] false receiveTelegram_nil
  rw [hc'', this]
  simp only [List.length_nil, checkBus_nil]

/-- **The poll that gives up on an unanswered data request**: the application gets its `timeout`, and the
token visit continues in the same poll — the station transmits again. -/
theorem awaitD_poll_timeoutA (s : Station) (apps : Apps) (now te : Int) (a : Nat) (d : UseData) (hinv : Inv s apps)
    (hon : s.online = true) (hst : s.st = .awaitData a d) (hl : s.lastBusActivity = some te)
    (hexp : te + (s.p.slotTime : Nat) < now) (h33 : s.p.bits 33 ≤ s.p.slotTime) :
    ∃ c', s.poll apps now false [] = .ok c' ∧ Inv c'.s c'.apps ∧ c'.apps.length = apps.length ∧ UseOut s apps c' now := by
  obtain ⟨c', hc', hinv', hlen⟩ := pollInner_good { s := s, apps := apps, rx := [] } now false hinv rfl
  refine ⟨c', hc', hinv', hlen, ?_⟩
  have hc'' : s.poll apps now false [] = .ok c' := hc'
  rw [poll_dispatch s apps now [] hon (by rw [hst]; simp) (by rw [hst]; simp)
    (by intro l' hl'; rw [hl] at hl'; cases hl'; omega)] at hc''
  simp only [List.length_nil, checkBus_nil] at hc''
  unfold dispatch at hc''
  simp only [hst] at hc''
  rw [awaitData_timeout { s := s, apps := apps, rx := [] } now te a d ⟨hon, rfl, rfl, hl⟩ hst (hinv.appWait a d hst)
    (by simp only; omega)] at hc''
  have := doUseToken_out _ c' now te d true rfl rfl rfl hl (by simp only; omega) hc''
  exact this

end PV
