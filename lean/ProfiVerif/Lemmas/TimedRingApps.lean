/-
Timed ring with application traffic, station level: properties of the application scripts that survive
polls; single-poll results for arbitrary application lists.  Helper lemmas.
-/
import ProfiVerif.Lemmas.TimedRingNSys

namespace PV
open StationGap TokenRing

/-! ## Properties of script answers survive every poll -/

/-- Every telegram any script will ever hand over satisfies `P`. -/
def AnsOk (P : Header → Bytes → Prop) (apps : Apps) : Prop :=
  ∀ script ∈ apps, ∀ ans ∈ script, ∀ h pdu, ans = AppAnswer.send h pdu → P h pdu

theorem ansOk_set (P : Header → Bytes → Prop) (apps : Apps) (i : Nat) (script : List AppAnswer) (h : AnsOk P apps)
    (hs : apps[i]? = some script) : AnsOk P (apps.set i script.tail) := by
  intro sc hsc ans hans hh pdu he
  rcases List.mem_or_eq_of_mem_set hsc with hm | rfl
  · exact h sc hm ans hans hh pdu he
  · exact h script (List.mem_of_getElem? hs) ans (List.mem_of_mem_tail hans) hh pdu he

theorem appTransmit_ansOk (P : Header → Bytes → Prop) (c c1 : Ctx) (now : Int) (hp b : Bool)
    (h : appTransmit c now hp = (.ok c1, b)) (ha : AnsOk P c.apps) : AnsOk P c1.apps := by
  unfold appTransmit at h
  simp only at h
  rcases hs : c.apps[c.s.nextApp]? with _ | script <;> rw [hs] at h <;> simp only at h
  · cases h
  have hset := ansOk_set P c.apps c.s.nextApp script ha hs
  rcases hans : script.headD .decline with _ | ⟨hd, pdu⟩ <;> rw [hans] at h <;> simp only at h
  · simp only [Prod.mk.injEq, Res.ok.injEq] at h
    rw [← h.1]; exact hset
  rcases hser : hd.serialize pdu with bytes | _ <;> rw [hser] at h <;> simp only at h
  · rcases hexp : expectsReplyOf hd with _ | a8 <;> rw [hexp] at h <;> simp only at h
    · simp only [Prod.mk.injEq] at h
      have := transmit_inv h.1
      rw [this]; exact hset
    · split at h
      · split at h
        · simp only [Prod.mk.injEq] at h
          have := transmit_inv h.1
          rw [this]; exact hset
        · cases h
      · cases h
  · cases h

theorem appsTransmit_ansOk (P : Header → Bytes → Prop) (now : Int) (hp : Bool) : ∀ (k : Nat) (c c1 : Ctx) (b : Bool),
    appsTransmit now hp k c = (.ok c1, b) → AnsOk P c.apps → AnsOk P c1.apps := by
  intro k
  induction k with
  | zero => intro c c1 b h ha; simp only [appsTransmit, Prod.mk.injEq, Res.ok.injEq] at h; rw [← h.1]; exact ha
  | succ k ih =>
    intro c c1 b h ha
    simp only [appsTransmit] at h
    rcases hat : appTransmit c now hp with ⟨r, b1⟩
    rw [hat] at h
    cases r with
    | panic site => cases h
    | ok c2 =>
      have h2 := appTransmit_ansOk P c c2 now hp b1 hat ha
      cases b1 with
      | true => simp only [Prod.mk.injEq, Res.ok.injEq] at h; rw [← h.1]; exact h2
      | false =>
        simp only at h
        split at h
        · simp only [upd] at h
          rcases ite_inv h with ⟨_, h⟩ | ⟨_, h⟩
          · simp only [Prod.mk.injEq, Res.ok.injEq] at h; rw [← h.1]; exact h2
          · exact ih _ c1 b h h2
        · cases h

/-! ## What asking the applications does -/

/-- An application telegram was handed to the PHY at `now`: header and PDU come from a script (so they have
every property all script answers have), the stamp is the predicted end, and the station keeps using the
token or awaits the reply. -/
def AppSent (apps : Apps) (p : Params) (c1 : Ctx) (now : Int) : Prop :=
  ∃ hd pdu bytes, (∀ P : Header → Bytes → Prop, AnsOk P apps → P hd pdu) ∧ hd.serialize pdu = .ok bytes ∧
    c1.tx = some bytes ∧ c1.s.lastBusActivity = some (now + (p.bits (11 * bytes.length) : Nat)) ∧
    ((expectsReplyOf hd = none ∧ ∃ d' f', c1.s.st = .useToken d' f') ∨
     (∃ a8, expectsReplyOf hd = some a8 ∧ ∃ d', c1.s.st = .awaitData a8.toNat d'))

/-- Fields no application call touches. -/
structure AppFrame (c c1 : Ctx) : Prop where
  rx : c1.rx = c.rx
  p : c1.s.p = c.s.p
  ring : c1.s.ring = c.s.ring
  online : c1.s.online = c.s.online
  pending : c1.s.pendingBytes = c.s.pendingBytes
  gap : c1.s.gap = c.s.gap

theorem AppFrame.trans {a b c : Ctx} (h1 : AppFrame a b) (h2 : AppFrame b c) : AppFrame a c :=
  ⟨h2.rx.trans h1.rx, h2.p.trans h1.p, h2.ring.trans h1.ring, h2.online.trans h1.online, h2.pending.trans h1.pending,
    h2.gap.trans h1.gap⟩

theorem appTransmit_out (c c1 : Ctx) (now : Int) (hp b : Bool) (d : UseData) (fcd : Bool)
    (hst : c.s.st = .useToken d fcd) (htx : c.tx = none) (h : appTransmit c now hp = (.ok c1, b)) :
    AppFrame c c1 ∧
    (b = false → c1.tx = none ∧ c1.s.lastBusActivity = c.s.lastBusActivity ∧ c1.s.st = c.s.st) ∧
    (b = true → AppSent c.apps c.s.p c1 now) := by
  unfold appTransmit at h
  simp only at h
  rcases hs : c.apps[c.s.nextApp]? with _ | script <;> rw [hs] at h <;> simp only at h
  · cases h
  rcases hans : script.headD .decline with _ | ⟨hd, pdu⟩ <;> rw [hans] at h <;> simp only at h
  · simp only [Prod.mk.injEq, Res.ok.injEq] at h
    obtain ⟨h1, h2⟩ := h
    subst h1; subst h2
    exact ⟨⟨rfl, rfl, rfl, rfl, rfl, rfl⟩, fun _ => ⟨htx, rfl, rfl⟩, (fun hb => by cases hb)⟩
  have hmem : AppAnswer.send hd pdu ∈ script := by
    cases script with
    | nil => simp at hans
    | cons a r => simp only [List.headD_cons] at hans; rw [hans]; exact List.mem_cons_self ..
  have hP : ∀ P : Header → Bytes → Prop, AnsOk P c.apps → P hd pdu :=
    fun P ha => ha script (List.mem_of_getElem? hs) _ hmem hd pdu rfl
  rcases hser : hd.serialize pdu with bytes | _ <;> rw [hser] at h <;> simp only at h
  · rcases hexp : expectsReplyOf hd with _ | a8 <;> rw [hexp] at h <;> simp only at h
    · simp only [Prod.mk.injEq] at h
      obtain ⟨h1, h2⟩ := h
      have := transmit_inv h1
      subst this; subst h2
      refine ⟨⟨rfl, rfl, rfl, rfl, rfl, rfl⟩, (fun hb => by cases hb), fun _ => ⟨hd, pdu, bytes, hP, hser, rfl, rfl,
        .inl ⟨hexp, d, fcd, by simpa [markTx] using hst⟩⟩⟩
    · rw [hst] at h
      simp only [toAwaitData, hst] at h
      simp only [Prod.mk.injEq] at h
      obtain ⟨h1, h2⟩ := h
      have := transmit_inv h1
      subst this; subst h2
      refine ⟨⟨rfl, rfl, rfl, rfl, rfl, rfl⟩, (fun hb => by cases hb), fun _ => ⟨hd, pdu, bytes, hP, hser, rfl, rfl,
        .inr ⟨a8, hexp, d, rfl⟩⟩⟩
  · cases h

theorem appsTransmit_out (now : Int) (hp : Bool) : ∀ (k : Nat) (c c1 : Ctx) (b : Bool) (d : UseData) (fcd : Bool),
    c.s.st = .useToken d fcd → c.tx = none → appsTransmit now hp k c = (.ok c1, b) →
    AppFrame c c1 ∧
    (b = false → c1.tx = none ∧ c1.s.lastBusActivity = c.s.lastBusActivity ∧ ∃ d', c1.s.st = .useToken d' fcd) ∧
    (b = true → AppSent c.apps c.s.p c1 now) := by
  intro k
  induction k with
  | zero =>
    intro c c1 b d fcd hst htx h
    simp only [appsTransmit, Prod.mk.injEq, Res.ok.injEq] at h
    obtain ⟨h1, h2⟩ := h
    subst h1; subst h2
    exact ⟨⟨rfl, rfl, rfl, rfl, rfl, rfl⟩, fun _ => ⟨htx, rfl, d, hst⟩, (fun hb => by cases hb)⟩
  | succ k ih =>
    intro c c1 b d fcd hst htx h
    simp only [appsTransmit] at h
    rcases hat : appTransmit c now hp with ⟨r, b1⟩
    rw [hat] at h
    cases r with
    | panic site => cases h
    | ok c2 =>
      obtain ⟨hf, hbf, hbt⟩ := appTransmit_out c c2 now hp b1 d fcd hst htx hat
      cases b1 with
      | true =>
        simp only [Prod.mk.injEq, Res.ok.injEq] at h
        obtain ⟨h1, h2⟩ := h
        subst h1; subst h2
        exact ⟨hf, (fun hb => by cases hb), fun _ => hbt rfl⟩
      | false =>
        obtain ⟨htx2, hl2, hs2⟩ := hbf rfl
        simp only at h
        rw [hs2, hst] at h
        simp only [upd] at h
        rcases ite_inv h with ⟨_, h⟩ | ⟨_, h⟩
        · simp only [Prod.mk.injEq, Res.ok.injEq] at h
          obtain ⟨h1, h2⟩ := h
          subst h1; subst h2
          exact ⟨⟨hf.rx, hf.p, hf.ring, hf.online, hf.pending, hf.gap⟩, fun _ => ⟨htx2, hl2, _, rfl⟩, (fun hb => by cases hb)⟩
        · obtain ⟨hf3, hbf3, hbt3⟩ := (fun hc ht => ih _ c1 b _ fcd hc ht h) rfl htx2
          have hf' : AppFrame c c1 := ⟨hf3.rx.trans hf.rx, hf3.p.trans hf.p, hf3.ring.trans hf.ring,
            hf3.online.trans hf.online, hf3.pending.trans hf.pending, hf3.gap.trans hf.gap⟩
          refine ⟨hf', fun hb => ?_, fun hb => ?_⟩
          · obtain ⟨a1, a2, a3⟩ := hbf3 hb
            exact ⟨a1, a2.trans hl2, a3⟩
          · obtain ⟨hd, pdu, bytes, e1, e2, e3, e4, e5⟩ := hbt3 hb
            refine ⟨hd, pdu, bytes, fun P ha => e1 P (appTransmit_ansOk P c c2 now hp false hat ha), e2, e3, ?_, e5⟩
            simp only at e4
            rw [e4, hf.p]

end PV
