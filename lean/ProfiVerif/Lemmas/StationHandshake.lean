/-
Two-party handshake timing (C01): the token hand-over (receiver starts after the synchronisation
pause, sender supervises for one slot time) and the request/reply exchange, as theorems about the
station model.  Helper lemmas; the property theorems are in `Props/C01.lean`.
-/
import ProfiVerif.Lemmas.StationProgress
import ProfiVerif.Lemmas.StationTrace

namespace PV

/-! ## Whole-poll reductions -/

theorem pollStart_awake (c : Ctx) (hno : c.s.st ≠ .offline) (hnp : c.s.st ≠ .passiveIdle) : pollStart c = .ok c := by
  unfold pollStart
  cases hst : c.s.st with
  | offline => exact absurd hst hno
  | passiveIdle => exact absurd hst hnp
  | _ => rfl

/-- A poll made while the PHY still transmits is a no-op except for the stamp; a poll at a time not
later than the stamp is a complete no-op (`check_for_ongoing_transmision`). -/
theorem poll_ongoing (s : Station) (apps : Apps) (now : Int) (phy : Bool) (rx : Bytes) (hon : s.online = true)
    (hno : s.st ≠ .offline) (hnp : s.st ≠ .passiveIdle) (l : Int) (hl : s.lastBusActivity = some l) (hle : now ≤ l) :
    s.poll apps now phy rx = .ok { s := s, apps := apps, rx := rx } := by
  unfold Station.poll pollInner
  rw [if_neg (by simp [hon]), pollStart_awake _ hno hnp]
  simp only [Res.bind]
  rw [if_pos (by simp [ongoing, hl, hle])]
  simp only [upd]
  rw [markBus_same _ _ _ hl hle]

/-- A poll later than the stamp with the PHY idle runs the state handler after
`check_for_bus_activity`. -/
theorem poll_dispatch (s : Station) (apps : Apps) (now : Int) (rx : Bytes) (hon : s.online = true)
    (hno : s.st ≠ .offline) (hnp : s.st ≠ .passiveIdle) (hlate : ∀ l, s.lastBusActivity = some l → l < now) :
    s.poll apps now false rx =
      dispatch { s := checkBusActivity s now rx.length, apps := apps, rx := rx } now := by
  unfold Station.poll pollInner
  rw [if_neg (by simp [hon]), pollStart_awake _ hno hnp]
  simp only [Res.bind]
  have : ongoing { s := s, apps := apps, rx := rx } now false = false := by
    unfold ongoing
    cases hl : s.lastBusActivity with
    | none => simp [hl]
    | some l => have := hlate l hl; simp [hl]; omega
  rw [if_neg (by simp [this])]
  rfl

/-- The stamp after `check_for_bus_activity` in a poll later than the old stamp. -/
theorem checkBA_last (s : Station) (now : Int) (n : Nat) (hlate : ∀ l, s.lastBusActivity = some l → l < now) :
    (checkBusActivity s now n).lastBusActivity =
      if n > s.pendingBytes then some now else s.lastBusActivity := by
  unfold checkBusActivity
  split
  · simp only [markBusActivity]
    cases hl : s.lastBusActivity with
    | none => simp
    | some l => have := hlate l hl; simp; omega
  · rfl

theorem receiveAll_token (da sa : UInt8) :
    receiveAll (sendToken da sa) = .done [] [(.token da sa, true)] true := by
  simp [receiveAll, receiveAllFuel, sendToken, deserialize, deserializeToken, SD4, SC]

/-! ## Part 1 — the receiver of a token

### The accepting poll -/

theorem handleLost_quiet (c : Ctx) (now l : Int) (hl : c.s.lastBusActivity = some l)
    (hq : ¬ (now - l).natAbs ≥ c.s.p.tokenLostTimeout) : handleLostToken c now = (c, none) := by
  unfold handleLostToken
  rw [getOrInsert_last _ _ _ hl]
  simp only
  rw [if_neg hq]

theorem markRx_at (s : Station) (now l : Int) (hl : s.lastBusActivity = some l) (hle : l ≤ now) :
    markRx s now = { s with pendingBytes := 0, lastBusActivity := some now } := by
  unfold markRx markBusActivity
  simp only [hl, Option.getD_some]
  rw [Int.max_eq_right hle]

/-- The ring view after accepting a token: untouched when it comes from the registered predecessor,
otherwise (pending stranger) the stranger's pass is witnessed. -/
def acceptRing (r : TokenRing) (sa da : Nat) : TokenRing := if sa = r.ps then r else r.witness sa da

/-- `handle_telegram` accepts the token: addressed to this station, last of its batch, from the
registered predecessor (ring view untouched) or from the pending stranger (its pass is witnessed). -/
theorem handleTelegram_accepts (c : Ctx) (now : Int) (np : Option Nat) (coll : Nat) (da sa : UInt8)
    (hst : c.s.st = .activeIdle none np coll) (hda : da.toNat = c.s.p.address) (hsa : sa.toNat ≠ c.s.p.address)
    (hsrc : sa.toNat = c.s.ring.ps ∨ np = some sa.toNat) :
    handleTelegram c now (.token da sa) true =
      .ok { c with s := { c.s with st := .useToken ⟨now, none⟩ false, ring := acceptRing c.s.ring sa.toNat da.toNat } } := by
  unfold handleTelegram acceptRing
  rw [hst]
  simp only
  rw [if_neg hsa]
  simp only [upd, hda, ne_eq, not_true_eq_false, Bool.not_true, Bool.false_eq_true, or_self, if_false]
  by_cases hps : sa.toNat = c.s.ring.ps
  · rw [if_pos hps, if_pos hps]
    simp [tr, toUseToken]
  · rw [if_neg hps, if_neg hps]
    have hnp : np = some sa.toNat := hsrc.resolve_left hps
    rw [if_pos hnp]
    simp [tr, toUseToken, upd, hda]

/-- `do_active_idle` accepting a token that is the only telegram of the batch. -/
theorem doActiveIdle_accepts (c : Ctx) (now l : Int) (np : Option Nat) (coll : Nat) (da sa : UInt8) (rx' : Bytes) (ret : Bool)
    (hst : c.s.st = .activeIdle none np coll) (hl : c.s.lastBusActivity = some l) (hle : l ≤ now)
    (hq : ¬ (now - l).natAbs ≥ c.s.p.tokenLostTimeout)
    (hrx : receiveAll c.rx = .done rx' [(.token da sa, true)] ret)
    (hda : da.toNat = c.s.p.address) (hsa : sa.toNat ≠ c.s.p.address)
    (hsrc : sa.toNat = c.s.ring.ps ∨ np = some sa.toNat) :
    doActiveIdle c now = .ok { c with rx := rx', s := { c.s with
      st := .useToken ⟨now, none⟩ false, ring := acceptRing c.s.ring sa.toNat da.toNat,
      pendingBytes := 0, lastBusActivity := some now } } := by
  have h := handleTelegram_accepts
    { c with rx := rx', s := { c.s with pendingBytes := 0, lastBusActivity := some now } } now np coll da sa hst hda hsa hsrc
  unfold doActiveIdle
  rw [hst]
  simp only
  rw [handleLost_quiet c now l hl hq]
  simp only [hst, hrx, foldTelegrams, upd]
  rw [markRx_at _ _ _ hl hle, h]
  rfl

/-- `do_check_token_pass` (slot time not expired) accepting a token from the registered predecessor
that is the only telegram of the batch. -/
theorem doCheckTokenPass_accepts (c : Ctx) (now l : Int) (att : Attempt) (da sa : UInt8) (rx' : Bytes) (ret : Bool)
    (hst : c.s.st = .checkTokenPass att) (hl : c.s.lastBusActivity = some l) (hle : l ≤ now)
    (hq : ¬ now > l + (c.s.p.slotTime : Nat))
    (hrx : receiveAll c.rx = .done rx' [(.token da sa, true)] ret)
    (hda : da.toNat = c.s.p.address) (hsa : sa.toNat ≠ c.s.p.address) (hsrc : sa.toNat = c.s.ring.ps) :
    doCheckTokenPass c now = .ok { c with rx := rx', s := { c.s with
      st := .useToken ⟨now, none⟩ false, pendingBytes := 0, lastBusActivity := some now } } := by
  have h := handleTelegram_accepts
    { c with rx := rx', s := { c.s with pendingBytes := 0, lastBusActivity := some now, st := .activeIdle none none 0 } }
    now none 0 da sa rfl hda hsa (.inl hsrc)
  simp only [acceptRing, hsrc, if_true] at h
  unfold doCheckTokenPass
  rw [hst]
  simp only
  rw [checkSlot_some _ _ _ hl]
  simp only [decide_eq_true_eq]
  rw [if_neg hq]
  simp only [hrx, tr, toActiveIdle, Res.bind, foldTelegrams]
  rw [markRx_at _ _ _ hl hle]
  simp only [hst]
  rw [h]

theorem checkBA_fields (s : Station) (now : Int) (n : Nat) :
    (checkBusActivity s now n).st = s.st ∧ (checkBusActivity s now n).p = s.p ∧
    (checkBusActivity s now n).ring = s.ring ∧ (checkBusActivity s now n).online = s.online ∧
    (checkBusActivity s now n).gap = s.gap ∧ (checkBusActivity s now n).nextApp = s.nextApp ∧
    (checkBusActivity s now n).lastTokenTime = s.lastTokenTime ∧
    (checkBusActivity s now n).endTokenHoldTime = s.endTokenHoldTime := by
  unfold checkBusActivity; split <;> simp [markBusActivity]

/-- Overwriting stamp and pending count makes `check_for_bus_activity` invisible. -/
theorem checkBA_overwrite (s : Station) (now : Int) (n : Nat) (st' : FState) (r : TokenRing) (pb : Nat) (l' : Option Int) :
    ({ (checkBusActivity s now n) with st := st', ring := r, pendingBytes := pb, lastBusActivity := l' } : Station) =
      { s with st := st', ring := r, pendingBytes := pb, lastBusActivity := l' } := by
  unfold checkBusActivity; split <;> simp [markBusActivity]

/-- The stamp the state handler sees: the poll time if a new byte is pending, else the old stamp. -/
theorem checkBA_stamp (s : Station) (now : Int) (n : Nat) (hlate : ∀ l, s.lastBusActivity = some l → l < now)
    (h : s.pendingBytes < n ∨ ∃ l, s.lastBusActivity = some l) :
    ∃ l1, (checkBusActivity s now n).lastBusActivity = some l1 ∧ l1 ≤ now ∧
      ((s.pendingBytes < n ∧ l1 = now) ∨ (¬ s.pendingBytes < n ∧ s.lastBusActivity = some l1)) := by
  rw [checkBA_last s now n hlate]
  by_cases hn : n > s.pendingBytes
  · rw [if_pos hn]; exact ⟨now, rfl, Int.le_refl _, .inl ⟨hn, rfl⟩⟩
  · rw [if_neg hn]
    rcases h with h | ⟨l, hl⟩
    · exact absurd h hn
    · exact ⟨l, hl, Int.le_of_lt (hlate l hl), .inr ⟨hn, hl⟩⟩

/-- **The accepting poll, from `ActiveIdle`.**  An idle station (no status request pending) is polled at
`p1` with a receive buffer that decodes to exactly one telegram, the token addressed to it from the
registered predecessor or the pending stranger; the poll is later than the stamp, the PHY is idle and
the token-lost time-out has not run out (it cannot have, if the last byte of the token is new at
this poll).  Then the poll consumes the token, transmits nothing, and the station holds the token with
`token_time = p1`, stamp `p1`, pending count 0. -/
theorem idle_poll_accepts (s : Station) (apps : Apps) (p1 : Int) (rx rx' : Bytes) (np : Option Nat) (coll : Nat)
    (da sa : UInt8) (ret : Bool) (hon : s.online = true) (hst : s.st = .activeIdle none np coll)
    (hlate : ∀ l, s.lastBusActivity = some l → l < p1) (hto : 0 < s.p.tokenLostTimeout)
    (hfresh : s.pendingBytes < rx.length ∨ ∃ l, s.lastBusActivity = some l ∧ p1 < l + (s.p.tokenLostTimeout : Nat))
    (hrx : receiveAll rx = .done rx' [(.token da sa, true)] ret)
    (hda : da.toNat = s.p.address) (hsa : sa.toNat ≠ s.p.address) (hsrc : sa.toNat = s.ring.ps ∨ np = some sa.toNat) :
    s.poll apps p1 false rx = .ok {
      s := { s with
        st := .useToken ⟨p1, none⟩ false, ring := acceptRing s.ring sa.toNat da.toNat,
        pendingBytes := 0, lastBusActivity := some p1 },
      apps := apps, rx := rx' } := by
  obtain ⟨hf1, hf2, hf3, -⟩ := checkBA_fields s p1 rx.length
  obtain ⟨l1, hl1, hle1, hcase⟩ := checkBA_stamp s p1 rx.length hlate
    (hfresh.imp id (fun ⟨l, h, _⟩ => ⟨l, h⟩))
  rw [poll_dispatch s apps p1 rx hon (by rw [hst]; simp) (by rw [hst]; simp) hlate]
  unfold dispatch
  simp only [hf1, hst]
  have hq : ¬ (p1 - l1).natAbs ≥ (checkBusActivity s p1 rx.length).p.tokenLostTimeout := by
    rw [hf2]
    rcases hcase with ⟨_, rfl⟩ | ⟨hn, hl⟩
    · simp; omega
    · rcases hfresh with h | ⟨l, hl', hlt⟩
      · exact absurd h hn
      · rw [hl] at hl'; cases hl'; omega
  rw [doActiveIdle_accepts { s := checkBusActivity s p1 rx.length, apps := apps, rx := rx } p1 l1 np coll da sa rx' ret
    (by simp only [hf1, hst]) hl1 hle1 hq hrx (by simp only [hf2]; exact hda) (by simp only [hf2]; exact hsa)
    (by simp only [hf3]; exact hsrc)]
  simp only [hf3]
  rw [checkBA_overwrite]

/-- **The accepting poll, from `CheckTokenPass`** (the slot time of the own pass not yet expired — e.g. in a
two-station ring the token comes straight back): only a token from the registered predecessor is
accepted (`toActiveIdle` clears the pending stranger). -/
theorem check_poll_accepts (s : Station) (apps : Apps) (p1 : Int) (rx rx' : Bytes) (att : Attempt)
    (da sa : UInt8) (ret : Bool) (hon : s.online = true) (hst : s.st = .checkTokenPass att)
    (hlate : ∀ l, s.lastBusActivity = some l → l < p1)
    (hfresh : s.pendingBytes < rx.length ∨ ∃ l, s.lastBusActivity = some l ∧ p1 ≤ l + (s.p.slotTime : Nat))
    (hrx : receiveAll rx = .done rx' [(.token da sa, true)] ret)
    (hda : da.toNat = s.p.address) (hsa : sa.toNat ≠ s.p.address) (hsrc : sa.toNat = s.ring.ps) :
    s.poll apps p1 false rx = .ok {
      s := { s with st := .useToken ⟨p1, none⟩ false, ring := s.ring, pendingBytes := 0, lastBusActivity := some p1 },
      apps := apps, rx := rx' } := by
  obtain ⟨hf1, hf2, hf3, -⟩ := checkBA_fields s p1 rx.length
  obtain ⟨l1, hl1, hle1, hcase⟩ := checkBA_stamp s p1 rx.length hlate
    (hfresh.imp id (fun ⟨l, h, _⟩ => ⟨l, h⟩))
  rw [poll_dispatch s apps p1 rx hon (by rw [hst]; simp) (by rw [hst]; simp) hlate]
  unfold dispatch
  simp only [hf1, hst]
  have hq : ¬ p1 > l1 + ((checkBusActivity s p1 rx.length).p.slotTime : Nat) := by
    rw [hf2]
    rcases hcase with ⟨_, rfl⟩ | ⟨hn, hl⟩
    · omega
    · rcases hfresh with h | ⟨l, hl', hlt⟩
      · exact absurd h hn
      · rw [hl] at hl'; cases hl'; omega
  rw [doCheckTokenPass_accepts { s := checkBusActivity s p1 rx.length, apps := apps, rx := rx } p1 l1 att da sa rx' ret
    (by simp only [hf1, hst]) hl1 hle1 hq hrx (by simp only [hf2]; exact hda) (by simp only [hf2]; exact hsa)
    (by simp only [hf3]; exact hsrc)]
  have := checkBA_overwrite s p1 rx.length (.useToken ⟨p1, none⟩ false) s.ring 0 (some p1)
  rw [← this, ← hf3]

/-! ### The token holder waits for the synchronisation pause, then transmits -/

theorem doUseToken_waits (c : Ctx) (now l : Int) (d : UseData) (fcd : Bool) (hst : c.s.st = .useToken d fcd)
    (hl : c.s.lastBusActivity = some l) (hw : now ≤ l + (c.s.p.bits 33 : Nat)) :
    doUseToken c now = .ok { c with s := holdUpdate c.s d } := by
  have hk := holdUpdate_keeps c.s d
  unfold doUseToken
  rw [hst]
  simp only
  rw [waitSync_some _ _ l (by rw [hk.1]; exact hl)]
  simp only [hk.2, decide_eq_true_eq]
  rw [if_pos hw]

/-- A poll of a token holder before the end of the synchronisation pause: nothing is transmitted, no
application is called, the receive buffer is untouched; FDL state, ring view, GAP state, stamp are
unchanged (only the hold-time bookkeeping of the first `UseToken` poll happens). -/
theorem holder_poll_waits (s : Station) (apps : Apps) (now l : Int) (d : UseData) (fcd : Bool)
    (hon : s.online = true) (hst : s.st = .useToken d fcd) (hl : s.lastBusActivity = some l)
    (hw : now ≤ l + (s.p.bits 33 : Nat)) :
    ∃ s', s.poll apps now false [] = .ok { s := s', apps := apps, rx := [] } ∧ CoreEq s' s ∧
      s'.lastBusActivity = some l ∧ s'.pendingBytes = s.pendingBytes := by
  by_cases hle : now ≤ l
  · exact ⟨s, poll_ongoing s apps now false [] hon (by rw [hst]; simp) (by rw [hst]; simp) l hl hle,
      ⟨rfl, rfl, rfl, rfl, rfl, rfl⟩, hl, rfl⟩
  · refine ⟨holdUpdate s d, ?_, coreEq_holdUpdate s d, (holdUpdate_keeps s d).1.trans hl, ?_⟩
    · rw [poll_dispatch s apps now [] hon (by rw [hst]; simp) (by rw [hst]; simp)
        (by intro l' hl'; rw [hl] at hl'; cases hl'; omega)]
      simp only [List.length_nil, checkBus_nil]
      unfold dispatch
      simp only [hst]
      rw [doUseToken_waits _ now l d fcd hst hl hw]
    · unfold holdUpdate; split <;> rfl

/-- `do_pass_token` once the synchronisation pause is over: a GAP poll or the token goes out. -/
theorem doPassToken_goes (c : Ctx) (now l : Int) (hs : Sil c l) (hsy : l + (c.s.p.bits 33 : Nat) < now) (c' : Ctx)
    (h : doPassToken c now = .ok c') : c'.tx ≠ none := by
  unfold doPassToken at h
  split at h
  · rename_i doGap att hst
    rw [waitSync_some _ _ _ hs.last] at h
    simp only at h
    rw [if_neg (by simp; omega)] at h
    have pass : ∀ c0 : Ctx, passTokenOn c0 now att = .ok c' → c'.tx ≠ none := by
      intro c0 hp0
      obtain ⟨-, htx, -⟩ := passTokenOn_sends c0 now att c' hp0
      rw [htx]; simp
    cases doGap with
    | false =>
      simp only [Bool.false_eq_true, if_false] at h
      exact pass _ h
    | true =>
      simp only [if_true] at h
      split at h
      · cases h
      · rename_i g hg
        rcases htg : transmitGapPoll (upd { c with s := c.s } fun s => { s with gap := g }) now with ⟨r, o⟩
        rw [htg] at h
        cases r with
        | panic s => cases h
        | ok c2 =>
          rcases transmitGapPoll_kind _ now c2 o htg ((upd_tx _ _).trans hs.tx) with ⟨rfl, rfl⟩ | ⟨a, bytes, rfl, hne, hser, rfl⟩
          · simp only at h
            exact pass _ h
          · simp only at h
            obtain ⟨s', hs', rfl⟩ := tr_cases _ _ _ _ h
            simp
  · cases h

theorem passNow_goes (c : Ctx) (now l : Int) (hs : Sil c l) (hsy : l + (c.s.p.bits 33 : Nat) < now) (c' : Ctx)
    (h : passNow c now = .ok c') : c'.tx ≠ none := by
  unfold passNow at h
  cases htr : tr c (fun s => toPassToken s true .first) "transition_pass_token" with
  | panic s => rw [htr] at h; cases h
  | ok c2 =>
    rw [htr] at h
    simp only [Res.bind] at h
    obtain ⟨s', hs', rfl⟩ := tr_cases _ _ _ _ htr
    have := toPassToken_eq hs'
    subst this
    exact doPassToken_goes { c with s := { c.s with st := .passToken true .first } } now l
      ⟨hs.on, hs.tx, hs.rx, hs.last⟩ hsy c' h

theorem useTokenGo_goes (c : Ctx) (now l : Int) (d : UseData) (hp : Bool) (hs : Sil c l)
    (hsy : l + (c.s.p.bits 33 : Nat) < now) (c' : Ctx) (h : useTokenGo c now d hp = .ok c') : c'.tx ≠ none := by
  unfold useTokenGo at h
  simp only at h
  rcases hat : appsTransmit now hp (upd c fun s => { s with st := .useToken d true }).apps.length
    (upd c fun s => { s with st := .useToken d true }) with ⟨r, b⟩
  rw [hat] at h
  cases r with
  | panic s => simp only at h; cases h
  | ok c1 =>
    obtain ⟨hp1, ho1, ht1, hf1⟩ := appsTransmit_sil now l hp _ _ (sil_setSt hs _) c1 b hat
    cases b with
    | true =>
      simp only at h
      cases h
      exact ht1 rfl
    | false =>
      simp only at h
      obtain ⟨hs1, -⟩ := hf1 rfl
      exact passNow_goes c1 now l hs1 (by rw [hp1]; exact hsy) c' h

/-- `do_use_token` once the synchronisation pause is over: an application telegram, a GAP poll or
the token goes out in this very poll (the token is passed in the same poll since the K3 repair). -/
theorem doUseToken_goes (c : Ctx) (now l : Int) (hs : Sil c l) (hsy : l + (c.s.p.bits 33 : Nat) < now) (c' : Ctx)
    (h : doUseToken c now = .ok c') : c'.tx ≠ none := by
  unfold doUseToken at h
  split at h
  · rename_i d fcd hst
    have hk := holdUpdate_keeps c.s d
    have hce := coreEq_holdUpdate c.s d
    have hs1 : Sil { c with s := holdUpdate c.s d } l :=
      ⟨by show (holdUpdate c.s d).online = true; rw [hce.2.2.1]; exact hs.on, hs.tx, hs.rx,
       by show (holdUpdate c.s d).lastBusActivity = some l; rw [hk.1]; exact hs.last⟩
    have hlast : (holdUpdate c.s d).lastBusActivity = some l := hs1.last
    have hsy1 : l + (({ c with s := holdUpdate c.s d } : Ctx).s.p.bits 33 : Nat) < now := by
      show l + ((holdUpdate c.s d).p.bits 33 : Nat) < now
      rw [hk.2]; exact hsy
    simp only at h
    rw [waitSync_some _ _ _ hlast] at h
    simp only at h
    rw [hk.2] at h
    rw [if_neg (by simp; omega)] at h
    split at h
    · exact useTokenGo_goes _ now l d _ hs1 hsy1 c' h
    · split at h
      · exact useTokenGo_goes _ now l d _ hs1 hsy1 c' h
      · exact passNow_goes _ now l hs1 hsy1 c' h
  · cases h

/-- **The first poll of a token holder later than 33 bit times after its stamp transmits** (silent
bus, PHY idle): it returns regularly, keeps the invariant, and hands to the PHY an application
telegram, a GAP poll or the token with the own source address; the new stamp is the predicted end of
that transmission. -/
theorem holder_poll_goes (s : Station) (apps : Apps) (now l : Int) (d : UseData) (fcd : Bool)
    (hinv : Inv s apps) (hon : s.online = true) (hst : s.st = .useToken d fcd) (hl : s.lastBusActivity = some l)
    (hsy : l + (s.p.bits 33 : Nat) < now) :
    ∃ c' b, s.poll apps now false [] = .ok c' ∧ c'.tx = some b ∧ HolderKind s.p.address c'.calls b ∧
      c'.s.lastBusActivity = some (now + (s.p.bits (11 * b.length) : Nat)) ∧ c'.s.p = s.p ∧
      Inv c'.s c'.apps := by
  obtain ⟨c', hc', hinv', -⟩ := pollInner_good { s := s, apps := apps, rx := [] } now false hinv rfl
  have hlt : l < now := by omega
  have hd : s.poll apps now false [] = dispatch { s := s, apps := apps, rx := [] } now := by
    rw [poll_dispatch s apps now [] hon (by rw [hst]; simp) (by rw [hst]; simp)
      (by intro l' hl'; rw [hl] at hl'; cases hl'; exact hlt)]
    simp only [List.length_nil, checkBus_nil]
  have hc'' : s.poll apps now false [] = .ok c' := hc'
  have hu : doUseToken { s := s, apps := apps, rx := [] } now = .ok c' := by
    rw [hd] at hc''
    unfold dispatch at hc''
    simp only [hst] at hc''
    exact hc''
  have htx := doUseToken_goes { s := s, apps := apps, rx := [] } now l ⟨hon, rfl, rfl, hl⟩ hsy c' hu
  cases hb : c'.tx with
  | none => exact absurd hb htx
  | some b =>
    have hwho := pollInner_who { s := s, apps := apps, rx := [] } now false c' b hc' rfl hb
    have hmark := pollInner_marks { s := s, apps := apps, rx := [] } now false c' b hc' rfl hb
    have hp : c'.s.p = s.p := by
      obtain ⟨c2, hc2, -, -, -, hp2, -⟩ := silent_step { s := s, apps := apps, rx := [] } now l hinv ⟨hon, rfl, rfl, hl⟩
      rw [hc'] at hc2
      cases hc2
      exact hp2
    simp only [Allowed, hst] at hwho
    exact ⟨c', b, hc', hb, hwho, by rw [hmark, hp], hp, hinv'⟩

/-- A batch whose last telegram ended exactly at the end of the buffer leaves nothing behind. -/
theorem receiveAllFuel_true_empty : ∀ (fuel : Nat) (buf : Bytes) (acc : List (Telegram × Bool)) (b : Bytes)
    (calls : List (Telegram × Bool)) (ret : Bool),
    receiveAllFuel fuel buf acc = .done b calls ret → (∀ x ∈ acc, x.2 = false) →
    (∃ x ∈ calls, x.2 = true) → b = [] := by
  intro fuel
  induction fuel with
  | zero => intro buf acc b calls ret h; simp [receiveAllFuel] at h
  | succ f ih =>
    intro buf acc b calls ret h hacc hx
    unfold receiveAllFuel at h
    split at h
    · cases h
    · cases h; rfl
    · cases h
      obtain ⟨x, hx1, hx2⟩ := hx
      rw [hacc x hx1] at hx2; cases hx2
    · split at h
      · cases h
      · split at h
        · cases h; rfl
        · exact ih _ _ _ _ _ h (by
            intro x hx
            simp at hx
            rcases hx with hx | hx
            · exact hacc x hx
            · rw [hx]) hx

theorem receiveAll_true_empty (buf b : Bytes) (calls : List (Telegram × Bool)) (ret : Bool)
    (h : receiveAll buf = .done b calls ret) (hx : ∃ x ∈ calls, x.2 = true) : b = [] :=
  receiveAllFuel_true_empty _ _ _ _ _ _ h (by simp) hx

/-- Silent-bus schedule of a token holder (PHY idle, nothing received): the polls at the times `early`
all return regularly without transmitting anything or calling an application, and the poll at `t` then
returns regularly and hands a telegram to the PHY — an application telegram, a GAP poll or the token
with the own source address `ts` — and stamps its predicted end. -/
def QuietThenTx (ts : Nat) : Station → Apps → List Int → Int → Prop
  | s, apps, [], t => ∃ c b, s.poll apps t false [] = .ok c ∧ c.tx = some b ∧ HolderKind ts c.calls b ∧
      c.s.lastBusActivity = some (t + (s.p.bits (11 * b.length) : Nat))
  | s, apps, e :: es, t => ∃ c, s.poll apps e false [] = .ok c ∧ c.tx = none ∧ c.calls = [] ∧ c.rx = [] ∧
      QuietThenTx ts c.s c.apps es t

theorem holder_schedule (ts : Nat) (p : Params) (l t : Int) (d : UseData) (fcd : Bool) (hsy : l + (p.bits 33 : Nat) < t) :
    ∀ (early : List Int) (s : Station) (apps : Apps), Inv s apps → s.online = true → s.st = .useToken d fcd →
      s.lastBusActivity = some l → s.p = p → s.p.address = ts → (∀ e ∈ early, e ≤ l + (p.bits 33 : Nat)) →
      QuietThenTx ts s apps early t := by
  intro early
  induction early with
  | nil =>
    intro s apps hinv hon hst hl hp hts _
    obtain ⟨c', b, h1, h2, h3, h4, -⟩ := holder_poll_goes s apps t l d fcd hinv hon hst hl (by rw [hp]; exact hsy)
    exact ⟨c', b, h1, h2, by rw [← hts]; exact h3, h4⟩
  | cons e es ih =>
    intro s apps hinv hon hst hl hp hts he
    obtain ⟨s', h1, hce, hl', -⟩ := holder_poll_waits s apps e l d fcd hon hst hl (by rw [hp]; exact he e (by simp))
    refine ⟨_, h1, rfl, rfl, rfl, ?_⟩
    exact ih s' apps (hce.inv hinv) (hce.2.2.1.trans hon) (hce.2.2.2.2.1.trans hst) hl' (hce.1.trans hp)
      (by rw [hce.1]; exact hts) (fun x hx => he x (by simp [hx]))

/-- In a schedule `t 0, t 1, …` that eventually passes `B`, there is a first poll later than `B`. -/
theorem first_exceed (t : Nat → Int) (B : Int) : ∀ k, B < t k → ∃ n, n ≤ k ∧ B < t n ∧ ∀ i, i < n → t i ≤ B := by
  intro k
  induction k using Nat.strongRecOn with
  | _ k ih =>
    intro h
    by_cases hall : ∀ i, i < k → t i ≤ B
    · exact ⟨k, Nat.le_refl _, h, hall⟩
    · have : ∃ i, i < k ∧ B < t i := by
        apply Classical.byContradiction
        intro hne
        apply hall
        intro i hi
        apply Classical.byContradiction
        intro hc
        exact hne ⟨i, hi, by omega⟩
      obtain ⟨i, hi, hit⟩ := this
      obtain ⟨n, hn, h1, h2⟩ := ih i hi hit
      exact ⟨n, by omega, h1, h2⟩

/-- Timed form: with poll gaps at most `P` (and the first poll at most `P` after `l`), the first poll
later than `l + 33 bit` is not later than `l + 33 bit + P`. -/
theorem first_exceed_timed (t : Nat → Int) (l : Int) (b P : Nat) (h0 : t 0 ≤ l + P) (hgap : ∀ i, t (i + 1) ≤ t i + P)
    (k : Nat) (hk : l + b < t k) :
    ∃ n, l + b < t n ∧ t n ≤ l + b + P ∧ ∀ i, i < n → t i ≤ l + b := by
  obtain ⟨n, -, h1, h2⟩ := first_exceed t (l + b) k hk
  refine ⟨n, h1, ?_, h2⟩
  cases n with
  | zero => omega
  | succ m => have := hgap m; have := h2 m (Nat.lt_succ_self _); omega

/-! ## Part 2 — the sender of a token supervises its pass -/

/-- `handle_telegram` never touches the bus-activity bookkeeping. -/
theorem handleTelegram_stamp (c : Ctx) (now : Int) (t : Telegram) (isLast : Bool) (c' : Ctx)
    (h : handleTelegram c now t isLast = .ok c') : c'.s.lastBusActivity = c.s.lastBusActivity := by
  unfold handleTelegram at h
  dsimp only at h
  repeat' split at h
  all_goals first
    | (cases h; done)
    | (cases h; rfl)
    | (obtain ⟨s', hs', rfl⟩ := tr_cases _ _ _ _ h
       first
         | (have := toListenToken_eq hs'; subst this; rfl)
         | (have := toUseToken_eq hs'; subst this; rfl))

theorem foldIdle_stamp (now : Int) : ∀ (calls : List (Telegram × Bool)) (c c' : Ctx),
    foldTelegrams (fun c t isLast => handleTelegram (upd c fun s => markRx s now) now t isLast) c calls = .ok c' →
    c.s.lastBusActivity = some now → c'.s.lastBusActivity = some now := by
  intro calls
  induction calls with
  | nil => intro c c' h hl; simp only [foldTelegrams] at h; cases h; exact hl
  | cons x rest ih =>
    intro c c' h hl
    obtain ⟨t, l⟩ := x
    simp only [foldTelegrams] at h
    cases h1 : handleTelegram (upd c fun s => markRx s now) now t l with
    | panic s => rw [h1] at h; cases h
    | ok c1 =>
      rw [h1] at h
      simp only [Res.bind] at h
      refine ih c1 c' h ?_
      rw [handleTelegram_stamp _ now t l c1 h1]
      simp only [upd]
      rw [markRx_at _ now now hl (Int.le_refl _)]

/-- `do_check_token_pass` with the slot time not expired: either no complete telegram has arrived —
then only the receive buffer is (possibly) trimmed — or a telegram was heard: supervision ends, the
stamp is the poll time. -/
theorem doCheckTokenPass_waits (c : Ctx) (now l1 : Int) (att : Attempt) (c' : Ctx)
    (hst : c.s.st = .checkTokenPass att) (hl : c.s.lastBusActivity = some l1) (hle : l1 ≤ now)
    (hq : ¬ now > l1 + (c.s.p.slotTime : Nat)) (h : doCheckTokenPass c now = .ok c') :
    (∃ rx' ret, receiveAll c.rx = .done rx' [] ret ∧ c' = { c with rx := rx' }) ∨
    (c'.s.lastBusActivity = some now ∧ ∃ rx' x rest ret, receiveAll c.rx = .done rx' (x :: rest) ret) := by
  unfold doCheckTokenPass at h
  rw [hst] at h
  simp only at h
  rw [checkSlot_some _ _ _ hl] at h
  simp only [decide_eq_true_eq] at h
  rw [if_neg hq] at h
  rcases hrx : receiveAll c.rx with ⟨rx', calls, ret⟩ | _ | _ <;> rw [hrx] at h <;> simp only at h
  · cases calls with
    | nil => cases h; exact .inl ⟨rx', ret, rfl, rfl⟩
    | cons x rest =>
      obtain ⟨t, l⟩ := x
      right
      refine ⟨?_, rx', (t, l), rest, ret, rfl⟩
      simp only at h
      rw [markRx_at _ _ _ hl hle] at h
      cases h1 : tr { c with rx := rx', s := { c.s with pendingBytes := 0, lastBusActivity := some now } } toActiveIdle
          "transition_active_idle" with
      | panic s => rw [h1] at h; cases h
      | ok c1 =>
        rw [h1] at h
        simp only [Res.bind] at h
        obtain ⟨s', hs', rfl⟩ := tr_cases _ _ _ _ h1
        have := toActiveIdle_inv hs'
        subst this
        cases h2 : handleTelegram
            { c with
              rx := rx',
              s := { c.s with pendingBytes := 0, lastBusActivity := some now, st := .activeIdle none none 0 } }
            now t l with
        | panic s => rw [h2] at h; cases h
        | ok c2 =>
          rw [h2] at h
          simp only at h
          exact foldIdle_stamp now rest c2 c' h (by rw [handleTelegram_stamp _ now t l c2 h2])
  · cases h
  · cases h

/-- **One poll of a supervising sender that does not find the slot time expired** — because the poll
is not later than stamp + slot time, or because a new byte is pending (then whatever the time).
Nothing is transmitted, no application is called.  Either no complete telegram has arrived: the station
is unchanged except that `check_for_bus_activity` has registered the new bytes (stamp := poll time,
pending count := buffer length); or a telegram was heard: supervision ends (the state is no longer
`CheckTokenPass`) and the stamp is the poll time. -/
theorem check_poll_waits (s : Station) (apps : Apps) (now : Int) (rx : Bytes) (c' : Ctx) (att : Attempt) (l : Int)
    (hon : s.online = true) (hst : s.st = .checkTokenPass att) (hl : s.lastBusActivity = some l) (hlt : l < now)
    (hne : s.pendingBytes < rx.length ∨ now ≤ l + (s.p.slotTime : Nat))
    (h : s.poll apps now false rx = .ok c') :
    c'.tx = none ∧ c'.calls = [] ∧ c'.apps = apps ∧ c'.s.p = s.p ∧ c'.s.online = true ∧
    ((c'.s = checkBusActivity s now rx.length ∧ ∃ rx' ret, receiveAll rx = .done rx' [] ret ∧ c'.rx = rx') ∨
     (c'.s.lastBusActivity = some now ∧ (∀ a, c'.s.st ≠ .checkTokenPass a) ∧
        ∃ rx' x rest ret, receiveAll rx = .done rx' (x :: rest) ret)) := by
  have hlate : ∀ l', s.lastBusActivity = some l' → l' < now := by
    intro l' hl'; rw [hl] at hl'; cases hl'; exact hlt
  obtain ⟨hf1, hf2, -, hf4, -⟩ := checkBA_fields s now rx.length
  obtain ⟨l1, hl1, hle1, hcase⟩ := checkBA_stamp s now rx.length hlate (.inr ⟨l, hl⟩)
  rw [poll_dispatch s apps now rx hon (by rw [hst]; simp) (by rw [hst]; simp) hlate] at h
  unfold dispatch at h
  simp only [hf1, hst] at h
  have hq : ¬ now > l1 + ((checkBusActivity s now rx.length).p.slotTime : Nat) := by
    rw [hf2]
    rcases hcase with ⟨_, rfl⟩ | ⟨hn, hl'⟩
    · omega
    · rcases hne with h' | h'
      · exact absurd h' hn
      · rw [hl] at hl'; cases hl'; omega
  have hst1 : ({ s := checkBusActivity s now rx.length, apps := apps, rx := rx } : Ctx).s.st = .checkTokenPass att := by
    simp only [hf1, hst]
  obtain ⟨hqu, hon', hpost⟩ := doCheckTokenPass_eff _ c' now att hst1 h
  have hex : (checkSlotExpired (checkBusActivity s now rx.length) now).2 = false := by
    rw [checkSlot_some _ _ _ hl1]
    simpa using hq
  have htx : c'.tx = none := by
    rcases hpost with ⟨hex', -⟩ | ⟨-, rx', calls, ret, -, hc⟩
    · simp only at hex'; rw [hex] at hex'; cases hex'
    · rcases hc with ⟨-, -, -, ht⟩ | ⟨-, -, ht, -⟩ <;> exact ht
  refine ⟨htx, hqu.calls, hqu.apps, hqu.p.trans hf2, hon'.trans (hf4.trans hon), ?_⟩
  rcases doCheckTokenPass_waits _ now l1 att c' hst1 hl1 hle1 hq h with ⟨rx', ret, hrx, rfl⟩ | ⟨hs, hr⟩
  · exact .inl ⟨rfl, rx', ret, hrx, rfl⟩
  · refine .inr ⟨hs, ?_, hr⟩
    obtain ⟨rx0, x, rest, ret0, hrx0⟩ := hr
    rcases hpost with ⟨hex', -⟩ | ⟨-, rx', calls, ret, hrx, hc⟩
    · simp only at hex'; rw [hex] at hex'; cases hex'
    · simp only at hrx
      rw [hrx0] at hrx
      cases hrx
      rcases hc with ⟨hc0, -⟩ | ⟨-, -, -, hs'⟩
      · cases hc0
      · intro a ha
        rcases hs' with ⟨_, _, _, h'⟩ | ⟨_, _, h'⟩ | ⟨_, _, _, _, _, _, _, h'⟩ <;> rw [h'] at ha <;> cases ha

/-- What the polls of a supervising station must look like for the slot time never to be found
expired: starting from stamp `l` and pending count `n`, every poll `(a, rx)` is either not later than
the stamp (no-op), or sees more bytes than accounted for (then stamp := `a`, count := `|rx|`), or is
not later than stamp + slot time. -/
def Dense (slot : Nat) : Int → Nat → List (Int × Bytes) → Prop
  | _, _, [] => True
  | l, n, (a, rx) :: rest =>
    if a ≤ l then Dense slot l n rest
    else if n < rx.length then Dense slot a rx.length rest
    else a ≤ l + slot ∧ Dense slot l n rest

/-- All polls of the list return regularly, transmit nothing and call no application, for as long as
the station stays in `CheckTokenPass att` (it leaves that state only by hearing a complete telegram). -/
def SupervisesQuietly (att : Attempt) : Station → Apps → List (Int × Bytes) → Prop
  | _, _, [] => True
  | s, apps, (a, rx) :: rest => ∃ c, s.poll apps a false rx = .ok c ∧ c.tx = none ∧ c.calls = [] ∧
      (c.s.st = .checkTokenPass att → SupervisesQuietly att c.s c.apps rest)

theorem sender_run (att : Attempt) (p : Params) : ∀ (polls : List (Int × Bytes)) (s : Station) (apps : Apps) (l : Int),
    Inv s apps → s.online = true → s.st = .checkTokenPass att → s.lastBusActivity = some l → s.p = p →
    Dense p.slotTime l s.pendingBytes polls → SupervisesQuietly att s apps polls := by
  intro polls
  induction polls with
  | nil => intro s apps l _ _ _ _ _ _; trivial
  | cons x rest ih =>
    intro s apps l hinv hon hst hl hp hd
    obtain ⟨a, rx⟩ := x
    simp only [Dense] at hd
    by_cases hle : a ≤ l
    · rw [if_pos hle] at hd
      refine ⟨_, poll_ongoing s apps a false rx hon (by rw [hst]; simp) (by rw [hst]; simp) l hl hle, rfl, rfl, fun _ => ?_⟩
      exact ih s apps l hinv hon hst hl hp hd
    · rw [if_neg hle] at hd
      obtain ⟨c', hc', hinv', -⟩ := pollInner_good { s := s, apps := apps, rx := rx } a false hinv rfl
      have hne : s.pendingBytes < rx.length ∨ a ≤ l + (s.p.slotTime : Nat) := by
        by_cases hn : s.pendingBytes < rx.length
        · exact .inl hn
        · rw [if_neg hn] at hd; rw [hp]; exact .inr hd.1
      obtain ⟨h1, h2, h3, h4, h5, h6⟩ := check_poll_waits s apps a rx c' att l hon hst hl (by omega) hne hc'
      refine ⟨c', hc', h1, h2, fun hst' => ?_⟩
      rcases h6 with ⟨hs, -⟩ | ⟨-, hno, -⟩
      · have hlate : ∀ l', s.lastBusActivity = some l' → l' < a := by
          intro l' hl'; rw [hl] at hl'; cases hl'; omega
        have hlast := checkBA_last s a rx.length hlate
        by_cases hn : s.pendingBytes < rx.length
        · rw [if_pos hn] at hd
          rw [if_pos hn] at hlast
          refine ih c'.s c'.apps a hinv' h5 hst' (by rw [hs]; exact hlast) (h4.trans hp) ?_
          have : c'.s.pendingBytes = rx.length := by
            rw [hs]; unfold checkBusActivity; rw [if_pos hn]
          rw [this]; exact hd
        · rw [if_neg hn] at hd
          rw [if_neg hn] at hlast
          refine ih c'.s c'.apps l hinv' h5 hst' (by rw [hs, hlast]; exact hl) (h4.trans hp) ?_
          have : c'.s.pendingBytes = s.pendingBytes := by
            rw [hs]; unfold checkBusActivity; rw [if_neg hn]
          rw [this]; exact hd.2
      · exact absurd hst' (hno att)

/-! ## Part 3 — arithmetic about poll times and character arrival times (no station model) -/

/-- Arrival model of ONE telegram of `n` characters at an observing station: `arr k` is the time from
which character `k` is in the observer's receive buffer, `vis a` the number of characters in the buffer
at time `a`. -/
structure Arrivals (n : Nat) (arr : Nat → Int) (vis : Int → Nat) : Prop where
  spec : ∀ a k, k < n → (k < vis a ↔ arr k ≤ a)
  le : ∀ a, vis a ≤ n

theorem Arrivals.mono {n : Nat} {arr : Nat → Int} {vis : Int → Nat} (h : Arrivals n arr vis) {a a' : Int}
    (haa : a ≤ a') : vis a ≤ vis a' := by
  apply Classical.byContradiction
  intro hc
  have hlt : vis a' < vis a := by omega
  have hn : vis a' < n := Nat.lt_of_lt_of_le hlt (h.le a)
  have h1 := (h.spec a (vis a') hn).1 hlt
  have h2 := (h.spec a' (vis a') hn).2 (by omega)
  omega

/-- If the first character arrives within a slot time of the stamp and consecutive characters arrive
within a slot time of each other, every time-ordered sequence of polls that see prefixes of the
telegram (only the last poll may see all of it) is `Dense`. -/
theorem dense_of_arrivals (slot n : Nat) (arr : Nat → Int) (vis : Int → Nat) (hA : Arrivals n arr vis)
    (hgap : ∀ k, k + 1 < n → arr (k + 1) ≤ arr k + slot) :
    ∀ (polls : List (Int × Bytes)) (l : Int) (m : Nat),
      polls.Pairwise (fun x y => x.1 ≤ y.1) →
      (∀ x ∈ polls, x.2.length = vis x.1) →
      (∀ x ∈ polls, ∀ y ∈ polls, x.1 < y.1 → vis x.1 < n) →
      (∀ x ∈ polls, l < x.1 → m ≤ vis x.1) →
      (m < n → arr m ≤ l + slot) →
      (m = n → ∀ x ∈ polls, x.1 ≤ l) →
      Dense slot l m polls := by
  intro polls
  induction polls with
  | nil => intro l m _ _ _ _ _ _; trivial
  | cons x rest ih =>
    intro l m hpw hlen hinc hseen hnext hdone
    obtain ⟨a, rx⟩ := x
    have hpw' := (List.pairwise_cons.1 hpw)
    have hlen' : ∀ x ∈ rest, x.2.length = vis x.1 := fun x hx => hlen x (List.mem_cons_of_mem _ hx)
    have hinc' : ∀ x ∈ rest, ∀ y ∈ rest, x.1 < y.1 → vis x.1 < n :=
      fun x hx y hy => hinc x (List.mem_cons_of_mem _ hx) y (List.mem_cons_of_mem _ hy)
    simp only [Dense]
    by_cases hle : a ≤ l
    · rw [if_pos hle]
      exact ih l m hpw'.2 hlen' hinc' (fun x hx => hseen x (List.mem_cons_of_mem _ hx)) hnext
        (fun hm x hx => hdone hm x (List.mem_cons_of_mem _ hx))
    · rw [if_neg hle]
      have hla : l < a := by omega
      have hrl : rx.length = vis a := hlen (a, rx) (List.mem_cons_self ..)
      have hmv : m ≤ vis a := hseen (a, rx) (List.mem_cons_self ..) hla
      have hmn : m < n := by
        have hle' := Nat.le_trans hmv (hA.le a)
        rcases Nat.lt_or_ge m n with h | h
        · exact h
        · have := hdone (by omega) (a, rx) (List.mem_cons_self ..)
          simp only at this
          omega
      rw [hrl]
      by_cases hnew : m < vis a
      · rw [if_pos hnew]
        refine ih a (vis a) hpw'.2 hlen' hinc' ?_ ?_ ?_
        · intro x hx hax
          exact hA.mono (Int.le_of_lt hax)
        · intro hvn
          have hk : vis a - 1 < n := by omega
          have h1 := (hA.spec a (vis a - 1) hk).1 (by omega)
          have h2 := hgap (vis a - 1) (by omega)
          have e : vis a - 1 + 1 = vis a := by omega
          rw [e] at h2
          omega
        · intro hvn x hx
          apply Classical.byContradiction
          intro hc
          have := hinc (a, rx) (List.mem_cons_self ..) x (List.mem_cons_of_mem _ hx) (by simp only; omega)
          simp only at this
          omega
      · rw [if_neg hnew]
        have hna : ¬ arr m ≤ a := fun h => hnew ((hA.spec a m hmn).2 h)
        have := hnext hmn
        refine ⟨by omega, ?_⟩
        exact ih l m hpw'.2 hlen' hinc' (fun x hx => hseen x (List.mem_cons_of_mem _ hx)) hnext
          (fun hm x hx => hdone hm x (List.mem_cons_of_mem _ hx))

/-! ## Part 4 — request / reply (FDL status)

### The responder registers the request -/

/-- `handle_telegram` (idle station) registering an FDL status request addressed to it. -/
theorem handleTelegram_registers (c : Ctx) (now : Int) (np : Option Nat) (coll : Nat) (h : Header) (pdu : Bytes)
    (fcb : FrameCountBit) (hst : c.s.st = .activeIdle none np coll) (hfc : h.fc = .request fcb .fdlStatus)
    (hda : h.da.toNat = c.s.p.address) :
    handleTelegram c now (.data h pdu) true =
      .ok { c with s := { c.s with st := .activeIdle (some h.sa.toNat) np coll } } := by
  unfold handleTelegram
  rw [hst]
  simp only [hfc, hda, and_self, if_true, upd]

theorem doActiveIdle_registers (c : Ctx) (now l : Int) (np : Option Nat) (coll : Nat) (h : Header) (pdu : Bytes)
    (fcb : FrameCountBit) (rx' : Bytes) (ret : Bool)
    (hst : c.s.st = .activeIdle none np coll) (hl : c.s.lastBusActivity = some l) (hle : l ≤ now)
    (hq : ¬ (now - l).natAbs ≥ c.s.p.tokenLostTimeout)
    (hrx : receiveAll c.rx = .done rx' [(.data h pdu, true)] ret)
    (hfc : h.fc = .request fcb .fdlStatus) (hda : h.da.toNat = c.s.p.address) :
    doActiveIdle c now = .ok { c with rx := rx', s := { c.s with
      st := .activeIdle (some h.sa.toNat) np coll, pendingBytes := 0, lastBusActivity := some now } } := by
  have hh := handleTelegram_registers
    { c with rx := rx', s := { c.s with pendingBytes := 0, lastBusActivity := some now } } now np coll h pdu fcb hst hfc hda
  unfold doActiveIdle
  rw [hst]
  simp only
  rw [handleLost_quiet c now l hl hq]
  simp only [hst, hrx, foldTelegrams, upd]
  rw [markRx_at _ _ _ hl hle, hh]
  rfl

/-- `do_listen_token`'s callback registering an FDL status request addressed to the station. -/
theorem listenCore_registers (c : Ctx) (coll : Nat) (h : Header) (pdu : Bytes) (fcb : FrameCountBit)
    (hon : c.s.online = true) (hst : c.s.st = .listenToken none coll) (hfc : h.fc = .request fcb .fdlStatus)
    (hda : h.da.toNat = c.s.p.address) (hsa : h.sa.toNat ≠ c.s.p.address) :
    listenTelegramCore c (.data h pdu) true =
      .ok { c with s := { c.s with st := .listenToken (some h.sa.toNat) coll } } := by
  unfold listenTelegramCore
  rw [if_neg (by simp [hon]), hst]
  simp only [Telegram.sourceAddress, Option.map_some, Option.some.injEq]
  rw [if_neg hsa]
  simp only [hfc, hda, and_self, if_true, upd]

theorem doListenToken_registers (c : Ctx) (now l : Int) (coll : Nat) (h : Header) (pdu : Bytes)
    (fcb : FrameCountBit) (rx' : Bytes) (ret : Bool) (hon : c.s.online = true)
    (hst : c.s.st = .listenToken none coll) (hl : c.s.lastBusActivity = some l) (hle : l ≤ now)
    (hq : ¬ (now - l).natAbs ≥ c.s.p.tokenLostTimeout)
    (hrx : receiveAll c.rx = .done rx' [(.data h pdu, true)] ret)
    (hfc : h.fc = .request fcb .fdlStatus) (hda : h.da.toNat = c.s.p.address) (hsa : h.sa.toNat ≠ c.s.p.address) :
    doListenToken c now = .ok { c with rx := rx', s := { c.s with
      st := .listenToken (some h.sa.toNat) coll, pendingBytes := 0, lastBusActivity := some now } } := by
  have hh := listenCore_registers
    { c with rx := rx', s := { c.s with pendingBytes := 0, lastBusActivity := some now } } coll h pdu fcb hon hst hfc hda hsa
  unfold doListenToken
  rw [hst]
  simp only
  rw [handleLost_quiet c now l hl hq]
  simp only [hst, hrx, foldTelegrams, listenTelegram, upd]
  rw [markRx_at _ _ _ hl hle, hh]
  rfl

/-! ### The responder waits for the synchronisation pause, then replies -/

/-- A status request from `src` is registered (`ListenToken` or `ActiveIdle`). -/
def Registered (s : Station) (src : Nat) : Prop :=
  (∃ coll, s.st = .listenToken (some src) coll) ∨ (∃ np coll, s.st = .activeIdle (some src) np coll)

theorem Registered.awake {s : Station} {src : Nat} (h : Registered s src) : s.st ≠ .offline ∧ s.st ≠ .passiveIdle := by
  rcases h with ⟨a, h⟩ | ⟨a, b, h⟩ <;> rw [h] <;> simp

theorem responder_handler_waits (c : Ctx) (now l : Int) (src : Nat) (hreg : Registered c.s src)
    (hl : c.s.lastBusActivity = some l) (hq : ¬ (now - l).natAbs ≥ c.s.p.tokenLostTimeout)
    (hw : now ≤ l + (c.s.p.bits 33 : Nat)) : dispatch c now = .ok c := by
  unfold dispatch
  rcases hreg with ⟨coll, hst⟩ | ⟨np, coll, hst⟩
  · rw [hst]
    simp only
    unfold doListenToken
    rw [hst]
    simp only
    rw [handleLost_quiet c now l hl hq]
    simp only [hst]
    rw [waitSync_some _ _ _ hl]
    simp only [decide_eq_true_eq]
    rw [if_pos hw]
  · rw [hst]
    simp only
    unfold doActiveIdle
    rw [hst]
    simp only
    rw [handleLost_quiet c now l hl hq]
    simp only [hst]
    rw [waitSync_some _ _ _ hl]
    simp only [decide_eq_true_eq]
    rw [if_pos hw]

/-- State after the reply: an idle station stays idle; a listener joins (`ActiveIdle`) if its LAS is
valid, otherwise keeps listening. -/
def afterReply (s : Station) : FState :=
  match s.st with
  | .listenToken _ coll => if s.ring.readyForRing then .activeIdle none none 0 else .listenToken none coll
  | .activeIdle _ np coll => .activeIdle none np coll
  | st => st

theorem responder_handler_goes (c : Ctx) (now l : Int) (src : Nat) (hreg : Registered c.s src) (htx : c.tx = none)
    (hl : c.s.lastBusActivity = some l) (hq : ¬ (now - l).natAbs ≥ c.s.p.tokenLostTimeout)
    (hsy : l + (c.s.p.bits 33 : Nat) < now) (c' : Ctx) (h : dispatch c now = .ok c') :
    ∃ b, c'.tx = some b ∧ IsStatusReply c.s.p.address src b ∧ c'.s.st = afterReply c.s ∧ c'.calls = c.calls ∧
      c'.rx = c.rx ∧ c'.s.p = c.s.p := by
  unfold dispatch at h
  rcases hreg with ⟨coll, hst⟩ | ⟨np, coll, hst⟩
  · rw [hst] at h
    simp only at h
    unfold doListenToken at h
    rw [hst] at h
    simp only at h
    rw [handleLost_quiet c now l hl hq] at h
    simp only [hst] at h
    rw [waitSync_some _ _ _ hl] at h
    simp only [decide_eq_true_eq] at h
    rw [if_neg (by omega)] at h
    cases he : encodeOrPanic { c with s := c.s } now (fdlStatusResponseHeader (UInt8.ofNat src) (UInt8.ofNat c.s.p.address)
        (if c.s.ring.readyForRing = true ∧ src = c.s.ring.ps then .masterWithoutToken else .masterNotReady) .ok) [] with
    | panic s => rw [he] at h; cases h
    | ok c1 =>
      rw [he] at h
      simp only [Res.bind] at h
      obtain ⟨bytes, hser, -, rfl⟩ := encodeOrPanic_cases _ _ _ _ _ he
      split at h
      · rename_i hready
        obtain ⟨s', hs', rfl⟩ := tr_cases _ _ _ _ h
        have := toActiveIdle_inv hs'
        subst this
        exact ⟨bytes, rfl, ⟨_, hser⟩, by simp [afterReply, hst, markTx, hready], rfl, rfl, rfl⟩
      · rename_i hready
        cases h
        exact ⟨bytes, rfl, ⟨_, hser⟩, by simp [afterReply, hst, upd, hready], rfl, rfl, rfl⟩
  · rw [hst] at h
    simp only at h
    unfold doActiveIdle at h
    rw [hst] at h
    simp only at h
    rw [handleLost_quiet c now l hl hq] at h
    simp only [hst] at h
    rw [waitSync_some _ _ _ hl] at h
    simp only [decide_eq_true_eq] at h
    rw [if_neg (by omega)] at h
    cases he : encodeOrPanic { c with s := c.s } now (fdlStatusResponseHeader (UInt8.ofNat src) (UInt8.ofNat c.s.p.address)
        .masterInRing .ok) [] with
    | panic s => rw [he] at h; cases h
    | ok c1 =>
      rw [he] at h
      simp only [Res.bind] at h
      obtain ⟨bytes, hser, -, rfl⟩ := encodeOrPanic_cases _ _ _ _ _ he
      cases h
      exact ⟨bytes, rfl, ⟨_, hser⟩, by simp [afterReply, hst, upd], rfl, rfl, rfl⟩

/-- Overwriting state, stamp and pending count makes `check_for_bus_activity` invisible. -/
theorem checkBA_overwrite' (s : Station) (now : Int) (n : Nat) (st' : FState) (pb : Nat) (l' : Option Int) :
    ({ (checkBusActivity s now n) with st := st', pendingBytes := pb, lastBusActivity := l' } : Station) =
      { s with st := st', pendingBytes := pb, lastBusActivity := l' } := by
  unfold checkBusActivity; split <;> simp [markBusActivity]

/-- **The registering poll, `ActiveIdle`**: an idle station polled (later than its stamp, PHY idle, token-lost
time-out not run out) with a buffer that decodes to exactly one telegram, an FDL status request addressed
to it: nothing is transmitted, the request is registered, stamp := poll time. -/
theorem idle_poll_registers (s : Station) (apps : Apps) (r1 : Int) (rx rx' : Bytes) (np : Option Nat) (coll : Nat)
    (h : Header) (pdu : Bytes) (fcb : FrameCountBit) (ret : Bool) (hon : s.online = true)
    (hst : s.st = .activeIdle none np coll)
    (hlate : ∀ l, s.lastBusActivity = some l → l < r1) (hto : 0 < s.p.tokenLostTimeout)
    (hfresh : s.pendingBytes < rx.length ∨ ∃ l, s.lastBusActivity = some l ∧ r1 < l + (s.p.tokenLostTimeout : Nat))
    (hrx : receiveAll rx = .done rx' [(.data h pdu, true)] ret)
    (hfc : h.fc = .request fcb .fdlStatus) (hda : h.da.toNat = s.p.address) :
    s.poll apps r1 false rx = .ok {
      s := { s with st := .activeIdle (some h.sa.toNat) np coll, pendingBytes := 0, lastBusActivity := some r1 },
      apps := apps, rx := rx' } := by
  obtain ⟨hf1, hf2, -⟩ := checkBA_fields s r1 rx.length
  obtain ⟨l1, hl1, hle1, hcase⟩ := checkBA_stamp s r1 rx.length hlate
    (hfresh.imp id (fun ⟨l, h, _⟩ => ⟨l, h⟩))
  rw [poll_dispatch s apps r1 rx hon (by rw [hst]; simp) (by rw [hst]; simp) hlate]
  unfold dispatch
  simp only [hf1, hst]
  have hq : ¬ (r1 - l1).natAbs ≥ (checkBusActivity s r1 rx.length).p.tokenLostTimeout := by
    rw [hf2]
    rcases hcase with ⟨_, rfl⟩ | ⟨hn, hl⟩
    · simp; omega
    · rcases hfresh with h | ⟨l, hl', hlt⟩
      · exact absurd h hn
      · rw [hl] at hl'; cases hl'; omega
  rw [doActiveIdle_registers { s := checkBusActivity s r1 rx.length, apps := apps, rx := rx } r1 l1 np coll h pdu fcb rx' ret
    (by simp only [hf1, hst]) hl1 hle1 hq hrx hfc (by simp only [hf2]; exact hda)]
  simp only
  rw [checkBA_overwrite']

/-- **The registering poll, `ListenToken`** (the request must not carry the station's own address as
source — that would count as an address collision). -/
theorem listen_poll_registers (s : Station) (apps : Apps) (r1 : Int) (rx rx' : Bytes) (coll : Nat)
    (h : Header) (pdu : Bytes) (fcb : FrameCountBit) (ret : Bool) (hon : s.online = true)
    (hst : s.st = .listenToken none coll)
    (hlate : ∀ l, s.lastBusActivity = some l → l < r1) (hto : 0 < s.p.tokenLostTimeout)
    (hfresh : s.pendingBytes < rx.length ∨ ∃ l, s.lastBusActivity = some l ∧ r1 < l + (s.p.tokenLostTimeout : Nat))
    (hrx : receiveAll rx = .done rx' [(.data h pdu, true)] ret)
    (hfc : h.fc = .request fcb .fdlStatus) (hda : h.da.toNat = s.p.address) (hsa : h.sa.toNat ≠ s.p.address) :
    s.poll apps r1 false rx = .ok {
      s := { s with st := .listenToken (some h.sa.toNat) coll, pendingBytes := 0, lastBusActivity := some r1 },
      apps := apps, rx := rx' } := by
  obtain ⟨hf1, hf2, -, hf4, -⟩ := checkBA_fields s r1 rx.length
  obtain ⟨l1, hl1, hle1, hcase⟩ := checkBA_stamp s r1 rx.length hlate
    (hfresh.imp id (fun ⟨l, h, _⟩ => ⟨l, h⟩))
  rw [poll_dispatch s apps r1 rx hon (by rw [hst]; simp) (by rw [hst]; simp) hlate]
  unfold dispatch
  simp only [hf1, hst]
  have hq : ¬ (r1 - l1).natAbs ≥ (checkBusActivity s r1 rx.length).p.tokenLostTimeout := by
    rw [hf2]
    rcases hcase with ⟨_, rfl⟩ | ⟨hn, hl⟩
    · simp; omega
    · rcases hfresh with h | ⟨l, hl', hlt⟩
      · exact absurd h hn
      · rw [hl] at hl'; cases hl'; omega
  rw [doListenToken_registers { s := checkBusActivity s r1 rx.length, apps := apps, rx := rx } r1 l1 coll h pdu fcb rx' ret
    (by simp only [hf4]; exact hon) (by simp only [hf1, hst]) hl1 hle1 hq hrx hfc (by simp only [hf2]; exact hda)
    (by simp only [hf2]; exact hsa)]
  simp only
  rw [checkBA_overwrite']

/-- A poll of a station with a registered request before the end of the synchronisation pause is a
complete no-op (provided the token-lost time-out is longer than the pause). -/
theorem responder_poll_waits (s : Station) (apps : Apps) (now l : Int) (src : Nat) (hon : s.online = true)
    (hreg : Registered s src) (hl : s.lastBusActivity = some l)
    (hto : s.p.bits 33 < s.p.tokenLostTimeout) (hw : now ≤ l + (s.p.bits 33 : Nat)) :
    s.poll apps now false [] = .ok { s := s, apps := apps, rx := [] } := by
  by_cases hle : now ≤ l
  · exact poll_ongoing s apps now false [] hon hreg.awake.1 hreg.awake.2 l hl hle
  · rw [poll_dispatch s apps now [] hon hreg.awake.1 hreg.awake.2
      (by intro l' hl'; rw [hl] at hl'; cases hl'; omega)]
    simp only [List.length_nil, checkBus_nil]
    exact responder_handler_waits { s := s, apps := apps, rx := [] } now l src hreg hl (by simp only; omega) hw

/-- **The first poll later than 33 bit times after the registration replies** (silent bus, PHY idle, token-lost
time-out not run out): the FDL status reply to the requester goes out, the request is cleared. -/
theorem responder_poll_goes (s : Station) (apps : Apps) (now l : Int) (src : Nat) (hinv : Inv s apps)
    (hon : s.online = true) (hreg : Registered s src) (hl : s.lastBusActivity = some l)
    (hsy : l + (s.p.bits 33 : Nat) < now) (hq : now < l + (s.p.tokenLostTimeout : Nat)) :
    ∃ c' b, s.poll apps now false [] = .ok c' ∧ c'.tx = some b ∧ IsStatusReply s.p.address src b ∧
      c'.s.st = afterReply s ∧ c'.calls = [] ∧ c'.rx = [] ∧
      c'.s.lastBusActivity = some (now + (s.p.bits (11 * b.length) : Nat)) ∧ Inv c'.s c'.apps := by
  obtain ⟨c', hc', hinv', -⟩ := pollInner_good { s := s, apps := apps, rx := [] } now false hinv rfl
  have hd : s.poll apps now false [] = dispatch { s := s, apps := apps, rx := [] } now := by
    rw [poll_dispatch s apps now [] hon hreg.awake.1 hreg.awake.2
      (by intro l' hl'; rw [hl] at hl'; cases hl'; omega)]
    simp only [List.length_nil, checkBus_nil]
  have hc'' : s.poll apps now false [] = .ok c' := hc'
  rw [hd] at hc''
  obtain ⟨b, h1, h2, h3, h4, h5, h6⟩ := responder_handler_goes { s := s, apps := apps, rx := [] } now l src hreg rfl hl
    (by simp only; omega) hsy c' hc''
  have hmark := pollInner_marks { s := s, apps := apps, rx := [] } now false c' b hc' rfl h1
  exact ⟨c', b, hc', h1, h2, h3, h4, h5, by rw [hmark, h6], hinv'⟩

/-- Silent-bus schedule of a responder: the polls at the times `early` are complete no-ops, the poll at
`t` hands the FDL status reply to `src` to the PHY. -/
def QuietThenReply (ts src : Nat) : Station → Apps → List Int → Int → Prop
  | s, apps, [], t => ∃ c b, s.poll apps t false [] = .ok c ∧ c.tx = some b ∧ IsStatusReply ts src b ∧
      c.s.st = afterReply s ∧ c.calls = [] ∧ c.s.lastBusActivity = some (t + (s.p.bits (11 * b.length) : Nat))
  | s, apps, e :: es, t => s.poll apps e false [] = .ok { s := s, apps := apps, rx := [] } ∧
      QuietThenReply ts src s apps es t

theorem responder_schedule (s : Station) (apps : Apps) (l t : Int) (src : Nat) (hinv : Inv s apps)
    (hon : s.online = true) (hreg : Registered s src) (hl : s.lastBusActivity = some l)
    (hto : s.p.bits 33 < s.p.tokenLostTimeout)
    (hsy : l + (s.p.bits 33 : Nat) < t) (hq : t < l + (s.p.tokenLostTimeout : Nat)) :
    ∀ early : List Int, (∀ e ∈ early, e ≤ l + (s.p.bits 33 : Nat)) → QuietThenReply s.p.address src s apps early t := by
  intro early
  induction early with
  | nil =>
    intro _
    obtain ⟨c', b, h1, h2, h3, h4, h5, -, h7, -⟩ := responder_poll_goes s apps t l src hinv hon hreg hl hsy hq
    exact ⟨c', b, h1, h2, h3, h4, h5, h7⟩
  | cons e es ih =>
    intro he
    exact ⟨responder_poll_waits s apps e l src hon hreg hl hto (he e (by simp)), ih (fun x hx => he x (by simp [hx]))⟩

/-! ### The requester does not give up early -/

/-- `await_gap_poll_response` with the slot time not expired never reports `NoResponse`; while no
complete telegram has arrived it only (possibly) trims the buffer and reports `WaitingForBus`. -/
theorem awaitGap_not_expired (c : Ctx) (now l1 : Int) (addr : Nat) (c1 : Ctx) (g : GapPollResponse)
    (hl : c.s.lastBusActivity = some l1) (hq : ¬ now > l1 + (c.s.p.slotTime : Nat))
    (h : awaitGapPollResponse c now addr = (.ok c1, g)) :
    g ≠ .noResponse ∧
    (∀ rx' ret, receiveTelegram c.rx = .done rx' [] ret → c1 = { c with rx := rx' } ∧ g = .waitingForBus) := by
  unfold awaitGapPollResponse at h
  split at h
  · cases h
  split at h
  · cases h
  split at h
  · cases h
  · cases h
  · rename_i rx0 ret0 hrx0
    simp only at h
    rw [checkSlot_some _ _ _ hl] at h
    simp only [decide_eq_true_eq] at h
    rw [if_neg hq] at h
    injection h with h1 h2
    cases h1
    subst h2
    refine ⟨by simp, fun rx' ret hrx => ?_⟩
    rw [hrx0] at hrx
    cases hrx
    exact ⟨rfl, rfl⟩
  · rename_i rx0 t fl tl ret0 hrx0
    have hno : ∀ rx' ret, receiveTelegram c.rx = .done rx' [] ret →
        c1 = { c with rx := rx' } ∧ g = .waitingForBus := by
      intro rx' ret hrx; rw [hrx0] at hrx; cases hrx
    refine ⟨?_, hno⟩
    simp only at h
    repeat' split at h
    all_goals first
      | (cases h; done)
      | (injection h with h1 h2; subst h2; simp)

/-- A requester state: waiting for the reply to a GAP poll (from `PassToken` or while claiming) or
to an application request. -/
def Awaiting (s : Station) : Prop :=
  (∃ a, s.st = .awaitStatus a) ∨ (∃ a, s.st = .claimToken (.scanAwait a)) ∨ (∃ a d, s.st = .awaitData a d)

theorem Awaiting.awake {s : Station} (h : Awaiting s) : s.st ≠ .offline ∧ s.st ≠ .passiveIdle := by
  rcases h with ⟨a, h⟩ | ⟨a, h⟩ | ⟨a, d, h⟩ <;> rw [h] <;> simp

/-- The application callbacks a non-expiring requester poll can make: none, or the delivery of the
admitted reply — never a `timeout`. -/
def NoTimeout (before after : List AppCall) : Prop :=
  after = before ∨ ∃ i a t, after = before ++ [.reply i a t]

theorem requester_handler_waits (c : Ctx) (now l1 : Int) (c' : Ctx) (haw : Awaiting c.s)
    (hl : c.s.lastBusActivity = some l1) (hq : ¬ now > l1 + (c.s.p.slotTime : Nat))
    (h : dispatch c now = .ok c') :
    c'.tx = c.tx ∧ NoTimeout c.calls c'.calls ∧
    (∀ rx' ret, receiveTelegram c.rx = .done rx' [] ret → c' = { c with rx := rx' }) := by
  unfold dispatch at h
  rcases haw with ⟨a, hst⟩ | ⟨a, hst⟩ | ⟨a, d, hst⟩
  · rw [hst] at h
    simp only at h
    unfold doAwaitStatusResponse at h
    rw [hst] at h
    simp only at h
    rcases hg : awaitGapPollResponse c now a with ⟨r, g⟩
    rw [hg] at h
    cases r with
    | panic s => cases h
    | ok c1 =>
      obtain ⟨hno, hw⟩ := awaitGap_not_expired c now l1 a c1 g hl hq hg
      obtain ⟨htx, -⟩ := awaitGap_spec c now a c1 g hg
      obtain ⟨hqu, -⟩ := awaitGap_eff c c1 now a g hg
      cases g with
      | noResponse => exact absurd rfl hno
      | waitingForBus =>
        simp only at h
        cases h
        exact ⟨htx, .inl hqu.calls, fun rx' ret hrx => (hw rx' ret hrx).1⟩
      | responded =>
        simp only at h
        refine ⟨(tr_noTx _ _ _ c' h).trans htx, .inl ((tr_calls _ _ _ c' h).trans hqu.calls), fun rx' ret hrx => ?_⟩
        have := (hw rx' ret hrx).2; cases this
      | unexpected =>
        simp only at h
        refine ⟨(tr_noTx _ _ _ c' h).trans htx, .inl ((tr_calls _ _ _ c' h).trans hqu.calls), fun rx' ret hrx => ?_⟩
        have := (hw rx' ret hrx).2; cases this
  · rw [hst] at h
    simp only at h
    unfold doClaimToken at h
    rw [hst] at h
    simp only at h
    rcases hg : awaitGapPollResponse c now a with ⟨r, g⟩
    rw [hg] at h
    cases r with
    | panic s => cases h
    | ok c1 =>
      obtain ⟨hno, hw⟩ := awaitGap_not_expired c now l1 a c1 g hl hq hg
      obtain ⟨htx, -⟩ := awaitGap_spec c now a c1 g hg
      obtain ⟨hqu, -⟩ := awaitGap_eff c c1 now a g hg
      cases g with
      | noResponse => exact absurd rfl hno
      | waitingForBus =>
        simp only at h
        cases h
        exact ⟨htx, .inl hqu.calls, fun rx' ret hrx => (hw rx' ret hrx).1⟩
      | responded =>
        simp only at h
        cases h
        refine ⟨(upd_tx _ _).trans htx, .inl hqu.calls, fun rx' ret hrx => ?_⟩
        have := (hw rx' ret hrx).2; cases this
      | unexpected =>
        simp only at h
        refine ⟨(tr_noTx _ _ _ c' h).trans htx, .inl ((tr_calls _ _ _ c' h).trans hqu.calls), fun rx' ret hrx => ?_⟩
        have := (hw rx' ret hrx).2; cases this
  · rw [hst] at h
    simp only at h
    unfold doAwaitDataResponse at h
    rw [hst] at h
    simp only at h
    split at h
    · cases h
    rcases hrx0 : receiveTelegram c.rx with ⟨rx0, calls0, ret0⟩ | _ | _ <;> rw [hrx0] at h <;> try simp only at h
    · cases calls0 with
      | nil =>
        simp only at h
        rw [checkSlot_some _ _ _ hl] at h
        simp only [decide_eq_true_eq] at h
        rw [if_neg hq] at h
        cases h
        exact ⟨rfl, .inl rfl, fun rx' ret hrx => by cases hrx; rfl⟩
      | cons x rest =>
        obtain ⟨t, fl⟩ := x
        have hno : ∀ rx' ret, RxResult.done rx0 ((t, fl) :: rest) ret0 = .done rx' [] ret → c' = { c with rx := rx' } := by
          intro rx' ret hrx; cases hrx
        simp only at h
        rcases ite_inv h with ⟨_, h⟩ | ⟨_, h⟩
        · -- valid reply: delivered, back to `UseToken`
          obtain ⟨c2, h2, h3⟩ := bind_ok_inv h
          cases h3
          have e1 := tr_noTx _ _ _ c2 h2
          have e2 := tr_calls _ _ _ c2 h2
          exact ⟨(upd_tx _ _).trans e1, .inr ⟨_, _, _, e2⟩, hno⟩
        · have e1 := tr_noTx _ _ _ c' h
          have e2 := tr_calls _ _ _ c' h
          exact ⟨e1, .inl e2, hno⟩
    · cases h
    · cases h

/-- **One poll of a waiting requester that does not find the slot time expired** (not later than stamp +
slot time, or a new byte is pending — then whatever the time): nothing is transmitted, no `timeout` is
reported to an application; while no complete telegram has arrived the station is unchanged except for
the registered activity. -/
theorem requester_poll_waits (s : Station) (apps : Apps) (now : Int) (rx : Bytes) (c' : Ctx) (l : Int)
    (hon : s.online = true) (haw : Awaiting s) (hl : s.lastBusActivity = some l) (hlt : l < now)
    (hne : s.pendingBytes < rx.length ∨ now ≤ l + (s.p.slotTime : Nat))
    (h : s.poll apps now false rx = .ok c') :
    c'.tx = none ∧ NoTimeout [] c'.calls ∧
    (∀ rx' ret, receiveTelegram rx = .done rx' [] ret →
      c' = { s := checkBusActivity s now rx.length, apps := apps, rx := rx' }) := by
  have hlate : ∀ l', s.lastBusActivity = some l' → l' < now := by
    intro l' hl'; rw [hl] at hl'; cases hl'; exact hlt
  obtain ⟨hf1, hf2, -⟩ := checkBA_fields s now rx.length
  obtain ⟨l1, hl1, hle1, hcase⟩ := checkBA_stamp s now rx.length hlate (.inr ⟨l, hl⟩)
  rw [poll_dispatch s apps now rx hon haw.awake.1 haw.awake.2 hlate] at h
  have hq : ¬ now > l1 + ((checkBusActivity s now rx.length).p.slotTime : Nat) := by
    rw [hf2]
    rcases hcase with ⟨_, rfl⟩ | ⟨hn, hl'⟩
    · omega
    · rcases hne with h' | h'
      · exact absurd h' hn
      · rw [hl] at hl'; cases hl'; omega
  have haw1 : Awaiting ({ s := checkBusActivity s now rx.length, apps := apps, rx := rx } : Ctx).s := by
    unfold Awaiting
    simp only [hf1]
    exact haw
  exact requester_handler_waits _ now l1 c' haw1 hl1 hq h

/-- All polls of the list return regularly, transmit nothing and report no `timeout`, for as long as the
polls find no complete telegram in the receive buffer. -/
def AwaitsQuietly : Station → Apps → List (Int × Bytes) → Prop
  | _, _, [] => True
  | s, apps, (a, rx) :: rest => ∃ c, s.poll apps a false rx = .ok c ∧ c.tx = none ∧ NoTimeout [] c.calls ∧
      ((∃ rx' ret, receiveTelegram rx = .done rx' [] ret) → c.s.st = s.st ∧ AwaitsQuietly c.s c.apps rest)

theorem requester_run (p : Params) : ∀ (polls : List (Int × Bytes)) (s : Station) (apps : Apps) (l : Int),
    Inv s apps → s.online = true → Awaiting s → s.lastBusActivity = some l → s.p = p →
    Dense p.slotTime l s.pendingBytes polls → AwaitsQuietly s apps polls := by
  intro polls
  induction polls with
  | nil => intro s apps l _ _ _ _ _ _; trivial
  | cons x rest ih =>
    intro s apps l hinv hon haw hl hp hd
    obtain ⟨a, rx⟩ := x
    simp only [Dense] at hd
    by_cases hle : a ≤ l
    · rw [if_pos hle] at hd
      refine ⟨_, poll_ongoing s apps a false rx hon haw.awake.1 haw.awake.2 l hl hle, rfl, .inl rfl, fun _ => ⟨rfl, ?_⟩⟩
      exact ih s apps l hinv hon haw hl hp hd
    · rw [if_neg hle] at hd
      obtain ⟨c', hc', hinv', -⟩ := pollInner_good { s := s, apps := apps, rx := rx } a false hinv rfl
      have hne : s.pendingBytes < rx.length ∨ a ≤ l + (s.p.slotTime : Nat) := by
        by_cases hn : s.pendingBytes < rx.length
        · exact .inl hn
        · rw [if_neg hn] at hd; rw [hp]; exact .inr hd.1
      obtain ⟨h1, h2, h3⟩ := requester_poll_waits s apps a rx c' l hon haw hl (by omega) hne hc'
      refine ⟨c', hc', h1, h2, fun ⟨rx', ret, hrx⟩ => ?_⟩
      have hs := h3 rx' ret hrx
      subst hs
      obtain ⟨hf1, hf2, -, hf4, -⟩ := checkBA_fields s a rx.length
      have hlate : ∀ l', s.lastBusActivity = some l' → l' < a := by
        intro l' hl'; rw [hl] at hl'; cases hl'; omega
      have hlast := checkBA_last s a rx.length hlate
      have haw' : Awaiting (checkBusActivity s a rx.length) := by
        unfold Awaiting; rw [hf1]; exact haw
      refine ⟨hf1, ?_⟩
      by_cases hn : s.pendingBytes < rx.length
      · rw [if_pos hn] at hd
        rw [if_pos hn] at hlast
        refine ih _ apps a hinv' (hf4.trans hon) haw' hlast (hf2.trans hp) ?_
        have : (checkBusActivity s a rx.length).pendingBytes = rx.length := by
          unfold checkBusActivity; rw [if_pos hn]
        rw [this]; exact hd
      · rw [if_neg hn] at hd
        rw [if_neg hn] at hlast
        refine ih _ apps l hinv' (hf4.trans hon) haw' (hlast.trans hl) (hf2.trans hp) ?_
        have : (checkBusActivity s a rx.length).pendingBytes = s.pendingBytes := by
          unfold checkBusActivity; rw [if_neg hn]
        rw [this]; exact hd.2

end PV
