/-
Timed ring, layer 1: what `Model/Net.lean`'s byte-accurate bus delivers when the transmission log has
the shape the timed-ring invariant maintains — every transmission but the last has ended before the
last one started and has been fully delivered to (or was sent by) the polled station, nothing is dropped
or corrupted.  Then only the LAST transmission matters: `deliver` hands over exactly the characters of
the last transmission whose ends lie in `(seen, now]`, in order; nothing collides.  Helper lemmas.
-/
import ProfiVerif.Model.Net

namespace PV

/-! ## Counting the visible characters -/

/-- Number of characters of a transmission started at `q` (`n` characters, character `k` complete at
`q + be k`) that are complete at time `a`. -/
def visCount (be : Nat → Int) (n : Nat) (q a : Int) : Nat :=
  ((List.range n).filter fun k => decide (q + be k ≤ a)).length

theorem filter_range_down (p : Nat → Bool) : ∀ n, (∀ k j, j ≤ k → k < n → p k = true → p j = true) →
    (List.range n).filter p = List.range ((List.range n).filter p).length := by
  intro n
  induction n with
  | zero => intro _; rfl
  | succ n ih =>
    intro hd
    have ih' := ih (fun k j hjk hk hp => hd k j hjk (Nat.lt_succ_of_lt hk) hp)
    rw [List.range_succ, List.filter_append]
    by_cases hp : p n = true
    · have hall : (List.range n).filter p = List.range n := by
        rw [List.filter_eq_self]
        intro k hk
        exact hd n k (Nat.le_of_lt (List.mem_range.1 hk)) (Nat.lt_succ_self _) hp
      simp only [List.filter_cons, hp, if_true, List.filter_nil, List.length_append, hall, List.length_range,
        List.length_cons, List.length_nil]
      rw [List.range_succ]
    · have hpf : p n = false := by
        cases h : p n with
        | false => rfl
        | true => exact absurd h hp
      simp only [List.filter_cons, hpf, Bool.false_eq_true, if_false, List.filter_nil, List.append_nil]
      exact ih'

theorem visCount_le (be : Nat → Int) (n : Nat) (q a : Int) : visCount be n q a ≤ n := by
  unfold visCount
  calc _ ≤ (List.range n).length := List.length_filter_le _ _
    _ = n := List.length_range

/-- With character ends non-decreasing in `k`, the visible characters are a prefix. -/
theorem vis_filter (be : Nat → Int) (hmono : ∀ k j, j ≤ k → be j ≤ be k) (n : Nat) (q a : Int) :
    (List.range n).filter (fun k => decide (q + be k ≤ a)) = List.range (visCount be n q a) := by
  unfold visCount
  apply filter_range_down
  intro k j hjk _ hp
  have := hmono k j hjk
  simp only [decide_eq_true_eq] at hp ⊢
  omega

theorem vis_spec (be : Nat → Int) (hmono : ∀ k j, j ≤ k → be j ≤ be k) (n : Nat) (q a : Int) (k : Nat) (hk : k < n) :
    k < visCount be n q a ↔ q + be k ≤ a := by
  have h := vis_filter be hmono n q a
  have hm : k ∈ (List.range n).filter (fun k => decide (q + be k ≤ a)) ↔ k ∈ List.range (visCount be n q a) := by rw [h]
  simp only [List.mem_filter, List.mem_range, decide_eq_true_eq] at hm
  constructor
  · intro h1; exact (hm.2 h1).2
  · intro h1; exact hm.1 ⟨hk, h1⟩

theorem vis_mono (be : Nat → Int) (hmono : ∀ k j, j ≤ k → be j ≤ be k) (n : Nat) (q a a' : Int) (haa : a ≤ a') :
    visCount be n q a ≤ visCount be n q a' := by
  apply Classical.byContradiction
  intro hc
  have hlt : visCount be n q a' < visCount be n q a := by omega
  have hn : visCount be n q a' < n := Nat.lt_of_lt_of_le hlt (visCount_le be n q a)
  have h1 := (vis_spec be hmono n q a _ hn).1 hlt
  have h2 := (vis_spec be hmono n q a' _ hn).2 (by omega)
  omega

theorem vis_zero (be : Nat → Int) (hmono : ∀ k j, j ≤ k → be j ≤ be k) (n : Nat) (q a : Int) (h : a < q + be 0) :
    visCount be n q a = 0 := by
  apply Classical.byContradiction
  intro hc
  have hpos : 0 < visCount be n q a := Nat.pos_of_ne_zero hc
  have hn : 0 < n := Nat.lt_of_lt_of_le hpos (visCount_le be n q a)
  have := (vis_spec be hmono n q a 0 hn).1 hpos
  omega

theorem vis_full (be : Nat → Int) (hmono : ∀ k j, j ≤ k → be j ≤ be k) (n : Nat) (q a : Int) (hn : 0 < n)
    (h : q + be (n - 1) ≤ a) : visCount be n q a = n := by
  apply Classical.byContradiction
  intro hc
  have hlt : visCount be n q a < n := Nat.lt_of_le_of_ne (visCount_le be n q a) hc
  have := (vis_spec be hmono n q a (n - 1) (by omega)).2 h
  omega

theorem vis_lt_full (be : Nat → Int) (hmono : ∀ k j, j ≤ k → be j ≤ be k) (n : Nat) (q a : Int) (hn : 0 < n)
    (h : visCount be n q a < n) : a < q + be (n - 1) := by
  apply Classical.byContradiction
  intro hc
  have := vis_full be hmono n q a hn (by omega)
  omega

/-- Received earlier ++ delivered now = everything visible now (as index lists). -/
theorem filter_range_concat (P Q : Nat → Bool) : ∀ n, (∀ k j, j ≤ k → k < n → P k = true → P j = true) →
    (∀ k, k < n → P k = true → Q k = true) →
    (List.range n).filter P ++ (List.range n).filter (fun k => !P k && Q k) = (List.range n).filter Q := by
  intro n
  induction n with
  | zero => intro _ _; rfl
  | succ n ih =>
    intro hd hpq
    have ih' := ih (fun k j hjk hk hp => hd k j hjk (Nat.lt_succ_of_lt hk) hp) (fun k hk hp => hpq k (Nat.lt_succ_of_lt hk) hp)
    rw [List.range_succ, List.filter_append, List.filter_append, List.filter_append]
    cases hP : P n with
    | true =>
      have hQ : Q n = true := hpq n (Nat.lt_succ_self _) hP
      have hM : (List.range n).filter (fun k => !P k && Q k) = [] := by
        rw [List.filter_eq_nil_iff]
        intro k hk
        have := hd n k (Nat.le_of_lt (List.mem_range.1 hk)) (Nat.lt_succ_self _) hP
        simp [this]
      rw [hM] at ih'
      simp only [List.append_nil] at ih'
      simp [List.filter_cons, hP, hQ, hM, ih']
    | false =>
      cases hQ : Q n with
      | true =>
        simp only [List.filter_cons, hP, hQ, Bool.not_false, Bool.and_self, if_true, Bool.false_eq_true, if_false,
          List.filter_nil, List.append_nil]
        rw [← List.append_assoc, ih']
      | false =>
        simp only [List.filter_cons, hP, hQ, Bool.not_false, Bool.and_false, Bool.false_eq_true, if_false,
          List.filter_nil, List.append_nil]
        exact ih'

theorem map_range_getD (bytes : Bytes) : ∀ m, m ≤ bytes.length →
    (List.range m).map (fun k => bytes.getD k 0) = bytes.take m := by
  intro m
  induction m with
  | zero => intro _; simp
  | succ m ih =>
    intro hm
    rw [List.range_succ, List.map_append, ih (by omega), List.take_succ]
    have : bytes[m]? = some bytes[m] := List.getElem?_eq_getElem (by omega)
    simp [List.getD, this]

namespace Bus

theorem insertSorted_end (x : Int × Nat × Nat × UInt8) : ∀ L : List (Int × Nat × Nat × UInt8),
    (∀ y ∈ L, keyLe x y = false) → insertSorted x L = L ++ [x] := by
  intro L
  induction L with
  | nil => intro _; rfl
  | cons y ys ih =>
    intro h
    simp only [insertSorted]
    rw [if_neg (by rw [h y (List.mem_cons_self ..)]; simp), ih (fun z hz => h z (List.mem_cons_of_mem _ hz))]
    rfl

/-- The inner loop of `deliver` over the characters of one transmission, when character ends are
non-decreasing: the selected characters in index order. -/
theorem inner_fold (cond : Nat → Bool) (arr : Nat → Int) (ti : Nat) (byte : Nat → UInt8)
    (hmono : ∀ k j, j ≤ k → arr j ≤ arr k) : ∀ m,
    (List.range m).foldl (fun acc k => if cond k = true then insertSorted (arr k, ti, k, byte k) acc else acc) [] =
      ((List.range m).filter cond).map fun k => (arr k, ti, k, byte k) := by
  intro m
  induction m with
  | zero => rfl
  | succ m ih =>
    rw [List.range_succ, List.foldl_append, ih, List.filter_append, List.map_append]
    simp only [List.foldl_cons, List.foldl_nil]
    cases hc : cond m with
    | false => simp [List.filter_cons, hc]
    | true =>
      simp only [if_true, List.filter_cons, hc, List.filter_nil, List.map_cons, List.map_nil]
      apply insertSorted_end
      intro y hy
      simp only [List.mem_map, List.mem_filter, List.mem_range] at hy
      obtain ⟨k, ⟨hk, -⟩, rfl⟩ := hy
      have := hmono m k (Nat.le_of_lt hk)
      simp only [keyLe, Bool.or_eq_false_iff, Bool.and_eq_false_iff, decide_eq_false_iff_not, beq_eq_false_iff_ne,
        Nat.lt_irrefl, decide_false, Bool.false_or, beq_self_eq_true, Bool.true_and]
      refine ⟨by omega, ?_⟩
      by_cases he : arr m = arr k
      · right; simp; omega
      · left; exact he

theorem byteEnd_mono (b : Bus) (hr : 0 < b.rate) (k j : Nat) (hjk : j ≤ k) : b.byteEnd j ≤ b.byteEnd k := by
  unfold byteEnd
  have : (11 * (j + 1) * 1000000 + b.rate - 1) / b.rate ≤ (11 * (k + 1) * 1000000 + b.rate - 1) / b.rate := by
    apply Nat.div_le_div_right
    have : 11 * (j + 1) * 1000000 ≤ 11 * (k + 1) * 1000000 := by
      apply Nat.mul_le_mul_right; apply Nat.mul_le_mul_left; omega
    omega
  exact Int.ofNat_le.2 this

theorem byteEnd_pos (b : Bus) (hr : 0 < b.rate) (k : Nat) : 0 < b.byteEnd k := by
  unfold byteEnd
  have : 1 ≤ (11 * (k + 1) * 1000000 + b.rate - 1) / b.rate := by
    rw [Nat.le_div_iff_mul_le hr]
    have : 1 ≤ 11 * (k + 1) * 1000000 := by
      have : 1 ≤ k + 1 := by omega
      calc 1 ≤ 11 * 1 * 1000000 := by decide
        _ ≤ 11 * (k + 1) * 1000000 := by apply Nat.mul_le_mul_right; apply Nat.mul_le_mul_left; exact this
    omega
  exact Int.natCast_pos.2 (by omega)

/-- Shape of the transmission log seen from station `i`: every transmission but the last, `T`, ended
before `T` started and was sent by `i` or has been delivered to `i` completely; nothing is corrupted. -/
structure LastOnly (b : Bus) (i : Nat) (old : List Transmission) (T : Transmission) : Prop where
  txs : b.txs = old ++ [T]
  corrupt : b.corrupt = []
  rate : 0 < b.rate
  oldEnd : ∀ o ∈ old, b.txEnd o ≤ T.start
  oldSeen : ∀ o ∈ old, o.sender = i ∨ b.txEnd o ≤ b.seen.getD i 0

theorem foldl_skip {α β : Type} (f : β → α → β) (acc : β) : ∀ l : List α, (∀ x ∈ l, ∀ a, f a x = a) → l.foldl f acc = acc := by
  intro l
  induction l generalizing acc with
  | nil => intro _; rfl
  | cons x xs ih =>
    intro h
    rw [List.foldl_cons, h x (List.mem_cons_self ..) acc]
    exact ih acc (fun y hy => h y (List.mem_cons_of_mem _ hy))

theorem foldl_ext_mem {α β : Type} (f g : β → α → β) : ∀ (l : List α) (acc : β),
    (∀ a, ∀ x ∈ l, f a x = g a x) → l.foldl f acc = l.foldl g acc := by
  intro l
  induction l with
  | nil => intro _ _; rfl
  | cons x xs ih =>
    intro acc h
    rw [List.foldl_cons, List.foldl_cons, h acc x (List.mem_cons_self ..)]
    exact ih _ (fun a y hy => h a y (List.mem_cons_of_mem _ hy))

/-- The character `k` of the last transmission does not collide with anything. -/
theorem collides_last (b : Bus) (i : Nat) (old : List Transmission) (T : Transmission) (h : LastOnly b i old T) (k : Nat) :
    b.collides old.length T k = false := by
  unfold collides
  simp only
  rw [List.any_eq_false]
  intro x hx
  obtain ⟨o, j⟩ := x
  rw [h.txs, List.zipIdx_append] at hx
  simp only [List.mem_append, List.zipIdx_cons, List.zipIdx_nil, List.mem_singleton, Prod.mk.injEq, Nat.zero_add] at hx
  rcases hx with hx | ⟨rfl, rfl⟩
  · have ho : o ∈ old := by
      have := List.fst_mem_of_mem_zipIdx hx
      exact this
    have he := h.oldEnd o ho
    have hp := byteEnd_pos b h.rate
    have : ¬ (b.txEnd o > T.start + (if k = 0 then 0 else b.byteEnd (k - 1))) := by
      split
      · omega
      · have := hp (k - 1); omega
    simp [this]
  · simp

/-- **`deliver` when the last transmission was sent by somebody else**: exactly its characters whose
ends lie in `(seen, now]`, in order. -/
theorem deliver_last (b : Bus) (i : Nat) (now : Int) (old : List Transmission) (T : Transmission)
    (h : LastOnly b i old T) (hd : T.dropped = false) (hs : T.sender ≠ i) :
    b.deliver i now = ({ b with seen := b.seen.set i now },
      ((List.range T.bytes.length).filter (fun k => !decide (T.start + b.byteEnd k ≤ b.seen.getD i 0) &&
        decide (T.start + b.byteEnd k ≤ now))).map (fun k => T.bytes.getD k 0)) := by
  have hp := byteEnd_pos b h.rate
  have hm := byteEnd_mono b h.rate
  unfold deliver
  simp only
  congr 1
  rw [h.txs, List.zipIdx_append, List.foldl_append]
  rw [foldl_skip _ _ (old.zipIdx) (by
    intro x hx a
    obtain ⟨o, j⟩ := x
    have ho : o ∈ old := List.fst_mem_of_mem_zipIdx hx
    simp only
    rw [if_pos]
    rcases h.oldSeen o ho with h1 | h1
    · exact .inl h1
    · exact .inr (.inr (.inl h1)))]
  simp only [List.zipIdx_cons, List.zipIdx_nil, List.foldl_cons, List.foldl_nil, Nat.zero_add, List.length_nil]
  by_cases hskip : (T.sender = i ∨ T.dropped = true ∨ b.txEnd T ≤ b.seen.getD i 0 ∨ T.start ≥ now)
  · rw [if_pos hskip]
    symm
    simp only [List.map_nil, List.map_eq_nil_iff, List.filter_eq_nil_iff, List.mem_range]
    intro k hk
    rcases hskip with h1 | h1 | h1 | h1
    · exact absurd h1 hs
    · rw [hd] at h1; cases h1
    · have := hm (T.bytes.length - 1) k (by omega)
      unfold txEnd at h1
      simp [-List.getD_eq_getElem?_getD]; omega
    · have := hp k
      simp [-List.getD_eq_getElem?_getD]; omega
  · rw [if_neg hskip]
    rw [foldl_ext_mem _ (fun acc k => if (!decide (T.start + b.byteEnd k ≤ b.seen.getD i 0) &&
        decide (T.start + b.byteEnd k ≤ now)) = true then
          insertSorted (T.start + b.byteEnd k, old.length, k, T.bytes.getD k 0) acc else acc) _ _ (by
      intro acc k _
      simp only [collides_last b i old T h k, h.corrupt, List.any_nil, Bool.or_false, Bool.false_eq_true, if_false,
        Bool.and_eq_true, Bool.not_eq_true', decide_eq_false_iff_not, decide_eq_true_eq, gt_iff_lt, Int.not_le])]
    rw [inner_fold _ (fun k => T.start + b.byteEnd k) old.length (fun k => T.bytes.getD k 0)
      (fun k j hjk => by have := hm k j hjk; omega)]
    rw [List.map_map]
    rfl

/-- **`deliver` when the last transmission is the station's own**: nothing. -/
theorem deliver_own (b : Bus) (i : Nat) (now : Int) (old : List Transmission) (T : Transmission)
    (h : LastOnly b i old T) (hs : T.sender = i) :
    b.deliver i now = ({ b with seen := b.seen.set i now }, []) := by
  unfold deliver
  simp only
  congr 1
  rw [h.txs, List.zipIdx_append, List.foldl_append]
  rw [foldl_skip _ _ (old.zipIdx) (by
    intro x hx a
    obtain ⟨o, j⟩ := x
    have ho : o ∈ old := List.fst_mem_of_mem_zipIdx hx
    simp only
    rw [if_pos]
    rcases h.oldSeen o ho with h1 | h1
    · exact .inl h1
    · exact .inr (.inr (.inl h1)))]
  simp only [List.zipIdx_cons, List.zipIdx_nil, List.foldl_cons, List.foldl_nil, Nat.zero_add]
  rw [if_pos (.inl hs)]
  rfl

/-- Characters of `T` visible at time `a`. -/
def vis (b : Bus) (T : Transmission) (a : Int) : Nat := visCount b.byteEnd T.bytes.length T.start a

/-- What was received up to `seen` followed by what `deliver` hands over at `now` is what is visible at `now`. -/
theorem take_vis_append (b : Bus) (hr : 0 < b.rate) (T : Transmission) (seen now : Int) (hsn : seen ≤ now) :
    T.bytes.take (b.vis T seen) ++
      ((List.range T.bytes.length).filter (fun k => !decide (T.start + b.byteEnd k ≤ seen) &&
        decide (T.start + b.byteEnd k ≤ now))).map (fun k => T.bytes.getD k 0) =
    T.bytes.take (b.vis T now) := by
  have hm := byteEnd_mono b hr
  unfold vis
  rw [← map_range_getD T.bytes _ (visCount_le _ _ _ _), ← map_range_getD T.bytes _ (visCount_le _ _ _ _),
    ← vis_filter b.byteEnd hm, ← vis_filter b.byteEnd hm, ← List.map_append]
  congr 1
  apply filter_range_concat
  · intro k j hjk _ hp
    have := hm k j hjk
    simp only [decide_eq_true_eq] at hp ⊢
    omega
  · intro k _ hp
    simp only [decide_eq_true_eq] at hp ⊢
    omega

theorem transmitting_last (b : Bus) (i : Nat) (now : Int) (old : List Transmission) (T : Transmission)
    (htx : b.txs = old ++ [T]) (hs : T.sender = i) : b.transmitting i now = decide (now < b.txEnd T) := by
  unfold transmitting
  rw [htx, List.reverse_append]
  simp [List.find?, hs]

theorem transmitting_old (b : Bus) (i : Nat) (now : Int) (old : List Transmission) (T : Transmission)
    (htx : b.txs = old ++ [T]) (hs : T.sender ≠ i) (hold : ∀ o ∈ old, b.txEnd o ≤ T.start) (hnow : T.start ≤ now) :
    b.transmitting i now = false := by
  unfold transmitting
  rw [htx, List.reverse_append]
  simp only [List.reverse_cons, List.reverse_nil, List.nil_append, List.singleton_append, List.find?_cons, hs,
    decide_false]
  cases hf : old.reverse.find? (fun t => decide (t.sender = i)) with
  | none => rfl
  | some t =>
    have hmem : t ∈ old := by
      have := List.mem_of_find?_eq_some hf
      exact List.mem_reverse.1 this
    have := hold t hmem
    simp only [decide_eq_false_iff_not]
    omega

/-- `send` on a fault-free bus appends the transmission (and forgets some old ones). -/
theorem send_spec (b : Bus) (i : Nat) (now : Int) (bytes : Bytes) (hdrops : b.drops = []) :
    b.send i now bytes = { b with
      txs := (b.txs ++ [({ start := now, sender := i, bytes := bytes, dropped := false } : Transmission)]).filter
        fun t => decide (b.txEnd t + 100000 > now) } := by
  unfold send
  simp [hdrops]

theorem txEnd_congr (b b' : Bus) (h : b'.rate = b.rate) (t : Transmission) : b'.txEnd t = b.txEnd t := by
  unfold txEnd byteEnd; rw [h]

/-- After a `send` at `now` the log is again of the form `old' ++ [T']` with `old'` a sublist of the
previous log. -/
theorem send_txs (b : Bus) (i : Nat) (now : Int) (bytes : Bytes) (hdrops : b.drops = []) (hr : 0 < b.rate) :
    ∃ old', (b.send i now bytes).txs = old' ++ [({ start := now, sender := i, bytes := bytes, dropped := false } : Transmission)] ∧
      (∀ o ∈ old', o ∈ b.txs) ∧ (b.send i now bytes).rate = b.rate ∧ (b.send i now bytes).seen = b.seen ∧
      (b.send i now bytes).corrupt = b.corrupt ∧ (b.send i now bytes).drops = [] := by
  rw [send_spec b i now bytes hdrops]
  refine ⟨b.txs.filter fun t => decide (b.txEnd t + 100000 > now), ?_, ?_, rfl, rfl, rfl, hdrops⟩
  · simp only [List.filter_append, List.filter_cons, List.filter_nil]
    have : decide (b.txEnd ({ start := now, sender := i, bytes := bytes, dropped := false } : Transmission) + 100000 > now) = true := by
      have := byteEnd_pos b hr (bytes.length - 1)
      unfold txEnd
      simp only [decide_eq_true_eq]
      omega
    rw [if_pos this]
  · intro o ho
    exact (List.mem_filter.1 ho).1

end Bus

end PV
